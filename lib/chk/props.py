"""Per-property exploration: which Lean modules, which streams, what `holds` means on a trace."""
import collections
import os
from . import core
from .core import log

TRUSTED_COMMON = [
    "Lean 4.33 kernel",
    "correspondence harness (/verif/harness, built by go -overlay from the working tree) and its generators",
    "Go standard library and third-party packages are modelled, not verified",
]

PROPS = {}


def regen(ctx, spec):
    for g in spec.get("gen", []):
        g(ctx)


def replay(ctx, spec, res, path):
    ops = [l.strip() for l in open(path) if l.strip() and not l.startswith("#")]
    spec["explore"](ctx, res, replay_ops=ops)


def _gen_late(which, fname):
    """gen_table is defined further down; resolve it at call time (same key, so setup.sh regenerates once)"""
    def g(ctx):
        return gen_table(which, fname)(ctx)
    g.key = which
    return g


def n_for(ctx, quick, thorough):
    return quick if ctx.tier == "quick" else thorough


# ------------------------------------------------------------------ C14 / C15  (cdrFile)

def _cdrfile_common(ctx, res, replay_ops, want_spec):
    n = n_for(ctx, 400, 6000)
    r = ctx.stream("cdrfile", n, ops=replay_ops)
    spec_q, spec_idx = [], []
    for i, (op, im, mo) in enumerate(zip(r.ops, r.impl, r.model)):
        t = op.split()
        kind = t[1]
        if kind in ("slowdb", "outage"):
            continue
        if kind == "conc":
            # a well-formed file written by 8 goroutines at once, 40 times each: every copy must equal the file written alone
            res.evaluations += 1
            res.dist["written-concurrently"] += 1
            res.traces_validated += 1
            if not im.startswith("ok ") or im != mo:
                res.violation("oracle", "%s: a well-formed file written while other goroutines write theirs differs from the file written alone" %
                              ("C15" if want_spec else "C14"), [op, "# impl:  " + im[:600], "# model: " + mo[:600]])
            continue
        if kind == "big":
            # well-formed files of up to 2100 records x 65535 octets (beyond 2^24 octets): written, read back, compared
            res.evaluations += 1
            res.dist["large-file:%s-records" % t[2]] += 1
            res.traces_validated += 1
            res.nontrivial.add(op)
            if im != mo:
                res.violation("roundtrip", "%s: a well-formed file of %s records of %s octets did not come back from Decoding(Encoding(f)) as it was, "
                              "or has another length than the format prescribes" % ("C15" if want_spec else "C14", t[2], t[3]),
                              [op, "# impl:  " + im[:300], "# model: " + mo[:300]])
            continue
        if kind not in ("rt", "over", "rewrite", "afterfail", "reuse"):
            # outside the property's domain (non-well-formed structures, damaged files):
            # model fidelity is reported, it does not decide the property
            agree = (im == mo) or (kind == "dec" and mo == "panic")
            res.outside_domain[kind + (":agree" if agree else ":differ")] += 1
            continue
        res.evaluations += 1
        res.dist[kind] += 1
        # the structure written last; `over`: the destination held other content before, `rewrite`: another file
        # written by the same code
        if kind == "rt":
            ftoks = t[2:]
        elif kind == "over":
            ftoks = t[5:]
            res.dist["destination:" + ("absent" if t[3] == "-" else "exists")] += 1
        else:
            ftoks = t[t.index("|") + 1:]
        if kind != "rt":
            res.nontrivial.add(op)
        nrec = int(ftoks[31])
        res.dist["records=%d" % min(nrec, 3)] += 1
        res.dist["high7" if ftoks[2] == "7" else "high<7"] += 1
        res.dist["low7" if ftoks[4] == "7" else "low<7"] += 1
        if nrec > 0 or ftoks[2] == "7" or ftoks[4] == "7" or ftoks[26] != "-":
            res.nontrivial.add(op)
        res.sample({"op": op[:300], "impl": im[:200]})
        if im != mo:
            res.disagreements += 1
            res.violation("correspondence", "cdrfile: model and implementation differ on a well-formed file",
                          [op, "# impl:  " + im[:2000], "# model: " + mo[:2000]], found_input=False)
        it = im.split()
        if not want_spec:
            # C14: Decoding(Encoding(f)) == f
            ok = it and it[0] == "ok" and it[2:] == ftoks
            res.traces_validated += 1
            if not ok:
                res.violation("roundtrip", "Decoding(Encoding(f)) differs from f (or panics) for a well-formed f",
                              [op, "# impl: " + im[:2000]])
        else:
            if it and it[0] in ("ok", "panic") and len(it) > 1:
                spec_q.append("cdrfile spec " + it[1])
                spec_idx.append(i)
    if want_spec and spec_q:
        out = core.driver_run(spec_q)
        for i, o in zip(spec_idx, out):
            res.traces_validated += 1
            tt = r.ops[i].split()
            ftoks = tt[2:] if tt[1] == "rt" else tt[5:] if tt[1] == "over" else tt[tt.index("|") + 1:]
            ot = o.split()
            if not (ot and ot[0] == "ok" and ot[1:] == ftoks):
                how = {"rt": "", "reuse": " (the reader value had decoded another file before)", "afterfail": " (the write before this one had failed)", "over": " (the destination file existed before with other content)",
                       "rewrite": " (the destination had been written by Encoding before, with another file)"}[tt[1]]
                res.violation("layout", "independent TS 32.297 reader does not recover the structure from the "
                              "bytes written by Encoding" + how, [r.ops[i], "# impl bytes: " + spec_q[spec_idx.index(i)][:2000],
                                                            "# spec reader: " + o[:2000]])
    res.exhaustive = False
    res.extra["exhaustive_subspace"] = "all 64 (high,low) release-identifier pairs, each with extension octets iff 7"
    res.rule = ("well-formed CDRFile structures generated from the Go types (all 64 identifier pairs first, then "
                "seeded random: field values at 0/max/random within TS 32.297 widths, filter/extension lengths "
                "0,1,255..257,<40 (thorough: 65485..65535), 0-5 records); destinations that already exist: 48 files written over "
                "other content (absent, 0, 1, len-1, len, len+1, len+54, 2len+100, len+4096, random, 70000 octets; permission bits "
                "600/644/660/666) and 24 pairs of files written one after the other to the same path (longer first / shorter first), "
                "the whole file on disk is read back (thorough: 400 + 200); an input is non-trivial when it has "
                "records, an extension octet or a routeing filter; distinct = distinct operation lines")


def explore_c14(ctx, res, replay_ops=None):
    _cdrfile_common(ctx, res, replay_ops, want_spec=False)


def explore_c15(ctx, res, replay_ops=None):
    _cdrfile_common(ctx, res, replay_ops, want_spec=True)


PROPS["C14"] = dict(lean=["ChfVerif.Props.C14"], explore=explore_c14, gen=[_gen_late("cdrfile", "CdrFileFacts.lean"), _gen_late("asnglobals", "AsnGlobals.lean")],
                    trusted=["os.WriteFile/os.ReadFile, encoding/binary (modelled; how the destination is opened is regenerated by go/ast: "
                             "harness/cmd/cdrfilefacts.go)"])
PROPS["C15"] = dict(lean=["ChfVerif.Props.C15"], explore=explore_c15, gen=[_gen_late("cdrfile", "CdrFileFacts.lean"), _gen_late("asnglobals", "AsnGlobals.lean")],
                    trusted=["the file system is modelled (Model/CdrFile.lean writeOver); how Encoding opens its destination is regenerated "
                             "by go/ast (harness/cmd/cdrfilefacts.go)","Spec/TS32297.lean is my transcription of TS 32.297 clause 6.1 as restated in C15",
                             "os.WriteFile, encoding/binary (modelled)"])


# ------------------------------------------------------------------ C07  (account balance server)

def explore_c07(ctx, res, replay_ops=None):
    n = n_for(ctx, 1500, 30000)
    r = ctx.stream("abmf", n, ops=replay_ops)
    cur = {}

    def render():
        items = sorted("%s/%s=%s" % (k[0], k[1], v) for k, v in cur.items())
        return ",".join(items) if items else "-"

    def absorb(dump):
        cur.clear()
        if dump != "-":
            for it_ in dump.split(","):
                k, v = it_.split("=")
                ue_, rg_ = k.split("/")
                cur[(ue_, rg_)] = v
    judge_q, judge_idx = [], []
    panics = 0
    for i, (op, im, mo) in enumerate(zip(r.ops, r.impl, r.model)):
        t = op.split()
        if t[1] == "reset":
            cur.clear()
            continue
        if t[1] == "set":
            cur[(t[2], t[3])] = t[4]
            continue
        if t[1] == "conc":
            # reservations for ONE account on several connections at once: every grant lowers the balance by exactly the grant
            res.evaluations += 1
            res.traces_validated += 1
            res.nontrivial.add(op)
            res.dist["concurrent:%s-connections" % t[5]] += 1
            d = dict(x.split("=", 1) for x in im.split(" ") if "=" in x)
            if im.split(" ")[0] != "conc":
                res.violation("oracle", "C07: the account-balance server %s while %s connections sent reservations for one account" % (
                    im.split(" ")[0], t[5]), [op, "# impl: " + im[:300]])
            elif d.get("granted") != d.get("spent") or int(d.get("spent", "0")) > int(t[4]):
                res.violation("oracle", "C07: %s connections x %s reservations of %s for one account (balance %s): %s units granted in %s answers, "
                              "the stored balance went down by %s" % (t[5], t[6], t[7], t[4], d.get("granted"), d.get("answers"), d.get("spent")),
                              [op, "# impl:  " + im[:300], "# model: " + mo[:300]])
            elif im != mo:
                res.disagreements += 1
                res.violation("correspondence", "abmf: model and implementation differ", [op, "# impl:  " + im, "# model: " + mo], found_input=False)
            absorb(im.split(" ")[-1] if im.split(" ")[0] == "conc" else render())
            continue
        before = render()
        res.evaluations += 1
        while len(t) > 11 and t[-1][:1] in ("e", "v"):
            # a chosen End-to-End Identifier (a client may reuse one) / a Service-Identifier in the MSCC: what the server must do
            # depends on neither
            res.dist["end-to-end-id:chosen" if t[-1][0] == "e" else "service-identifier:given"] += 1
            t = t[:-1]
        rsu, usu = int(t[9]), int(t[10])
        in_domain = rsu < 2 ** 63 and usu < 2 ** 63
        act, ty = int(t[5].rstrip("-")), int(t[3])
        if t[5].endswith("-"):
            res.dist["requested-action-absent"] += 1
        kind = {0: {1: "reserve", 2: "reserve", 3: "termination"}.get(ty, "debit-other"), 1: "refund",
                2: "check-balance", 3: "price-enquiry"}.get(act, "other-action")
        res.dist[kind] += 1
        it = im.split()
        res.dist["reply:" + (it[0] if it else "?")] += 1
        if not in_domain:
            res.outside_domain["amount>=2^63:" + ("agree" if im == mo else "differ")] += 1
        else:
            if im != mo:
                res.disagreements += 1
                res.violation("correspondence", "abmf: model and implementation differ",
                              _history(r.ops, i) + ["# impl:  " + im, "# model: " + mo], found_input=False)
            if it and it[0] == "ans":
                res.nontrivial.add(" ".join(t[3:6] + t[8:]))
            res.sample({"op": op, "impl": im})
            if it and it[0] == "panic":
                panics += 1
                res.violation("crash", "the account-balance server panicked on a request", _history(r.ops, i) + ["# impl: " + im])
            elif it:
                judge_q.append("abmfjudge %s %s %s" % (before, " ".join(x.rstrip("-") if k == 3 else x for k, x in enumerate(t[2:])), im))
                judge_idx.append(i)
        if it and it[0] in ("ans", "noanswer", "panic"):
            absorb(it[-1])
    if judge_q:
        out = core.driver_run(judge_q)
        for i, o, q in zip(judge_idx, out, judge_q):
            res.traces_validated += 1
            if o != "holds":
                res.violation("oracle", "C07 step predicate (Abmf.holds) fails on the implementation's trace: " + o,
                              _history(r.ops, i) + ["# judged: " + q])
    res.rule = ("histories of CCRs against the real server over Diameter/TLS: 1-3 accounts per history (balances: "
                "boundary values, negative, malformed text), 4 actions x 4 request types, amounts at 0/1/bal±1/2^31/"
                "2^32/2^63-1, ~6% unknown subscriber/rating group/id type; non-trivial = answered request, distinct by "
                "(type, number, action, rating group, amounts)")


def _history(ops, i):
    """the operations of the current history (since the last reset) up to and including i"""
    j = i
    while j > 0 and ops[j].split()[1] != "reset":
        j -= 1
    return ops[j:i + 1]


PROPS["C07"] = dict(lean=["ChfVerif.Props.C07"], explore=explore_c07, gen=[_gen_late("abmfserver", "AbmfServer.lean")],
                    trusted=["the go/ast extractor harness/cmd/abmfserverfacts.go (per-account lock around the store read and write of handleCCR)",
                             "go-diameter (transport, AVP codec, panic recovery) and strconv.ParseInt/FormatInt are "
                             "modelled; MongoDB replaced by an in-memory store behind RestfulAPIGetOne/PutOne"])


# ------------------------------------------------------------------ C08  (rating server)

def explore_c08(ctx, res, replay_ops=None):
    n = n_for(ctx, 1500, 30000)
    r = ctx.stream("rf", n, ops=replay_ops)
    stored = {}
    judge_q, judge_idx = [], []
    for i, (op, im, mo) in enumerate(zip(r.ops, r.impl, r.model)):
        t = op.split()
        if t[1] == "reset":
            stored = {}
            continue
        if t[1] == "set":
            stored[(t[2], t[3])] = t[4]
            continue
        res.evaluations += 1
        res.dist["sub=%s" % t[6]] += 1
        it = im.split()
        res.dist["reply:" + (it[0] if it else "?")] += 1
        if im != mo:
            res.disagreements += 1
            res.violation("correspondence", "rf: model and implementation differ",
                          _history(r.ops, i) + ["# impl:  " + im, "# model: " + mo], found_input=False)
        ue = ("696d73692d" + (t[4] if t[4] != "-" else "")) if t[3] == "1" else "-"
        st = stored.get((ue, t[5]), "?")
        res.dist["cost=" + ("unknown" if st == "?" else bytes.fromhex(st if st != "-" else "").decode(errors="replace")[:12])] += 1
        if it and it[0] == "ans":
            res.nontrivial.add((st, t[6], t[7], t[8]))
        res.sample({"op": op, "stored_cost_hex": st, "impl": im})
        if t[4] == "-":
            # no Subscription-Id at all: not "a known subscriber"; the code dereferences nil and the connection is closed
            res.outside_domain["no-subscription-id"] += 1
            continue
        if it and it[0] == "panic":
            res.violation("crash", "the rating server panicked (stopped answering) on a request",
                          _history(r.ops, i) + ["# impl: " + im])
        elif it and it[0] in ("ans", "noanswer"):
            # "prices exactly" for stored integer tariffs beyond 32 bits: the server (and the CHF) work with the tariff modulo 2^32
            try:
                cs = bytes.fromhex(st if st not in ("?", "-") else "").decode()
            except (ValueError, UnicodeDecodeError):
                cs = ""
            if (it[0] == "ans" and re.fullmatch(r"\d+", cs) and 2 ** 32 <= int(cs) < 2 ** 63 and len(it) >= 6
                    and all(re.fullmatch(r"\d+", x) for x in (t[6], t[7], t[8]))):
                c, sub_t, consumed, quota = int(cs), int(t[6]), int(t[7]), int(t[8])
                exact = None
                if sub_t == 1:
                    exact = (quota // c, (quota // c) * c)
                elif sub_t == 2 and consumed * c < 2 ** 32:
                    exact = (None, consumed * c)
                if exact is not None:
                    res.dist["tariff-beyond-32-bits"] += 1
                    got = (int(it[4]), int(it[5]))
                    if (exact[0] is not None and got[0] != exact[0]) or got[1] != exact[1]:
                        what = ("C08: stored unit cost %s (an integer beyond 32 bits), %s of %s: the rating server allows %d units at the price %d; exactly "
                                "priced it is %s units at the price %d" % (cs, "reservation" if sub_t == 1 else "debit", quota if sub_t == 1 else consumed,
                                                                        got[0], got[1], exact[0] if exact[0] is not None else "-", exact[1]))
                        kf = ctx.kf_classes()
                        if "unit-cost-beyond-32-bits" in kf:
                            res.kf["unit-cost-beyond-32-bits"] = kf["unit-cost-beyond-32-bits"]
                        else:
                            res.violation("oracle", what, _history(r.ops, i) + ["# impl: " + im])
            rep = im if it[0] == "noanswer" else " ".join(it[:6])
            judge_q.append("rfjudge %s %s %s" % (st, " ".join(t[2:]), rep))
            judge_idx.append(i)
            # the CHF-side formula as compiled (computed by the harness) must equal the model's chfUnitCost
        else:
            res.violation("oracle", "unexpected reply " + im, _history(r.ops, i))
    if judge_q:
        out = core.driver_run(judge_q)
        for i, o, q in zip(judge_idx, out, judge_q):
            res.traces_validated += 1
            if o != "holds":
                res.violation("oracle", "C08 exchange predicate (Rating.holds) fails on the implementation's trace: " + o,
                              _history(r.ops, i) + ["# judged: " + q])
    # --- the CHF side: the unit cost the CHF decodes from the same stored tariff (its getUnitCost) must be the one the
    #     rating server applies; histories through the real router with stored tariffs of every shape
    if replay_ops is None or any(o.startswith("chf ") for o in (replay_ops or [])):
        r2 = ctx.stream("chf", n_for(ctx, 250, 2500), ops=replay_ops, extra_gen=["-mode", "costs"])

        def costs_of(line):
            out = {}
            for m in re.finditer(r"([0-9a-f]+) money=(\S+)", line):
                if m.group(2) == "-":
                    continue
                for it in m.group(2).split(";"):
                    rg, rest = it.split("=", 1)
                    f = rest.split("/")
                    if len(f) >= 3:
                        out[(m.group(1), rg)] = f[2]
            return out
        tariffs = {}
        for i, (op, im, mo) in enumerate(zip(r2.ops, r2.impl, r2.model)):
            t = op.split()
            if t[1] == "reset":
                tariffs = {}
            if t[1] == "acct":
                tariffs[(t[2], t[3])] = t[5] if len(t) > 5 else ""
            if t[1] not in ("create", "update", "release"):
                continue
            res.evaluations += 1
            ci, cm = costs_of(im), costs_of(strip_annot(mo))
            for k, v in ci.items():
                res.traces_validated += 1
                try:
                    shown = bytes.fromhex(tariffs.get(k, "")).decode(errors="replace")
                except ValueError:
                    shown = "?"
                res.dist["chf-side cost string=%r" % shown[:12]] += 1
                if k in cm and cm[k] != v:
                    res.violation("oracle", "C08: the CHF decodes the stored tariff %r of rating group %s to unit cost %s; the rating server applies %s" % (
                        shown, k[1], v, cm[k]), _chf_history(r2.ops, i) + ["# impl:  " + im[:1500], "# model: " + strip_annot(mo)[:1500]])
                    break
            else:
                if im != strip_annot(mo):
                    res.disagreements += 1
                    res.violation("correspondence", "chf (tariff shapes): model and implementation differ",
                                  _chf_history(r2.ops, i) + ["# impl:  " + im[:3000], "# model: " + strip_annot(mo)[:3000]], found_input=False)
                    break
                continue
            break
    res.rule = ("SURs against the real rating server over Diameter/TLS; stored unit-cost strings: integers incl. 0 "
                "and > 2^32, decimal fractions, signs, spaces, empty and non-numeric text (thorough: random strings of "
                "length <= 3 over 0-9.+-a); sub-types reserve/debit/AoC/release/unknown; amounts at boundaries of "
                "2^16/2^31/2^32, the optional ConsumedUnits / MonetaryQuota AVP present or absent; CHF side (chf stream, mode costs): "
                "stored tariffs of 1..20 digits with a decimal point anywhere (Value-Digits across 2^32/2^53/2^63/int64, Exponent 0..19); "
                "non-trivial = answered, distinct by (cost string, sub-type, consumed, quota)")


PROPS["C08"] = dict(lean=["ChfVerif.Props.C08"], explore=explore_c08,
                    trusted=["go-diameter, strconv.Atoi, math.Pow10 -> uint32 conversion (amd64) are modelled",
                             "MongoDB replaced by an in-memory store"])


# ------------------------------------------------------------------ chf stream (C01, C06, C12, C02, C10)

def strip_annot(line):
    return " ".join(t for t in line.split(" ") if not t.startswith("#"))


def annots(line):
    d = {}
    for t in line.split(" "):
        if t.startswith("#") and "=" in t:
            k, v = t[1:].split("=", 1)
            d[k] = v
    return d


class ChfObs:
    """parsed observation line of the chf stream"""

    def __init__(self, line):
        self.raw = line
        self.ok = False
        t = line.split(" ")
        self.f = {}
        self.ues = {}
        if not t or not t[0].startswith("st="):
            return
        i = 0
        while i < len(t) and "=" in t[i] and not t[i].startswith("nue="):
            k, v = t[i].split("=", 1)
            self.f[k] = v
            i += 1
        if i >= len(t):
            return
        n = int(t[i].split("=")[1])
        i += 1
        for _ in range(n):
            if i + 3 >= len(t):
                break
            supi = t[i]
            money = t[i + 1].split("=", 1)[1]
            cdr = t[i + 2].split("=", 1)[1]
            rec = t[i + 3].split("=", 1)[1]
            self.ues[supi] = dict(money=money, cdr=cdr, rec=rec)
            i += 4
        self.ok = True

    def status(self):
        return int(self.f.get("st", "0"))

    def balances(self):
        out = {}
        b = self.f.get("bal", "-")
        if b != "-":
            for it in b.split(","):
                k, v = it.split("=")
                ue, rg = k.split("/")
                try:
                    out[(ue, int(rg))] = int(bytes.fromhex(v if v != "-" else "").decode())
                except Exception:
                    pass
        return out

    def reserved(self):
        out = {}
        for supi, u in self.ues.items():
            if u["money"] != "-":
                for it in u["money"].split(";"):
                    rg, v = it.split("=")
                    out[(supi, int(rg))] = int(v.split("/")[0])
        return out

    def modes(self):
        out = {}
        for supi, u in self.ues.items():
            if u["money"] != "-":
                for it in u["money"].split(";"):
                    rg, v = it.split("=")
                    out[(supi, int(rg))] = int(v.split("/")[1])
        return out

    def totals(self):
        b, r = self.balances(), self.reserved()
        return {k: v + r.get(k, 0) for k, v in b.items()}


def _race_scan(res, pid, ops, gmp, what="requests of one subscriber in flight together"):
    """what the Go run time said about the last run of the conc stream: race-detector reports, fatal errors"""
    se = core.LAST_STDERR.get("conc", "")
    if "DATA RACE" in se:
        i = se.index("DATA RACE")
        res.violation("oracle", "%s: the Go race detector reported a data race (GOMAXPROCS=%d; %s)" % (pid, gmp, what),
                      ops[:400] + ["# race report:"] + ["# " + l for l in se[max(0, i - 20):i + 3500].split("\n")])
    if "fatal error" in se or "concurrent map" in se:
        i = se.find("fatal error")
        res.violation("oracle", "%s: the process crashed (GOMAXPROCS=%d; %s): %s" % (pid, gmp, what, se[i:i + 200].replace("\n", " ")),
                      ops[:400] + ["# " + l for l in se[max(0, i):i + 2500].split("\n")])


def _hammer_check(res, ops, impl, pid):
    """`conc hammer` lines: loops of requests by several goroutines on one subscriber; `conc first`: first contact over and over"""
    for op, im in zip(ops, impl):
        t = op.split(" ")
        if len(t) == 4 and t[1] == "first":
            res.evaluations += 1
            res.dist["first-contact-rounds"] += 1
            d = dict(x.split("=", 1) for x in im.split(" ") if "=" in x)
            if d.get("deadlock") == "1":
                res.violation("oracle", "%s: first-contact creates of a never-seen subscriber in flight together did not all return within 60 s (deadlock)" % pid,
                              [op, "# impl: " + im[:200]])
            elif not im.startswith("first ") or "unusable" not in d:
                res.violation("oracle", "%s: the process crashed while first-contact creates were in flight (%s)" % (pid, im[:60]), [op, "# impl: " + im[:200]])
            elif not d["unusable"].startswith("0"):
                res.violation("oracle", "%s: an accepted and a refused create of a never-seen subscriber in flight together: %s of the %s sessions whose "
                              "creation was acknowledged (201) could not be updated and released afterwards (update/release answered %s)" % (
                                  pid, d["unusable"].split(":")[0], d.get("acked"), d["unusable"].split(":")[-1]), [op, "# impl: " + im])
            else:
                res.traces_validated += 1
                res.nontrivial.add(op)
            if d.get("unnotified", "0") != "0":
                # a recharge served between the publication of the brand-new subscriber context and its first create taking the
                # subscriber's mutex: answered 204 (known), nobody notified (no address yet) - no serial order gives that
                what = ("%s: %s of %s recharges of a never-seen subscriber in flight with its first creates were answered 204 without any "
                        "notification (recharge;create gives 404, create;recharge gives 204 and a notification)" % (pid, d["unnotified"], d.get("recharged")))
                kfs = {k["class"]: k["what"] for k in core.load_known_findings()[0] if k["property"] == pid}
                if "recharge-in-first-create-window" in kfs:
                    res.kf["recharge-in-first-create-window"] = kfs["recharge-in-first-create-window"]
                else:
                    res.violation("oracle", what, [op, "# impl: " + im])
            continue
        if len(t) < 5 or t[1] != "hammer":
            continue
        res.evaluations += 1
        res.dist["hammer:" + t[2]] += 1
        d = dict(x.split("=", 1) for x in im.split(" ") if "=" in x)
        hx = lambda v: bytes.fromhex(v.split(":", 1)[1]).decode(errors="replace") if ":" in v else ""
        if im in ("crash", "panic") or "done" not in d:
            res.violation("oracle", "%s: the process crashed while the requests of roles %s were in flight (%s)" % (pid, t[2], im[:60]), [op, "# impl: " + im[:200]])
            continue
        if d["done"] != "1":
            res.violation("oracle", "%s: concurrent requests of one subscriber (roles %s) made no progress for 60 s (deadlock)" % (pid, t[2]), [op, "# impl: " + im])
            continue
        ok = True
        if not d.get("dup", "0").startswith("0"):
            ok = False
            res.violation("oracle", "%s: a create returned the reference %s while the session it had been handed out for before was not released "
                          "(%s times; requests in flight: %s)" % (pid, hx(d["dup"]), d["dup"].split(":")[0], t[2]), [op, "# impl: " + im])
        if not d.get("bad", "0").startswith("0"):
            ok = False
            res.violation("oracle", "%s: %s (%s such answers; requests in flight: %s)" % (pid, hx(d["bad"]), d["bad"].split(":")[0], t[2]), [op, "# impl: " + im])
        if d.get("left", "0") != "0":
            ok = False
            res.violation("oracle", "%s: after every session had been released, %s session reference(s) are still in the subscriber's session map" % (pid, d["left"]),
                          [op, "# impl: " + im])
        if ok:
            res.traces_validated += 1
            res.nontrivial.add(op)


def _hammer_phase(ctx, res, pid, mode, replay_ops, race=True):
    """the hammer lines of one family (conc stream, generator mode `mode`), on the race-detector build when there is one"""
    if replay_ops is not None:
        ops = [o for o in replay_ops if o.startswith("conc hammer ") or o.startswith("conc first ")]
        if not ops:
            return
    else:
        ops = core.harness_gen(ctx.harness, "conc", ctx.seed, 0, ctx.tier, ("-mode", mode))
    h = (getattr(ctx, "harness_race", None) if race else None) or ctx.harness
    res.extra["race_detector"] = bool(race and getattr(ctx, "harness_race", None))
    for gmp in (4, 16):
        impl = core.harness_run(h, "conc", ops, env_extra={"GOMAXPROCS": str(gmp), "GORACE": "halt_on_error=0"})
        _race_scan(res, pid, [o for o in ops if " hammer " in o], gmp)
        _hammer_check(res, ops, impl, pid)


def _conc_phase(ctx, res, pid, mode, replay_ops, nq, nt):
    """batches of concurrent requests (conc stream, generator mode `mode`) judged by _conc_check for property pid"""
    if replay_ops is not None:
        ops = [o for o in replay_ops if o.startswith("conc ") and not o.startswith("conc hammer ")]
        if not [o for o in ops if o.startswith("conc go")]:
            return
    else:
        ops = core.harness_gen(ctx.harness, "conc", ctx.seed, n_for(ctx, nq, nt), ctx.tier, ("-mode", mode))
    for gmp in (4, 16):
        impl = core.harness_run(ctx.harness, "conc", ops, env_extra={"GOMAXPROCS": str(gmp)})
        _conc_check(res, ops, impl, gmp, pid)


def chf_run(ctx, res, n, replay_ops=None, gen_extra=(), also=()):
    """also: further generator modes of the chf stream, [(mode, n quick, n thorough)], appended to the same run"""
    if replay_ops is not None:
        replay_ops = [o for o in replay_ops if o.startswith("chf ")]
    elif also:
        replay_ops = core.corpus_ops(ctx.pid, "chf") + core.harness_gen(ctx.harness, "chf", ctx.seed, n, ctx.tier, gen_extra)
        for mode, nq, nt in also:
            replay_ops += core.harness_gen(ctx.harness, "chf", ctx.seed, n_for(ctx, nq, nt), ctx.tier, ("-mode", mode))
    r = ctx.stream("chf", n, ops=replay_ops, extra_gen=gen_extra)
    # correspondence on everything
    for i, (op, im, mo) in enumerate(zip(r.ops, r.impl, r.model)):
        if im != strip_annot(mo):
            res.disagreements += 1
            res.violation("correspondence", "chf: model and implementation differ",
                          _history(r.ops, i) + ["# impl:  " + im[:3000], "# model: " + strip_annot(mo)[:3000]],
                          found_input=False)
            break
    return r


def _chf_history(ops, i):
    j = i
    while j > 0 and ops[j].split()[1] != "reset":
        j -= 1
    return ops[j:i + 1]


def explore_c01(ctx, res, replay_ops=None):
    n = n_for(ctx, 600, 6000)
    # + one-time events between / during / after the sessions of a subscriber, refused creates (mode events)
    r = chf_run(ctx, res, n, replay_ops, also=[("events", 400, 3000)])
    prev = None
    last_reserved = {}
    tariff = {}
    for i, (op, im, mo) in enumerate(zip(r.ops, r.impl, r.model)):
        t = op.split()
        kind = t[1]
        if kind in ("slowdb", "outage"):
            continue
        if kind == "reset":
            prev = None
            last_reserved = {}
            tariff = {}
            continue
        if kind == "acct":
            try:
                tariff[(t[2], int(t[3]))] = int(bytes.fromhex(t[5]).decode())
            except Exception:
                tariff.pop((t[2], int(t[3])), None)
        if kind == "create" and im.startswith("st=201"):
            # "after every completed create/update/release request": online usage a create reports (a one-time event reports all
            # its usage there) is usage reported - the CHF records it and never rates it
            rqc = _parse_req(t[2:])
            owed = 0
            for u in rqc["usages"]:
                c = tariff.get((rqc["supi"], u["rg"]))
                if c:
                    owed += c * sum(x[1] for x in u["conts"] if x[0] == 1)
            if owed > 0:
                res.dist["create-reporting-online-usage"] += 1
                kfc = ctx.kf_classes()
                if "create-usage-not-charged" in kfc:
                    res.kf["create-usage-not-charged"] = kfc["create-usage-not-charged"]
                else:
                    res.violation("oracle", "C01: a create reported online usage worth %d (unit cost x volume) that was recorded and answered 201 but never "
                                  "rated or taken off the account" % owed, _chf_history(r.ops, i) + ["# impl: " + strip_annot(im)[:600]])
        if kind in ("acct", "end"):
            # account (re)definition: totals are re-based
            prev = None if kind == "end" else prev
            if kind == "acct" and prev is not None:
                prev = dict(prev)
                try:
                    # the balance is replaced in the database; what the CHF still holds in reserve stays held
                    prev[(t[2], int(t[3]))] = int(bytes.fromhex(t[4]).decode()) + last_reserved.get((t[2], int(t[3])), 0)
                except Exception:
                    prev.pop((t[2], int(t[3])), None)
            elif kind == "acct":
                prev = {}
                try:
                    prev[(t[2], int(t[3]))] = int(bytes.fromhex(t[4]).decode())
                except Exception:
                    pass
            continue
        a = annots(mo)
        res.evaluations += 1
        res.dist[kind] += 1
        if kind == "credit":
            # the harness applies the credit to its store; totals move by the amount
            if prev is not None and (t[2], int(t[3])) in prev:
                prev = dict(prev)
                prev[(t[2], int(t[3]))] += int(t[4])
            continue
        o = ChfObs(im)
        if not o.ok:
            res.violation("oracle", "unparsable observation (crash?)", _chf_history(r.ops, i) + ["# impl: " + im[:500]])
            prev = None
            continue
        cur = o.totals()
        last_reserved = o.reserved()
        across_outage = False
        if a.get("ok") != "1":
            if a.get("okx") == "1":
                # a server is unreachable, everything else is inside the quantifier: theorem C01_outage_step prescribes
                # the movement  + credited - booked  (Lean term accountedOp, evaluated by the driver)
                across_outage = True
                res.dist["judged-across-outage"] += 1
            else:
                res.outside_domain["not-in-quantifier(opOKb=0)"] += 1
                prev = cur
                continue
        res.traces_validated += 1
        net = {}
        nkey = "acc" if across_outage else "net"
        if a.get(nkey, "-") != "-":
            for it in a[nkey].split(";"):
                k, v = it.rsplit(":", 1)
                ue, rg = k.split("/")
                net[(ue, int(rg))] = int(v)
        moved = any(v != 0 for v in net.values())
        if moved:
            res.nontrivial.add(op)
            res.dist["money-moved"] += 1
        res.sample({"op": op[:400], "net(model: credited - rated)": a.get("net"), "impl_totals_after": {"%s/%d" % k: v for k, v in cur.items()}})
        if prev is not None:
            for k, v in cur.items():
                if k in prev:
                    exp = prev[k] + net.get(k, 0)
                    if v != exp:
                        res.violation("oracle", "C01: balance+reservation of %s/%d is %d, expected %d (= %d %+d)%s" % (
                            k[0], k[1], v, exp, prev[k], net.get(k, 0),
                            " [a server is unreachable: credited - booked usage, C01_outage_step]" if across_outage else ""),
                            _chf_history(r.ops, i) + ["# impl: " + im[:1500]])
                        break
        prev = cur
    res.rule = ("histories over the real gin router + processor + rating/account servers (Diameter/TLS, in-memory store): "
                "1-2 subscribers x 2 rating groups x 1-2 sessions per scenario, unit costs 1,2,3,7,1000, balances 0..100000, "
                "requested 0..250, used around the last grant (incl. over-reporting), FINAL and other triggers, releases, "
                "external credits + recharge notifications; containers of one usage mixing all four quota-management indicators; "
                "outages of the account-balance / rating server for a few requests (dial error; thorough: also a peer that never "
                "answers); plus (mode events) one-time events with and without usage before / between / during / after the "
                "sessions of a subscriber - incl. after a release without FINAL that leaves a reservation behind -, creates refused by OpenCDR; "
                "judged: every operation inside the quantifier (opOKb, evaluated "
                "by the Lean driver) against credited - rated, and every operation made during an outage (opOKx) against "
                "credited - booked (C01_outage_step); non-trivial = operation that moves money; distinct = distinct operation lines")


PROPS["C01"] = dict(lean=["ChfVerif.Props.C01"], explore=explore_c01,
                    trusted=["gin, openapi Deserialize, go-diameter, strconv, the in-memory store are modelled",
                             "the money movement expected per operation is the Lean term creditedOp - ratedOp of theorem C01_step, "
                             "evaluated by the driver on the model state (valid while the correspondence holds)"])


# ------------------------------------------------------------------ C06

def _parse_req(tokens):
    """REQ tokens of a chf op -> dict(supi, trigs, usages=[dict(rg, req, conts=[(qmi,total,...)])])"""
    it = iter(tokens)
    supi = next(it)
    nf = next(it)
    cid, seq, uri, one = next(it), next(it), next(it), next(it)
    nt = int(next(it))
    trigs = [next(it) for _ in range(nt)]
    nu = int(next(it))
    usages = []
    for _ in range(nu):
        rg = int(next(it))
        rq = next(it)
        upf = next(it)
        nc = int(next(it))
        conts = []
        for _ in range(nc):
            conts.append(tuple(int(next(it)) for _ in range(6)))
        usages.append(dict(rg=rg, req=None if rq == "~" else int(rq), conts=conts))
    return dict(supi=supi, nf=nf, seq=seq, trigs=trigs, usages=usages, one=one, uri=uri)


def explore_c06(ctx, res, replay_ops=None):
    n = n_for(ctx, 900, 8000)
    r = chf_run(ctx, res, n, replay_ops)
    if replay_ops is None:
        # histories of a consumer that stays within its grants by construction, on accounts that run short, with outages of
        # the account-balance / rating server (generator mode `comply`)
        r2 = chf_run(ctx, res, n_for(ctx, 700, 6000), None, gen_extra=["-mode", "comply"])
        r = core.StreamRun(r.ops + r2.ops, r.impl + r2.impl, r.model + r2.model)
    kf = ctx.kf_classes()
    hist_ok = True          # every op so far inside the quantifier and ledger-compliant
    sess_ok = True          # every op so far compliant per *session*
    sess_grant = {}         # (sid, rg) -> last grant to that session
    rg_sessions = {}        # (supi, rg) -> set of sessions that used it
    cost = {}
    prev = None
    negative_seen = set()
    # independent ledger of the money still available per (subscriber, rating group): credited - unit cost x usage reported
    # (C01's identity), kept from the first observation on; None = to be re-based on the next observation
    ghost = None
    for i, (op, im, mo) in enumerate(zip(r.ops, r.impl, r.model)):
        t = op.split()
        kind = t[1]
        if kind in ("slowdb", "outage"):
            continue
        if kind == "reset":
            hist_ok, sess_ok, sess_grant, rg_sessions, cost, prev, negative_seen = True, True, {}, {}, {}, None, set()
            ghost = None
            continue
        if kind == "acct":
            prev = None     # the balance (and possibly the tariff) is replaced behind the API: re-base on the next observation
            ghost = None
            try:
                cost[(t[2], int(t[3]))] = int(bytes.fromhex(t[5]).decode())
                if int(bytes.fromhex(t[4]).decode()) < 0:
                    hist_ok = sess_ok = False
            except Exception:
                hist_ok = sess_ok = False
            continue
        if kind == "end":
            continue
        a = annots(mo)
        # inside the quantifier, or a server unreachable while everything reported is still booked in full at the tariff
        # (Lean: opOKx and booked = rated; then C01_outage_step gives the same movement as C01_step)
        booked_in_full = a.get("okx") == "1" and a.get("acc") == a.get("net")
        if a.get("ok") != "1" and not booked_in_full:
            hist_ok = sess_ok = False
        elif a.get("ok") != "1":
            res.dist["across-outage-booked-in-full"] += 1
        if a.get("comp") != "1":
            hist_ok = False
        netd = {}
        if a.get("net", "-") != "-":
            for it in a["net"].split(";"):
                k_, v_ = it.rsplit(":", 1)
                ue_, rg_ = k_.split("/")
                netd[(ue_, int(rg_))] = int(v_)
        if kind == "credit":
            if ghost is not None:
                for k_, v_ in netd.items():
                    if k_ in ghost:
                        ghost[k_] += v_
            continue
        res.evaluations += 1
        o = ChfObs(im)
        if not o.ok:
            res.violation("oracle", "unparsable observation (crash?)", _chf_history(r.ops, i) + ["# impl: " + im[:500]])
            continue
        bal = o.balances()
        # --- grants of this update
        if kind in ("update", "release") and o.status() // 100 == 2:
            sid = t[2]
            rq = _parse_req(t[3:])
            muis = [] if o.f.get("mui", "-") == "-" else [m.split(":") for m in o.f["mui"].split(";")]
            mi = 0
            pm, pb, pr = (prev.modes(), prev.balances(), prev.reserved()) if prev is not None else ({}, {}, {})
            seen_rg = set()
            rg_count = collections.Counter(u["rg"] for u in rq["usages"])
            for u in rq["usages"]:
                online = [c for c in u["conts"] if c[0] == 1]
                if not online:
                    continue
                used = sum(c[1] for c in online)
                key = (rq["supi"], u["rg"])
                rg_sessions.setdefault(key, set()).add(sid)
                if used > sess_grant.get((sid, u["rg"]), 0):
                    sess_ok = False
                if a.get("ok") != "1" and kind == "update":
                    # a server is unreachable: a usage may have been left without unit information; pair by rating group
                    if mi >= len(muis) or int(muis[mi][0]) != u["rg"] or rg_count[u["rg"]] > 1:
                        if mi < len(muis) and int(muis[mi][0]) == u["rg"]:
                            mi += 1
                        seen_rg.add(u["rg"])
                        continue
                if kind == "update" and mi < len(muis):
                    g = int(muis[mi][1]) if muis[mi][1] != "-" else 0
                    f = muis[mi][2] == "1"
                    mi += 1
                    sess_grant[(sid, u["rg"])] = g
                    # second sentence of C06, judged on the implementation's own before-state
                    c = cost.get(key)
                    if (hist_ok and prev is not None and c and c > 0 and key in pb and u["rg"] not in seen_rg
                            and pm.get(key, 1) == 1 and "F" not in rq["trigs"] and u["req"] is not None):
                        avail = pb[key] + pr.get(key, 0) - used * c
                        want = u["req"] * c
                        res.traces_validated += 1
                        if avail < want:
                            exp_g, exp_f = max(avail, 0) // c, True
                            res.dist["grant-limited+fui"] += 1
                            res.nontrivial.add(op)
                        else:
                            exp_g, exp_f = u["req"], False
                            res.dist["grant-full"] += 1
                        if (g, f) != (exp_g, exp_f):
                            res.violation("oracle", "C06: granted %d fui=%s, expected %d fui=%s (money available %d, unit cost %d, "
                                          "requested %d)" % (g, f, exp_g, exp_f, avail, c, u["req"]),
                                          _chf_history(r.ops, i) + ["# impl: " + im[:1200]])
                        # the same sentence judged on the independent ledger: what is still available is what was credited minus
                        # unit cost x usage reported so far, whatever the CHF's own reservation field says
                        if ghost is not None and key in ghost and ghost[key] - used * c != avail:
                            avail_g = ghost[key] - used * c
                            res.dist["independent-ledger-differs"] += 1
                            if avail_g < want:
                                exp2 = (max(avail_g, 0) // c, True)
                            else:
                                exp2 = (u["req"], False)
                            if (g, f) != exp2:
                                res.violation("oracle", "C06: granted %d fui=%s, expected %d fui=%s: credited minus unit cost x reported usage "
                                              "leaves %d available (the CHF's balance+reservation says %d), unit cost %d, requested %d" % (
                                                  g, f, exp2[0], exp2[1], avail_g, avail, c, u["req"]),
                                              _chf_history(r.ops, i) + ["# impl: " + im[:1200]])
                    if g > (u["req"] or 0) and hist_ok:
                        res.violation("oracle", "C06: granted %d > requested %s" % (g, u["req"]), _chf_history(r.ops, i))
                elif kind == "release":
                    sess_grant[(sid, u["rg"])] = 0
                seen_rg.add(u["rg"])
        # --- no overdraft
        for k, v in bal.items():
            if v < 0 and k not in negative_seen:
                negative_seen.add(k)
                if hist_ok:
                    res.violation("oracle", "C06: balance of %s/%d became %d for a compliant consumer" % (k[0], k[1], v),
                                  _chf_history(r.ops, i) + ["# impl: " + im[:1200]])
                elif sess_ok and len(rg_sessions.get(k, ())) > 1 and "reservation-shared-between-sessions" in kf:
                    res.kf["reservation-shared-between-sessions"] = kf["reservation-shared-between-sessions"]
                    res.dist["kf:shared-reservation"] += 1
                elif sess_ok:
                    res.violation("oracle", "C06: balance of %s/%d became %d although every session stayed within its grants"
                                  % (k[0], k[1], v), _chf_history(r.ops, i) + ["# impl: " + im[:1200]])
                else:
                    res.outside_domain["overdraft-by-non-compliant-consumer"] += 1
        res.dist["compliant-history" if hist_ok else "non-compliant-history"] += 1
        if hist_ok:
            res.sample({"op": op[:300], "impl": strip_annot(im)[:200]})
        # the independent ledger follows the rated usage of the operation; it is (re-)based on the implementation's totals at the
        # first observation of a history / after an account was redefined, and dropped when the history leaves the quantifier
        if not hist_ok:
            ghost = None
        elif ghost is None:
            ghost = dict(o.totals()) if (prev is None) else None
        else:
            for k_, v_ in netd.items():
                if k_ in ghost:
                    ghost[k_] += v_
            for k_, v_ in o.totals().items():
                ghost.setdefault(k_, v_)
        prev = o
    res.rule = ("same generator as C01 (balances from 0 to several quotas, unit costs 1..1000, used volumes around the "
                "last grant, 8% offline containers, FINAL triggers, recharges); an operation is judged when the whole history since "
                "the last reset is inside the quantifier (opOKb) and ledger-compliant (opCompliantB, both evaluated by the "
                "Lean driver) - an operation during an outage stays inside when everything it reports is still booked in full; "
                "plus histories of a consumer that stays within its grants by construction on accounts that run short, with outages "
                "(generator mode comply); the grant is judged on the CHF's own balance+reservation and on an independent ledger "
                "(credited - unit cost x reported usage); non-trivial = update whose grant had to be limited (money short); distinct op lines")


PROPS["C06"] = dict(lean=["ChfVerif.Props.C06"], explore=explore_c06,
                    trusted=["as C01; compliance and the quantifier are the Lean predicates of theorem C06 evaluated by the driver",
                             "the grant oracle (second sentence of C06) is computed from the implementation's own trace"])


# ------------------------------------------------------------------ C12 (API contract)

def _state_part(line):
    """everything of an observation that describes state (balances + per-subscriber dumps); a subscriber context
    that holds nothing (no reservation, no session, no record - what a create refused by OpenCDR leaves behind for a
    subscriber the CHF had not seen) is no account, reservation or record change and is left out"""
    i = line.find(" bal=")
    st = line[i:] if i >= 0 else line
    m = re.match(r"^(.*?) nue=\d+ (.*)$", st)
    if not m:
        return st
    ues = re.sub(r"(^| )[0-9a-f]+ money=- cdr=- rec=-(?= |$)", "", m.group(2)).strip()
    return m.group(1) + " ues=" + (ues if ues not in ("", "-") else "-")


def explore_c12(ctx, res, replay_ops=None):
    n = n_for(ctx, 700, 6000)
    # + one-time events and creates refused by OpenCDR (mode events); consumer names / references with characters
    #   that are escaped in a URI, and references whose percent-decoding would be a live reference (mode escapes)
    r = chf_run(ctx, res, n, replay_ops, gen_extra=("-mode", "api"), also=[("events", 300, 2500), ("escapes", 300, 2500)])
    prev_state = None
    known = {}        # supi -> set(live sids) as the implementation acknowledged them
    uri = {}
    refused_only = set()
    for i, (op, im, mo) in enumerate(zip(r.ops, r.impl, r.model)):
        t = op.split()
        kind = t[1]
        if kind in ("slowdb", "outage"):
            continue
        if kind == "reset":
            prev_state, known, uri, refused_only = None, {}, {}, set()
            continue
        if kind in ("acct", "credit", "end"):
            if kind != "end" and prev_state is not None:
                prev_state = None      # store changed behind the API; re-base on the next observation
            continue
        o = ChfObs(strip_annot(im))
        res.evaluations += 1
        if not o.ok:
            res.violation("oracle", "unparsable observation (crash?)", _chf_history(r.ops, i) + ["# impl: " + im[:500]])
            prev_state = None
            continue
        st = o.status()
        res.dist["%s:%d" % (kind, st)] += 1
        hist = lambda: _chf_history(r.ops, i) + ["# impl: " + strip_annot(im)[:1500]]
        state = _state_part(strip_annot(im))
        if st // 100 == 4:
            res.nontrivial.add(op)
            if prev_state is not None and state != prev_state:
                res.violation("oracle", "C12: a request answered %d changed state (accounts, reservations or records)" % st, hist())
        if st // 100 == 5 or st == 0:
            res.violation("oracle", "C12: answered %d" % st, hist())
        if kind == "create":
            rq = _parse_req(t[2:])
            one_time = int(rq["one"]) & 1 == 1
            if st == 201:
                loc = o.f.get("loc")
                sids = set(known.get(rq["supi"], set()))
                # the Location reference must be a key of the subscriber's session map
                cdr = o.ues.get(rq["supi"], {}).get("cdr", "-")
                keys = [] if cdr == "-" else [x.split(">")[0] for x in cdr.split(";")]
                if one_time:
                    # an event opens no session: the reference part of its Location is empty and designates nothing
                    res.dist["one-time-event:201"] += 1
                    if loc != "-":
                        res.violation("oracle", "C12: a one-time event was answered with the session reference %s" % loc, hist())
                elif loc in (None, "?", "-") or loc not in keys:
                    res.violation("oracle", "C12: create answered 201 but the Location reference %s does not designate a session" % loc, hist())
                elif any(b < 0x20 or b == 0x7f for b in bytes.fromhex(loc)):
                    res.violation("oracle", "C12: create answered 201 with a Location reference that contains a control character (%s): no header "
                                  "can hand it to the consumer (HTTP/2 drops the header, HTTP/1.1 clients reject or mangle it)" % loc, hist())
                if o.f.get("seq") != rq["seq"] or o.f.get("ts") != "1":
                    res.violation("oracle", "C12: create response does not echo the sequence number / carries no timestamp", hist())
                known.setdefault(rq["supi"], set())
                if not one_time:
                    known[rq["supi"]].add(loc)
                if rq["uri"] == "1":
                    uri[rq["supi"]] = True      # the consumer registered its address; a later create without one leaves it registered
            elif st // 100 == 2:
                res.violation("oracle", "C12: create answered %d, expected 201" % st, hist())
            elif int(rq["one"]) & 6:
                # refused by the record validation only: whether the CHF "knows" the subscriber afterwards is not
                # for this oracle to say (recharges for it are not judged until a create is accepted)
                if rq["supi"] not in known:
                    refused_only.add(rq["supi"])
        elif kind in ("update", "release"):
            sid = t[2]
            rq = _parse_req(t[3:])
            live = sid in known.get(rq["supi"], set())
            if not live and st // 100 != 4:
                res.violation("oracle", "C12: %s naming an unknown subscriber/session reference answered %d" % (kind, st), hist())
            if live:
                if kind == "update":
                    if st != 200 or o.f.get("seq") != rq["seq"] or o.f.get("ts") != "1":
                        res.violation("oracle", "C12: update answered %d seq=%s ts=%s" % (st, o.f.get("seq"), o.f.get("ts")), hist())
                else:
                    if st != 204 or o.f.get("body") != "0":
                        res.violation("oracle", "C12: release answered %d body=%s" % (st, o.f.get("body")), hist())
                    known[rq["supi"]].discard(sid)
        elif kind == "recharge":
            info = bytes.fromhex(t[2] if t[2] != "-" else "").decode(errors="replace")
            parts = info.split("_")
            ok_form = len(parts) == 2 and re.fullmatch(r"[+-]?\d+", parts[1] or "x") and -2**31 <= int(parts[1]) < 2**31
            sup_hex = parts[0].encode().hex() if parts[0] else "-"
            if ok_form and sup_hex in refused_only and sup_hex not in known:
                res.outside_domain["recharge-after-refused-create-only"] += 1
            elif ok_form and sup_hex in known and not uri.get(sup_hex):
                # no consumer of this subscriber has registered an address: accepted, nobody to notify
                if st != 204 or o.f.get("notif") != "-":
                    res.violation("oracle", "C12: recharge of a known subscriber without a registered address answered %d notif=%s" % (
                        st, o.f.get("notif")), hist())
            elif ok_form and sup_hex in known:
                exp = "%s:%d" % (("/n/" + parts[0]).encode().hex(), int(parts[1]))
                if st != 204 or o.f.get("notif") != exp:
                    res.violation("oracle", "C12: recharge of a known subscriber answered %d notif=%s (expected 204, %s)" % (
                        st, o.f.get("notif"), exp), hist())
                res.nontrivial.add(op)
            else:
                if st // 100 != 4 or o.f.get("notif") != "-":
                    res.violation("oracle", "C12: malformed/unknown recharge answered %d notif=%s" % (st, o.f.get("notif")), hist())
        res.traces_validated += 1
        res.sample({"op": op[:300], "impl": strip_annot(im)[:160]})
        prev_state = state
    # exactly one notification per accepted recharge also when the consumer has it and goes away without answering (http stream)
    nops = [o for o in (replay_ops or []) if o.startswith("http case notifydrop")] if replay_ops is not None else ["http case notifydrop - -"] * 3
    for op, im in zip(nops, core.harness_run(ctx.harness, "http", nops) if nops else []):
        res.evaluations += 1
        res.traces_validated += 1
        res.dist["notification-dropped-by-consumer"] += 1
        d = dict(x.split("=", 1) for x in im.split(" ") if "=" in x)
        if d.get("st") != "204" or d.get("n") != "1":
            res.violation("oracle", "C12: one accepted recharge, a consumer that has the notification and goes away without answering: the recharge "
                          "was answered %s and the consumer got %s notifications (204 and exactly one are due)" % (d.get("st", im[:40]), d.get("n")),
                          [op, "# impl: " + im])
    # a reference can also become stale while the request naming it waits behind the release of its session
    _conc_phase(ctx, res, "C12", "stale", replay_ops, 30, 300)
    # requests naming unknown references in loops next to creates, updates and releases of the same subscriber (race-detector build):
    # each is answered 4xx, and the look-up itself must not disturb the requests it runs next to
    _hammer_phase(ctx, res, "C12", "hammer-lookup", replay_ops)
    res.rule = ("chf histories in 'api' mode: 25% of updates/releases name an unknown, mistyped, foreign or stale (released) "
                "reference or an unknown subscriber; recharges with well-formed, malformed and unknown path parameters; "
                "oracle on the implementation's trace: status/Location/echo/timestamp per request, byte-identical state "
                "dump across every 4xx (empty subscriber contexts apart), exactly one notification per accepted recharge; plus one-time events and creates "
                "refused by OpenCDR (mode events), consumer names with characters that are escaped in a URI and references whose percent-decoding "
                "would be a live reference (mode escapes); non-trivial = rejected request or "
                "accepted recharge; plus batches of 3-5 updates and the release of one session in flight together against a slow account "
                "store (half of the batches repeat the release): some serial order replayed through the Lean model must give every response (an update or "
                "a second release behind the release: 404) and the final state; plus loops of requests naming unknown references next to creates, updates "
                "and releases of the same subscriber on the race-detector build")


import re  # noqa: E402

PROPS["C12"] = dict(lean=["ChfVerif.Props.C12"], explore=explore_c12, race=True,   # gen: see below gen_table
                    trusted=["gin routing/JSON rendering, openapi client (h2c notification) are modelled; the notification sink is part of the harness"])


# ------------------------------------------------------------------ C10 (unique references)

def explore_c10(ctx, res, replay_ops=None):
    n = n_for(ctx, 700, 6000)
    # + one-time events (they return no reference) and creates refused by OpenCDR between accepted ones (mode events);
    #   names with characters that are escaped in a URI (mode escapes)
    r = chf_run(ctx, res, n, replay_ops, gen_extra=("-mode", "names"), also=[("events", 300, 2500), ("escapes", 300, 2500)])
    live = {}       # reference -> (supi, chargingId) of the create that returned it
    lsn_of = {}
    prev_recs = {}  # supi -> records as dumped after the previous operation
    for i, (op, im, mo) in enumerate(zip(r.ops, r.impl, r.model)):
        t = op.split()
        kind = t[1]
        if kind in ("slowdb", "outage"):
            continue
        if kind == "reset":
            live = {}
            prev_recs = {}
            continue
        if kind not in ("create", "update", "release"):
            continue
        o = ChfObs(strip_annot(im))
        if not o.ok:
            res.violation("oracle", "unparsable observation", _chf_history(r.ops, i))
            continue
        res.evaluations += 1
        hist = lambda: _chf_history(r.ops, i) + ["# impl: " + strip_annot(im)[:1500]]
        cur_recs = {supi: ([] if u["rec"] == "-" else u["rec"].split("|")) for supi, u in o.ues.items()}
        if kind in ("update", "release"):
            # "... designates that session and only it": whatever the answer, a request addressed to a reference leaves
            # the records of every OTHER session (of every subscriber) exactly as they were
            for supi, recs in cur_recs.items():
                before = prev_recs.get(supi, [])
                for k, rec in enumerate(recs):
                    if rec.startswith("sid=" + t[2] + ","):
                        continue
                    if k >= len(before) or before[k] != rec:
                        res.violation("oracle", "C10: the %s addressed to reference %s changed a record of another session (%s)" % (
                            kind, t[2], rec.split(",")[0]), hist() + ["# record before: " + (before[k] if k < len(before) else "(none)")[:400],
                                                                      "# record after:  " + rec[:400]])
                        break
        prev_recs = cur_recs
        if kind == "create" and o.status() == 201 and o.f.get("loc") == "-":
            res.dist["one-time-event(no reference)"] += 1
        elif kind == "create" and o.status() == 201:
            rq = _parse_req(t[2:])
            loc = o.f.get("loc")
            res.dist["create"] += 1
            if loc in live:
                res.violation("oracle", "C10: create returned reference %s which still designates a live session of %s" % (
                    loc, live[loc][0]), hist())
            # the record opened by this create: the last record of the subscriber
            recs = o.ues.get(rq["supi"], {}).get("rec", "-").split("|")
            live[loc] = (rq["supi"], recs[-1].split(",u=")[0] if recs else "?")
            res.nontrivial.add(loc)
            res.sample({"create": op[:200], "reference": bytes.fromhex(loc).decode(errors="replace") if loc not in ("-", None) else loc})
        elif kind in ("update", "release") and o.status() // 100 == 2:
            sid = t[2]
            rq = _parse_req(t[3:])
            if sid in live:
                res.traces_validated += 1
                res.dist[kind + "-on-live-ref"] += 1
                # the usage must land in a record carrying this reference (identity fields of that create)
                want_lsns = [str(c[5]) for u in rq["usages"] for c in u["conts"]]
                recs = o.ues.get(rq["supi"], {}).get("rec", "-").split("|")
                holder = [x for x in recs if all(("+" + l + "/" in "+" + x.split(",u=")[1].replace("~", "+").replace(";", "+")) or
                                                 ("~" + l + "/" in x) for l in want_lsns)] if want_lsns else recs
                ok = any(x.startswith("sid=" + sid + ",") for x in holder) if want_lsns else True
                if not ok:
                    res.violation("oracle", "C10: update addressed to %s was not recorded in a record of that session" % sid, hist())
                if kind == "release":
                    live.pop(sid, None)
    # first contact: several creates for a SUPI the CHF has never seen, in flight together; every acknowledged reference
    # must then designate its session (update 200, release 204)
    _conc_phase(ctx, res, "C10", "newsupi", replay_ops, 40, 400)
    # creates that OpenCDR refuses (of another subscriber, of the same one) in loops next to pairs of sessions opened through the
    # same consumer: every reference handed out must differ from those of the sessions not yet released, and designate its session
    _hammer_phase(ctx, res, "C10", "hammer-refs", replay_ops, race=False)
    res.rule = ("chf histories in 'names' mode: SUPIs that are prefixes of one another (imsi-1, imsi-12, imsi-, imsi-1-), "
                "consumer names ending in digits / empty / containing '-' (a1, a, '', 10, -1, smf-0), 2-4 sessions per subscriber, "
                "interleaved updates and releases; oracle: every returned reference differs from all live ones, and usage sent "
                "to a live reference lands in a record carrying that reference; plus 4-8 creates of one never-seen SUPI in flight together, "
                "every acknowledged reference then updated and released; whatever its answer, a request addressed to a reference leaves the records of all "
                "other sessions as they were; one-time events (no reference), creates refused by OpenCDR, percent-escaped names; loops of refused creates "
                "(other / same subscriber) next to pairs of sessions via one consumer: no reference of an unreleased session handed out again; "
                "non-trivial/distinct = returned references")


PROPS["C10"] = dict(lean=["ChfVerif.Props.C10"], explore=explore_c10,   # gen: see below gen_table
                    trusted=["concurrency (atomic counter, LoadOrStore) is outside this sequential model — see C09"])


# ------------------------------------------------------------------ C02 (usage recorded exactly once)

def _rec_usage(rec):
    """[(rg, upf, [container strings])] of one dumped record"""
    u = rec.split(",u=", 1)[1]
    out = []
    if u == "-":
        return out
    for item in u.split(";"):
        rg, upf, cs = item.split("~")
        out.append((rg, upf, [c for c in cs.split("+") if c]))
    return out


def explore_c02(ctx, res, replay_ops=None):
    n = n_for(ctx, 700, 6000)
    # + one-time events with and without usage around the subscriber's sessions (mode events)
    r = chf_run(ctx, res, n, replay_ops, also=[("events", 300, 2500)])
    expect = {}     # (supi, sid) -> [container "lsn/total/up/down/ssu" …] in report order
    ident = {}      # (supi, sid) -> identity prefix of the record at creation
    released = set()
    for i, (op, im, mo) in enumerate(zip(r.ops, r.impl, r.model)):
        t = op.split()
        kind = t[1]
        if kind in ("slowdb", "outage"):
            continue
        if kind == "reset":
            expect, ident, released = {}, {}, set()
            continue
        if kind not in ("create", "update", "release"):
            continue
        o = ChfObs(strip_annot(im))
        if not o.ok:
            res.violation("oracle", "unparsable observation", _chf_history(r.ops, i))
            continue
        res.evaluations += 1
        hist = lambda: _chf_history(r.ops, i) + ["# impl: " + strip_annot(im)[:2500]]
        if o.status() // 100 == 2:
            if kind == "create":
                rq = _parse_req(t[2:])
                sid = o.f.get("loc")
            else:
                rq = _parse_req(t[3:])
                sid = t[2]
            key = (rq["supi"], sid)
            if kind == "create" and sid == "-":
                # a one-time event has no reference: its record is known by its place in the subscriber's records
                nrec = o.ues.get(rq["supi"], {}).get("rec", "-")
                key = (rq["supi"], "-#%d" % (len(nrec.split("|")) - 1))
            conts = ["%d/%d/%d/%d/%d" % (c[5], c[1], c[2], c[3], c[4]) for u in rq["usages"] for c in u["conts"]]
            expect.setdefault(key, []).extend(conts)
            if conts:
                res.nontrivial.add(op)
            if kind == "release":
                released.add(key)
        # judge every session of every subscriber after every operation
        got = {}
        for supi, u in o.ues.items():
            if u["rec"] == "-":
                continue
            for ridx, rec in enumerate(u["rec"].split("|")):
                f = dict(x.split("=", 1) for x in rec.split(",u=")[0].split(","))
                k = (supi, f["sid"] if f["sid"] != "-" else "-#%d" % ridx)
                got.setdefault(k, []).extend(c for (_, _, cs) in _rec_usage(rec) for c in cs)
                idp = "sub=%s,cid=%s,nf=%s" % (f["sub"], f["cid"], f["nf"])
                if k in ident and ident[k] != idp:
                    res.violation("oracle", "C02: identity fields of the record of session %s changed" % f["sid"], hist())
                ident.setdefault(k, idp)
                if f["sub"] != "1." + supi[10:]:
                    res.violation("oracle", "C02: record of %s carries subscriber identity %s" % (supi, f["sub"]), hist())
        # cause for closing: normal (0) for the record of a session that has just been released, partial record (1) for
        # the record a partial closure has just cut (online usage reported with a trigger list not ending in FINAL)
        if o.status() // 100 == 2 and kind in ("update", "release"):
            mine = [rec for rec in (o.ues.get(rq["supi"], {}).get("rec", "-").split("|")) if rec.startswith("sid=" + sid + ",")]
            if mine:
                cause = dict(x.split("=", 1) for x in mine[-1].split(",u=")[0].split(",")).get("cause")
                online = any(c[0] == 1 for u in rq["usages"] for c in u["conts"])
                partial = online and rq["trigs"] and rq["trigs"][-1] != "F"
                if kind == "release":
                    res.dist["release:cause-checked"] += 1
                    if cause != "0":
                        res.violation("oracle", "C02: the record of the released session %s carries cause for record closing %s, not 0 (normal release)" % (sid, cause), hist())
                elif partial:
                    res.dist["partial-closure:cause-checked"] += 1
                    if cause != "1":
                        res.violation("oracle", "C02: the record cut by a partial closure of session %s carries cause for record closing %s, not 1 (partial record)" % (sid, cause), hist())
        res.traces_validated += 1
        for k, want in expect.items():
            if got.get(k, []) != want:
                res.violation("oracle", "C02: usage containers recorded for session %s differ from those reported "
                              "(exactly once, in order): recorded %s, reported %s" % (k[1], got.get(k, [])[:12], want[:12]), hist())
                break
        for k in got:
            if k not in expect and got[k]:
                res.violation("oracle", "C02: containers recorded under a session that never reported them: %s" % (k,), hist())
                break
        res.dist[kind] += 1
        res.sample({"op": op[:240]})
    # timestamp stream
    rts = ctx.stream("conv", n_for(ctx, 400, 5000))
    reads, ridx = [], []
    for i, (op, im, mo) in enumerate(zip(rts.ops, rts.impl, rts.model)):
        t = op.split()
        if t[1] != "ts":
            res.outside_domain["plmn"] += 1
            continue
        res.evaluations += 1
        if im != mo:
            res.disagreements += 1
            res.violation("correspondence", "TimeStampToCdr: model and implementation differ", [op, "# impl: " + im, "# model: " + mo],
                          found_input=False)
        if im.startswith("ok "):
            reads.append("conv read " + im.split()[1])
            ridx.append(i)
        else:
            res.violation("oracle", "TimeStampToCdr failed", [op, "# impl: " + im])
    for i, o in zip(ridx, core.driver_run(reads) if reads else []):
        t = rts.ops[i].split()
        y, mo_, d, h, mi, s, tz = [int(x) for x in t[2:9]]
        want = "ok %d %d %d %d %d %d %d" % (y % 100, mo_, d, h, mi, s, tz // 60 if tz >= 0 else -((-tz) // 60))
        res.traces_validated += 1
        res.dist["tz%s" % ("+" if tz >= 0 else "-") + ("hh" if tz % 3600 == 0 else "hh:mm")] += 1
        if o != want:
            res.violation("oracle", "C02: the BCD timestamp written for %s reads back as %s" % (t[2:], o), [rts.ops[i], "# impl: " + rts.impl[i]])
    # --- the same charging model across record splits (the 65535-octet guard plugged in): the continuation record is the session's
    #     record (identity, numbers and all), whatever the request that crossed the limit carried (recber stream)
    from . import recber as _recber
    if replay_ops is None:
        _recber.recber_phase(ctx, res, "C02", n_quick=40, n_thorough=600)
    elif replay_ops and replay_ops[0].startswith("recber "):
        _recber.recber_phase(ctx, res, "C02", ops=replay_ops)
        return
    # --- long histories that cross the 65535-octet record limit (records are split): every container of every accepted
    #     request must still be in the subscriber's records exactly once
    if replay_ops is None or any(o.startswith("cdrsize ") for o in (replay_ops or [])):
        rs = ctx.stream("cdrsize", n_for(ctx, 20, 300), ops=replay_ops, with_model=False)
        start = 0
        prev_sizes, owner = {}, {}
        for i, (op, im) in enumerate(zip(rs.ops, rs.impl)):
            tt = op.split(" ")
            if tt[1] == "reset":
                start, prev_sizes, owner = i, {}, {}
            if tt[1] == "create" and len(tt) > 3:
                owner[tt[2]] = tt[3]
            sub = owner.get(tt[2] if len(tt) > 2 else "", "?")
            m = re.search(r" cont=(\d+):(\d+):(\d+) ", im)
            if not m:
                continue
            # usage that does not fit the session's record must continue in a new record: merged into the old one it makes
            # a record the file's 16-bit length field cannot describe, and a reader loses every container of the file
            mm = re.search(r"^st=(\d+) pre=(-?\d+) chg=(-?\d+) .* recs=(\S+)", im)
            if mm and tt[1] in ("update", "fit", "fiton", "fitbare"):
                pre, chg = int(mm.group(2)), int(mm.group(3))
                sizes = [len(x) // 2 for x in mm.group(4).split(";")] if mm.group(4) != "-" else []
                before = prev_sizes.get(sub, [])
                grown = [k for k, z in enumerate(sizes) if z > 65535 and k < len(before) and before[k] <= 65535]
                if mm.group(1) == "200" and pre >= 0 and chg >= 0 and pre + chg > 65535 and grown:
                    res.violation("oracle", "C02: usage that did not fit the session's record (%d + %d octets) was merged into it instead of continuing in a "
                                  "new record: the record is now %d octets, beyond what the CDR file's 16-bit length field can describe, so the "
                                  "containers of the file are lost to a reader" % (pre, chg, sizes[grown[0]]),
                                  rs.ops[start:i + 1] + ["# impl: " + im[:160] + "…"])
                    break
            if mm:
                sz = [len(x) // 2 for x in mm.group(4).split(";")] if mm.group(4) != "-" else []
                prev_sizes[sub] = sz
            res.evaluations += 1
            rec, dis, sent = int(m.group(1)), int(m.group(2)), int(m.group(3))
            res.dist["split-histories:containers=%s" % ("<100" if sent < 100 else "<2600" if sent < 2600 else ">=2600")] += 1
            res.traces_validated += 1
            if not (rec == dis == sent):
                res.violation("oracle", "C02: the subscriber's records hold %d containers (%d distinct) for %d reported in accepted requests" % (rec, dis, sent),
                              rs.ops[start:i + 1] + ["# impl: " + im[:160] + "…"])
                break
    # first contact: creates for a never-seen SUPI in flight together - every acknowledged session must live in the one
    # subscriber context that later requests find (its record is in that context's Records)
    _conc_phase(ctx, res, "C02", "newsupi", replay_ops, 40, 400)
    res.rule = ("chf histories (1-2 subscribers, 1-2 concurrent sessions each, interleaved updates, releases; every container "
                "carries a unique local sequence number as tracer): after every operation the containers found in the records "
                "of each session (in Records order) must equal the containers reported for that session so far; plus "
                "TimeStampToCdr on civil times x zone offsets (-14h..+14h in minutes, incl. +05:30/+05:45/-03:30) read back by "
                "the Lean TS 32.298 reader; one-time events around the sessions (mode events); cause for closing 0 on the record of every released session, "
                "1 on the record cut by a partial closure; non-trivial = request carrying containers")


PROPS["C02"] = dict(lean=["ChfVerif.Props.C02"], explore=explore_c02,
                    trusted=["records are observed in memory (ChfUe.Records via the context API); the written file is covered by C03",
                             "time.Now is not driven: TimeStampToCdr is exercised with constructed time.Time values"])


# ------------------------------------------------------------------ regenerated tables (ChfVerif/Gen)

def gen_table(which, fname):
    def g(ctx):
        rc, so, se = core.run([ctx.harness, "dump-tables", which], env=dict(core.GOENV, VERIF_REPO=core.REPO))
        if rc != 0:
            raise RuntimeError("dump-tables %s failed: %s" % (which, se.decode(errors="replace")[-1500:]))
        path = os.path.join(core.LEAN, "ChfVerif", "Gen", fname)
        with core.Lock("lake"):
            changed = core.write_if_changed(path, so.decode())
        if changed:
            log("Gen/%s regenerated (changed)" % fname)
    g.key = which
    return g


# C10 (counter updates) and C12 (session-map look-ups under the mutex) have obligations over the lock-site tables too
PROPS["C10"]["gen"] = [gen_table("locksites", "LockSites.lean")]
PROPS["C12"]["gen"] = [gen_table("locksites", "LockSites.lean")]


# ------------------------------------------------------------------ C13

def explore_c13(ctx, res, replay_ops=None):
    r = ctx.stream("auth", 0, ops=replay_ops)
    lists = set()
    valid_seen = {}      # service list -> the valid-token probes so far (the history a near miss is judged after)
    accepted_valid = 0
    for i, (op, im, mo) in enumerate(zip(r.ops, r.impl, r.model)):
        t = op.split()
        if t[1] == "conc":
            # requests served at the same moment: good and bad tokens side by side on one route, then the bad ones alone
            res.evaluations += 1
            res.traces_validated += 1
            res.nontrivial.add(op)
            res.dist["concurrent-requests:%s-rounds" % t[5]] += 1
            d = dict(x.split("=", 1) for x in im.split(" ") if "=" in x)
            if not im.startswith("conc ") or d.get("accepted") != "0":
                res.violation("oracle", "C13: %s %s (service %s): with requests carrying a token signed by the NRF key served at the same moment, "
                              "%s of %s requests whose token is NOT signed by the NRF key were not answered 401 (first: %s)" % (
                                  t[3], bytes.fromhex(t[4]).decode(), t[2], d.get("accepted", "?"), d.get("bad", "?"), d.get("first", im[:200])),
                              [op, "# impl:  " + im[:300], "# model: " + mo[:300]])
            elif im != mo:
                res.disagreements += 1
                res.violation("correspondence", "auth: model and implementation differ", [op, "# impl:  " + im, "# model: " + mo], found_input=False)
            continue
        if t[1] == "nrf":
            res.evaluations += 1
            res.traces_validated += 1
            res.nontrivial.add(op)
            res.dist["nrf-registration-answer:%s" % t[2]] += 1
            if im != mo:
                res.violation("oracle", "C13: the NRF answered the registration with %s and declared OAuth2 %s: afterwards %s (expected %s)" % (
                    t[2], "mandatory" if t[3] == "1" else "not mandatory", im, mo), [op, "# impl:  " + im, "# model: " + mo])
            continue
        if t[1] != "probe":
            continue
        if im == "n/a":
            res.outside_domain["near-miss-does-not-exist"] += 1
            continue
        res.evaluations += 1
        lists.add(t[2])
        kind = t[5]
        rctx = t[6] if len(t) > 6 else "live"
        res.dist["token:" + kind] += 1
        res.dist["context:" + rctx] += 1
        res.nontrivial.add(" ".join(t[2:5]))
        m = re.match(r"status=(\d+) pool=(\d+)>(\d+)", im)
        res.traces_validated += 1
        # the replay of a probe is the probe after the valid tokens its service list has seen (order matters)
        hist = valid_seen.setdefault(t[2], [])
        rep = hist[-40:] + [op]
        if not m:
            res.violation("oracle", "C13: probe crashed: " + im, rep)
            continue
        st, b, a = int(m.group(1)), int(m.group(2)), int(m.group(3))
        path = bytes.fromhex(t[4]).decode()
        registered = not (path in ("/", "/chargingdata"))
        mm = re.match(r"status=(\d+) handler=([01])$", mo)
        if kind == "valid":
            # a token signed by the NRF key: nothing is required of the answer; it is the history of what follows
            hist.append(op)
            res.dist["valid-token:status=%d" % st] += 1
            if st != 401:
                accepted_valid += 1
            if mm and mm.group(2) == "1" and st == 401:
                res.disagreements += 1
                res.violation("correspondence", "auth: the router model lets a request with a token signed by the NRF key through, "
                              "the implementation answered 401", rep + ["# impl: " + im, "# model: " + mo], found_input=False)
            continue
        after = "" if not hist else " after %d requests with a valid token had been served" % len(hist)
        what = "token kind '%s'%s%s" % (kind, "" if rctx == "live" else ", request context " + rctx, after)
        if not mm or (registered and (mm.group(1), mm.group(2)) != ("401", "0")) or (not registered and mm.group(2) != "0"):
            res.disagreements += 1
            res.violation("correspondence", "auth: the router model (regenerated paths of Check / AuthorizationCheck) does not reject "
                          "a request with %s: %s" % (what, mo), rep + ["# impl: " + im, "# model: " + mo], found_input=False)
        if registered and st != 401:
            res.violation("oracle", "C13: %s %s answered %d to a request with %s (services %s)" % (
                t[3], path, st, what, t[2]), rep + ["# impl: " + im])
        if not registered and st // 100 == 2:
            res.violation("oracle", "C13: unregistered path %s answered %d" % (path, st), rep + ["# impl: " + im])
        if a != b:
            res.violation("oracle", "C13: an unauthenticated request changed the subscriber pool", rep + ["# impl: " + im])
        if " state-same=0" in im:
            res.violation("oracle", "C13: a request with %s was processed: the charging state (subscribers, sessions, records, accounts, "
                          "notifications) differs after it" % what, rep + ["# impl: " + im])
        if registered and st == 401 and " one=0" in im:
            res.violation("oracle", "C13: the 401 answer is not a single problem document: something ran after the rejection and wrote to the response",
                          rep + ["# impl: " + im])
        res.sample({"op": op, "impl": im, "model": mo})
    res.exhaustive = True
    res.extra["service_lists"] = len(lists)
    res.extra["valid_tokens_accepted"] = accepted_valid
    res.rule = ("exhaustive: every route gin registered for each of the 16 ordered lists of distinct service names x 13 token kinds "
                "(absent, garbage, 'Bearer' garbage, alg=none JWT, HS256 JWT, RS512 JWT signed by another key, Basic, another scheme, lower-case bearer, three words; three of them also with no NRF certificate configured), OAuth2Required=true, "
                "NRF certificate generated at run time; request contexts live / cancelled / past their deadline before the router sees the request; "
                "histories: on every route a token signed by the NRF key first, then its 10 near misses (letter case of one letter of the signature, "
                "claims or JOSE header changed, whole header lower-/upper-cased, signature truncated / one character replaced / dropped, lower-case scheme), "
                "then all near misses on all routes again; expects 401, an unchanged subscriber pool and an unchanged digest of the whole charging state "
                "from every request whose token is not signed by the NRF key, whatever was accepted before; per service 150 rounds (thorough 3000) of 4 good + 4 bad "
                "tokens served at the same moment on one route, then the bad ones alone; the Lean router model "
                "(regenerated control-flow paths of Check and AuthorizationCheck, every adversary, every feasible path) must predict the same; "
                "distinct = (services, method, path)")


PROPS["C13"] = dict(lean=["ChfVerif.Props.C13"], explore=explore_c13, gen=[gen_table("routes", "Routes.lean")],
                    trusted=["gin group/middleware/Abort semantics are modelled (Model/Router.lean)",
                             "free5gc/openapi oauth.VerifyOAuth is abstracted as a predicate on tokens (probed with 13 kinds of bad token and 10 near misses of a valid one)",
                             "the go/ast extractors in harness/cmd/routes.go (syntactic facts of newRouter) and harness/cmd/authast.go "
                             "(control-flow paths of RouterAuthorizationCheck.Check and CHFContext.AuthorizationCheck), gin's reported chain lengths"])


# ------------------------------------------------------------------ C17

def explore_c17(ctx, res, replay_ops=None):
    n = n_for(ctx, 800, 20000)
    r = ctx.stream("diam", n, ops=replay_ops)
    for i, (op, im, mo) in enumerate(zip(r.ops, r.impl, r.model)):
        t = op.split()
        res.evaluations += 1
        res.dist[t[1]] += 1
        if t[1] in ("rt", "client"):
            res.traces_validated += 1
            if im.startswith("same "):
                res.nontrivial.add(op)
                res.dist[im.split()[1]] += 1
                if len(res.samples) < 4:
                    res.sample({"op": op, "impl": im})
            else:
                what = "C17: a message did not come back as it was sent: "
                if t[1] == "client":
                    what = ("C17: through the CHF's client function (internal/rating, internal/abmf) and a scripted peer, a message was not "
                            "received as it was sent: ")
                    m = re.match(r"DIFF (\S+) sent=(.*) got=(.*)$", im)
                    if m:
                        a_, b_ = m.group(2), m.group(3)
                        k = next((j for j in range(min(len(a_), len(b_))) if a_[j] != b_[j]), min(len(a_), len(b_)))
                        names = list(re.finditer(r"[,{]([A-Za-z][A-Za-z0-9]*)=", a_[:k]))
                        k0 = names[-1].start(1) if names else 0
                        what += "%s field %s… received as %s… " % (m.group(1), a_[k0:k0 + 60], b_[k0:k0 + 60])
                res.violation("oracle", what + im[:600], [op, "# impl: " + im[:4000]])
        elif t[1] == "prim":
            if im != mo:
                res.disagreements += 1
                res.violation("correspondence", "diam: AVP data encoding differs between library and model", [op, "# impl: " + im, "# model: " + mo],
                              found_input=False)
        elif t[1] == "lookup":
            name = bytes.fromhex(t[2]).decode()
            if not im.startswith("def "):
                res.violation("oracle", "C17: AVP name %s used by a message structure is not defined in the loaded dictionaries" % name, [op, "# impl: " + im])
            else:
                back = bytes.fromhex(im.split("back=")[1]).decode(errors="replace")
                if back != name:
                    res.violation("oracle", "C17: AVP %s and %s share code %s" % (name, back, im.split()[1]), [op, "# impl: " + im])
    # (d) what the two servers decode: every request, with its optional AVPs present or absent, must be handled as sent -
    #     the Lean server models are driven by exactly the fields of the request
    if replay_ops is None or any(o.startswith(("rf ", "abmf ")) for o in (replay_ops or [])):
        for stream in ("rf", "abmf"):
            rr = ctx.stream(stream, n_for(ctx, 400, 6000), ops=[o for o in (replay_ops or []) if o.startswith(stream + " ")] or None)
            for i, (op, im, mo) in enumerate(zip(rr.ops, rr.impl, rr.model)):
                tt = op.split()
                if tt[1] in ("set", "reset"):
                    continue
                res.evaluations += 1
                res.dist["server-decode:" + stream] += 1
                if im != mo:
                    res.violation("oracle", "C17: the %s server handled a request as if it carried other field values than were sent "
                                  "(optional AVP absent / stale field)" % stream, _history(rr.ops, i) + ["# impl:  " + im[:600], "# model: " + mo[:600]])
                    break
    res.rule = ("(a) randomly filled ServiceUsageRequest/Response and AccountDebitRequest/Response (every field at boundary and random "
                "values of its AVP type, each optional grouped AVP present/absent) through Marshal -> Serialize -> ReadMessage -> "
                "Unmarshal, compared field by field; (b) basic AVP data encodings compared with the Lean codec model; (c) every tag name "
                "looked up by name and back by code; (d) request histories against the real rating and account-balance servers with optional "
                "AVPs present/absent (Subscription-Id, Requested-Action), compared with the Lean server models; (e) the same randomly filled "
                "requests and answers through the CHF's real client functions (internal/rating, internal/abmf) and a scripted peer, both "
                "directions compared field by field; non-trivial = message round trip")


PROPS["C17"] = dict(lean=["ChfVerif.Props.C17"], explore=explore_c17, gen=[gen_table("diameter", "Diameter.lean")],
                    trusted=["fiorix/go-diameter (AVP framing, dictionary look-up rules, reflection-based Marshal/Unmarshal) is a modelled library: "
                             "its basic data formats are modelled in Lean and compared; message-level fidelity is observed, not proved",
                             "Time AVPs are second-granular (RFC 6733): generated times are whole seconds"])


# ------------------------------------------------------------------ C20

def explore_c20(ctx, res, replay_ops=None):
    n = n_for(ctx, 60, 1500)
    r = ctx.stream("config", n, ops=replay_ops, parallel=14)
    for i, (op, im, mo) in enumerate(zip(r.ops, r.impl, r.model)):
        t = op.split()
        res.evaluations += 1
        removed = bin(int(t[2])).count("1")
        res.dist["removed=%d" % min(removed, 3)] += 1
        res.dist["scheme=" + t[3]] += 1
        res.dist["impl:" + im] += 1
        for o in t[5:]:
            res.dist["value:" + o] += 1
        res.nontrivial.add(op)
        if len(res.samples) < 5:
            res.sample({"op": op, "impl": im, "model": mo})
        accepted_impl = im in ("started", "crash")
        accepted_model = mo.startswith("accepted")
        if accepted_impl != accepted_model:
            res.disagreements += 1
            res.violation("correspondence", "config: validation outcome differs (impl %s, model %s)" % (im, mo), [op], found_input=False)
        res.traces_validated += 1
        if im == "crash":
            res.violation("oracle", "C20: a configuration accepted by validation crashed the start-up", [op, "# impl: " + im])
        if im not in ("started", "crash", "rejected"):
            res.violation("oracle", "C20: unexpected outcome " + im, [op])
        # invalid ones must be rejected
        bad = t[3] not in ("http", "https") or not t[4].startswith("ok")
        if bad and im != "rejected":
            res.violation("oracle", "C20: configuration with scheme=%s services=%s was not rejected" % (t[3], t[4]), [op, "# impl: " + im])
    res.extra["exhaustive_subspace"] = "baseline, all single and all pairwise removals of 20 items x {http, https}" + (
        ", all triples" if ctx.tier == "thorough" else "") + (
        "; baseline and all single removals under each of 7 value settings (Diameter protocol sctp / udp / absent for either "
        "section, CGF enabled, all together), all pairs for the combined setting; baseline and all single removals x {http, https} "
        "started with a TLS key log file" + (" (thorough: for each)" if ctx.tier == "thorough" else ""))
    res.rule = ("YAML configurations derived from a valid baseline by removing subsets of 20 items (sections, TLS blocks, mandatory "
                "scalars) and altering scheme (http/https/ftp/HTTP/absent) and serviceNameList (one/two/all three known names, a known name "
                "twice, unknown names, empty), the protocol of either Diameter section (tcp/sctp/udp/absent) and cgf.enable; started with and without a TLS key log "
                "file (the command line's --log); each is read by "
                "factory.ReadConfig in its own process and, if accepted, the CGF (when enabled), the context, rating and account servers, "
                "the application (SBI server) and the SBI listener are started as pkg/service Start does; a panic in any goroutine kills "
                "the child = crash; distinct = variants")


PROPS["C20"] = dict(lean=["ChfVerif.Props.C20"], explore=explore_c20, gen=[gen_table("config", "Config.lean")],
                    trusted=["govalidator semantics (required/optional recursion) and yaml.v2 are modelled",
                             "NRF registration is not started; the FTP (CGF) server is started only in the variants with cgf.enable=true (its login to the "
                             "remote FTP host fails and is retried in the background); MongoDB is the in-memory stand-in",
                             "which sections the start-up code dereferences is hand-modelled (startsOK) and validated by starting every accepted variant"])


# ------------------------------------------------------------------ BER  (C04, C05, C16)

def _ber_run(ctx, res, replay_ops, n):
    r = ctx.stream("ber", n, ops=replay_ops)
    # A Go runtime abort (fatal error: concurrent map writes, stack overflow, …) is not a panic: nothing recovers it and the
    # harness process is gone.  Answers are flushed operation by operation, so the first missing answer belongs to the
    # operation the process died in; the harness is restarted behind it.
    r.crash_info = {}
    restarts = 0
    while "crash" in r.impl:
        i = r.impl.index("crash")
        err = core.LAST_STDERR.get("ber", "")
        m = re.search(r"^(fatal error: .*|panic: .*|runtime: .*)$", err, flags=re.M)
        r.crash_info[i] = (m.group(1) if m else err.strip().split("\n")[0] if err.strip() else "the harness process died")[:300]
        r.impl[i] = "crash!"
        restarts += 1
        if restarts >= 25:
            # enough: what lies behind was never run and is not judged
            res.extra["operations_not_run_after_25_runtime_aborts"] = len(r.ops) - i - 1
            r.ops, r.impl, r.model = r.ops[:i + 1], r.impl[:i + 1], r.model[:i + 1]
            break
        tail = r.ops[i + 1:]
        if tail:
            r.impl[i + 1:] = core.harness_run(ctx.harness, "ber", tail)
    r.impl = ["crash" if x == "crash!" else x for x in r.impl]
    res.extra["harness_restarts_after_runtime_abort"] = restarts
    for i, (op, im, mo) in enumerate(zip(r.ops, r.impl, r.model)):
        if im != mo:
            res.disagreements += 1
            res.violation("correspondence", "ber: model and implementation differ", [op[:20000], "# impl:  " + im[:3000], "# model: " + mo[:3000]],
                          found_input=False)
            break
    return r


def _ber_smallest_first(res):
    """report the failing input that is shortest to read (the order of discovery is kept among equals)"""
    res.violations.sort(key=lambda v: (not v["found_input"], len(v["replay"][0]) if v["found_input"] and v["replay"] else 0))


def _ber_items(t):
    """items (ty, params, arg) of an H or V operation (tokens after the stream name)"""
    body = t[3:] if t[1] == "H" else t[4:]
    return [tuple(body[k:k + 3]) for k in range(0, len(body) - 2, 3)]


def _ty_class(ty):
    return {"C": "choice", "S": "struct", "L": "list", "W": "wrapper", "P": "pointer"}.get(ty[0], "primitive")


def explore_c04(ctx, res, replay_ops=None):
    r = _ber_run(ctx, res, replay_ops, n_for(ctx, 300, 3000))
    q, qi = [], []
    for i, (op, im) in enumerate(zip(r.ops, r.impl)):
        t = op.split(" ")
        if t[1] not in ("R", "M"):
            continue
        res.evaluations += 1
        res.dist[_ty_class(t[2])] += 1
        it = im.split(" ")
        if it[0] in ("panic", "timeout", "crash"):
            res.violation("oracle", "C04: marshalling panicked" + (" (%s)" % r.crash_info.get(i, "") if it[0] == "crash" else ""),
                          [op[:20000], "# impl: " + im[:200]])
            continue
        if it[0] == "err":
            res.dist["marshal-error"] += 1
            continue
        res.nontrivial.add(op)
        if len(res.samples) < 5 and len(op) < 400:
            res.sample({"op": op, "bytes": it[1]})
        arg = t[4] if len(t) > 4 else ""
        q.append("ber wf " + it[1])
        q.append("ber spec %s %s %s" % (t[2], t[3], arg))
        qi.append(i)
    out = core.driver_run(q) if q else []
    for k, i in enumerate(qi):
        wf, sp = out[2 * k], out[2 * k + 1]
        im = r.impl[i].split(" ")
        res.traces_validated += 1
        if wf != "ok":
            res.violation("oracle", "C04: the marshalled octets are not one well-formed X.690 element (%s)" % wf,
                          [r.ops[i][:20000], "# impl: " + r.impl[i][:3000]])
        if sp != "ok " + im[1]:
            res.violation("oracle", "C04: the marshalled octets differ from the reference X.690 encoder",
                          [r.ops[i][:20000], "# impl:      " + r.impl[i][:3000], "# reference: " + sp[:3000]])
    _ber_smallest_first(res)
    res.rule = ("type-directed random values of all 195 cdrType types (optional members toggled at 0/30/70/100%, every CHOICE alternative, "
                "lists of 0-3 elements, boundary integers, strings/octets of length 0..9 and (thorough) 126..257, 1000), the CHF record with "
                "'explicit,choice', primitives with top-level parameters (tags 0/30/31/128/2^21-1, explicit, string kinds) and generated "
                "struct/choice/list types in the same tag language (distinct tags per struct, high-tag bases, explicit, set); values that "
                "cannot be marshalled at every position (CHOICE Present 0 / negative / past the last / nil alternative, nil pointer elements "
                "and mandatory members, OBJECT IDENTIFIER and unsupported kinds; in the first / a middle / the last element of lists of 1-4 "
                "elements, in any member, under any nesting; one to three places per value) of every schema type and of generated types: "
                "the answer must be an error or the reference encoding, never a panic; each marshalled "
                "value is checked by the Lean X.690 walker and against the Lean reference encoder (which has no encoding for those values); "
                "non-trivial = successful marshal")


def _c05_item(res, op, ty, ps, arg, it, errs, where="", dom=True, mo=()):
    """judge one marshal-then-unmarshal answer (tokens `it`) for the value `arg` of type `ty`.
    dom: the Lean driver says (type, parameters) is in the domain of the round-trip law (Spec/C05Domain.lean: the shapes
    Props.C05.C05_domain covers, which include every schema type); mo: the model's answer for the same item."""
    if it[0] in ("panic", "timeout", "crash"):
        res.violation("oracle", "C05: marshal/unmarshal panicked" + where, [op[:20000], "# impl: " + " ".join(it)[:200]])
        return
    if it[0] == "err":
        # constructs the codec does not support must be *reported* (OID, open type, unselected CHOICE, nil where a value is
        # needed); whether the value is such a one is not guessed from the notation but asked of the Lean reference encoder below
        res.dist["marshal-error"] += 1
        errs.append((op, ty, ps, arg, where))
        return
    if not dom and not (len(mo) >= 4 and mo[0] == "ok" and mo[2] == "ok" and mo[3] == arg):
        # outside the law's domain (a shape whose members / alternatives the decoder cannot tell apart by tag number: no schema
        # type is one) and the decoder model does not bring this value back either: not judged; model and code are still compared
        res.outside_domain["generated type outside the round-trip domain (untagged CHOICE member, SET / absent OPTIONAL member and "
                           "a later member with the same tag number, EXPLICIT member): value does not round-trip in the model"] += 1
        if len(it) > 4 and it[2] in ("ok", "err") and it[-1] in ("moved", "unstable"):
            res.violation("oracle", "C05: the marshalled octets changed after marshal had returned them (%s)%s" % (" ".join(it[4:]), where),
                          [op[:20000], "# impl: " + " ".join(it)[:3000]])
        return
    res.dist["round trip judged: " + ("in the proved domain" if dom else "outside it, the model round-trips the value")] += 1
    res.traces_validated += 1
    res.nontrivial.add(op)
    if len(it) < 4 or it[2] != "ok":
        res.violation("oracle", "C05: the marshalled octets could not be unmarshalled into the same type" + where, [op[:20000], "# impl: " + " ".join(it)[:3000]])
    elif it[3] != arg:
        res.violation("oracle", "C05: decode(encode(v)) differs from v" + where, [op[:20000], "# impl: " + " ".join(it)[:3000]])
    elif len(it) > 4:
        res.violation("oracle", "C05: the marshalled octets changed after marshal had returned them (%s)%s" % (" ".join(it[4:]), where),
                      [op[:20000], "# impl: " + " ".join(it)[:3000]])
    elif len(res.samples) < 5 and len(op) < 400:
        res.sample({"op": op, "impl": " ".join(it)})


def explore_c05(ctx, res, replay_ops=None):
    r = _ber_run(ctx, res, replay_ops, n_for(ctx, 300, 3000))
    errs = []
    # which (type, parameters) are in the domain of the round-trip law is decided by the Lean driver
    pairs = set()
    for op in r.ops:
        t = op.split(" ")
        if t[1] == "R":
            pairs.add((t[2], t[3]))
        elif t[1] == "H":
            pairs.update((ty, ps) for (ty, ps, _) in _ber_items(t))
    pairs = sorted(pairs)
    dom = dict(zip(pairs, (a == "in" for a in core.driver_run(["ber dom %s %s" % pr for pr in pairs])))) if pairs else {}
    for i, (op, im) in enumerate(zip(r.ops, r.impl)):
        t = op.split(" ")
        if t[1] == "R":
            res.evaluations += 1
            res.dist[_ty_class(t[2])] += 1
            _c05_item(res, op, t[2], t[3], t[4] if len(t) > 4 else "", im.split(" "), errs, dom=dom[(t[2], t[3])], mo=r.model[i].split(" "))
        elif t[1] == "H":
            # a history of marshal calls: every result is unmarshalled only after all calls have returned and the
            # arguments have been overwritten
            res.evaluations += 1
            res.dist["history-" + t[2]] += 1
            items = _ber_items(t)
            if im in ("panic", "timeout", "crash"):
                res.violation("oracle", "C05: a history of marshal calls %s%s" % (im, " (%s)" % r.crash_info.get(i, "") if im == "crash" else ""),
                              [op[:20000], "# impl: " + im[:200]])
                continue
            answers = im.split(" | ")
            if len(answers) != len(items):
                res.violation("oracle", "C05: a history of %d marshal calls gave %d answers" % (len(items), len(answers)), [op[:20000], "# impl: " + im[:3000]])
                continue
            mos = r.model[i].split(" | ")
            for k, ((ty, ps, arg), a) in enumerate(zip(items, answers)):
                _c05_item(res, op, ty, ps, arg, a.split(" "), errs, " (call %d of %d of a history, mode %s)" % (k + 1, len(items), t[2]),
                          dom=dom[(ty, ps)], mo=mos[k].split(" ") if k < len(mos) else ())
    # marshal errors: the value must be one the independent encoder has no encoding for either
    if errs:
        out = core.driver_run(["ber spec %s %s %s" % (ty, ps, arg) for (_, ty, ps, arg, _) in errs])
        for (op, ty, ps, arg, where), sp in zip(errs, out):
            res.dist["marshal-error, no reference encoding either" if sp == "none" else "marshal-error, reference encodes"] += 1
            if sp != "none":
                res.violation("oracle", "C05: a value of a supported type failed to marshal (the reference encoder encodes it)" + where,
                              [op[:20000], "# reference: " + sp[:3000]])
    _ber_smallest_first(res)
    res.rule = ("same value generator as C04; each marshalled value is unmarshalled into a fresh variable of the same type with the same "
                "parameters and compared structurally (nil pointers, nil vs empty lists distinguished); all 26 boundary integers; "
                "histories of 2-6 marshal calls (same value repeated, same type, mixed types; lengths falling, rising, equal) in one goroutine "
                "or one goroutine per value: every returned slice is kept, the arguments' buffers are overwritten, and only then every slice is "
                "compared with its copy and unmarshalled; a marshal error must be matched by the reference encoder having no encoding; "
                "the round trip is judged for every (type, parameters) the Lean driver places in the domain of Props.C05.C05_domain (all "
                "schema types, primitives under any tagging) and, outside it, for every value the decoder model brings back; the rest is "
                "counted under outside_property_domain (model and code are still compared); non-trivial = value that marshals")


def explore_c16(ctx, res, replay_ops=None):
    r = _ber_run(ctx, res, replay_ops, n_for(ctx, 400, 5000))
    z0_q, z0_i = [], []     # accepted inputs, to be asked: is this a zero-length primitive element? (Ber.zeroLenPrim)
    for i, (op, im) in enumerate(zip(r.ops, r.impl)):
        t = op.split(" ")
        if t[1] == "V":
            # several goroutines decode the items at once, into struct types the process has not decoded before, twice
            res.evaluations += 1
            items = _ber_items(t)
            res.dist["concurrent:%s goroutines" % t[2]] += 1
            res.traces_validated += 1
            res.nontrivial.add(op)
            if im in ("panic", "timeout", "crash"):
                res.violation("oracle", "C16: concurrent Unmarshal calls: %s%s" % (
                    im, " - the process was aborted by the Go runtime: " + r.crash_info.get(i, "") if im == "crash" else ""),
                    [op[:20000], "# impl: " + im[:200]])
                continue
            answers = im.split(" | ")
            for k, a in enumerate(answers):
                a0 = a.split(" ")[0]
                res.dist["outcome:" + a0] += 1
                if a0 == "diverge":
                    res.violation("oracle", "C16: the same octets unmarshalled into the same type gave different answers (item %d; %s goroutines, "
                                  "two passes): Unmarshal is not a function of its input" % (k + 1, t[2]), [op[:20000], "# impl: " + im[:3000]])
                elif a0 not in ("ok", "err"):
                    res.violation("oracle", "C16: Unmarshal %s on arbitrary octets (item %d of a concurrent decoding)" % (a0, k + 1),
                                  [op[:20000], "# impl: " + im[:3000]])
            if len(answers) != len(items):
                res.violation("oracle", "C16: %d concurrent decodings gave %d answers" % (len(items), len(answers)), [op[:20000], "# impl: " + im[:3000]])
            continue
        if t[1] != "U":
            continue
        res.evaluations += 1
        arg = t[4] if len(t) > 4 else ""
        res.dist["len=%s" % (len(arg) // 2 if len(arg) < 8 else "4+")] += 1
        it = im.split(" ")
        res.dist["outcome:" + it[0]] += 1
        res.traces_validated += 1
        if it[0] not in ("ok", "err"):
            res.violation("oracle", "C16: Unmarshal %s on arbitrary octets%s" % (it[0], " (%s)" % r.crash_info.get(i, "") if it[0] == "crash" else ""),
                          [op[:20000], "# impl: " + im[:200]])
        elif it[0] == "ok" and len(t) > 4:
            z0_q.append("ber z0 %s %s %s" % (t[2], t[3], arg if arg else "-"))
            z0_i.append(i)
        res.nontrivial.add(op)
        if len(res.samples) < 6 and len(op) < 300:
            res.sample({"op": op, "impl": im[:120]})
    _ber_smallest_first(res)
    # --- "zero-length primitive input is reported as an error": no accepted input may be one (predicate Ber.zeroLenPrim,
    #     evaluated by the Lean driver; Props.C16.C16_zeroLenPrim_is_error proves the model rejects them all)
    if z0_q:
        for q, i, a in zip(z0_q, z0_i, core.driver_run(z0_q)):
            if a == "1":
                res.dist["zero-length-primitive-accepted"] += 1
                res.violation("oracle", "C16: a BOOLEAN/INTEGER/ENUMERATED/BIT STRING element whose length octets say 0 was accepted as a value "
                              "(octets behind the element taken for its content)", [r.ops[i][:2000], "# impl: " + r.impl[i][:200]])
        res.extra["accepted_inputs_checked_for_zero_length_primitive"] = len(z0_q)
    res.rule = ("octet strings decoded under recover() with a 10 s deadline: the empty string, every 1-octet and a lattice of 2-octet "
                "strings into 7 primitive targets (thorough: all 1- and a finer lattice of 2-octet strings), and truncations, single-bit flips, "
                "rewritten length octets (00,7f,80,81,82,83,84,ff), appended octets, deletions and random strings against valid encodings of "
                "schema types; outcome class compared with the Lean decoder model (ok value / error / panic); 2-11 valid, damaged and empty "
                "encodings (and all 195 schema types from the empty SEQUENCE) decoded twice by 2/4/8 goroutines at once into struct types that "
                "are new to the process in every operation: every decoding must answer, and answer what the sequential model answers; a Go "
                "runtime abort (not recoverable) is attributed to the operation the harness died in and the harness is restarted")


_ber_trust = ["Go reflect, and the table emitter classifying struct types (Value/List/Present conventions) in harness/cmd/ber.go",
              "Spec/X690.lean is my transcription of X.690 (no copy of the standard in the sandbox)"]
PROPS["C04"] = dict(lean=["ChfVerif.Props.C04"], explore=explore_c04, gen=[gen_table("schema", "Schema.lean")], trusted=_ber_trust)
_ber_state_trust = ["the go/ast extractor of cdr/asn's package-level variables (harness/cmd/asnglobals.go) and the reading of its facts as a frame "
                    "condition on calls (CodecState.Respects): a variable nothing assigns to, takes the address of or calls a method on is not changed by a call"]
PROPS["C05"] = dict(lean=["ChfVerif.Props.C05"], explore=explore_c05,
                    gen=[gen_table("schema", "Schema.lean"), gen_table("asnglobals", "AsnGlobals.lean")], trusted=_ber_trust + _ber_state_trust)
PROPS["C16"] = dict(lean=["ChfVerif.Props.C16"], explore=explore_c16, gen=[gen_table("asnglobals", "AsnGlobals.lean")],
                    trusted=_ber_trust + _ber_state_trust)


# ------------------------------------------------------------------ C03  (CDR files written by the CHF)

C03_LIMIT = 65535


def explore_c03(ctx, res, replay_ops=None):
    from . import recber
    if replay_ops and replay_ops[0].startswith("recber "):
        recber.recber_phase(ctx, res, "C03", ops=replay_ops)
        return
    r = ctx.stream("cdrsize", n_for(ctx, 60, 900), ops=replay_ops, with_model=False)
    kf = ctx.kf_classes()
    q, qi = [], []
    obs = []
    for i, (op, im) in enumerate(zip(r.ops, r.impl)):
        d = dict(x.split("=", 1) for x in im.split(" ") if "=" in x)
        obs.append(d)
        if d.get("file", "~") not in ("~",) and "recs" in d:
            q.append("c03 %s %s" % (d["file"] if d["file"] != "-" else "", d["recs"]))
            qi.append(i)
    out = core.driver_run(q) if q else []
    verdict = dict(zip(qi, out))
    start = 0            # first op of the current scenario (for replays)
    prevs = {}           # subscriber -> record sizes after its previous operation
    blameds = {}         # subscriber -> {index of an oversize record -> known-finding class that explains it}
    owner = {}           # session handle -> subscriber
    for i, (op, im) in enumerate(zip(r.ops, r.impl)):
        t = op.split(" ")
        kind = t[1] if len(t) > 1 else ""
        if kind == "reset":
            start, prevs, blameds, owner = i, {}, {}, {}
            continue
        if kind == "create" and len(t) > 3:
            owner[t[2]] = t[3]
        sub = owner.get(t[2] if len(t) > 2 else "", "?")
        prev = prevs.get(sub, [])
        blamed = blameds.setdefault(sub, {})
        d = obs[i]
        if kind in ("end",) or "st" not in d:
            if im.split(" ")[0] in ("panic", "timeout"):
                res.violation("oracle", "C03: %s while handling a charging request" % im.split(" ")[0], r.ops[start:i + 1] + ["# impl: " + im[:300]])
            continue
        res.evaluations += 1
        res.dist[kind] += 1
        recs = d.get("recs", "-")
        sizes = [len(x) // 2 for x in recs.split(";")] if recs != "-" else []
        replay = r.ops[start:i + 1]
        pre, chg = int(d.get("pre", -1)), int(d.get("chg", -1))
        if sizes:
            res.dist["max-record=%s" % ("<256" if max(sizes) < 256 else "<16k" if max(sizes) < 16384 else "<60k" if max(sizes) < 60000 else
                                          "60k..65535" if max(sizes) <= C03_LIMIT else ">65535")] += 1
        # --- every container of every accepted request is in the subscriber's records exactly once
        if "cont" in d:
            rec, dis, sent = (int(x) for x in d["cont"].split(":"))
            if not (rec == dis == sent):
                res.violation("oracle", "C03: the subscriber's records hold %d containers (%d distinct) for %d reported in accepted requests" % (rec, dis, sent),
                              replay + ["# impl: " + im[:200] + "…"])
        # --- the 65535-octet record limit
        for k, sz in enumerate(sizes):
            if sz <= C03_LIMIT or k in blamed:
                continue
            cls = None
            if kind == "release":
                cls = "release-appends-usage-unguarded"
            elif kind == "create":
                cls = "create-appends-usage-unguarded"
            elif k >= len(prev):
                cls = "update-usage-exceeds-fresh-record"
            elif pre >= 0 and chg >= 0 and pre + chg <= C03_LIMIT and sz <= pre + chg + 8:
                cls = "update-guard-ignores-header-growth"
            if cls and cls in kf:
                blamed[k] = cls
                res.kf[cls] = kf[cls]
                res.dist["kf:" + cls] += 1
            else:
                blamed[k] = "?"
                res.violation("oracle", "C03: %s left a record of %d octets (> 65535) in the subscriber's records%s" % (
                    kind, sz, "" if cls is None else " [%s]" % cls), replay + ["# impl: " + im[:200] + "…", "# record sizes: %s -> %s pre=%d chg=%d" % (prev, sizes, pre, chg)])
        # --- the file written by this operation
        if i in verdict:
            v = dict(x.split("=", 1) for x in verdict[i].split(" ") if "=" in x)
            res.traces_validated += 1
            res.nontrivial.add(op + "#%d" % i)
            res.dist["records-in-file=%s" % v.get("n", "?")] += 1
            if len(res.samples) < 5:
                res.sample({"op": op, "status": d.get("st"), "record_sizes": sizes, "verdict": verdict[i]})
            if v.get("model") != "ok":
                res.disagreements += 1
                res.violation("correspondence", "C03: the written file is not what the dumpCdrFile model writes for any of the subscriber's records",
                              replay + ["# verdict: " + verdict[i], "# record sizes: %s" % sizes])
            bad = [k for k in ("read", "lens", "reclen") if v.get(k) not in ("ok",)]
            if bad:
                if int(v.get("over", "0")) > 0 and v.get("model") == "ok" and all(c != "?" for c in blamed.values()) and blamed:
                    res.dist["malformed-file-explained-by-known-oversize-record"] += 1
                else:
                    res.violation("oracle", "C03: the written file is not a well-formed TS 32.297 file (%s)" % ",".join(bad),
                                  replay + ["# verdict: " + verdict[i], "# record sizes: %s" % sizes])
            else:
                if v.get("wf") != "ok":
                    res.violation("oracle", "C03: a record payload of the written file is not one complete BER element (%s)" % v.get("wf"),
                                  replay + ["# verdict: " + verdict[i]])
                if v.get("member") != "ok":
                    res.violation("oracle", "C03: a record payload of the written file is not the encoding of any record the subscriber context holds (%s)" % v.get("member"),
                                  replay + ["# verdict: " + verdict[i]])
        elif kind in ("update", "fit", "fiton", "fitbare", "release") and d.get("st") in ("200", "204"):
            res.violation("oracle", "C03: a successful %s wrote no CDR file" % kind, replay + ["# impl: " + im[:200]])
        prevs[sub] = sizes
    # --- the records' octets and the guard's decisions against the record encoder model (Model/RecordBer.lean)
    starts, s0 = [], 0
    for i, op in enumerate(r.ops):
        if op.split(" ")[1:2] == ["reset"]:
            s0 = i
        starts.append(s0)
    recber.cdrsize_records(ctx, res, "C03", r.ops, obs, lambda i: starts[i])
    if replay_ops is None:
        recber.recber_phase(ctx, res, "C03")
    res.rule = ("offline charging sessions through the real router: one session growing by 40 (thorough 160) updates across the 127/255/65535 "
                "header boundaries; updates of 2300..2610 containers landing below/at/above the limit followed by small updates and a release "
                "that adds usage; updates sized at run time so that len(record)+len(usage) = 65535+d for d in -8..2 on a fresh and on a grown "
                "record; single requests of 3000 containers / a 70000-octet UPF id on update, create and release; random multi-session "
                "histories. After every operation the written /tmp/<supi>.cdr is read by the independent TS 32.297 reader "
                "(lengthsConsistent, record length fields), every payload walked by X690.wellFormed and required to be the encoding of a "
                "record of the subscriber context, and the whole file compared with the dumpCdrFile model (dumpBytes). "
                "non-trivial = operation that wrote a file")
    res.assumptions.append("the partial-record path (quota exhaustion re-opening the record with a RecordSequenceNumber) is not driven by this stream")


PROPS["C03"] = dict(lean=["ChfVerif.Props.C03"], explore=explore_c03,
                    trusted=["os.WriteFile/ReadFile; the harness reads the file the operation wrote and marshals ue.Records with the CHF's own parameters",
                             "that no record above 65535 octets is handed to dumpCdrFile is decided on the explored histories only (C03 partial)"])


# ------------------------------------------------------------------ C18 / C19  (Diameter client: connections, late answers)

PEER_TOL_MS = 900


def _peer_run(ctx, res, replay_ops, n):
    """every scenario in a process of its own (scenarios take seconds of real time), at most 16 at once"""
    import concurrent.futures
    ops = replay_ops if replay_ops is not None else core.harness_gen(ctx.harness, "peer", ctx.seed, n, ctx.tier, ())
    with concurrent.futures.ThreadPoolExecutor(16) as ex:
        impl = list(ex.map(lambda o: core.harness_run(ctx.harness, "peer", [o], timeout=900)[0], ops))
    model = core.driver_run(ops)
    return ops, impl, model


def _peer_compare(res, op, im, mo):
    """token-wise comparison of the implementation's observation with the model's prediction"""
    it, mt = im.split(" "), mo.split(" ")
    if len(it) != len(mt):
        return "different number of observations"
    for a, b in zip(it, mt):
        if a[:2] != b[:2]:
            return "observation kinds differ (%s / %s)" % (a, b)
        if a.startswith("u="):
            if a == "u=skipped" or b == "u=skipped":
                if a != b:
                    return "%s / %s" % (a, b)
                continue
            af, bf = a[2:].split(":"), b[2:].split(":")
            # impl: status grant cost resDelta who ms done ; model: who ms done
            if af[6] != bf[2]:
                return "completion differs (impl done=%s, model done=%s)" % (af[6], bf[2])
            if af[6] == "1":
                if af[4] != bf[0]:
                    return "the account-balance answer acted upon differs (impl %s, model %s)" % (af[4], bf[0])
                if abs(int(af[5]) - int(bf[1])) > PEER_TOL_MS:
                    return "elapsed time differs (impl %s ms, model %s ms)" % (af[5], bf[1])
                if len(bf) > 3 and bf[3] == "1" and af[1] in ("-", "0"):
                    return "CROSSTALK: the update was granted %s although its own account-balance and rating answers arrived in time" % af[1]
        elif a.startswith("f="):
            if a == "f=skipped" or b == "f=skipped":
                if a != b:
                    return "%s / %s" % (a, b)
                continue
            af, bf = a[2:].split(":"), b[2:].split(":")
            # impl: status ms done pending ; model: ms done
            if af[2] != bf[1]:
                return "completion of the final report differs (impl done=%s, model done=%s)" % (af[2], bf[1])
            if af[2] == "1" and abs(int(af[1]) - int(bf[0])) > PEER_TOL_MS:
                return "elapsed time of the final report differs (impl %s ms, model %s ms)" % (af[1], bf[0])
        elif a.startswith("n="):
            if a != b:
                return "%s / %s" % (a, b)
        elif a.startswith("c="):
            ac, bc = a[2:].split(":"), b[2:].split(":")
            if ac[0] != bc[0]:
                return "open connections differ (impl %s, model %s)" % (ac[0], bc[0])
            if bc[1] == "0" and ac[1] != "0":
                return "background tasks left behind (impl bucket %s, model 0)" % ac[1]
            if len(ac) > 3 and len(bc) > 2 and int(ac[3]) > int(bc[2]):
                return "watchdog tasks of closed connections still running (impl %s, model %s)" % (ac[3], bc[2])
            if len(ac) > 4 and len(bc) > 3 and int(ac[4]) > int(bc[3]):
                return "answer handlers that never returned (impl %s, model %s)" % (ac[4], bc[3])
    return None


def _explore_peer(ctx, res, replay_ops, which):
    ops, impl, model = _peer_run(ctx, res, replay_ops, n_for(ctx, 6, 40))
    for op, im, mo in zip(ops, impl, model):
        steps = op.split(" ")[3:]
        res.evaluations += 1
        kind = "count" if any(x.startswith("N") for x in steps) else "faults"
        res.dist["scenario:" + kind] += 1
        quiet = True       # no answer later than the client's timeout, no relay: every socket must be gone at a C step
        for x in steps:
            if x[0] == "D":
                res.dist["answers-delivered-%s-times" % x[1:]] += 1
                quiet = False
            if x[0] == "F":
                res.dist["final-report"] += 1
            if x[0] in "AR":
                d = int(x[1:])
                res.dist["%s-delay:%s" % (x[0], "prompt" if d < 5000 else "late" if d < 20000 else "lost")] += 1
                if d >= 5000:
                    quiet = False
            if x[0] == "H":
                d = int(x[2:])
                res.dist["%s-connection-setup:%s" % (x[1], "<2s" if d < 2000 else "2-5s" if d < 5000 else ">5s")] += 1
            if x[0] == "Q":
                res.dist["stored-document:%s" % {"0": "quota-a-number", "1": "quota-missing", "2": "quota-not-numeric",
                                                 "3": "unitCost-a-number", "4": "unitCost-missing", "9": "restored"}.get(x[1:], x[1:])] += 1
        if im.split(" ")[0] in ("crash", "panic", "timeout", "create-failed", "bad-op"):
            res.violation("oracle", "%s: scenario did not run (%s)" % (which, im[:100]), [op, "# impl: " + im[:300]])
            continue
        res.traces_validated += 1
        if len(res.samples) < 6:
            res.sample({"op": " ".join(steps), "impl": im, "model": mo})
        # --- oracles (the property itself, on the implementation's observation)
        bad = None
        for tok in im.split(" "):
            if which == "C19" and tok.startswith("u=") and tok != "u=skipped":
                f = tok[2:].split(":")
                if f[6] != "1":
                    bad = "an update did not complete within 14 s after a late or lost answer (subscriber blocked)"
                elif f[4] not in ("own", "0"):
                    bad = "an update acted upon the answer to account-balance request %s, not its own" % f[4]
                elif f[1] == "0" and f[3].lstrip("-").isdigit() and int(f[3]) > 0:
                    # money was reserved for this update (its own account-balance answer), yet the rating answer it
                    # acted upon allowed nothing: that is the answer to the unit-cost enquiry (quota 0), not to its own request
                    bad = "an update that reserved %s was granted 0 units: it acted upon the rating answer to another request" % f[3]
                elif len(f) > 7 and int(f[7]) > 0 and int(f[5]) < 4000:
                    bad = ("an update returned after %s ms while %s account-balance request(s) it had made were still unanswered (no time-out "
                           "had passed): the request is not tied to the operation, its answer can only reach a later request" % (f[5], f[7]))
                elif f[0][:1] == "5":
                    bad = "an update was answered %s" % f[0]
            if which == "C19" and tok.startswith("f=") and tok != "f=skipped":
                f = tok[2:].split(":")
                if f[2] != "1":
                    bad = "a final report did not complete within 14 s (subscriber blocked)"
                elif int(f[3]) > 0 and int(f[1]) < 4000:
                    bad = ("a final report returned after %s ms while the account-balance request that settles it was still unanswered (no "
                           "time-out had passed): the request is not tied to the operation, its answer can only reach a later request" % f[1])
                elif f[0][:1] == "5":
                    bad = "a final report was answered %s" % f[0]
            if which == "C19" and tok.startswith("n=") and tok.endswith(":0"):
                bad = "an update did not complete"
            if which == "C18" and tok.startswith("c="):
                f = tok[2:].split(":")
                if int(f[0]) > 0 or f[1] != "0":
                    bad = "connections / background tasks left behind after completed requests: %s established, goroutine bucket %s" % (f[0], f[1])
                elif len(f) > 4 and int(f[4]) > 0:
                    bad = "%s answer handler task(s) (HandleSUA/HandleCCA) left behind, blocked for ever, after the requests had returned" % f[4]
                elif len(f) > 5 and int(f[5]) > 0:
                    bad = ("%s request handler task(s) of the rating / account-balance server still running after every request had "
                           "returned (not counting handlers the script keeps asleep)" % f[5])
                elif len(f) > 6 and quiet and int(f[6]) > 0:
                    bad = ("%s socket(s) on the Diameter ports still held by the process (any state but LISTEN) after every request "
                           "had returned and every answer had been in time or would never come" % f[6])
                elif len(f) > 3 and int(f[3]) > 0:
                    bad = ("%s go-diameter watchdog task(s) still running after every request had returned and every connection was closed "
                           "(one per request whose answer did not arrive within the timeout; %s goroutines above the baseline)" % (f[3], f[2]))
            if which == "C18" and tok.startswith("n=") and tok.endswith(":0"):
                bad = "an update did not complete"
        if bad:
            res.violation("oracle", "%s: %s" % (which, bad), [op, "# impl: " + im])
        if (which == "C19" and kind == "faults") or (which == "C18"):
            res.nontrivial.add(op)
        # --- correspondence with the client machines
        diff = _peer_compare(res, op, im, mo)
        if diff and diff.startswith("CROSSTALK") and which == "C19":
            res.violation("oracle", "C19: " + diff[11:] + " (it acted on some other request's rating answer)", [op, "# impl:  " + im, "# model: " + mo])
        elif diff:
            res.disagreements += 1
            res.violation("correspondence", "peer: model and implementation differ: " + diff, [op, "# impl:  " + im, "# model: " + mo],
                          found_input=bool(bad))
    res.rule = ("scripted scenarios against the real rating and account-balance servers over loopback TLS, whose answers are delayed by "
                "sleeps in the store look-up they make: 10/100 (thorough 1000) prompt online updates followed by a count of established "
                "connections to the peers' ports (/proc/self/net/tcp) and of goroutines; account-balance and rating answers delayed beyond "
                "the 5 s timeout (6.5 s) or lost (40 s), followed at once / after 3 s / with a 2.5 s answer by further updates; random "
                "patterns of prompt / 0.8 s / 2.5 s / late / lost answers, each answer delivered once, twice or three times (a relay in front "
                "of the real servers repeats it); runs of timed-out requests followed by a count of go-diameter watchdog goroutines and of "
                "answer handlers that have not returned; final reports (debit-mode settlement) whose account-balance answer is slow, late "
                "or lost, followed by the next reservation; peers that accept the connection and take 0.3-6.5 s over the TLS handshake "
                "(a TCP proxy in front of the servers holds the server's first octets back), for either client, alone, as the last "
                "dial of an update, several in a row, and combined with answers that are in time by themselves but later than 5 s "
                "after the dial began; stored account documents the servers cannot digest (quota / unitCost a number, missing, not "
                "numeric), so that the server-side handler fails without answering: request handler tasks of the two servers and "
                "sockets in any state are counted as well. Every update must complete within 14 s, must not return while a request it made "
                "is unanswered before any time-out, and act only on the "
                "answer to its own account-balance request (identified by the amount: each request tops up by a distinct sum of powers "
                "of two); observations are compared with the client machines of Model/DiamClient.lean (who answered, elapsed time within "
                "%d ms, open connections)" % PEER_TOL_MS)
    res.assumptions.append("answers racing the timer within a few milliseconds are covered by the model's adversarial scheduler and the regenerated source facts, not by these timed runs")


def explore_c18(ctx, res, replay_ops=None):
    _explore_peer(ctx, res, replay_ops, "C18")


def _sweep_phase(ctx, res, ops=None):
    """answers that arrive within microseconds of the client's 5 s timer, 400 subscribers at once (harness/cmd/peersweep.go)"""
    import concurrent.futures
    if ops is None:
        ops = ["peer sweep R 400 4996000 5002000", "peer sweep A 400 4996000 5002000"]
        if ctx.tier == "thorough":
            ops += ["peer sweep R 400 4998000 5001000", "peer sweep R 400 4990000 5010000", "peer sweep A 400 4998000 5001000",
                    "peer sweep R 200 4999000 5000500"]
    with concurrent.futures.ThreadPoolExecutor(2) as ex:
        impl = list(ex.map(lambda o: core.harness_run(ctx.harness, "peer", [o], timeout=300)[0], ops))
    model = core.driver_run(ops)
    for op, im, mo in zip(ops, impl, model):
        res.evaluations += 1
        res.traces_validated += 1
        res.nontrivial.add(op)
        res.dist["timer-edge-sweep:%s" % op.split(" ")[2]] += 1
        d = dict(x.split("=", 1) for x in im.split(" ") if "=" in x)
        if im.split(" ")[0] != "sweep":
            res.violation("oracle", "C19: the timer-edge sweep did not run (%s)" % im[:100], [op, "# impl: " + im[:300]])
        elif d.get("cross") != "0":
            res.violation("oracle", "C19: %s of %s requests made right after a request of the same subscriber had timed out acted upon the answer "
                          "to that earlier request, which arrived as its timer fired (%s)" % (d.get("cross"), d.get("n"), d.get("first", "")[:300].replace("_", " ")),
                          [op, "# impl: " + im[:600], "# model: " + mo])
        elif im != mo:
            res.violation("oracle", "C19: the timer-edge sweep left requests unanswered", [op, "# impl: " + im[:300], "# model: " + mo])
    res.extra["timer_edge_sweeps"] = len(ops)


def explore_c19(ctx, res, replay_ops=None):
    if replay_ops and replay_ops[0].split(" ")[1:2] == ["sweep"]:
        _sweep_phase(ctx, res, replay_ops)
        return
    _explore_peer(ctx, res, replay_ops, "C19")
    if replay_ops is None:
        _sweep_phase(ctx, res)
    if replay_ops is None and not getattr(ctx, "lean_ok", True) and not [v for v in res.violations if v["found_input"]]:
        # the proof obligations broke (source facts changed) and the timed scenarios found nothing: search the
        # window around the timeout for a run in which a later request hangs or takes a foreign answer
        ops = []
        for rep in range(4):
            for d in range(4984, 5006):
                ops.append("peer scen %s A%d U100 W300 U228 C" % (("imsi-20893990%d%04d" % (rep, d)).encode().hex(), d))
        log("C19: searching %d schedules around the timeout for a failing run" % len(ops))
        _explore_peer(ctx, res, ops, "C19")


_peer_trust = ["go-diameter (state machine, mux locking, connection teardown) is modelled from reading its source, not verified",
               "the go/ast fact extractor harness/cmd/diamclient.go (defer conn.Close, channel made per request, select-default send, "
               "synchronous dial: no go statement in the client function)",
               "real-time scenarios: delays keep 1.5 s clear of the 5 s timeout; the exact race is the model's business"]
PROPS["C18"] = dict(lean=["ChfVerif.Props.C18"], explore=explore_c18, gen=[gen_table("diamclient", "DiamClient.lean")], trusted=_peer_trust)
PROPS["C19"] = dict(lean=["ChfVerif.Props.C19"], explore=explore_c19, gen=[gen_table("diamclient", "DiamClient.lean")], trusted=_peer_trust)


# ------------------------------------------------------------------ C11  (no crash, no wedge)

def explore_c11(ctx, res, replay_ops=None):
    n = n_for(ctx, 40, 400)
    ops = [o for o in replay_ops if o.startswith("http ")] if replay_ops is not None else core.harness_gen(ctx.harness, "http", ctx.seed, n, ctx.tier, ())
    impl = core.harness_run_parallel(ctx.harness, "http", ops, 14) if ops else []
    for op, im in zip(ops, impl):
        t = op.split(" ")
        kind = t[2] if len(t) > 2 else "?"
        res.evaluations += 1
        res.dist["kind:" + kind] += 1
        if im in ("crash", "panic", "timeout") or im.startswith("panic"):
            res.violation("oracle", "C11: the process crashed / panicked outside the router's recovery (%s)" % im[:80], [op, "# impl: " + im[:300]])
            continue
        if im in ("bad-op", "setup-failed"):
            res.violation("oracle", "C11: the case could not be set up (%s)" % im, [op, "# impl: " + im])
            continue
        if im == "skipped":
            res.dist["skipped-after-hangs"] += 1
            res.evaluations -= 1
            continue
        d = dict(x.split("=", 1) for x in im.split(" ") if "=" in x)
        st, fu, fu2 = d.get("st", "?"), d.get("fu", "?"), d.get("fu2", "?")
        res.traces_validated += 1
        res.dist["status:" + st] += 1
        if st[:1] == "4":
            res.nontrivial.add(op)
        if len(res.samples) < 6 and st[:1] == "4":
            try:
                body = bytes.fromhex(t[3]).decode(errors="replace") if t[3] != "-" else ""
            except ValueError:
                body = "?"
            res.sample({"kind": kind, "body": body[:160], "answer": im})
        if kind == "hist" and (st == "hang" or st[:1] == "5" or "hang" in (fu, fu2) or fu[:1] == "5" or fu2[:1] == "5" or fu != "200" or fu2 != "204"):
            names = {"c": "valid create", "b": "create refused by OpenCDR", "n": "create without consumer identification", "o": "one-time event", "u": "update",
                     "x": "update naming an unknown reference", "r": "release", "R": "recharge"}
            res.violation("oracle", "C11: history [%s] of one subscriber was answered %s (4 s per request); the well-formed create+update / release that followed: %s / %s "
                          "(hang = not answered within 4 s: the subscriber is blocked)" % (", ".join(names.get(c, c) for c in t[3]), d.get("hist", "?"), fu, fu2),
                          [op, "# impl: " + im])
        elif kind == "hist":
            pass
        elif st == "hang":
            res.violation("oracle", "C11: the request was not answered within 40 s", [op, "# impl: " + im])
        elif st[:1] == "5":
            res.violation("oracle", "C11: the request was answered %s (handler panic or server error) instead of a 4xx problem description" % st,
                          [op, "# impl: " + im])
        elif st[:1] not in ("2", "3", "4"):
            res.violation("oracle", "C11: unexpected status %s" % st, [op, "# impl: " + im])
        if kind == "notifydrop" and d.get("n") != "1":
            res.violation("oracle", "%s: one accepted recharge, a consumer that has the notification and goes away without answering: the consumer "
                          "got %s notifications (exactly one is due)" % (ctx.pid, d.get("n")), [op, "# impl: " + im])
        if kind.startswith("notify") and (st != "204" or fu != "200"):
            res.violation("oracle", "C11: recharge notification to a consumer that %s: the recharge request was answered %s, the update of the same subscriber %s "
                          "(deadlines 8 s / 4 s: the subscriber is blocked while the notification is outstanding)"
                          % ("answers after 5 s" if kind == "notifyslow" else "goes away without answering" if kind == "notifydrop" else "sends an update before it answers", st, fu), [op, "# impl: " + im])
        elif fu == "hang" or fu2 == "hang":
            res.violation("oracle", "C11: after the request a well-formed request for the same subscriber was not answered within 4 s (subscriber blocked)",
                          [op, "# impl: " + im])
        elif fu[:1] == "5" or fu2[:1] == "5":
            res.violation("oracle", "C11: the follow-up request was answered %s/%s" % (fu, fu2), [op, "# impl: " + im])
        fu3 = d.get("fu3", "-")
        if fu3 != "-":
            res.dist["accepted-raw-create-followed-up"] += 1
            if "hang" in fu3 or any(x[:1] == "5" for x in fu3.split("/")):
                res.violation("oracle", "C11: the session opened by the (accepted) raw create was then updated and released with the same body: answered %s" % fu3,
                              [op, "# impl: " + im])
    # --- well-formed requests in histories (accounts that run out, are overdrawn, recharged; several sessions; FINAL reports): none
    #     may be answered 5xx, whatever the account-balance and rating servers answer
    if replay_ops is None or any(o.startswith("chf ") for o in replay_ops):
        rc = chf_run(ctx, res, n_for(ctx, 400, 4000), replay_ops)
        for i, (op, im) in enumerate(zip(rc.ops, rc.impl)):
            if op.split()[1] in ("create", "update", "release", "recharge"):
                res.evaluations += 1
                m5 = re.match(r"st=(5\d\d|0)\b", im)
                if m5 or im.split(" ")[0] in ("panic", "crash", "hang"):
                    res.violation("oracle", "C11: a well-formed request of a charging history was answered %s" % (m5.group(1) if m5 else im.split(" ")[0]),
                                  _chf_history(rc.ops, i) + ["# impl: " + strip_annot(im)[:400]])
                    break
                res.traces_validated += 1
    # --- long sessions: requests that cross the 65535-octet record limit (the record is split), among them one that is also the
    #     session's first online report with a trigger (a partial record is cut by the same request)
    if replay_ops is None or any(o.startswith("cdrsize ") for o in replay_ops):
        sops = [o for o in replay_ops if o.startswith("cdrsize ")] if replay_ops is not None else \
            core.harness_gen(ctx.harness, "cdrsize", ctx.seed, 0, ctx.tier, ("-mode", "online"))
        simpl = core.harness_run(ctx.harness, "cdrsize", sops)
        start = 0
        for i, (op, im) in enumerate(zip(sops, simpl)):
            t = op.split(" ")
            if t[1] == "reset":
                start = i
            if t[1] in ("reset", "end"):
                continue
            res.evaluations += 1
            res.dist["long-session:" + t[1]] += 1
            st = (re.findall(r"^st=(\d+)", im) or ["?"])[0]
            if im.split(" ")[0] in ("panic", "crash", "timeout", "bad-op"):
                res.violation("oracle", "C11: %s while a long session was served" % im.split(" ")[0], sops[start:i + 1] + ["# impl: " + im[:200]])
            elif st[:1] not in ("2", "4"):
                res.violation("oracle", "C11: a well-formed request of a long session (record split at 65535 octets) was answered %s" % st,
                              sops[start:i + 1] + ["# impl: " + im[:160]])
            else:
                res.traces_validated += 1
    # --- "any order of requests" includes requests that overlap: requests naming unknown references in loops next to creates, updates
    #     and releases of the same subscriber, on the race-detector build (an unsynchronised look-up in the session map is a fatal
    #     "concurrent map read and map write" that no recovery middleware catches)
    _hammer_phase(ctx, res, "C11", "hammer-lookup", replay_ops)
    res.rule = ("raw requests through the real router: a full ChargingDataRequest (all optional blocks present) with every single member "
                "removed / null / {} / emptied, pairs of members removed (all pairs in thorough), random multi-member removals, 21 odd "
                "subscriber identifiers, 25 MCC/MNC shapes, 13 bodies that are not a request object, 9 session references, 17 recharging "
                "path parameters - as create, update and release; each followed by a well-formed online update and a release of the "
                "same subscriber under a 4 s deadline. Oracle: status 2xx/3xx/4xx (never 5xx, never a hang), follow-ups answered in time "
                "and not 5xx; recharge notifications to a consumer that answers after 5 s / sends an update before it answers (the update must be "
                "answered within 4 s); sessions grown across the 65535-octet record limit, the crossing update also being the first online "
                "report with a trigger (never 5xx); every history of up to 3 (thorough 4) requests over {create, refused create, one-time event, update, "
                "release, unknown reference, recharge} + random longer ones, each followed by create/update/release of the subscriber under 4 s; "
                "loops of unknown-reference requests next to creates/updates/releases of one subscriber on the race-detector build. "
                "non-trivial = request answered 4xx")


PROPS["C11"] = dict(lean=["ChfVerif.Props.C11"], explore=explore_c11, race=True, gen=[gen_table("locksites", "LockSites.lean")],
                    trusted=["gin's recovery middleware (a handler panic becomes a 500 and the process goes on) is modelled",
                             "the go/ast lock-site extractor harness/cmd/locksites.go; 'calls = 0' between Lock and the deferred unlock is syntactic",
                             "the status half is proved for the charging model's inputs only and explored for raw bodies (partial)"])


# ------------------------------------------------------------------ C09  (concurrency)

def _mask_state(st):
    """the global record numbering is assigned in a step of its own (OpenCDR under the context lock): it is
    unique but need not follow the order of the session counter; compared for uniqueness, not for order"""
    return re.sub(r",lsn=\d+,", ",lsn=*,", st)


def _conc_scenarios(ops, impl):
    """split the stream at resets: list of (prefix chf lines, batch chf lines, go observation, fu observation, replay lines)"""
    out, cur = [], None
    for op, im in zip(ops, impl):
        t = op.split(" ")
        if t[1] == "seq" and t[2] == "reset":
            if cur and cur["go"] is not None:
                out.append(cur)
            cur = dict(prefix=["chf reset"], batch=[], go=None, fu=None, replay=[op], bad=None)
            continue
        if cur is None or t[1] in ("notify", "burst", "hammer"):
            continue
        if t[1] == "cgf":
            cur["replay"].append(op)
            continue
        cur["replay"].append(op)
        if t[1] == "seq":
            cur["prefix"].append("chf " + " ".join(t[2:]))
            if im.split(" ")[0] in ("panic", "crash", "timeout"):
                cur["bad"] = im
        elif t[1] == "par":
            cur["batch"].append("chf " + " ".join(t[2:]))
        elif t[1] == "go":
            cur["go"] = im
        elif t[1] == "fu":
            cur["fu"] = im
    if cur and cur["go"] is not None:
        out.append(cur)
    return out


def _conc_extra(res, ops, impl, pid):
    """the conc stream's stand-alone operations: notifications to a consumer that is not passive; create bursts"""
    for op, im in zip(ops, impl):
        t = op.split(" ")
        if t[1] == "notify":
            res.evaluations += 1
            res.dist["notify:" + t[2]] += 1
            d = dict(x.split("=", 1) for x in im.split(" ") if "=" in x)
            st, fu = d.get("st", "?"), d.get("fu", "?")
            if st != "204" or fu != "200":
                what = {"slow": "while the consumer had not yet answered a recharge notification, an update of the same subscriber sent 300 ms later",
                        "reenter": "the update which the consumer sends before it answers a recharge notification"}[t[2]]
                res.violation("oracle", "%s: %s was %s; the recharge request itself: %s (deadline 4 s / 8 s: the subscriber is blocked while the notification is outstanding)"
                              % (pid, what, "not answered" if fu == "hang" else "answered " + fu, st), [op, "# impl: " + im])
            else:
                res.traces_validated += 1
        elif t[1] == "burst":
            res.evaluations += 1
            res.dist["burst:" + t[2]] += 1
            d = dict(x.split("=", 1) for x in im.split(" ") if "=" in x)
            n = int(t[2]) * int(t[4])
            if d.get("done") != "1":
                res.violation("oracle", "%s: %d concurrent creates for new subscribers did not all return within 60 s (%s)" % (pid, n, im[:80]), [op, "# impl: " + im])
                continue
            cnt, lo, hi, dups = (d.get("lsn", "0:0:0:").split(":") + [""])[:4]
            if d.get("created") != str(n) or (cnt, lo, hi, dups) != (str(n), "1", str(n), ""):
                res.violation("oracle", "%s: %d creates sent by %s goroutines at once (acknowledged: %s) left %s records numbered %s..%s%s - any serial order numbers them 1..%d, each once"
                              % (pid, n, t[2], d.get("created"), cnt, lo, hi, (", these numbers more than once: " + dups) if dups else "", n), [op, "# impl: " + im])
            else:
                res.traces_validated += 1


def _conc_check(res, ops, impl, gmp, pid):
    """every batch of the conc stream: all requests return, no 5xx, and some serial order of the batch, replayed through
    the Lean charging model, reproduces every response and the quiescent state"""
    import itertools
    for sc in _conc_scenarios(ops, impl):
        res.evaluations += 1
        k = len(sc["batch"])
        res.dist["in-flight=%d" % k] += 1
        res.dist["GOMAXPROCS=%d" % gmp] += 1
        go = sc["go"]
        if go == "skipped":
            res.dist["skipped-after-deadlock"] += 1
            res.evaluations -= 1
            continue
        if sc["bad"] or go in ("crash", "panic") or not go.startswith("done="):
            res.violation("oracle", "%s: " % pid + "crash while requests were in flight (%s)" % (sc["bad"] or go)[:100], sc["replay"] + ["# impl: " + go[:300]])
            continue
        if go.startswith("done=0"):
            res.violation("oracle", "%s: " % pid + ("%d concurrent requests did not all return within 20 s (deadlock)" % k if k > 1 else
                                                     "a request (nothing else in flight) did not return within 20 s (deadlock)"), sc["replay"] + ["# impl: " + go])
            continue
        gt = go.split(" ")
        rs = gt[2][2:].split(";")
        state = _mask_state(" ".join(gt[3:]))
        res.traces_validated += 1
        res.nontrivial.add("%d:%s" % (gmp, sc["replay"][-3] if len(sc["replay"]) > 2 else ""))
        # follow-ups: every acknowledged session can still be updated and released
        fu = sc["fu"] or "fu=-"
        if fu != "fu=-":
            for x in fu[3:].split(","):
                if x != "200/204":
                    res.violation("oracle", "%s: " % pid + "a session whose creation was acknowledged during the batch could not be updated and released afterwards (%s)" % x,
                                  sc["replay"] + ["# impl: " + go[:400], "# follow-up: " + fu])
        # the 5xx / panic case
        if any(x.startswith("st=5") for x in rs):
            res.violation("oracle", "%s: " % pid + "a concurrent request was answered 5xx", sc["replay"] + ["# impl: " + go[:400]])
            continue
        # some serial order of the batch must explain every response and the quiescent state (Lean model)
        if k <= 5:
            q, perms = [], list(itertools.permutations(range(k)))
            for pm in perms:
                q += sc["prefix"] + [sc["batch"][i] for i in pm]
            out = core.driver_run(q)
            L = len(sc["prefix"]) + k
            found = None
            for pi, pm in enumerate(perms):
                lines = [strip_annot(x) for x in out[pi * L + len(sc["prefix"]):(pi + 1) * L]]
                ok = True
                for pos, i in enumerate(pm):
                    mt = lines[pos].split(" ")
                    if ",".join(mt[:6]) != rs[i]:
                        ok = False
                        break
                if ok:
                    mstate = _mask_state(" ".join(lines[-1].split(" ")[7:]))
                    if mstate == state:
                        found = pm
                        break
            if found is None:
                res.disagreements += 1
                res.violation("oracle", "%s: " % pid + "no serial order of the %d concurrent requests explains their responses and the state they left (Lean charging model, all %d orders tried)" % (k, len(perms)),
                              sc["replay"] + ["# impl: " + go[:3000]])
            else:
                res.dist["serial-order-found"] += 1
                if len(res.samples) < 5:
                    res.sample({"in_flight": sc["batch"][:3], "responses": rs, "explained_by_order": list(found)})
        else:
            # large batches: quiescent-state invariants only (exactly-once recording)
            seen = re.findall(r"~(\d+)/", state)
            res.dist["large-batch-invariants"] += 1
            if len(seen) != len(set(seen)):
                res.violation("oracle", "%s: " % pid + "a usage container was recorded more than once", sc["replay"] + ["# impl: " + go[:3000]])
            want = set(re.findall(r" (\d+)$", b)[0] for b in sc["batch"] if " update " in b or " release " in b)
            okst = [b for b, x in zip(sc["batch"], rs) if x.startswith("st=200") or x.startswith("st=204")]
            want = set(re.findall(r" (\d+)$", b)[0] for b in okst if " update " in b or " release " in b)
            if not want <= set(seen):
                res.violation("oracle", "%s: " % pid + "a usage container of an accepted concurrent request is missing from the records", sc["replay"] + ["# impl: " + go[:3000]])


def _conc_corpus(pid, cgf):
    """regression inputs of the conc stream (corpus/<pid>/*.ops), run first on every run; files that drive the CDR transfer
    (`conc cgf` lines) belong to the cgf scenarios"""
    import glob
    out = []
    for p in sorted(glob.glob(os.path.join(core.VERIF, "corpus", pid, "*.ops"))):
        lines = [l.strip() for l in open(p) if l.strip() and not l.startswith("#") and l.split()[0] == "conc"]
        if any(l.startswith("conc cgf ") for l in lines) == cgf:
            out += lines
    return out


def explore_c09(ctx, res, replay_ops=None):
    n = n_for(ctx, 24, 200)
    ops = replay_ops if replay_ops is not None else _conc_corpus("C09", False) + core.harness_gen(ctx.harness, "conc", ctx.seed, n, ctx.tier, ())
    h = getattr(ctx, "harness_race", None) or ctx.harness
    res.extra["race_detector"] = bool(getattr(ctx, "harness_race", None))
    procs = [4, 16] if ctx.tier == "quick" else [1, 2, 4, 8, 16]
    for gmp in procs:
        impl = core.harness_run(h, "conc", ops, env_extra={"GOMAXPROCS": str(gmp), "GORACE": "halt_on_error=0"})
        # (after a batch that did not return, the requests left behind run next to whatever the harness does next: a deadlock is
        #  reported as such, not as the races that follow from it)
        if not any(x.startswith("done=0") for x in impl):
            _race_scan(res, "C09", ops, gmp, "batches and loops of concurrent requests")
        _conc_extra(res, ops, impl, "C09")
        _hammer_check(res, ops, impl, "C09")
        _conc_check(res, ops, impl, gmp, "C09")
    # CDR transfer to the billing domain enabled (cgf): requests while the FTP control connection is up, after the billing domain dropped
    # it, while it is unreachable - one at a time, then several subscribers' requests in flight together (race-detector build)
    if replay_ops is None:
        cops = _conc_corpus("C09", True) + core.harness_gen(ctx.harness, "conc", ctx.seed, 0, ctx.tier, ("-mode", "cgf"))
        cimpl = core.harness_run(h, "conc", cops, env_extra={"GOMAXPROCS": "4", "GORACE": "halt_on_error=0"})
        if not any(x.startswith("done=0") for x in cimpl):
            _race_scan(res, "C09", cops, 4, "CDR transfer to the billing domain enabled")
        for op, im in zip(cops, cimpl):
            if op.startswith("conc cgf ") and not im.startswith("ok"):
                res.violation("oracle", "C09: the CDR-transfer scenario could not be set up (%s)" % im, [op, "# impl: " + im], found_input=False)
            elif op.startswith("conc cgf "):
                res.dist["cgf:" + op.split()[2]] += 1
                m = re.search(r"stor=(\d+) .*torn=(\d+):(\d+)/(-?\d+)", im)
                if m and op.split()[2] == "off":
                    res.violation("oracle", "C09: %s of the %s CDR files that arrived in the billing domain are not whole files (the first: %s octets received, "
                                  "the file header says %s): a file was transferred while another request of the subscriber was rewriting it" % (
                                      m.group(2), m.group(1), m.group(3), m.group(4)), [o for o in cops if not o.startswith("conc seq end")] + ["# impl: " + im])
                elif op.split()[2] == "off":
                    ms = re.search(r"stor=(\d+)", im)
                    res.extra["cdr_files_transferred_whole"] = int(ms.group(1)) if ms else 0
        _hammer_check(res, cops, cimpl, "C09")
        _conc_check(res, cops, cimpl, 4, "C09")
    res.rule = ("batches of 2-5 (thorough: up to 16) requests released together through the real router, built with the Go race detector, under "
                "GOMAXPROCS %s: k updates of one session; updates of two sessions + a release + a recharge notification of one subscriber; k creates "
                "of the same new SUPI; creates and updates of different subscribers. All must return within 20 s; no race report, no fatal error; "
                "for k <= 5 every permutation of the batch is replayed through the Lean charging model and one of them must reproduce every "
                "response and the quiescent state exactly (record numbering compared up to order); every session acknowledged in the batch "
                "is then updated and released; for larger batches: exactly-once recording of the accepted containers; batches with one-time events; loops "
                "(hammer) of one-time events / refused creates / unknown-reference requests next to creates, updates and releases of one subscriber; "
                "CDR transfer to the billing domain enabled (FTP responder up / dropped / unreachable), one request at a time and 3-5 subscribers' creates together" % procs)


PROPS["C09"] = dict(lean=["ChfVerif.Props.C09"], explore=explore_c09, race=True, gen=[gen_table("locksites", "LockSites.lean")],
                    trusted=["the Go race detector and scheduler: interleavings are sampled, not enumerated (the theorem is about atomic steps; that the code's steps are atomic is what the runs test)",
                             "go-diameter and the in-memory store under concurrency"])
