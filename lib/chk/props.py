"""Per-property exploration: which Lean modules, which streams, what `holds` means on a trace."""
import os
from . import core
from .core import log

TRUSTED_COMMON = [
    "Lean 4.33 kernel",
    "correspondence harness (/verif/harness, built by go -overlay from the working tree) and its generators",
    "Go standard library and third-party packages are modelled, not verified",
]

PROPS = {}


def regen(ctx, spec):
    for g in spec.get("gen", []):
        g(ctx)


def replay(ctx, spec, res, path):
    ops = [l.strip() for l in open(path) if l.strip() and not l.startswith("#")]
    spec["explore"](ctx, res, replay_ops=ops)


def n_for(ctx, quick, thorough):
    return quick if ctx.tier == "quick" else thorough


# ------------------------------------------------------------------ C14 / C15  (cdrFile)

def _cdrfile_common(ctx, res, replay_ops, want_spec):
    n = n_for(ctx, 400, 6000)
    r = ctx.stream("cdrfile", n, ops=replay_ops)
    spec_q, spec_idx = [], []
    for i, (op, im, mo) in enumerate(zip(r.ops, r.impl, r.model)):
        t = op.split()
        kind = t[1]
        if kind != "rt":
            # outside the property's domain (non-well-formed structures, damaged files):
            # model fidelity is reported, it does not decide the property
            agree = (im == mo) or (kind == "dec" and mo == "panic")
            res.outside_domain[kind + (":agree" if agree else ":differ")] += 1
            continue
        res.evaluations += 1
        res.dist["rt"] += 1
        ftoks = t[2:]
        nrec = int(ftoks[31])
        res.dist["records=%d" % min(nrec, 3)] += 1
        res.dist["high7" if ftoks[2] == "7" else "high<7"] += 1
        res.dist["low7" if ftoks[4] == "7" else "low<7"] += 1
        if nrec > 0 or ftoks[2] == "7" or ftoks[4] == "7" or ftoks[26] != "-":
            res.nontrivial.add(op)
        res.sample({"op": op[:300], "impl": im[:200]})
        if im != mo:
            res.disagreements += 1
            res.violation("correspondence", "cdrfile: model and implementation differ on a well-formed file",
                          [op, "# impl:  " + im[:2000], "# model: " + mo[:2000]], found_input=False)
        it = im.split()
        if not want_spec:
            # C14: Decoding(Encoding(f)) == f
            ok = it and it[0] == "ok" and it[2:] == ftoks
            res.traces_validated += 1
            if not ok:
                res.violation("roundtrip", "Decoding(Encoding(f)) differs from f (or panics) for a well-formed f",
                              [op, "# impl: " + im[:2000]])
        else:
            if it and it[0] in ("ok", "panic") and len(it) > 1:
                spec_q.append("cdrfile spec " + it[1])
                spec_idx.append(i)
    if want_spec and spec_q:
        out = core.driver_run(spec_q)
        for i, o in zip(spec_idx, out):
            res.traces_validated += 1
            ftoks = r.ops[i].split()[2:]
            ot = o.split()
            if not (ot and ot[0] == "ok" and ot[1:] == ftoks):
                res.violation("layout", "independent TS 32.297 reader does not recover the structure from the "
                              "bytes written by Encoding", [r.ops[i], "# impl bytes: " + spec_q[spec_idx.index(i)][:2000],
                                                            "# spec reader: " + o[:2000]])
    res.exhaustive = False
    res.extra["exhaustive_subspace"] = "all 64 (high,low) release-identifier pairs, each with extension octets iff 7"
    res.rule = ("well-formed CDRFile structures generated from the Go types (all 64 identifier pairs first, then "
                "seeded random: field values at 0/max/random within TS 32.297 widths, filter/extension lengths "
                "0,1,255..257,<40 (thorough: 65485..65535), 0-5 records); an input is non-trivial when it has "
                "records, an extension octet or a routeing filter; distinct = distinct operation lines")


def explore_c14(ctx, res, replay_ops=None):
    _cdrfile_common(ctx, res, replay_ops, want_spec=False)


def explore_c15(ctx, res, replay_ops=None):
    _cdrfile_common(ctx, res, replay_ops, want_spec=True)


PROPS["C14"] = dict(lean=["ChfVerif.Props.C14"], explore=explore_c14,
                    trusted=["os.WriteFile/os.ReadFile, encoding/binary (modelled)"])
PROPS["C15"] = dict(lean=["ChfVerif.Props.C15"], explore=explore_c15,
                    trusted=["Spec/TS32297.lean is my transcription of TS 32.297 clause 6.1 as restated in C15",
                             "os.WriteFile, encoding/binary (modelled)"])
