"""Per-property exploration: which Lean modules, which streams, what `holds` means on a trace."""
import os
from . import core
from .core import log

TRUSTED_COMMON = [
    "Lean 4.33 kernel",
    "correspondence harness (/verif/harness, built by go -overlay from the working tree) and its generators",
    "Go standard library and third-party packages are modelled, not verified",
]

PROPS = {}


def regen(ctx, spec):
    for g in spec.get("gen", []):
        g(ctx)


def replay(ctx, spec, res, path):
    ops = [l.strip() for l in open(path) if l.strip() and not l.startswith("#")]
    spec["explore"](ctx, res, replay_ops=ops)


def n_for(ctx, quick, thorough):
    return quick if ctx.tier == "quick" else thorough


# ------------------------------------------------------------------ C14 / C15  (cdrFile)

def _cdrfile_common(ctx, res, replay_ops, want_spec):
    n = n_for(ctx, 400, 6000)
    r = ctx.stream("cdrfile", n, ops=replay_ops)
    spec_q, spec_idx = [], []
    for i, (op, im, mo) in enumerate(zip(r.ops, r.impl, r.model)):
        t = op.split()
        kind = t[1]
        if kind != "rt":
            # outside the property's domain (non-well-formed structures, damaged files):
            # model fidelity is reported, it does not decide the property
            agree = (im == mo) or (kind == "dec" and mo == "panic")
            res.outside_domain[kind + (":agree" if agree else ":differ")] += 1
            continue
        res.evaluations += 1
        res.dist["rt"] += 1
        ftoks = t[2:]
        nrec = int(ftoks[31])
        res.dist["records=%d" % min(nrec, 3)] += 1
        res.dist["high7" if ftoks[2] == "7" else "high<7"] += 1
        res.dist["low7" if ftoks[4] == "7" else "low<7"] += 1
        if nrec > 0 or ftoks[2] == "7" or ftoks[4] == "7" or ftoks[26] != "-":
            res.nontrivial.add(op)
        res.sample({"op": op[:300], "impl": im[:200]})
        if im != mo:
            res.disagreements += 1
            res.violation("correspondence", "cdrfile: model and implementation differ on a well-formed file",
                          [op, "# impl:  " + im[:2000], "# model: " + mo[:2000]], found_input=False)
        it = im.split()
        if not want_spec:
            # C14: Decoding(Encoding(f)) == f
            ok = it and it[0] == "ok" and it[2:] == ftoks
            res.traces_validated += 1
            if not ok:
                res.violation("roundtrip", "Decoding(Encoding(f)) differs from f (or panics) for a well-formed f",
                              [op, "# impl: " + im[:2000]])
        else:
            if it and it[0] in ("ok", "panic") and len(it) > 1:
                spec_q.append("cdrfile spec " + it[1])
                spec_idx.append(i)
    if want_spec and spec_q:
        out = core.driver_run(spec_q)
        for i, o in zip(spec_idx, out):
            res.traces_validated += 1
            ftoks = r.ops[i].split()[2:]
            ot = o.split()
            if not (ot and ot[0] == "ok" and ot[1:] == ftoks):
                res.violation("layout", "independent TS 32.297 reader does not recover the structure from the "
                              "bytes written by Encoding", [r.ops[i], "# impl bytes: " + spec_q[spec_idx.index(i)][:2000],
                                                            "# spec reader: " + o[:2000]])
    res.exhaustive = False
    res.extra["exhaustive_subspace"] = "all 64 (high,low) release-identifier pairs, each with extension octets iff 7"
    res.rule = ("well-formed CDRFile structures generated from the Go types (all 64 identifier pairs first, then "
                "seeded random: field values at 0/max/random within TS 32.297 widths, filter/extension lengths "
                "0,1,255..257,<40 (thorough: 65485..65535), 0-5 records); an input is non-trivial when it has "
                "records, an extension octet or a routeing filter; distinct = distinct operation lines")


def explore_c14(ctx, res, replay_ops=None):
    _cdrfile_common(ctx, res, replay_ops, want_spec=False)


def explore_c15(ctx, res, replay_ops=None):
    _cdrfile_common(ctx, res, replay_ops, want_spec=True)


PROPS["C14"] = dict(lean=["ChfVerif.Props.C14"], explore=explore_c14,
                    trusted=["os.WriteFile/os.ReadFile, encoding/binary (modelled)"])
PROPS["C15"] = dict(lean=["ChfVerif.Props.C15"], explore=explore_c15,
                    trusted=["Spec/TS32297.lean is my transcription of TS 32.297 clause 6.1 as restated in C15",
                             "os.WriteFile, encoding/binary (modelled)"])


# ------------------------------------------------------------------ C07  (account balance server)

def explore_c07(ctx, res, replay_ops=None):
    n = n_for(ctx, 1500, 30000)
    r = ctx.stream("abmf", n, ops=replay_ops)
    cur = {}

    def render():
        items = sorted("%s/%s=%s" % (k[0], k[1], v) for k, v in cur.items())
        return ",".join(items) if items else "-"

    def absorb(dump):
        cur.clear()
        if dump != "-":
            for it_ in dump.split(","):
                k, v = it_.split("=")
                ue_, rg_ = k.split("/")
                cur[(ue_, rg_)] = v
    judge_q, judge_idx = [], []
    panics = 0
    for i, (op, im, mo) in enumerate(zip(r.ops, r.impl, r.model)):
        t = op.split()
        if t[1] == "reset":
            cur.clear()
            continue
        if t[1] == "set":
            cur[(t[2], t[3])] = t[4]
            continue
        before = render()
        res.evaluations += 1
        rsu, usu = int(t[9]), int(t[10])
        in_domain = rsu < 2 ** 63 and usu < 2 ** 63
        act, ty = int(t[5]), int(t[3])
        kind = {0: {1: "reserve", 2: "reserve", 3: "termination"}.get(ty, "debit-other"), 1: "refund",
                2: "check-balance", 3: "price-enquiry"}.get(act, "other-action")
        res.dist[kind] += 1
        it = im.split()
        res.dist["reply:" + (it[0] if it else "?")] += 1
        if not in_domain:
            res.outside_domain["amount>=2^63:" + ("agree" if im == mo else "differ")] += 1
        else:
            if im != mo:
                res.disagreements += 1
                res.violation("correspondence", "abmf: model and implementation differ",
                              _history(r.ops, i) + ["# impl:  " + im, "# model: " + mo], found_input=False)
            if it and it[0] == "ans":
                res.nontrivial.add(" ".join(t[3:6] + t[8:]))
            res.sample({"op": op, "impl": im})
            if it and it[0] == "panic":
                panics += 1
                res.violation("crash", "the account-balance server panicked on a request", _history(r.ops, i) + ["# impl: " + im])
            elif it:
                judge_q.append("abmfjudge %s %s %s" % (before, " ".join(t[2:]), im))
                judge_idx.append(i)
        if it and it[0] in ("ans", "noanswer", "panic"):
            absorb(it[-1])
    if judge_q:
        out = core.driver_run(judge_q)
        for i, o, q in zip(judge_idx, out, judge_q):
            res.traces_validated += 1
            if o != "holds":
                res.violation("oracle", "C07 step predicate (Abmf.holds) fails on the implementation's trace: " + o,
                              _history(r.ops, i) + ["# judged: " + q])
    res.rule = ("histories of CCRs against the real server over Diameter/TLS: 1-3 accounts per history (balances: "
                "boundary values, negative, malformed text), 4 actions x 4 request types, amounts at 0/1/bal±1/2^31/"
                "2^32/2^63-1, ~6% unknown subscriber/rating group/id type; non-trivial = answered request, distinct by "
                "(type, number, action, rating group, amounts)")


def _history(ops, i):
    """the operations of the current history (since the last reset) up to and including i"""
    j = i
    while j > 0 and ops[j].split()[1] != "reset":
        j -= 1
    return ops[j:i + 1]


PROPS["C07"] = dict(lean=["ChfVerif.Props.C07"], explore=explore_c07,
                    trusted=["go-diameter (transport, AVP codec, panic recovery) and strconv.ParseInt/FormatInt are "
                             "modelled; MongoDB replaced by an in-memory store behind RestfulAPIGetOne/PutOne"])


# ------------------------------------------------------------------ C08  (rating server)

def explore_c08(ctx, res, replay_ops=None):
    n = n_for(ctx, 1500, 30000)
    r = ctx.stream("rf", n, ops=replay_ops)
    stored = {}
    judge_q, judge_idx = [], []
    for i, (op, im, mo) in enumerate(zip(r.ops, r.impl, r.model)):
        t = op.split()
        if t[1] == "reset":
            stored = {}
            continue
        if t[1] == "set":
            stored[(t[2], t[3])] = t[4]
            continue
        res.evaluations += 1
        res.dist["sub=%s" % t[6]] += 1
        it = im.split()
        res.dist["reply:" + (it[0] if it else "?")] += 1
        if im != mo:
            res.disagreements += 1
            res.violation("correspondence", "rf: model and implementation differ",
                          _history(r.ops, i) + ["# impl:  " + im, "# model: " + mo], found_input=False)
        ue = ("696d73692d" + (t[4] if t[4] != "-" else "")) if t[3] == "1" else "-"
        st = stored.get((ue, t[5]), "?")
        res.dist["cost=" + ("unknown" if st == "?" else bytes.fromhex(st if st != "-" else "").decode(errors="replace")[:12])] += 1
        if it and it[0] == "ans":
            res.nontrivial.add((st, t[6], t[7], t[8]))
        res.sample({"op": op, "stored_cost_hex": st, "impl": im})
        if it and it[0] == "panic":
            res.violation("crash", "the rating server panicked (stopped answering) on a request",
                          _history(r.ops, i) + ["# impl: " + im])
        elif it and it[0] in ("ans", "noanswer"):
            rep = im if it[0] == "noanswer" else " ".join(it[:6])
            judge_q.append("rfjudge %s %s %s" % (st, " ".join(t[2:]), rep))
            judge_idx.append(i)
            # the CHF-side formula as compiled (computed by the harness) must equal the model's chfUnitCost
        else:
            res.violation("oracle", "unexpected reply " + im, _history(r.ops, i))
    if judge_q:
        out = core.driver_run(judge_q)
        for i, o, q in zip(judge_idx, out, judge_q):
            res.traces_validated += 1
            if o != "holds":
                res.violation("oracle", "C08 exchange predicate (Rating.holds) fails on the implementation's trace: " + o,
                              _history(r.ops, i) + ["# judged: " + q])
    res.rule = ("SURs against the real rating server over Diameter/TLS; stored unit-cost strings: integers incl. 0 "
                "and > 2^32, decimal fractions, signs, spaces, empty and non-numeric text (thorough: random strings of "
                "length <= 3 over 0-9.+-a); sub-types reserve/debit/AoC/release/unknown; amounts at boundaries of "
                "2^16/2^31/2^32; non-trivial = answered, distinct by (cost string, sub-type, consumed, quota)")


PROPS["C08"] = dict(lean=["ChfVerif.Props.C08"], explore=explore_c08,
                    trusted=["go-diameter, strconv.Atoi, math.Pow10 -> uint32 conversion (amd64) are modelled",
                             "MongoDB replaced by an in-memory store"])
