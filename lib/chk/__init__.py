from .core import main  # noqa: F401
