"""Core of ./check: builds, Lean obligations, stream runner, classification, evidence."""
import collections
import fcntl
import glob
import hashlib
import json
import os
import re
import shutil
import subprocess
import sys
import time

VERIF = os.path.dirname(os.path.dirname(os.path.dirname(os.path.abspath(__file__))))
REPO = os.path.abspath(os.environ.get("VERIF_REPO", "/repo"))
BUILD = os.path.join(VERIF, "build")
LEAN = os.path.join(VERIF, "lean")
HARNESS_SRC = os.path.join(VERIF, "harness")
REPO_KEY = hashlib.sha1(REPO.encode()).hexdigest()[:8]
ALLOWED_AXIOMS = {"propext", "Classical.choice", "Quot.sound"}

GOENV = dict(os.environ, GOFLAGS="-mod=mod", GOPROXY="off", GOSUMDB="off", GOTOOLCHAIN="local")


def log(*a):
    print("[check]", *a, file=sys.stderr, flush=True)


class Lock:
    """Serialises go build / Gen regeneration / lake build between concurrent checks."""

    def __init__(self, name="build"):
        os.makedirs(BUILD, exist_ok=True)
        self.path = os.path.join(BUILD, "." + name + ".lock")

    def __enter__(self):
        self.f = open(self.path, "w")
        fcntl.flock(self.f, fcntl.LOCK_EX)
        return self

    def __exit__(self, *a):
        fcntl.flock(self.f, fcntl.LOCK_UN)
        self.f.close()


def run(cmd, cwd=None, env=None, inp=None, timeout=None):
    p = subprocess.run(cmd, cwd=cwd, env=env, input=inp, stdout=subprocess.PIPE,
                       stderr=subprocess.PIPE, timeout=timeout)
    return p.returncode, p.stdout, p.stderr


# --------------------------------------------------------------------------- harness

def module_dir(mod):
    rc, out, err = run(["go", "list", "-m", "-f", "{{.Dir}}", mod], cwd=REPO, env=GOENV)
    if rc != 0:
        raise RuntimeError("go list -m %s: %s" % (mod, err.decode()))
    return out.decode().strip()


def _struct_field(src, struct, typ, default):
    """name of the (first) field of type `typ` in `type <struct> struct {…}`"""
    m = re.search(r"type\s+%s\s+struct\s*\{(.*?)\n\}" % struct, src, flags=re.S)
    if m:
        for line in m.group(1).splitlines():
            f = line.split("//")[0].split()
            if len(f) >= 2 and f[-1] == typ:
                return f[0].rstrip(",")
    return default


def export_names():
    """the unexported names the accessor files refer to, looked up in the working tree (a renamed helper or field is not a
    broken tie): the method Server.Run starts as a goroutine, the router field of sbi.Server, the server field of ChfApp"""
    names = {"sbi.startServer": "startServer", "sbi.routerField": "router", "service.sbiServerField": "sbiServer"}
    try:
        src = "\n".join(open(f).read() for f in sorted(glob.glob(os.path.join(REPO, "internal", "sbi", "*.go"))) if not f.endswith("_test.go"))
        m = re.search(r"func \((\w+) \*Server\) Run\(.*?\n\}", src, flags=re.S)
        if m:
            g = re.search(r"\bgo\s+%s\.(\w+)\(\s*\w+\s*\)" % re.escape(m.group(1)), m.group(0))
            if g:
                names["sbi.startServer"] = g.group(1)
        names["sbi.routerField"] = _struct_field(src, "Server", "*gin.Engine", "router")
        src = "\n".join(open(f).read() for f in sorted(glob.glob(os.path.join(REPO, "pkg", "service", "*.go"))) if not f.endswith("_test.go"))
        names["service.sbiServerField"] = _struct_field(src, "ChfApp", "*sbi.Server", "sbiServer")
    except OSError:
        pass
    return names


def overlay_map():
    rep = {}
    for f in sorted(glob.glob(os.path.join(HARNESS_SRC, "cmd", "*.go"))):
        rep[os.path.join(REPO, "cmd", "verifharness", os.path.basename(f))] = f
    # add-only accessor files dropped into existing packages:  export/<pkg path with __>/x.go
    for d in sorted(glob.glob(os.path.join(HARNESS_SRC, "export", "*"))):
        pkg = os.path.basename(d).replace("__", "/")
        for f in sorted(glob.glob(os.path.join(d, "*.go"))):
            body = open(f).read()
            if "{{" in body:
                for k, v in export_names().items():
                    body = body.replace("{{%s}}" % k, v)
                f = os.path.join(BUILD, "export_%s_%s_%s" % (REPO_KEY, os.path.basename(d), os.path.basename(f)))
                write_if_changed(f, body)
            rep[os.path.join(REPO, pkg, "zz_verif_" + os.path.basename(f).split("_")[-1])] = f
    # registry of every type declared in cdr/cdrType (regenerated from the working tree)
    reg = os.path.join(BUILD, "zz_registry_%s.go" % REPO_KEY)
    names = []
    for f in sorted(glob.glob(os.path.join(REPO, "cdr", "cdrType", "*.go"))):
        for m in re.finditer(r"^type\s+([A-Z]\w*)\s", open(f).read(), flags=re.M):
            names.append(m.group(1))
    names = sorted(set(names))
    body = "//go:build verif\n\npackage main\n\nimport (\n\t\"reflect\"\n\n\t\"github.com/free5gc/chf/cdr/cdrType\"\n)\n\n" \
           "var cdrTypeNames = []string{%s}\n\nvar cdrTypes = map[string]reflect.Type{\n%s}\n" % (
               ", ".join('"%s"' % n for n in names),
               "".join('\t"%s": reflect.TypeOf(cdrType.%s{}),\n' % (n, n) for n in names))
    write_if_changed(reg, body)
    rep[os.path.join(REPO, "cmd", "verifharness", "zz_registry.go")] = reg
    fake = os.path.join(HARNESS_SRC, "fake", "mongoapi.go")
    if os.path.exists(fake):
        rep[os.path.join(module_dir("github.com/free5gc/util"), "mongoapi", "mongoapi.go")] = fake
    return rep


def harness_path(race=False):
    return os.path.join(BUILD, "harness-%s%s" % (REPO_KEY, "-race" if race else ""))


def build_harness(race=False):
    """go build -tags verif -overlay … ./cmd/verifharness from the repository's working tree."""
    os.makedirs(BUILD, exist_ok=True)
    ov = os.path.join(BUILD, "overlay-%s.json" % REPO_KEY)
    with Lock("go"):
        with open(ov, "w") as f:
            json.dump({"Replace": overlay_map()}, f, indent=1)
        out = harness_path(race)
        cmd = ["go", "build", "-tags", "verif", "-overlay", ov, "-o", out]
        if race:
            cmd.append("-race")
        cmd.append("./cmd/verifharness")
        t0 = time.time()
        rc, so, se = run(cmd, cwd=REPO, env=GOENV)
        log("harness build rc=%d %.1fs" % (rc, time.time() - t0))
        if rc != 0:
            return None, (so + se).decode(errors="replace")
        return out, ""


# --------------------------------------------------------------------------- lean

def lake_build(targets):
    with Lock("lake"):
        t0 = time.time()
        rc, so, se = run(["lake", "build"] + targets, cwd=LEAN)
        log("lake build %s rc=%d %.1fs" % (" ".join(targets), rc, time.time() - t0))
        txt = (so + se).decode(errors="replace")
        return rc == 0, txt


def driver_path():
    return os.path.join(LEAN, ".lake", "build", "bin", "driver")


def _import_closure(mod, seen):
    """the modules of the project a module rests on (transitive `import ChfVerif.…`), itself included"""
    if mod in seen:
        return
    path = os.path.join(LEAN, mod.replace(".", "/") + ".lean")
    if not os.path.exists(path):
        return
    seen.add(mod)
    for m in re.findall(r"^import (ChfVerif\.[\w.]+)", open(path).read(), flags=re.M):
        _import_closure(m, seen)


def theorems_of(module):
    """(qualified name) of every theorem declared in a Props module, by reading its source."""
    path = os.path.join(LEAN, module.replace(".", "/") + ".lean")
    names = []
    ns = []
    if not os.path.exists(path):
        return names
    src = open(path).read()
    src = re.sub(r"/-.*?-/", "", src, flags=re.S)
    for line in src.splitlines():
        line = re.sub(r"--.*", "", line)
        m = re.match(r"\s*namespace\s+(\S+)", line)
        if m:
            ns.append(m.group(1))
            continue
        m = re.match(r"\s*end\s+(\S+)", line)
        if m and ns and ns[-1] == m.group(1):
            ns.pop()
            continue
        m = re.match(r"\s*(?:private\s+|protected\s+)?theorem\s+(\S+)", line)
        if m:
            names.append(".".join(ns + [m.group(1)]))
    return names


FORBIDDEN = re.compile(r"\bsorry\b|\badmit\b|^\s*axiom\s|native_decide|bv_decide|implemented_by|\bunsafe\s|maxHeartbeats\s+0")


def forbidden_tokens():
    """grep the Lean sources (outside comments) for constructs that would void a proof."""
    hits = []
    for path in glob.glob(os.path.join(LEAN, "ChfVerif", "**", "*.lean"), recursive=True):
        src = open(path).read()
        src = re.sub(r"/-.*?-/", lambda m: "\n" * m.group(0).count("\n"), src, flags=re.S)
        for i, line in enumerate(src.splitlines(), 1):
            line = re.sub(r"--.*", "", line)
            if FORBIDDEN.search(line):
                hits.append("%s:%d: %s" % (os.path.relpath(path, VERIF), i, line.strip()))
    return hits


def audit_axioms(pid, modules, theorems):
    """`#print axioms` for every property theorem; returns (ok, {thm: [axioms]}, log)."""
    if not theorems:
        return True, {}, ""
    os.makedirs(BUILD, exist_ok=True)
    path = os.path.join(BUILD, "audit_%s_%s.lean" % (pid, REPO_KEY))
    with open(path, "w") as f:
        for m in modules:
            f.write("import %s\n" % m)
        for t in theorems:
            f.write("#print axioms %s\n" % t)
    with Lock("lake"):
        rc, so, se = run(["lake", "env", "lean", path], cwd=LEAN)
    txt = (so + se).decode(errors="replace")
    res = {}
    # "'name' depends on axioms: [a, b]" (may wrap lines) or "'name' does not depend on any axioms"
    flat = re.sub(r"\s+", " ", txt)
    for m in re.finditer(r"'([^']+)' depends on axioms: \[([^\]]*)\]", flat):
        res[m.group(1)] = [a.strip() for a in m.group(2).split(",") if a.strip()]
    for m in re.finditer(r"'([^']+)' does not depend on any axioms", flat):
        res[m.group(1)] = []
    ok = rc == 0 and all(t in res for t in theorems) and all(
        set(v) <= ALLOWED_AXIOMS for v in res.values())
    return ok, res, txt


# --------------------------------------------------------------------------- Gen

def write_if_changed(path, content):
    old = None
    if os.path.exists(path):
        old = open(path).read()
    if old != content:
        os.makedirs(os.path.dirname(path), exist_ok=True)
        with open(path, "w") as f:
            f.write(content)
        return True
    return False


# --------------------------------------------------------------------------- streams

class StreamRun:
    def __init__(self, ops, impl, model):
        self.ops, self.impl, self.model = ops, impl, model


def harness_gen(h, stream, seed, n, tier, extra=()):
    rc, so, se = run([h, stream, "gen", "-seed", str(seed), "-n", str(n), "-tier", tier] + list(extra),
                     env=GOENV)
    if rc != 0:
        raise RuntimeError("harness %s gen failed: %s" % (stream, se.decode(errors="replace")[-2000:]))
    return [l for l in so.decode().split("\n") if l.strip()]


def harness_run_parallel(h, stream, ops, workers=12):
    """stateless streams: split the operations over several harness processes"""
    import concurrent.futures
    n = max(1, min(workers, len(ops) // 8 or 1))
    chunks = [ops[i::n] for i in range(n)]
    with concurrent.futures.ThreadPoolExecutor(n) as ex:
        outs = list(ex.map(lambda c: harness_run(h, stream, c) if c else [], chunks))
    res = [None] * len(ops)
    for k, o in enumerate(outs):
        res[k::n] = o
    return res


LAST_STDERR = {}


def harness_run(h, stream, ops, timeout=3600, extra=(), env_extra=None):
    inp = ("\n".join(ops) + "\n").encode()
    env = dict(GOENV, GOMEMLIMIT="6GiB")
    if env_extra:
        env.update(env_extra)
    rc, so, se = run([h, stream, "run"] + list(extra), inp=inp, env=env, timeout=timeout)
    LAST_STDERR[stream] = se.decode(errors="replace")
    lines = so.decode(errors="replace").split("\n")
    if lines and lines[-1] == "":
        lines.pop()
    if rc != 0 or len(lines) != len(ops):
        # the process died (fatal error / unrecovered panic in a goroutine): rerun op by op is
        # the caller's business; report what we have
        lines += ["crash"] * (len(ops) - len(lines))
        log("harness %s run rc=%d, %d/%d outputs; stderr tail: %s" % (
            stream, rc, len(so.decode(errors='replace').split(chr(10))) - 1, len(ops),
            se.decode(errors="replace")[-1500:]))
    return lines[:len(ops)]


def driver_run(ops, timeout=3600):
    inp = ("\n".join(ops) + "\n").encode()
    rc, so, se = run([driver_path()], inp=inp, timeout=timeout)
    lines = so.decode(errors="replace").split("\n")
    if lines and lines[-1] == "":
        lines.pop()
    if rc != 0 or len(lines) != len(ops):
        raise RuntimeError("driver failed rc=%d (%d/%d lines): %s" % (
            rc, len(lines), len(ops), se.decode(errors="replace")[-1500:]))
    return lines


def corpus_ops(pid, stream):
    out = []
    for p in sorted(glob.glob(os.path.join(VERIF, "corpus", pid, "*.ops"))):
        for l in open(p):
            l = l.strip()
            if l and not l.startswith("#") and l.split()[0] == stream:
                out.append(l)
    return out


# --------------------------------------------------------------------------- known findings

def load_known_findings():
    known, fixed = [], []
    p = os.path.join(VERIF, "KNOWN_FINDINGS")
    if os.path.exists(p):
        for l in open(p):
            l = l.strip()
            if l.startswith("known:"):
                m = re.match(r"known:\s+property=(\S+)\s+class=(\S+)\s*(.*)", l)
                if m:
                    known.append({"property": m.group(1), "class": m.group(2), "what": m.group(3)})
            elif l.startswith("fixed:"):
                fixed.append(l)
    return known, fixed


# --------------------------------------------------------------------------- result / evidence

class Result:
    def __init__(self):
        self.evaluations = 0
        self.nontrivial = set()
        self.samples = []
        self.rule = ""
        self.violations = []      # dict(kind=…, what=…, replay=[lines], found_input=bool)
        self.kf = collections.OrderedDict()   # class -> what fails (printed once)
        self.dist = collections.Counter()
        self.disagreements = 0
        self.outside_domain = collections.Counter()
        self.traces_validated = 0
        self.exhaustive = False
        self.extra = {}
        self.assumptions = []

    def violation(self, kind, what, replay, found_input=True):
        self.violations.append(dict(kind=kind, what=what, replay=replay, found_input=found_input))

    def sample(self, s, limit=6):
        if len(self.samples) < limit:
            if isinstance(s, str) and len(s) > 600:
                s = s[:600] + "…"
            self.samples.append(s)


class Ctx:
    def __init__(self, pid, tier, seed):
        self.pid, self.tier, self.seed = pid, tier, seed
        self.harness = None
        self.t0 = time.time()
        self.known, self.fixed = load_known_findings()
        self.hangs = []

    def kf_classes(self):
        return {k["class"]: k["what"] for k in self.known if k["property"] == self.pid}

    def stream(self, stream, n, extra_gen=(), with_model=True, corpus=True, ops=None, seed=None, parallel=0):
        if ops is None:
            ops = (corpus_ops(self.pid, stream) if corpus else []) + harness_gen(
                self.harness, stream, self.seed if seed is None else seed, n, self.tier, extra_gen)
        impl = harness_run_parallel(self.harness, stream, ops, parallel) if parallel else harness_run(self.harness, stream, ops)
        if "hang" in impl and not parallel:
            # an operation that never returned (the harness answers "hang" after its deadline and ends): the history since the
            # stream's last reset is the replay
            i = impl.index("hang")
            j = i
            while j > 0 and " reset" not in ops[j] and i - j < 2000:
                j -= 1
            self.hangs.append((stream, ops[j:i + 1]))
        elif "hang" in impl:
            self.hangs.append((stream, [ops[impl.index("hang")]]))
        model = driver_run(ops) if with_model else [None] * len(ops)
        return StreamRun(ops, impl, model)


def write_replay(pid, seed, v, lean_info):
    d = os.path.join(VERIF, "replays")
    os.makedirs(d, exist_ok=True)
    path = os.path.join(d, "%s_%s_%d.replay" % (pid, v["kind"], seed))
    with open(path, "w") as f:
        f.write("# property=%s kind=%s seed=%d repo=%s\n" % (pid, v["kind"], seed, REPO))
        f.write("# what: %s\n" % v["what"])
        if not v["found_input"]:
            f.write("# no failing input was found; the following no longer checks:\n")
        for l in lean_info:
            f.write("# lean: %s\n" % l)
        for l in v["replay"]:
            f.write(l + "\n")
    return path


def main(argv):
    import argparse
    from . import props
    ap = argparse.ArgumentParser()
    ap.add_argument("pid")
    ap.add_argument("--tier", default=os.environ.get("VERIF_TIER", "quick"), choices=["quick", "thorough"])
    ap.add_argument("--replay")
    a = ap.parse_args(argv)
    pid = a.pid
    if pid not in props.PROPS:
        print("unknown property", pid)
        return 2
    spec = props.PROPS[pid]
    seed = int(os.environ.get("VERIF_SEED", "1") or "1")
    ctx = Ctx(pid, a.tier, seed)
    t0 = time.time()
    res = Result()
    lean_info = []
    trusted = list(props.TRUSTED_COMMON) + list(spec.get("trusted", []))

    # 1. harness from the working tree
    race = bool(spec.get("race"))
    h, err = build_harness()
    if h is None:
        res.violation("harness-build", "the verification harness no longer builds against the working tree "
                      "(tie to the code broken): " + err[-1500:], [err[-4000:]], found_input=False)
    ctx.harness = h
    if race and h is not None:
        ctx.harness_race, _ = build_harness(race=True)

    # 2. regenerate tables, 3. Lean obligations
    modules = spec["lean"]
    obligations, discharged = 0, 0
    axioms = {}
    if h is not None:
        try:
            props.regen(ctx, spec)
        except Exception as e:  # a table could not be produced: broken tie
            res.violation("gen", "regenerating ChfVerif/Gen from the working tree failed: %r" % (e,), [repr(e)],
                          found_input=False)
    ok_build, build_log = lake_build(modules + ["driver"])
    thms = []
    for m in modules:
        thms += theorems_of(m)
    obligations = len(thms)
    bad_tokens = forbidden_tokens()
    if ok_build:
        ok_ax, axioms, ax_log = audit_axioms(pid, modules, thms)
        discharged = sum(1 for t in thms if t in axioms and set(axioms[t]) <= ALLOWED_AXIOMS)
        if not ok_ax:
            lean_info.append("axiom audit failed: " + ax_log[-1500:])
    else:
        # which theorems failed?  every theorem of a module that did not build is undischarged
        failed = re.findall(r"error: ([^\n]*)", build_log)
        lean_info.append("lake build failed: " + "; ".join(failed[:8]))
        ok_driver, _ = lake_build(["driver"])
        if not ok_driver:
            res.violation("driver-build", "the Lean model driver does not build", [build_log[-3000:]], False)
    if bad_tokens:
        lean_info.append("forbidden constructs: " + "; ".join(bad_tokens[:5]))
    rechecked = None
    if ok_build and a.tier == "thorough":
        # independent re-check of the compiled modules (the property's theorems and everything of the project they rest on) by
        # leanchecker, which replays every declaration through the kernel from the .olean files
        mods = set()
        for m in modules:
            _import_closure(m, mods)
        with Lock("lake"):
            t1 = time.time()
            rc_lc, so_lc, se_lc = run(["lake", "env", "leanchecker"] + sorted(mods), cwd=LEAN)
        log("leanchecker %d modules rc=%d %.1fs" % (len(mods), rc_lc, time.time() - t1))
        rechecked = (rc_lc == 0, len(mods))
        if rc_lc != 0:
            lean_info.append("leanchecker rejects the compiled modules: " + (so_lc + se_lc).decode(errors="replace")[-800:])
            discharged = 0
    lean_ok = ok_build and discharged == obligations and not bad_tokens and obligations > 0
    if not lean_ok:
        log("LEAN NOT OK:", lean_info)
    ctx.lean_ok = lean_ok

    # 4-6. correspondence + oracle
    if h is not None and os.path.exists(driver_path()):
        try:
            if a.replay:
                props.replay(ctx, spec, res, a.replay)
            else:
                spec["explore"](ctx, res)
        except Exception as e:
            import traceback
            traceback.print_exc()
            res.violation("check-error", "the exploration could not be completed: %r" % (e,), [repr(e)], False)
        for stream, hist in ctx.hangs:
            res.violations.insert(0, dict(kind="hang", what="%s: the last operation of this history did not return (no answer within the "
                                          "operation deadline: deadlock or endless wait); the operations behind it could not be run" % pid,
                                          replay=hist, found_input=True))

    # 7. classify
    rc = 0
    for cls, what in res.kf.items():
        print("KNOWN-FINDING: property=%s %s %s" % (pid, cls, what))
    real = [v for v in res.violations if v["found_input"]]
    soft = [v for v in res.violations if not v["found_input"]]
    if not lean_ok and not real:
        soft.insert(0, dict(kind="lean", what="proof obligations of %s no longer check: %s" % (
            ", ".join(modules), " | ".join(lean_info)), replay=[build_log[-6000:]], found_input=False))
    nviol = 0
    if real:
        v = real[0]
        path = write_replay(pid, seed, v, lean_info)
        print("VIOLATION property=%s replay=%s" % (pid, path))
        log("violation:", v["what"][:500])
        nviol = len(real)
        rc = 1
    elif soft:
        v = soft[0]
        path = write_replay(pid, seed, v, lean_info)
        print("VIOLATION property=%s replay=%s no-failing-input-found" % (pid, path))
        log("violation (no failing input):", v["what"][:800])
        nviol = len(soft)
        rc = 1

    # 8. evidence
    cov = {
        "obligations": obligations,
        "discharged": discharged if lean_ok or not ok_build else discharged,
        "checker_cmd": "cd lean && lake build %s && lake env lean build/audit_%s.lean  (#print axioms)" % (
            " ".join(modules), pid),
        "trusted_base": trusted + ["axioms used: " + ", ".join(sorted({x for v in axioms.values() for x in v}) or ["none"])] + (
            ["leanchecker re-checked %d compiled modules: %s" % (rechecked[1], "accepted" if rechecked[0] else "REJECTED")] if rechecked else []),
        "theorems": {t: axioms.get(t) for t in thms},
        "evaluations": res.evaluations,
        "distinct_nontrivial": len(res.nontrivial),
        "rule": res.rule,
        "samples": res.samples or ["(no sample)"],
        "traces_validated_against_impl": res.traces_validated,
        "disagreements": res.disagreements,
        "input_distribution": dict(res.dist),
        "outside_property_domain": dict(res.outside_domain),
        "known_findings_hit": list(res.kf.keys()),
        "exhaustive": res.exhaustive,
    }
    cov.update(res.extra)
    ev = {
        "property_id": pid,
        "tier": a.tier,
        "seed": seed,
        "level": spec.get("level", "proof"),
        "coverage": cov,
        "assumptions": res.assumptions + spec.get("assumptions", []),
        "wall_s": round(time.time() - t0, 2),
        "violations": nviol,
    }
    os.makedirs(os.path.join(VERIF, "evidence"), exist_ok=True)
    with open(os.path.join(VERIF, "evidence", pid + ".json"), "w") as f:
        json.dump(ev, f, indent=1, sort_keys=True)
    log("%s tier=%s seed=%d rc=%d obligations=%d/%d evals=%d nontrivial=%d wall=%.1fs" % (
        pid, a.tier, seed, rc, discharged, obligations, res.evaluations, len(res.nontrivial), time.time() - t0))
    return rc
