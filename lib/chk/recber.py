"""Record encoder tie (C03, C02): the octets the real code marshals for the records of the subscriber contexts vs. what
Model/RecordBer.lean writes for the same record fields (Ber.marshal on the regenerated schema type CHFRecord), and the size
guard of ChargingDataUpdate vs. the model's berGuard.  Everything is computed by the Lean driver; this file only pairs
observations with model answers."""
from . import core


def _parse_rb(im):
    """records of every subscriber of one `recber` observation: [(supi, [(recstring, nfid, ot, fn, hex)])]"""
    toks = im.split(" ")
    recs = {}
    for k, t in enumerate(toks):
        if t.startswith("rec=") and k >= 3 and toks[k - 2].startswith("money="):
            recs[toks[k - 3]] = [] if t[4:] == "-" else t[4:].split("|")
    rb = {}
    for t in toks:
        if t.startswith("rb=") and t != "rb=-":
            for part in t[3:].split(";"):
                supi, _, lst = part.partition("=")
                rb[supi] = [] if lst == "-" else [x.split("/") for x in lst.split(",")]
    out = []
    for supi, rl in recs.items():
        bl = rb.get(supi)
        if bl is None:
            continue
        out.append((supi, list(zip(rl, bl))))
    return out


def recber_phase(ctx, res, pid, n_quick=120, n_thorough=1500, ops=None):
    n = n_quick if ctx.tier == "quick" else n_thorough
    if ops is None:
        ops = core.harness_gen(ctx.harness, "recber", ctx.seed, n, ctx.tier)
    impl = core.harness_run(ctx.harness, "recber", ops)
    # the whole charging model, with the BER size guard plugged in (Driver/Main.lean: berGuard), on the same operations
    from .props import strip_annot
    model = core.driver_run(["chf end" if op.split(" ")[1:2] == ["createx"] else "chf " + op.split(" ", 1)[1] for op in ops])
    s0 = 0
    for i, (op, im, mo) in enumerate(zip(ops, impl, model)):
        if op.split(" ")[1:2] == ["reset"]:
            s0 = i
        if op.split(" ")[1:2] == ["createx"]:
            continue        # judged below against the OpenCDR model; the generator puts them after the last history
        a, b = im.split(" rb=")[0], strip_annot(mo)
        if a != b:
            res.disagreements += 1
            res.violation("correspondence", "recber: charging model (with the BER size guard of ChargingDataUpdate) and implementation differ",
                          ops[s0:i + 1] + ["# impl:  " + a[:1500], "# model: " + b[:1500]])
            break
        if " rec=" in a:
            nrec = max((t.count("|") + 1 for t in a.split(" ") if t.startswith("rec=") and t != "rec=-"), default=0)
            res.dist["recber:records-of-a-subscriber=%s" % (nrec if nrec < 3 else "3+")] += 1
    want = {}      # driver query -> (real hex, op index)
    start = 0
    starts = {}
    for i, (op, im) in enumerate(zip(ops, impl)):
        if op.split(" ")[1:2] == ["reset"]:
            start = i
        if " rb=" not in im:
            if im.split(" ")[0] in ("panic", "crash"):
                res.violation("oracle", "%s: the harness observed %s while handling a charging request" % (pid, im.split(" ")[0]), ops[start:i + 1])
            continue
        for supi, pairs in _parse_rb(im):
            for recstr, env in pairs:
                if len(env) != 4:
                    continue
                nfid, ot, fn, hx = env
                q = "recbytes %s %s %s %s" % (nfid, ot, fn, recstr)
                if q not in want:
                    want[q] = (hx, i)
                    starts[q] = start
    qs = list(want)
    out = core.driver_run(qs) if qs else []
    for q, mo in zip(qs, out):
        hx, i = want[q]
        res.evaluations += 1
        res.traces_validated += 1
        t = mo.split(" ")
        nus = q.rsplit(",u=", 1)[1]
        res.dist["recber:usage-entries=%s" % ("0" if nus == "-" else "1" if ";" not in nus else "2+")] += 1
        if nus != "-":
            res.nontrivial.add("recber:" + q[-80:])
        replay = ops[starts[q]:i + 1]
        if t[0] != "ok" or len(t) < 4:
            if hx != "err":
                res.disagreements += 1
                res.violation("correspondence", "recber: the record encoder model reports %s for a record the real code marshals" % t[0],
                              replay + ["# query: " + q[:400], "# impl:  " + hx[:400]])
            continue
        if t[2] != hx:
            res.disagreements += 1
            res.violation("correspondence", "recber: the octets the real code marshals for a record differ from Model/RecordBer.lean's for the same record fields",
                          replay + ["# query: " + q[:600], "# impl:  " + hx[:600], "# model: " + t[2][:600]])
        elif t[3] != "wf=1":
            res.violation("oracle", "%s: a record payload is not one complete well-formed BER element" % pid,
                          replay + ["# query: " + q[:600], "# impl:  " + hx[:600]])
    res.extra["recber_records_compared"] = len(qs)
    # --- OpenCDR: every member it reads from the create request (model: RecordBer.openAccepts / openEnv)
    oq, oi = [], []
    for i, (op, im) in enumerate(zip(ops, impl)):
        t = op.split(" ")
        if t[1:2] != ["createx"] or len(t) != 12:
            continue
        d = dict(x.split("=", 1) for x in im.split(" ") if "=" in x)
        new = d.get("new", "")
        env = new.split("/") if new else []
        nfid, ot = (env[0], env[1]) if len(env) == 4 else ("-", "-")
        q = "recopen %s %s %s" % (nfid, ot, " ".join(t[4:12]))
        if "rec" in d and len(env) == 4:
            q += " " + d["rec"]
        oq.append(q)
        oi.append((i, d, env))
    oo = core.driver_run(oq) if oq else []
    for q, mo, (i, d, env) in zip(oq, oo, oi):
        res.evaluations += 1
        res.traces_validated += 1
        t = ops[i].split(" ")
        res.dist["recopen:st=%s" % d.get("st")] += 1
        res.dist["recopen:plmn=%s pdu=%s" % ("none" if t[8] == "~" else "given", "none" if t[11] == "~" else "incomplete" if t[11].startswith("x") else "given")] += 1
        if d.get("st") == "201":
            res.nontrivial.add("recopen#%d" % i)
        m = mo.split(" ")
        replay = ["recber reset"] + [o for o in ops[:i + 1] if o.split(" ")[1:2] == ["createx"]]
        if m[0] != "st=" + d.get("st", "?"):
            res.disagreements += 1
            res.violation("correspondence", "recber: OpenCDR answered %s, the model (RecordBer.openAccepts) says %s" % (d.get("st"), m[0]),
                          replay + ["# impl:  " + impl[i][:300], "# model: " + mo[:300]])
        elif m[0] == "st=201" and len(env) == 4 and (len(m) < 4 or m[1] != "ok" or m[3] != env[3]):
            res.disagreements += 1
            res.violation("correspondence", "recber: the record OpenCDR built for a create differs from the model's (RecordBer.openEnv / recordBytes): "
                          "consumer identification, PLMN id, PDU session or registration information",
                          replay + ["# impl:  " + env[3][:600], "# model: " + " ".join(m[1:4])[:600]])
    res.extra["recber_opencdr_requests_compared"] = len(oq)


def cdrsize_records(ctx, res, pid, ops, obs, start_of):
    """cdrsize stream: every record of the subscriber (fields -> model octets) and the guard decision of updates"""
    want, gq = {}, {}
    for i, d in enumerate(obs):
        rf, recs = d.get("rf", "-"), d.get("recs", "-")
        if rf != "-" and recs != "-":
            for r, hx in zip(rf.split("|"), recs.split(";")):
                env = r.split("/", 3)
                if len(env) == 4:
                    q = "recbytes %s %s %s %s" % tuple(env)
                    want.setdefault(q, (hx, i))
        kind = ops[i].split(" ")[1] if " " in ops[i] else ""
        if kind in ("update", "fit", "fiton", "fitbare") and d.get("prf", "-") != "-" and "rq" in d and d.get("st") == "200":
            env = d["prf"].split("/", 3)
            if len(env) == 4:
                gq["recguard %s %s %s %s %s" % (env[0], env[1], env[2], env[3], d["rq"])] = i
    qs = list(want) + list(gq)
    out = core.driver_run(qs) if qs else []
    ans = dict(zip(qs, out))
    for q, (hx, i) in want.items():
        mo = ans[q].split(" ")
        res.evaluations += 1
        replay = ops[start_of(i):i + 1]
        if mo[0] != "ok":
            if hx != "err":
                res.disagreements += 1
                res.violation("correspondence", "recber: the record encoder model reports %s for a record the real code marshals" % mo[0], replay + ["# query: " + q[:300]])
            continue
        size = int(mo[1])
        res.dist["recber:size=%s" % ("<256" if size < 256 else "<65536" if size < 65536 else ">=65536")] += 1
        if mo[2] != hx:
            res.disagreements += 1
            res.violation("correspondence", "recber: the octets the real code marshals for a record (%d octets) differ from Model/RecordBer.lean's (%d octets) for the same record fields" % (
                len(hx) // 2, size), replay + ["# query: " + q[:300] + "…"])
    for q, i in gq.items():
        d = obs[i]
        m = dict(x.split("=", 1) for x in ans[q].split(" ") if "=" in x)
        res.evaluations += 1
        res.dist["recguard:split=%s" % d.get("split")] += 1
        near = abs(int(d.get("pre", 0)) + int(d.get("chg", 0)) - 65535) <= 8
        if near:
            res.dist["recguard:within-8-of-limit"] += 1
            res.nontrivial.add("recguard#%d" % i)
        if (m.get("pre"), m.get("chg"), m.get("split")) != (d.get("pre"), d.get("chg"), d.get("split")):
            res.disagreements += 1
            res.violation("correspondence", "recber: the size guard of ChargingDataUpdate (real code: pre=%s chg=%s new-record=%s) differs from the model's berGuard (pre=%s chg=%s split=%s)" % (
                d.get("pre"), d.get("chg"), d.get("split"), m.get("pre"), m.get("chg"), m.get("split")), ops[start_of(i):i + 1] + ["# query: " + q[:300] + "…"])
    res.extra["recber_cdrsize_records_compared"] = len(want)
    res.extra["recber_guard_decisions_compared"] = len(gq)
