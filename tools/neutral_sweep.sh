#!/bin/bash
# tools/neutral_sweep.sh <verif worktree> <scratch repo worktree> <patch> <checks...>
# applies a behaviour-preserving change (written by a sub-agent that saw only the product) to the scratch worktree of /repo and
# runs the given quick checks against it: every one of them must stay silent.  /repo itself is never touched.
v=$1; r=$2; p=$3; shift 3
export GOFLAGS=-mod=mod GOPROXY=off GOSUMDB=off GOTOOLCHAIN=local
git -C $r reset -q --hard; git -C $r clean -fdq; git -C $r checkout -q --detach $(git -C /repo rev-parse HEAD)
git -C $r apply $p || { echo "$p: does not apply"; exit 0; }
(cd $r && go build ./...) || { echo "$p: does not build"; exit 0; }
for c in "$@"; do
  out=$(cd $v && VERIF_REPO=$r timeout 1500 ./check $c 2>&1)
  res=$(echo "$out" | grep "^VIOLATION\|^\[check\] violation" | head -2 | cut -c1-500 | tr '\n' ' ')
  echo "$(basename $(dirname $p))/$(basename $p .diff) $c: ${res:-ok}"
done
git -C $r reset -q --hard; git -C $r clean -fdq; git -C $v checkout -- lean/ChfVerif/Gen evidence 2>/dev/null
