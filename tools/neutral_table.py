#!/usr/bin/env python3
"""tools/neutral_table.py FILE... — rebuild the table of harmless rewrites in DESIGN.md (at the NEUTRAL-TABLE marker) from the
result lines of tools/neutral_sweep.sh ("<area>/neutral_<k> <check>: ok | VIOLATION …")."""
import re, sys, collections
WHAT = {
 "servers/neutral_1": "pkg/abmf, pkg/rf: renames (locals, `buildTaffif`), comments, log texts",
 "servers/neutral_2": "… named constants, helpers (`accountKey`, `grantFrom`, `unitCostOf` …), switches ↔ if-chains",
 "servers/neutral_3": "… lock code moved to `account_lock.go`, tariff parser to `tariff.go`, handlers become named functions `serveCCR`/`serveSUR`, `applyAction`/`rate` split off",
 "servers/neutral_4": "… `withAccountLocked(sub, rg, func(){…})`, grant as `max(quota,0)`, answer built in one literal, `strings.Cut` tariff parser",
 "client/neutral_1": "internal/rating, internal/abmf: renames, comments, error texts",
 "client/neutral_2": "… constants `answerTimeout`/`answerCommand`, helpers `newAnswerChannel`, `offer` (the non-blocking send), `peerAddress`",
 "client/neutral_3": "… body after the `defer` moved into `exchangeSUR`/`exchangeCCR`, select cases swapped, `if c == from {…}`",
 "client/neutral_4": "… one deferred closure (timer stop + close), `time.NewTimer`, `Serialize`+`Write`, handler as method value of a relay struct",
 "proc/neutral_1": "processor, context, cgf: renames (`getUnitCost`→`fetchUnitCost`, `dumpCdrFile`→`writeCdrFile` …), comments, logs",
 "proc/neutral_2": "… helpers (`newProblemDetails`, `newCreditControlClient` …), constants, merged cases, switches",
 "proc/neutral_3": "… notifications moved to `notification.go`, update/OpenCDR/reservation split, index loops, early returns, reordered independent statements",
 "proc/neutral_4": "… lock shapes rewritten (closure with deferred unlock, `withSubscriberLocked`, deferred closures in OpenCDR/NotifyRecharge), values computed other ways",
 "glue/neutral_1": "sbi, util, factory, service: renames (`newRouter`→`buildRouter`, `startServer`→`serve`, `applyRoutes`→`registerRoutes` …)",
 "glue/neutral_2": "… `readChargingDataRequest`, `newDiameterClientSettings`, header/scheme constants, tagged switches",
 "glue/neutral_3": "… `newRouter` moved to routes.go, index loops, early returns, `listenAndServe`/`validateServiceNameList` split off",
 "glue/neutral_4": "… `newRouter` as a table of mounts, `group.Handle`, `AbortWithStatusJSON`, closure-passing handlers, `strings.Cut`",
 "codec/neutral_1": "cdr/asn, cdrFile, cdrConvert: renames, comments",
 "codec/neutral_2": "… helpers (`universalHeader`, `checkTag`, `put`, `packed` …), constants",
 "codec/neutral_3": "… tag helpers in `ber_tags.go`, `ParseField`/`makeField`/`Decoding` split, SEQUENCE/SET loops merged",
 "codec/neutral_4": "… INTEGER length via `bits.Len64`, unwrapping as a loop, `append`/`AppendUint16` instead of `binary.Write`, nibble packing by hand",
}
res = collections.OrderedDict()
for f in sys.argv[1:]:
    for l in open(f):
        m = re.match(r"(\w+/neutral_\d) (C\d\d): (.*)$", l.rstrip())
        if not m:
            continue
        p, c, r = m.groups()
        if r == "ok":
            v = "ok"
        elif "no-failing-input-found" in r:
            t = re.findall(r"ChfVerif/Props/(C\d\d)\.lean:(\d+)", r)
            if "harness no longer builds" in r:
                v = "soft: harness build"
            elif "regenerating" in r:
                v = "soft: extractor"
            elif t:
                v = "soft: obligations " + ",".join(sorted(set("%s:%s" % x for x in t)))
            else:
                v = "soft: correspondence"
        else:
            v = "FAILING INPUT"
        res.setdefault(p, collections.OrderedDict())[c] = v
out = ["| rewrite | what it does | checks silent | checks reporting `no-failing-input-found` (what no longer checks) |", "|---|---|---|---|"]
tot = silent = soft = hard = 0
for p in sorted(res, key=lambda x: (["codec", "servers", "client", "proc", "glue"].index(x.split("/")[0]), x)):
    ok = [c for c, v in res[p].items() if v == "ok"]
    so = ["%s (%s)" % (c, v[6:]) for c, v in res[p].items() if v.startswith("soft")]
    ha = [c for c, v in res[p].items() if v == "FAILING INPUT"]
    tot += len(res[p]); silent += len(ok); soft += len(so); hard += len(ha)
    out.append("| %s | %s | %s | %s%s |" % (p.replace("neutral_", ""), WHAT.get(p, ""), " ".join(ok), "; ".join(so), (" **FAILING INPUT: " + " ".join(ha) + "**") if ha else ""))
head = "Round 2, checks as committed: %d check runs on %d rewrites — %d silent, %d report a tie that no longer checks (no failing input), %d report a failing input.\n" % (
    tot, len(res), silent, soft, hard)
p = "/verif/DESIGN.md"
s = open(p).read()
a, b = "<!-- NEUTRAL-TABLE -->", "<!-- NEUTRAL-TABLE-END -->"
block = a + "\n" + head + "\n" + "\n".join(out) + "\n" + b
if b in s:
    s = s[:s.index(a)] + block + s[s.index(b) + len(b):]
else:
    s = s.replace(a, block)
open(p, "w").write(s)
print(head)
