#!/bin/bash
# tools/seed_eval.sh <patch.diff> <ID> [<ID>...] — apply a seeded change to /repo's working tree, run the named
# checks (quick tier) against it, and restore the tree.  Prints one line per check.  Never commits.
set -u
patch=$1; shift
cd /repo || exit 2
if [ -n "$(git status --porcelain)" ]; then echo "refusing: /repo working tree is not clean"; exit 2; fi
git apply "$patch" || { echo "patch does not apply"; exit 2; }
trap 'git -C /repo checkout -- . ; git -C /repo clean -fdq' EXIT
export GOFLAGS=-mod=mod GOPROXY=off GOSUMDB=off GOTOOLCHAIN=local
if ! go build ./... >/dev/null 2>&1; then echo "BUILD-FAILS"; exit 3; fi
if [ "${SEED_TESTS:-1}" = 1 ]; then
  if ! go test -vet=off -count=1 ./... >/dev/null 2>&1; then echo "TESTS-FAIL"; exit 3; fi
fi
cd /verif
for id in "$@"; do
  out=$(./check $id --tier ${SEED_TIER:-quick} 2>&1); rc=$?
  v=$(echo "$out" | grep '^VIOLATION' | head -1)
  w=$(echo "$out" | grep '^\[check\] violation' | head -1 | cut -c1-220)
  echo "$id rc=$rc ${v:-no-violation} | $w"
done
