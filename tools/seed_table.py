#!/usr/bin/env python3
"""tools/seed_table.py — rebuild the seeded-change tables of DESIGN.md (between the SEED-TABLE markers) from
seeded/*/meta.json as written by tools/seed_sweep.py."""
import json, os, re
D = "/verif/seeded"
rows = {}
for n in sorted(os.listdir(D), key=lambda x: ((int(x.split("-")[1]) + 1) // 2, x)):
    mp = os.path.join(D, n, "meta.json")
    if not os.path.exists(mp):
        continue
    m = json.load(open(mp))
    pid, k = n.split("-")[0], int(n.split("-")[1])
    rnd = (k + 1) // 2
    res = m.get("checks_run_against_it", {})
    own = res.get(pid, {})
    kind = "failing input" if own.get("found_failing_input") else "obligation/correspondence only" if own.get("exit") == 1 else "MISSED"
    if kind == "MISSED":
        by = [c for c, x in res.items() if c != pid and x.get("found_failing_input")]
        if by:
            kind = "silent; failing input by " + "/".join(by)
    what = (own.get("what") or "").replace("|", "/")[:118]
    others = ", ".join("%s:%s" % (c, "input" if x.get("found_failing_input") else "soft" if x.get("exit") == 1 else "miss")
                       for c, x in res.items() if c != pid)
    first = m.get("first_pass")
    files = ", ".join(os.path.basename(f) for f in m.get("files_changed", []))
    rows.setdefault(rnd, []).append("| %s | %s | %s | %s | %s | %s |" % (n, files, first or "", kind, what, others))
out = []
for rnd in sorted(rows):
    tot = len(rows[rnd])
    hard = sum("| failing input |" in r or "| silent; failing input by" in r for r in rows[rnd])
    soft = sum("| obligation/correspondence only |" in r for r in rows[rnd])
    out.append("**Round %d** — %d changes; with the checks as committed: %d reported with a failing input, %d as a broken "
               "obligation/correspondence only, %d missed.\n" % (rnd, tot, hard, soft, tot - hard - soft))
    out.append("| seed | file | first pass | now | what the property's check reports | other checks run |")
    out.append("|---|---|---|---|---|---|")
    out += rows[rnd]
    out.append("")
p = "/verif/DESIGN.md"
s = open(p).read()
a, b = "<!-- SEED-TABLE-BEGIN -->", "<!-- SEED-TABLE-END -->"
if a in s:
    s = s[:s.index(a) + len(a)] + "\n" + "\n".join(out) + s[s.index(b):]
    open(p, "w").write(s)
print("\n".join(out[:3]))
