#!/bin/bash
# evaluate every seeded change under /tmp/seed against its property's quick check
for id in C01 C02 C03 C04 C05 C06 C07 C08 C09 C10 C11 C12 C13 C14 C15 C16 C17 C18 C19 C20; do
  for k in 1 2; do
    f=/tmp/seed/$id/seed_$k.diff
    [ -f $f ] || continue
    echo "== $id/$k: $(SEED_TESTS=0 /verif/tools/seed_eval.sh $f $id 2>&1 | tail -1)"
  done
done
