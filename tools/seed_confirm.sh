#!/bin/bash
# tools/seed_confirm.sh <ID> <k> — confirm a seeded change in its scratch worktree ${SEEDROOT:-/tmp/seed}/<ID>:
# the demo passes on the original tree; with the change the tree builds, the project's own tests pass, the demo fails.
id=$1; k=$2; w=${SEEDROOT:-/tmp/seed}/$id
export GOFLAGS=-mod=mod GOPROXY=off GOSUMDB=off GOTOOLCHAIN=local
cd $w || exit 2
git checkout -q -- . 
demo=$(ls $(git ls-files --others --exclude-standard | grep "zz_seed.*_${k}_demo") 2>/dev/null | head -1)
[ -z "$demo" ] && { echo "$id/$k: no demo file"; exit 2; }
run_demo() {
  if [[ "$demo" == *.sh ]]; then bash "$demo" >${SEEDROOT:-/tmp/seed}/$id/demo_$k.$1.out 2>&1; return $?; fi
  pkg=./$(dirname "$demo")
  tests=$(grep -o '^func Test[A-Za-z0-9_]*' "$demo" | sed 's/func //' | paste -sd'|')
  go test -vet=off -count=1 -run "^($tests)\$" $pkg >${SEEDROOT:-/tmp/seed}/$id/demo_$k.$1.out 2>&1
}
run_demo orig; r0=$?
git apply seed_$k.diff || { echo "$id/$k: patch does not apply"; exit 2; }
go build ./... >/dev/null 2>&1; rb=$?
mkdir -p ${SEEDROOT:-/tmp/seed}/$id/.away; for f in $(git ls-files --others --exclude-standard | grep "zz_seed"); do mkdir -p ${SEEDROOT:-/tmp/seed}/$id/.away/$(dirname $f); mv $f ${SEEDROOT:-/tmp/seed}/$id/.away/$f; done
go test -vet=off -count=1 ./... >${SEEDROOT:-/tmp/seed}/$id/suite_$k.out 2>&1; rt=$?
(cd ${SEEDROOT:-/tmp/seed}/$id/.away && find . -type f | while read f; do mv "$f" "$w/$f"; done)
run_demo seeded; r1=$?
git checkout -q -- .
echo "$id/$k: demo-on-original=$([ $r0 = 0 ] && echo PASS || echo FAIL) build=$([ $rb = 0 ] && echo ok || echo FAIL) suite=$([ $rt = 0 ] && echo pass || echo FAIL) demo-on-seeded=$([ $r1 = 0 ] && echo PASS || echo FAIL)  [$demo]"
