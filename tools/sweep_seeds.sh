#!/bin/bash
# clean-tree sweeps over several seeds (false-alarm hunt); seed 1 last so that the committed evidence is the default run
cd /verif
for s in ${@:-2 3 4 1}; do
  echo "=== VERIF_SEED=$s"
  VERIF_SEED=$s /verif/run_all.sh quick
done
