#!/usr/bin/env python3
"""tools/seed_store.py — copy the confirmed seeded changes from the scratch worktrees under /tmp/seed into
/verif/seeded/<ID>-<k>/ (patch.diff, demo file(s), notes.md, meta.json)."""
import json, os, re, shutil, subprocess, sys
SRC, DST = os.environ.get("SEEDROOT", "/tmp/seed"), "/verif/seeded"
OFF = int(os.environ.get("SEEDOFFSET", "0"))
for pid in ["C%02d" % i for i in range(1, 21)]:
    for k in (1, 2):
        d = os.path.join(SRC, pid)
        patch = os.path.join(d, "seed_%d.diff" % k)
        if not os.path.exists(patch):
            continue
        out = os.path.join(DST, "%s-%d" % (pid, k + OFF))
        os.makedirs(out, exist_ok=True)
        shutil.copy(patch, os.path.join(out, "patch.diff"))
        demos = subprocess.run(["git", "ls-files", "--others", "--exclude-standard"], cwd=d, capture_output=True, text=True).stdout.split("\n")
        demo = [x for x in demos if re.search(r"zz_seed.*_%d_demo" % k, x) or re.search(r"zz_seed.*helper", x)]
        for x in demo:
            os.makedirs(os.path.join(out, "demo", os.path.dirname(x)), exist_ok=True)
            shutil.copy(os.path.join(d, x), os.path.join(out, "demo", x))
        notes = ""
        if os.path.exists(os.path.join(d, "SEED_NOTES.md")):
            notes = open(os.path.join(d, "SEED_NOTES.md")).read()
            open(os.path.join(out, "notes.md"), "w").write(notes)
        files = re.findall(r"^\+\+\+ b/(\S+)", open(patch).read(), re.M)
        conf = {}
        for tag in ("orig", "seeded"):
            p = os.path.join(d, "demo_%d.%s.out" % (k, tag))
            if os.path.exists(p):
                t = open(p).read()
                conf["demo_on_" + ("original" if tag == "orig" else "seeded_tree")] = "FAIL" if re.search(r"^(--- FAIL|FAIL)", t, re.M) else "PASS"
        suite = os.path.join(d, "suite_%d.out" % k)
        if os.path.exists(suite):
            conf["existing_test_suite_with_change"] = "FAIL" if "FAIL" in open(suite).read() else "pass"
        meta_p = os.path.join(out, "meta.json")
        meta = json.load(open(meta_p)) if os.path.exists(meta_p) else {}
        meta.update({"property": pid, "seed": k + OFF, "round": int(os.environ.get("SEEDROUND", "2" if OFF else "1")), "author": "independent sub-agent given only the property text and a scratch worktree",
                     "files_changed": files, "demo": demo, "confirmed_in_scratch_worktree": conf,
                     "how_to_run": "git -C /repo apply /verif/seeded/%s-%d/patch.diff && (cd /verif && ./check %s); git -C /repo checkout -- ." % (pid, k + OFF, pid)})
        json.dump(meta, open(meta_p, "w"), indent=1)
print("stored", len(os.listdir(DST)))
