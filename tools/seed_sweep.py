#!/usr/bin/env python3
"""tools/seed_sweep.py [ID-k ...] — apply each stored seeded change to /repo's working tree, run its property's
quick check (plus any extra checks listed in EXTRA), restore the tree, and record the outcome in meta.json."""
import json, os, re, subprocess, sys
D = "/verif/seeded"
EXTRA = {"C02-1": ["C03"], "C03-2": ["C04"], "C06-1": ["C08"], "C06-2": ["C01"], "C08-2": ["C01"], "C19-1": ["C18"], "C19-2": ["C18"],
         "C18-1": ["C19"], "C01-1": ["C06"], "C12-1": ["C01"], "C02-3": ["C03"], "C09-3": ["C11"], "C11-3": ["C09"], "C12-3": ["C09"],
         "C02-4": ["C09", "C10"], "C10-3": ["C09", "C02"], "C11-4": ["C03"]}
names = sys.argv[1:] or sorted(os.listdir(D))
env = dict(os.environ, GOFLAGS="-mod=mod", GOPROXY="off", GOSUMDB="off", GOTOOLCHAIN="local")
for n in names:
    pid = n.split("-")[0]
    patch = os.path.join(D, n, "patch.diff")
    if subprocess.run(["git", "-C", "/repo", "status", "--porcelain"], capture_output=True, text=True).stdout.strip():
        print("refusing: /repo not clean"); sys.exit(2)
    if subprocess.run(["git", "-C", "/repo", "apply", patch]).returncode != 0:
        print(n, "patch does not apply"); continue
    results = {}
    try:
        for c in [pid] + EXTRA.get(n, []):
            r = subprocess.run(["./check", c, "--tier", "quick"], cwd="/verif", capture_output=True, text=True, env=env)
            out = r.stdout + r.stderr
            v = re.search(r"^VIOLATION.*$", out, re.M)
            w = re.search(r"^\[check\] violation[^:]*: (.*)$", out, re.M)
            results[c] = {"exit": r.returncode, "violation_line": v.group(0) if v else None,
                          "found_failing_input": bool(v) and "no-failing-input-found" not in v.group(0),
                          "what": (w.group(1)[:300] if w else None)}
    finally:
        subprocess.run(["git", "-C", "/repo", "checkout", "--", "."])
        subprocess.run(["git", "-C", "/repo", "clean", "-fdq"])
    mp = os.path.join(D, n, "meta.json")
    meta = json.load(open(mp))
    meta["checks_run_against_it"] = results
    meta["detected"] = any(x["exit"] == 1 for x in results.values())
    json.dump(meta, open(mp, "w"), indent=1)
    print(n, {c: ("HARD" if x["found_failing_input"] else "soft" if x["exit"] == 1 else "MISS") for c, x in results.items()}, flush=True)
# leave ChfVerif/Gen as the unchanged tree says (a sweep regenerates the tables from each changed tree)
subprocess.run(["./setup.sh"], cwd="/verif", stdout=subprocess.DEVNULL, stderr=subprocess.DEVNULL, env=env)
