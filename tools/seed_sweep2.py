#!/usr/bin/env python3
"""tools/seed_sweep2.py [--verif DIR] [--scratch DIR] [--extra] ID-k ... — apply each stored seeded change to a scratch worktree
of /repo (reset to /repo's HEAD first; `git apply`, then `git apply --3way` when the tree has moved on), run its property's
quick check from the given /verif worktree with VERIF_REPO pointing at the scratch tree (plus the extra checks listed in EXTRA
with --extra), and record the outcome in /verif/seeded/<id>/meta.json.  /repo itself is never touched, so several sweeps can
run side by side (one verif worktree and one scratch tree each)."""
import json, os, re, subprocess, sys, time

D = "/verif/seeded"
EXTRA = {"C02-1": ["C03"], "C03-2": ["C04"], "C06-1": ["C08"], "C06-2": ["C01"], "C08-2": ["C01"], "C19-1": ["C18"], "C19-2": ["C18"],
         "C18-1": ["C19"], "C01-1": ["C06"], "C12-1": ["C01"], "C02-3": ["C03"], "C09-3": ["C11"], "C11-3": ["C09"], "C12-3": ["C09"],
         "C02-4": ["C09", "C10"], "C10-3": ["C09", "C02"], "C11-4": ["C03"], "C02-7": ["C03"], "C03-7": ["C02"], "C03-8": ["C15"],
         "C17-8": ["C19"], "C06-8": ["C07"], "C01-7": ["C19", "C09"], "C05-8": ["C04"]}


def sh(cmd, **kw):
    return subprocess.run(cmd, capture_output=True, text=True, **kw)


def main():
    a = sys.argv[1:]
    verif, scratch, extra = "/verif", "/tmp/rw-sweep", False
    while a and a[0].startswith("--"):
        if a[0] == "--verif":
            verif = a[1]; a = a[2:]
        elif a[0] == "--scratch":
            scratch = a[1]; a = a[2:]
        elif a[0] == "--extra":
            extra = True; a = a[1:]
        else:
            print("unknown option", a[0]); sys.exit(2)
    names = a or sorted(os.listdir(D))
    head = sh(["git", "-C", "/repo", "rev-parse", "HEAD"]).stdout.strip()
    if not os.path.isdir(scratch):
        sh(["git", "-C", "/repo", "worktree", "add", "--detach", scratch, head])
    env = dict(os.environ, GOFLAGS="-mod=mod", GOPROXY="off", GOSUMDB="off", GOTOOLCHAIN="local", VERIF_REPO=scratch)
    for n in names:
        pid = n.split("-")[0]
        patch = os.path.join(D, n, "patch.diff")
        mp = os.path.join(D, n, "meta.json")
        if not os.path.exists(patch):
            continue
        sh(["git", "-C", scratch, "reset", "-q", "--hard"])
        sh(["git", "-C", scratch, "clean", "-fdq"])
        sh(["git", "-C", scratch, "checkout", "-q", "--detach", head])
        how = "git apply"
        alt = os.path.join(D, n, "patch_head.diff")     # the same change re-created by hand on the current tree
        r = sh(["git", "-C", scratch, "apply", patch])
        if r.returncode != 0:
            sh(["git", "-C", scratch, "reset", "-q", "--hard"])
            if os.path.exists(alt) and sh(["git", "-C", scratch, "apply", alt]).returncode == 0:
                how = "patch_head.diff"
            else:
                how = "git apply --3way"
                sh(["git", "-C", scratch, "reset", "-q", "--hard"])
                r = sh(["git", "-C", scratch, "apply", "--3way", patch])
                unmerged = sh(["git", "-C", scratch, "diff", "--name-only", "--diff-filter=U"]).stdout.strip()
                if r.returncode != 0 or unmerged:
                    sh(["git", "-C", scratch, "reset", "-q", "--hard"])
                    print(n, "PATCH DOES NOT APPLY to", head[:7], flush=True)
                    meta = json.load(open(mp)); meta["applies_to_head"] = False; json.dump(meta, open(mp, "w"), indent=1)
                    continue
        b = sh(["go", "build", "./..."], cwd=scratch, env=env)
        if b.returncode != 0 and how != "patch_head.diff" and os.path.exists(alt):
            # applies as text but no longer builds on the current tree: the hand re-created patch
            sh(["git", "-C", scratch, "reset", "-q", "--hard"])
            if sh(["git", "-C", scratch, "apply", alt]).returncode == 0:
                how = "patch_head.diff"
                b = sh(["go", "build", "./..."], cwd=scratch, env=env)
        if b.returncode != 0:
            print(n, "DOES NOT BUILD on", head[:7], b.stderr[-300:].replace("\n", " "), flush=True)
            meta = json.load(open(mp)); meta["applies_to_head"] = False; json.dump(meta, open(mp, "w"), indent=1)
            continue
        results = {}
        for c in [pid] + (EXTRA.get(n, []) if extra else []):
            t0 = time.time()
            try:
                r = subprocess.run(["./check", c, "--tier", "quick"], cwd=verif, capture_output=True, text=True, env=env, timeout=2400)
                out = r.stdout + r.stderr
                rc = r.returncode
            except subprocess.TimeoutExpired as e:
                out, rc = (e.stdout or b"").decode(errors="replace") if isinstance(e.stdout, bytes) else (e.stdout or ""), 124
            v = re.search(r"^VIOLATION.*$", out, re.M)
            w = re.search(r"^\[check\] violation[^:]*: (.*)$", out, re.M)
            results[c] = {"exit": rc, "violation_line": v.group(0) if v else None,
                          "found_failing_input": bool(v) and "no-failing-input-found" not in v.group(0),
                          "what": (w.group(1)[:300] if w else None), "wall_s": round(time.time() - t0)}
        # the tables regenerated from the seeded tree do not stay behind for the next seed
        sh(["git", "-C", verif, "checkout", "--", "lean/ChfVerif/Gen", "evidence"])
        meta = json.load(open(mp))
        meta["checks_run_against_it"] = results
        meta["detected"] = any(x["exit"] == 1 for x in results.values())
        if "first_pass" not in meta:
            own = results.get(pid, {})
            meta["first_pass"] = "failing input" if own.get("found_failing_input") else "soft" if own.get("exit") == 1 else "missed"
        meta["applies_to_head"] = True
        meta["applied_with"] = how
        meta["swept_at_repo_head"] = head[:7]
        json.dump(meta, open(mp, "w"), indent=1)
        print(n, {c: ("HARD" if x["found_failing_input"] else "soft" if x["exit"] == 1 else "TIMEOUT" if x["exit"] == 124 else "MISS") for c, x in results.items()},
              "(%s)" % how, flush=True)
    sh(["git", "-C", scratch, "reset", "-q", "--hard"])


if __name__ == "__main__":
    main()
