// Package mongoapi — in-memory stand-in used only by the /verif harness build (there is
// no mongod in the sandbox).  It replaces github.com/free5gc/util/mongoapi/mongoapi.go
// through `go build -overlay`; an overlaid module-cache file may only import what the
// original imported, so the store itself lives in the harness and is reached through
// the two hook variables.
package mongoapi

import (
	"go.mongodb.org/mongo-driver/bson"
)

const (
	COLLATION_STRENGTH_IGNORE_DIACRITICS_AND_CASE int = iota + 1
	COLLATION_STRENGTH_IGNORE_CASE
	COLLATION_STRENGTH_DEFAULT
)

var (
	HookGetOne func(collName string, filter bson.M) (map[string]interface{}, error)
	HookPutOne func(collName string, filter bson.M, putData map[string]interface{}) (bool, error)
)

func SetMongoDB(setdbName string, url string) error { return nil }

func RestfulAPIGetOne(collName string, filter bson.M, argOpt ...interface{}) (map[string]interface{}, error) {
	return HookGetOne(collName, filter)
}

func RestfulAPIPutOne(collName string, filter bson.M, putData map[string]interface{}, argOpt ...interface{}) (
	bool, error,
) {
	return HookPutOne(collName, filter, putData)
}
