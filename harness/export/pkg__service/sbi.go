//go:build verif

package service

import "github.com/free5gc/chf/internal/sbi"

// VerifSbi exposes the SBI server (and through it the router) to the verification harness.
func (a *ChfApp) VerifSbi() *sbi.Server { return a.{{service.sbiServerField}} }
