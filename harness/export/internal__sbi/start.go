//go:build verif

package sbi

import "sync"

// VerifStart runs startServer (listen on the configured scheme) as Run does, without NRF registration.
func (s *Server) VerifStart(wg *sync.WaitGroup) {
	wg.Add(1)
	go s.{{sbi.startServer}}(wg)
}

// VerifStop shuts the listener down again.
func (s *Server) VerifStop() { s.Stop() }
