//go:build verif

package sbi

import "github.com/gin-gonic/gin"

// VerifRouter exposes the gin engine built by newRouter to the verification harness.
func (s *Server) VerifRouter() *gin.Engine { return s.{{sbi.routerField}} }
