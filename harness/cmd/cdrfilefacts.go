//go:build verif

package main

// dump-tables cdrfile: how CDRFile.Encoding opens and writes its destination, read from the source (go/ast).
// The file on disk after Encoding depends on it when the destination already exists: os.WriteFile, os.Create and
// os.OpenFile with O_TRUNC replace the old content; os.OpenFile without O_TRUNC writes over its beginning and
// leaves the rest; with O_APPEND the new octets follow the old ones.  Emitted as Gen/CdrFileFacts.lean.

import (
	"fmt"
	"go/ast"
	"go/parser"
	"go/token"
	"os"
	"path/filepath"
	"strings"
)

func init() { tableDumpers["cdrfile"] = dumpCdrFileFacts }

type writeSite struct {
	trunc, app bool
	src        string
}

func encodingWriteSites(file string) ([]writeSite, error) {
	fset := token.NewFileSet()
	f, err := parser.ParseFile(fset, file, nil, 0)
	if err != nil {
		return nil, err
	}
	var fn *ast.FuncDecl
	for _, d := range f.Decls {
		x, ok := d.(*ast.FuncDecl)
		if !ok || x.Name.Name != "Encoding" || x.Recv == nil || len(x.Recv.List) != 1 || x.Body == nil {
			continue
		}
		t := x.Recv.List[0].Type
		if st, ok := t.(*ast.StarExpr); ok {
			t = st.X
		}
		if id, ok := t.(*ast.Ident); ok && id.Name == "CDRFile" {
			fn = x
		}
	}
	if fn == nil {
		return nil, fmt.Errorf("CDRFile.Encoding not found in %s", file)
	}
	e := &flowEnum{fset: fset}
	var sites []writeSite
	ast.Inspect(fn.Body, func(n ast.Node) bool {
		c, ok := n.(*ast.CallExpr)
		if !ok {
			return true
		}
		switch selChain(c.Fun) {
		case "os.WriteFile", "ioutil.WriteFile", "os.Create":
			sites = append(sites, writeSite{trunc: true, src: e.src(c)})
		case "os.OpenFile":
			s := writeSite{src: e.src(c)}
			if len(c.Args) >= 2 {
				plain := true
				ast.Inspect(c.Args[1], func(k ast.Node) bool {
					switch x := k.(type) {
					case *ast.SelectorExpr:
						switch selChain(x) {
						case "os.O_TRUNC", "syscall.O_TRUNC":
							s.trunc = true
						case "os.O_APPEND", "syscall.O_APPEND":
							s.app = true
						}
						return false
					case *ast.BinaryExpr:
						if x.Op != token.OR {
							plain = false
						}
					case *ast.ParenExpr:
					default:
						if k != nil {
							plain = false // a variable, a call …: the flags are not a constant the extractor can read
						}
					}
					return true
				})
				if !plain {
					s.trunc = false
				}
			}
			sites = append(sites, s)
		}
		return true
	})
	return sites, nil
}

func dumpCdrFileFacts() {
	sites, err := encodingWriteSites(filepath.Join(repoRoot(), "cdr", "cdrFile", "cdrFile.go"))
	if err != nil {
		fmt.Fprintln(os.Stderr, "ast:", err)
		os.Exit(1)
	}
	var sb strings.Builder
	sb.WriteString("/- GENERATED from the repository's working tree by `verifharness dump-tables cdrfile` — do not edit. -/\n")
	sb.WriteString("import ChfVerif.Model.CdrFile\nnamespace Chf.Gen\nopen Chf.CdrFile\n\n")
	sb.WriteString("/-- every call in CDRFile.Encoding that opens or writes the destination file (go/ast):\n    does it discard the old content (os.WriteFile, os.Create, O_TRUNC), does it append (O_APPEND) -/\n")
	sb.WriteString("def encodingWrites : List WriteMode := [\n")
	for i, s := range sites {
		sep := ","
		if i == len(sites)-1 {
			sep = ""
		}
		fmt.Fprintf(&sb, "  ⟨%v, %v⟩%s   -- %s\n", s.trunc, s.app, sep, s.src)
	}
	sb.WriteString("]\n\n/-- the one the model's file system uses -/\ndef encodingWrite : WriteMode := encodingWrites.headD ⟨false, false⟩\n\nend Chf.Gen\n")
	fmt.Print(sb.String())
}
