//go:build verif

package main

import (
	"bufio"
	"bytes"
	"fmt"
	"math"
	"path/filepath"
	"reflect"
	"sort"
	"strings"
	"time"

	"github.com/fiorix/go-diameter/diam"
	"github.com/fiorix/go-diameter/diam/datatype"
	"github.com/fiorix/go-diameter/diam/dict"

	charging_code "github.com/free5gc/chf/ccs_diameter/code"
	cd "github.com/free5gc/chf/ccs_diameter/datatype"
	charging_dict "github.com/free5gc/chf/ccs_diameter/dict"
)

var dictOnce bool

func loadDicts() {
	if dictOnce {
		return
	}
	dictOnce = true
	// as the components do: both dictionaries on top of the default one
	_ = dict.Default.Load(bytes.NewReader([]byte(charging_dict.RateDictionary)))
	_ = dict.Default.Load(bytes.NewReader([]byte(charging_dict.AbmfDictionary)))
}

func goKind(t reflect.Type) string {
	if t.Kind() == reflect.Ptr {
		if t.Elem().Kind() == reflect.Struct {
			return "Grouped"
		}
		return goKind(t.Elem())
	}
	if t.PkgPath() == reflect.TypeOf(datatype.Unsigned32(0)).PkgPath() {
		return t.Name()
	}
	if t.Kind() == reflect.Int32 && t.ConvertibleTo(reflect.TypeOf(datatype.Enumerated(0))) {
		return "Enumerated"
	}
	return "go:" + t.String()
}

type tagRow struct{ st, field, avp, kind string }

func collectTags(t reflect.Type, seen map[reflect.Type]bool, out *[]tagRow) {
	if t.Kind() == reflect.Ptr {
		t = t.Elem()
	}
	if t.Kind() != reflect.Struct || seen[t] {
		return
	}
	seen[t] = true
	for i := 0; i < t.NumField(); i++ {
		f := t.Field(i)
		name := f.Tag.Get("avp")
		if j := strings.Index(name, ","); j >= 0 {
			name = name[:j]
		}
		*out = append(*out, tagRow{t.Name(), f.Name, name, goKind(f.Type)})
		ft := f.Type
		if ft.Kind() == reflect.Ptr {
			ft = ft.Elem()
		}
		if ft.Kind() == reflect.Struct && ft.PkgPath() == t.PkgPath() {
			collectTags(ft, seen, out)
		}
	}
}

func init() {
	tableDumpers["diameter"] = dumpDiameter
	streams["diam"] = &stream{gen: genDiam, run: runDiam, setup: loadDicts}
}

func dumpDiameter() {
	loadDicts()
	var sb strings.Builder
	sb.WriteString("/- GENERATED from the repository's working tree by `verifharness dump-tables diameter` — do not edit. -/\n")
	sb.WriteString("import ChfVerif.Model.Diameter\nnamespace Chf.Gen\nopen Chf.Diameter\n\n")
	// 1. AVP definitions of the two dictionaries the components load
	sb.WriteString("/-- AVP definitions of ccs_diameter/dict (dictionary, application, name, code, vendor, data type) -/\n")
	sb.WriteString("def dictAvps : List AvpDef := [\n")
	var rows []string
	for _, d := range []struct{ name, xml string }{{"rate", charging_dict.RateDictionary}, {"abmf", charging_dict.AbmfDictionary}} {
		p, err := dict.NewParser()
		if err == nil {
			err = p.Load(bytes.NewReader([]byte(d.xml)))
		}
		if err != nil {
			rows = append(rows, fmt.Sprintf("  ⟨%q, 0, %q, 0, 0, \"\"⟩", d.name, "LOAD-ERROR: "+err.Error()))
			continue
		}
		for _, app := range p.Apps() {
			for _, a := range app.AVP {
				rows = append(rows, fmt.Sprintf("  ⟨%q, %d, %q, %d, %d, %q⟩", d.name, app.ID, a.Name, a.Code, a.VendorID, a.Data.TypeName))
			}
		}
	}
	sb.WriteString(strings.Join(rows, ",\n"))
	sb.WriteString("\n]\n\n")
	// 2. struct tags and how the loaded dictionary resolves them
	var tags []tagRow
	seen := map[reflect.Type]bool{}
	for _, v := range []interface{}{cd.ServiceUsageRequest{}, cd.ServiceUsageResponse{}, cd.AccountDebitRequest{}, cd.AccountDebitResponse{}} {
		collectTags(reflect.TypeOf(v), seen, &tags)
	}
	sb.WriteString("/-- every `avp:` struct tag reachable from the four message structures, and what\n    `dict.Default.FindAVP(Re_interface, name)` returns for it once both dictionaries are loaded -/\n")
	sb.WriteString("def avpTags : List TagLookup := [\n")
	rows = nil
	for _, t := range tags {
		a, err := dict.Default.FindAVP(charging_code.Re_interface, t.avp)
		if err != nil {
			rows = append(rows, fmt.Sprintf("  ⟨%q, %q, %q, %q, false, 0, 0, \"\"⟩", t.st, t.field, t.avp, t.kind))
			continue
		}
		rows = append(rows, fmt.Sprintf("  ⟨%q, %q, %q, %q, true, %d, %d, %q⟩", t.st, t.field, t.avp, t.kind, a.Code, a.VendorID, a.Data.TypeName))
	}
	sb.WriteString(strings.Join(rows, ",\n"))
	sb.WriteString("\n]\n\n")
	fmt.Fprintf(&sb, "def reInterface : Nat := %d\n\n", charging_code.Re_interface)
	// 3. the CHF's client functions return the decoded answer untouched (go/ast, see astPassThrough)
	sb.WriteString("/-- (client function, the decoded answer is returned as decoded: nothing between Unmarshal and return) -/\n")
	fmt.Fprintf(&sb, "def clientPassThrough : List (String × Bool) := [(%q, %v), (%q, %v)]\n\nend Chf.Gen\n",
		"internal/rating.SendServiceUsageRequest", astPassThrough(filepath.Join(repoRoot(), "internal", "rating", "rating.go"), "SendServiceUsageRequest"),
		"internal/abmf.SendAccountDebitRequest", astPassThrough(filepath.Join(repoRoot(), "internal", "abmf", "abmf.go"), "SendAccountDebitRequest"))
	fmt.Print(sb.String())
}

// ---- diam stream: field fidelity over a real message serialisation ----

func randFill(r *rng, v reflect.Value, depth int) {
	switch v.Kind() {
	case reflect.Ptr:
		if v.Type().Elem().Kind() == reflect.Struct {
			if depth < 6 && r.chance(75) {
				n := reflect.New(v.Type().Elem())
				randFill(r, n.Elem(), depth+1)
				v.Set(n)
			}
		}
	case reflect.Struct:
		if v.Type() == reflect.TypeOf(time.Time{}) || v.Type() == reflect.TypeOf(datatype.Time{}) {
			return
		}
		for i := 0; i < v.NumField(); i++ {
			randFill(r, v.Field(i), depth+1)
		}
	case reflect.Uint32:
		v.SetUint(uint64(r.pick(0, 1, 2, 255, 256, 65535, 1<<31-1, 1<<31, 1<<32-1, r.intn(1<<31))))
	case reflect.Uint64:
		xs := []uint64{0, 1, 1<<32 - 1, 1 << 32, 1<<63 - 1, 1 << 63, math.MaxUint64, r.next()}
		v.SetUint(xs[r.intn(len(xs))])
	case reflect.Int32:
		xs := []int64{0, 1, -1, 2, 3, math.MaxInt32, math.MinInt32, int64(int32(r.next()))}
		v.SetInt(xs[r.intn(len(xs))])
	case reflect.Int64:
		if v.Type() == reflect.TypeOf(datatype.Time{}) {
			return
		}
		xs := []int64{0, 1, -1, math.MaxInt64, math.MinInt64, int64(r.next())}
		v.SetInt(xs[r.intn(len(xs))])
	case reflect.String:
		switch r.intn(5) {
		case 0:
			v.SetString("")
		case 1:
			v.SetString("a")
		case 2:
			v.SetString(strings.Repeat("x", r.pick(3, 4, 5, 255, 256, 1000)))
		default:
			v.SetString(fmt.Sprintf("s-%d", r.intn(100000)))
		}
	case reflect.Slice:
		if v.Type().Elem().Kind() == reflect.Uint8 {
			if v.Type() == reflect.TypeOf(datatype.Grouped{}) {
				return // opaque grouped payloads are left empty
			}
			v.SetBytes(r.bytes(r.pick(0, 1, 3, 4, 5, 64)))
		}
	}
}

func setTimes(v reflect.Value, t time.Time) {
	tt := reflect.TypeOf(datatype.Time{})
	switch v.Kind() {
	case reflect.Ptr:
		if !v.IsNil() {
			setTimes(v.Elem(), t)
		}
	case reflect.Struct:
		if v.Type() == tt {
			v.Set(reflect.ValueOf(datatype.Time(t)))
			return
		}
		for i := 0; i < v.NumField(); i++ {
			setTimes(v.Field(i), t)
		}
	}
}

// canon renders a message struct field by field (nil pointers as "-", times in seconds)
func canon(v reflect.Value) string {
	switch v.Kind() {
	case reflect.Ptr:
		if v.IsNil() {
			return "-"
		}
		return canon(v.Elem())
	case reflect.Struct:
		if v.Type() == reflect.TypeOf(datatype.Time{}) {
			return fmt.Sprintf("t%d", time.Time(v.Interface().(datatype.Time)).Unix())
		}
		var p []string
		for i := 0; i < v.NumField(); i++ {
			p = append(p, v.Type().Field(i).Name+"="+canon(v.Field(i)))
		}
		return "{" + strings.Join(p, ",") + "}"
	case reflect.Slice:
		if v.Type() == reflect.TypeOf(datatype.Grouped{}) {
			// opaque placeholder groups (never populated by the components): not compared
			return "opaque"
		}
		return "x" + hexOf(v.Bytes())
	case reflect.String:
		return "s" + hexOf([]byte(v.String()))
	}
	return fmt.Sprintf("%v", v.Interface())
}

var diamMsgs = []struct {
	name string
	mk   func() interface{}
	cmd  uint32
	req  bool
}{
	{"ServiceUsageRequest", func() interface{} { return &cd.ServiceUsageRequest{} }, charging_code.ServiceUsageMessage, true},
	{"ServiceUsageResponse", func() interface{} { return &cd.ServiceUsageResponse{} }, charging_code.ServiceUsageMessage, false},
	{"AccountDebitRequest", func() interface{} { return &cd.AccountDebitRequest{} }, charging_code.ABMF_CreditControl, true},
	{"AccountDebitResponse", func() interface{} { return &cd.AccountDebitResponse{} }, charging_code.ABMF_CreditControl, false},
}

func genDiam(o genOpts, w *bufio.Writer) {
	for i := 0; i < o.n; i++ {
		fmt.Fprintf(w, "diam rt %d %d\n", i%4, o.seed*1000003+uint64(i))
	}
	// the CHF's client functions against a scripted peer: requests and answers over the full range of every field
	for i := 0; i < o.n/2; i++ {
		fmt.Fprintf(w, "diam client %s %d\n", []string{"sur", "ccr"}[i%2], o.seed*7000003+uint64(i))
	}
	// primitive AVP data encodings (compared with the Lean codec model)
	r := &rng{s: o.seed}
	for i := 0; i < o.n/4; i++ {
		fmt.Fprintf(w, "diam prim u32 %d\n", uint32(r.width(32)))
		fmt.Fprintf(w, "diam prim u64 %d\n", r.width(64))
		fmt.Fprintf(w, "diam prim i32 %d\n", int32(r.width(32)))
		fmt.Fprintf(w, "diam prim i64 %d\n", int64(r.width(64)))
		fmt.Fprintf(w, "diam prim str %s\n", hexOf(r.bytes(r.pick(0, 1, 2, 3, 4, 5, 7, 8, 9))))
	}
	// look-ups by name and by code
	names := map[string]bool{}
	var tags []tagRow
	seen := map[reflect.Type]bool{}
	for _, m := range diamMsgs {
		collectTags(reflect.TypeOf(m.mk()), seen, &tags)
	}
	for _, t := range tags {
		names[t.avp] = true
	}
	var ns []string
	for n := range names {
		ns = append(ns, n)
	}
	sort.Strings(ns)
	for _, n := range ns {
		fmt.Fprintf(w, "diam lookup %s\n", hexOf([]byte(n)))
	}
}

func runDiam(line string, t []string) string {
	switch {
	case len(t) == 3 && t[0] == "rt":
		m := diamMsgs[int(i64(t[1]))%4]
		r := &rng{s: uint64(i64(t[2]))}
		src := m.mk()
		randFill(r, reflect.ValueOf(src).Elem(), 0)
		setTimes(reflect.ValueOf(src).Elem(), time.Unix(int64(r.intn(2000000000)), 0))
		var msg *diam.Message
		if m.req {
			msg = diam.NewRequest(m.cmd, charging_code.Re_interface, dict.Default)
		} else {
			msg = diam.NewMessage(m.cmd, 0, charging_code.Re_interface, 1, 2, dict.Default)
		}
		if err := msg.Marshal(src); err != nil {
			return "marshal-error " + err.Error()
		}
		b, err := msg.Serialize()
		if err != nil {
			return "serialize-error"
		}
		got, err := diam.ReadMessage(bytes.NewReader(b), dict.Default)
		if err != nil {
			return "read-error " + strings.ReplaceAll(err.Error(), " ", "_")
		}
		dst := m.mk()
		if err := got.Unmarshal(dst); err != nil {
			return "unmarshal-error"
		}
		a, c := canon(reflect.ValueOf(src)), canon(reflect.ValueOf(dst))
		if a == c {
			return fmt.Sprintf("same %s len=%d", m.name, len(b))
		}
		return "DIFF " + m.name + " sent=" + a + " got=" + c
	case len(t) == 3 && t[0] == "client":
		// the same fidelity through the CHF's real client functions and a scripted peer (diamclientrt.go)
		return runDiamClient(t[1], uint64(i64(t[2])))
	case len(t) == 3 && t[0] == "prim":
		var d datatype.Type
		switch t[1] {
		case "u32":
			d = datatype.Unsigned32(u(t[2]))
		case "u64":
			d = datatype.Unsigned64(u(t[2]))
		case "i32":
			d = datatype.Integer32(i64(t[2]))
		case "i64":
			d = datatype.Integer64(i64(t[2]))
		case "str":
			b, _ := unhex(t[2])
			d = datatype.OctetString(b)
		default:
			return "bad-op"
		}
		return fmt.Sprintf("ok %s pad=%d", hexOf(d.Serialize()), d.Padding())
	case len(t) == 2 && t[0] == "lookup":
		nb, _ := unhex(t[1])
		a, err := dict.Default.FindAVP(charging_code.Re_interface, string(nb))
		if err != nil {
			return "undefined"
		}
		// and back by code: must give the same name
		b, err := dict.Default.FindAVPWithVendor(charging_code.Re_interface, a.Code, a.VendorID)
		back := "?"
		if err == nil {
			back = b.Name
		}
		return fmt.Sprintf("def code=%d vendor=%d type=%s back=%s", a.Code, a.VendorID, a.Data.TypeName, hexOf([]byte(back)))
	}
	return "bad-op"
}
