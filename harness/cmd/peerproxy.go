//go:build verif

package main

// peer stream, connection set-up faults (steps HA<ms> / HR<ms>): a TCP proxy in front of the account-balance and
// the rating server.  Every connection the CHF opens is forwarded octet by octet; the first octets the server sends
// (its part of the TLS handshake) are held back until <ms> after the connection was accepted, so for the CHF the
// connection set-up (TCP accept, then TLS handshake, then capabilities exchange) takes that long - a peer that
// accepts but is slow to shake hands.  Delays are queued per peer and consumed one per connection, in order.
//
// Also here: stored account documents the two servers cannot digest (step Q<k>), and the exact counts taken at a
// C step of server-side handler tasks and of sockets in any state.

import (
	"fmt"
	"io"
	"net"
	"os"
	"strconv"
	"strings"
	"sync"
	"time"

	"github.com/free5gc/chf/pkg/factory"
)

type setupQueue struct {
	mu sync.Mutex
	q  []int
}

func (s *setupQueue) push(ms int) {
	s.mu.Lock()
	s.q = append(s.q, ms)
	s.mu.Unlock()
}

func (s *setupQueue) pop() int {
	s.mu.Lock()
	defer s.mu.Unlock()
	if len(s.q) == 0 {
		return 0
	}
	d := s.q[0]
	s.q = s.q[1:]
	return d
}

var (
	proxyOnce                  sync.Once
	proxying                   bool
	proxyRfPort, proxyAbmfPort int
	rfSetupQ, abmfSetupQ       setupQueue
)

func startProxy(upPort int, q *setupQueue) int {
	l, err := net.Listen("tcp", "127.0.0.1:0")
	if err != nil {
		panic(err)
	}
	go func() {
		for {
			c, err := l.Accept()
			if err != nil {
				return
			}
			t0 := time.Now()
			hold := time.Duration(q.pop()) * time.Millisecond
			go func() {
				up, err := net.Dial("tcp", fmt.Sprintf("127.0.0.1:%d", upPort))
				if err != nil {
					c.Close()
					return
				}
				var once sync.Once
				closeBoth := func() { once.Do(func() { c.Close(); up.Close() }) }
				go func() { _, _ = io.Copy(up, c); closeBoth() }()
				buf := make([]byte, 32<<10)
				first := true
				for {
					n, err := up.Read(buf)
					if n > 0 {
						if first {
							first = false
							if rest := hold - time.Since(t0); rest > 0 {
								time.Sleep(rest)
							}
						}
						if _, werr := c.Write(buf[:n]); werr != nil {
							break
						}
					}
					if err != nil {
						break
					}
				}
				closeBoth()
			}()
		}
	}()
	return l.Addr().(*net.TCPAddr).Port
}

// useProxy points the CHF's two Diameter clients at the proxies (in front of the relays when those are in use)
func useProxy() {
	proxyOnce.Do(func() {
		cfg := factory.ChfConfig.Configuration
		proxyRfPort = startProxy(cfg.RfDiameter.Port, &rfSetupQ)
		proxyAbmfPort = startProxy(cfg.AbmfDiameter.Port, &abmfSetupQ)
		cfg.RfDiameter.Port = proxyRfPort
		cfg.AbmfDiameter.Port = proxyAbmfPort
		proxying = true
	})
}

// the ports the CHF's clients connect to
func clientPeerPorts() map[int]bool {
	switch {
	case proxying:
		return map[int]bool{proxyRfPort: true, proxyAbmfPort: true}
	case relaying:
		return map[int]bool{relayRfPort: true, relayAbmfPort: true}
	}
	return map[int]bool{rfPort: true, abmfPort: true}
}

// every port of the Diameter paths (servers, relays, proxies)
func allPeerPorts() map[int]bool {
	m := map[int]bool{rfPort: true, abmfPort: true}
	if relaying {
		m[relayRfPort], m[relayAbmfPort] = true, true
	}
	if proxying {
		m[proxyRfPort], m[proxyAbmfPort] = true, true
	}
	return m
}

// sockets of this process on any of the Diameter ports, in any state but LISTEN (established, CLOSE_WAIT, FIN_WAIT …)
func peerSocketsAnyState() int {
	own := ownSockets()
	b, err := os.ReadFile("/proc/self/net/tcp")
	if err != nil {
		return -1
	}
	ports := allPeerPorts()
	n := 0
	for i, l := range strings.Split(string(b), "\n") {
		fs := strings.Fields(l)
		if i == 0 || len(fs) < 10 || fs[3] == "0A" {
			continue
		}
		if own != nil && !own[fs[9]] {
			continue
		}
		hit := false
		for _, a := range []string{fs[1], fs[2]} {
			if p := strings.Split(a, ":"); len(p) == 2 {
				port, _ := strconv.ParseInt(p[1], 16, 32)
				if ports[int(port)] {
					hit = true
				}
			}
		}
		if hit {
			n++
		}
	}
	return n
}

// goroutines inside a request handler of the account-balance or the rating server
func serverHandlerTasks(stacks string) int {
	n := 0
	for _, g := range strings.Split(stacks, "\n\n") {
		for _, l := range strings.Split(g, "\n") {
			// the handlers are closures: "…/pkg/abmf.OpenServer.handleCCR.func3(…)", "…/pkg/rf.handleSUR.func1(…)"
			if (strings.Contains(l, "/pkg/abmf.") && strings.Contains(l, "handleCCR")) ||
				(strings.Contains(l, "/pkg/rf.") && strings.Contains(l, "handleSUR")) {
				n++
				break
			}
		}
	}
	return n
}

// Q<k>: the subscriber's stored account document becomes one a server cannot digest
func spoilDocument(supi string, k int) bool {
	store.mu.Lock()
	defer store.mu.Unlock()
	d := map[string]interface{}{"ueId": supi, "ratingGroup": int32(1), "quota": "1000000000000", "unitCost": "2"}
	switch k {
	case 0:
		d["quota"] = int64(1000000000000) // a number where the server expects a string
	case 1:
		delete(d, "quota")
	case 2:
		d["quota"] = "plenty"
	case 3:
		d["unitCost"] = int32(2)
	case 4:
		delete(d, "unitCost")
	case 9:
	default:
		return false
	}
	store.docs[acctKey{supi, 1}] = d
	return true
}

// K<0|1>: a second key pair, written once; the configuration's Diameter sections name it while K1 is in force
var (
	secondPairOnce       sync.Once
	secondPem, secondKey string
)

func rotateClientKeyPair(second bool) {
	secondPairOnce.Do(func() {
		d, err := os.MkdirTemp("", "verif-env2-")
		if err != nil {
			panic(err)
		}
		secondPem, secondKey = writeCert(d)
	})
	pem, key := certPem, certKey
	if second {
		pem, key = secondPem, secondKey
	}
	c := factory.ChfConfig.Configuration
	c.RfDiameter.Tls.Pem, c.RfDiameter.Tls.Key = pem, key
	c.AbmfDiameter.Tls.Pem, c.AbmfDiameter.Tls.Key = pem, key
}
