//go:build verif

package main

// diam client sur|ccr <seed>  (C17): the CHF-side send and receive paths of the two Diameter client functions.
//
// A scripted Diameter peer stands in for the rating / account-balance server.  The request structure is filled at random
// over the full range of every field (as in `diam rt`), handed to the REAL client function
// (internal/rating.SendServiceUsageRequest, internal/abmf.SendAccountDebitRequest), and the peer answers with a response
// structure filled the same way.  Compared field by field:
//   - what the peer decoded from the wire  with  the request structure the caller passed (as the function left it:
//     it fills in Destination-Host/-Realm),
//   - what the client function returned    with  the response structure the peer sent.

import (
	"encoding/json"
	"fmt"
	"reflect"
	"sync"
	"time"

	"github.com/fiorix/go-diameter/diam"
	"github.com/fiorix/go-diameter/diam/sm"

	cd "github.com/free5gc/chf/ccs_diameter/datatype"
	"github.com/free5gc/chf/internal/abmf"
	chf_context "github.com/free5gc/chf/internal/context"
	"github.com/free5gc/chf/internal/rating"
	"github.com/free5gc/chf/pkg/factory"
)

type scriptedPeer struct {
	port int
	mu   sync.Mutex
	// per exchange: the response to send and what was received
	answer   interface{}
	received string
	err      string
}

var (
	scriptedOnce sync.Once
	surPeer      = &scriptedPeer{}
	ccrPeer      = &scriptedPeer{}
	clientRtUe   *chf_context.ChfUe
)

func (p *scriptedPeer) serve(name, cmd string, mkReq func() interface{}) {
	p.port = freePort()
	mux := sm.New(relaySettings(name))
	go func() {
		for range mux.ErrorReports() {
		}
	}()
	mux.HandleFunc(cmd, func(c diam.Conn, m *diam.Message) {
		p.mu.Lock()
		defer p.mu.Unlock()
		req := mkReq()
		if err := m.Unmarshal(req); err != nil {
			p.err = "peer-unmarshal-error"
			return
		}
		p.received = canon(reflect.ValueOf(req))
		a := m.Answer(diam.Success)
		if err := a.Marshal(p.answer); err != nil {
			p.err = "peer-marshal-error " + err.Error()
			return
		}
		if _, err := a.WriteTo(c); err != nil {
			p.err = "peer-write-error"
		}
	})
	mux.HandleFunc("ALL", func(c diam.Conn, m *diam.Message) {})
	go func() {
		_ = diam.ListenAndServeTLS(fmt.Sprintf("127.0.0.1:%d", p.port), certPem, certKey, mux, nil)
	}()
	waitPort(p.port)
}

func startScriptedPeers() {
	scriptedOnce.Do(func() {
		startChf([]string{"nchf-convergedcharging"}, false)
		surPeer.serve("scripted-rf", "SUR", func() interface{} { return &cd.ServiceUsageRequest{} })
		ccrPeer.serve("scripted-abmf", "CCR", func() interface{} { return &cd.AccountDebitRequest{} })
		// a subscriber context with its two client state machines, made by the CHF itself
		supi := fmt.Sprintf("imsi-20893%010d", time.Now().UnixNano()%10000000000)
		chfSupis[supi] = true
		cr := onlineUpdate(supi, "", 0, 0)
		cr.MultipleUnitUsage = nil
		b, _ := json.Marshal(cr)
		doHTTP("POST", ccPrefix+"/chargingdata", b)
		ue, ok := chf_context.GetSelf().ChfUeFindBySupi(supi)
		if !ok {
			panic("no subscriber context")
		}
		clientRtUe = ue
	})
}

func runDiamClient(kind string, seed uint64) string {
	startScriptedPeers()
	r := &rng{s: seed}
	cfg := factory.ChfConfig.Configuration
	stamp := time.Unix(int64(r.intn(2000000000)), 0)
	switch kind {
	case "sur":
		req, ans := &cd.ServiceUsageRequest{}, &cd.ServiceUsageResponse{}
		randFill(r, reflect.ValueOf(req).Elem(), 0)
		randFill(r, reflect.ValueOf(ans).Elem(), 0)
		setTimes(reflect.ValueOf(req).Elem(), stamp)
		setTimes(reflect.ValueOf(ans).Elem(), stamp)
		surPeer.mu.Lock()
		surPeer.answer, surPeer.received, surPeer.err = ans, "", ""
		surPeer.mu.Unlock()
		old := cfg.RfDiameter.Port
		cfg.RfDiameter.Port = surPeer.port
		got, err := rating.SendServiceUsageRequest(clientRtUe, req)
		cfg.RfDiameter.Port = old
		return clientVerdict("ServiceUsage", surPeer, reflect.ValueOf(req), reflect.ValueOf(ans), reflect.ValueOf(got), err)
	case "ccr":
		req, ans := &cd.AccountDebitRequest{}, &cd.AccountDebitResponse{}
		randFill(r, reflect.ValueOf(req).Elem(), 0)
		randFill(r, reflect.ValueOf(ans).Elem(), 0)
		setTimes(reflect.ValueOf(req).Elem(), stamp)
		setTimes(reflect.ValueOf(ans).Elem(), stamp)
		ccrPeer.mu.Lock()
		ccrPeer.answer, ccrPeer.received, ccrPeer.err = ans, "", ""
		ccrPeer.mu.Unlock()
		old := cfg.AbmfDiameter.Port
		cfg.AbmfDiameter.Port = ccrPeer.port
		got, err := abmf.SendAccountDebitRequest(clientRtUe, req)
		cfg.AbmfDiameter.Port = old
		return clientVerdict("AccountDebit", ccrPeer, reflect.ValueOf(req), reflect.ValueOf(ans), reflect.ValueOf(got), err)
	}
	return "bad-op"
}

func clientVerdict(name string, p *scriptedPeer, req, ans, got reflect.Value, err error) string {
	p.mu.Lock()
	received, perr := p.received, p.err
	p.mu.Unlock()
	if perr != "" {
		return perr
	}
	if err != nil {
		return "client-error " + fmt.Sprintf("%q", err.Error())
	}
	sentReq := canon(req)
	if received != sentReq {
		return "DIFF " + name + "Request sent=" + sentReq + " got=" + received
	}
	sentAns, gotAns := canon(ans), canon(got)
	if sentAns != gotAns {
		return "DIFF " + name + "Response sent=" + sentAns + " got=" + gotAns
	}
	return "same " + name + "-through-client"
}
