//go:build verif

package main

// conc first <supiPrefixHex> <rounds>
//
// First contact, over and over: in every round a subscriber the CHF has never seen gets, at the same moment, a create that is
// accepted, a create of another consumer that is accepted and a create that OpenCDR refuses (malformed PLMN id).  Whatever the
// three do to the subscriber's brand-new context, every session whose creation was acknowledged (201 with a reference) must be
// there afterwards: its update is answered 200 and its release 204.
//
// A recharge of the same never-seen subscriber (rating group 1) is in flight with them: answered 404 it came before every create
// (nobody to notify); answered 204 it came after an accepted create, both of which register a notification address - the
// consumer must then have been notified.
//
// observation: first rounds=<n> acked=<sessions acknowledged> unusable=<acknowledged sessions whose update / release failed>[:<first: update/release status>]
//              recharged=<recharges answered 204> unnotified=<of those, how many reached no notification address>

import (
	"encoding/json"
	"fmt"
	"sync"
	"time"

	"github.com/free5gc/openapi/models"
)

func runConcFirst(t []string) string {
	p := &tk{t: t, ok: true}
	prefix, rounds := p.hexs(), int(p.i())
	if !p.ok || len(p.t) != 0 || rounds < 1 || rounds > 200000 || len(prefix) < 6 || len(prefix) > 12 {
		return "bad-op"
	}
	runChf("chf reset", []string{"reset"})
	acked, unusable, first := 0, 0, ""
	recharged, unnotified := 0, 0
	for r := 0; r < rounds; r++ {
		supi := saltSupi(fmt.Sprintf("%s%0*d", prefix, 20-len(prefix), r)) // (five digits from the process id: see conc_hammer.go)
		chfSupis[supi] = true
		body := func(nf string, bad bool) []byte {
			q := onlineUpdate(supi, "", 1, 0)
			q.MultipleUnitUsage = nil
			q.NfConsumerIdentification.NFName = nf
			q.NotifyUri = sinkURL + "/n/" + supi
			if bad {
				q.NfConsumerIdentification.NFPLMNID = &models.PlmnId{Mcc: "20", Mnc: "93"}
			}
			b, _ := json.Marshal(q)
			return b
		}
		// even rounds: two accepted creates and a refused one; odd rounds: two accepted creates and a recharge (no refused create:
		// a create refused by OpenCDR leaves an empty context behind, after which a recharge is answered 204 with nobody to notify
		// in a serial order too)
		bodies := [][]byte{body("smf", false), body("nef", false)}
		withRecharge := r%2 == 1
		if !withRecharge {
			bodies = append(bodies, body("smf", true))
		}
		refs := make([]string, len(bodies))
		start := make(chan struct{})
		var wg sync.WaitGroup
		for i := range bodies {
			wg.Add(1)
			go func(i int) {
				defer wg.Done()
				<-start
				w := doHTTP("POST", ccPrefix+"/chargingdata", bodies[i])
				if w.Code == 201 {
					refs[i] = locOf(w)
				}
			}(i)
		}
		sinkMu.Lock()
		nBefore := len(sinkGot)
		sinkMu.Unlock()
		rechargeCode := 0
		if withRecharge {
			wg.Add(1)
			go func() {
				defer wg.Done()
				<-start
				rechargeCode = doHTTP("PUT", ccPrefix+"/recharging/"+escapePath(supi+"_1"), nil).Code
			}()
		}
		close(start)
		roundDone := make(chan struct{})
		go func() { wg.Wait(); close(roundDone) }()
		select {
		case <-roundDone:
		case <-time.After(60 * time.Second):
			// requests of one round that do not come back: a deadlock
			return fmt.Sprintf("first rounds=%d acked=%d unusable=%d deadlock=1", r, acked, unusable)
		}
		if rechargeCode == 204 {
			recharged++
			sinkMu.Lock()
			got := len(sinkGot) - nBefore
			sinkMu.Unlock()
			if got == 0 {
				unnotified++
			}
		}
		for i, ref := range refs {
			if ref == "" {
				continue
			}
			acked++
			u := doHTTP("POST", ccPrefix+"/chargingdata/"+escapePath(ref)+"/update", bodies[i]).Code
			rl := doHTTP("POST", ccPrefix+"/chargingdata/"+escapePath(ref)+"/release", bodies[i]).Code
			if u != 200 || rl != 204 {
				unusable++
				if first == "" {
					first = fmt.Sprintf("%d/%d", u, rl)
				}
			}
		}
	}
	s := fmt.Sprintf("first rounds=%d acked=%d unusable=%d", rounds, acked, unusable)
	if first != "" {
		s += ":" + first
	}
	return s + fmt.Sprintf(" recharged=%d unnotified=%d", recharged, unnotified)
}
