//go:build verif

package main

// conc first <supiPrefixHex> <rounds>
//
// First contact, over and over: in every round a subscriber the CHF has never seen gets, at the same moment, a create that is
// accepted, a create of another consumer that is accepted and a create that OpenCDR refuses (malformed PLMN id).  Whatever the
// three do to the subscriber's brand-new context, every session whose creation was acknowledged (201 with a reference) must be
// there afterwards: its update is answered 200 and its release 204.
//
// observation: first rounds=<n> acked=<sessions acknowledged> unusable=<acknowledged sessions whose update / release failed>[:<first: update/release status>]

import (
	"encoding/json"
	"fmt"
	"sync"

	"github.com/free5gc/openapi/models"
)

func runConcFirst(t []string) string {
	p := &tk{t: t, ok: true}
	prefix, rounds := p.hexs(), int(p.i())
	if !p.ok || len(p.t) != 0 || rounds < 1 || rounds > 200000 || len(prefix) < 6 || len(prefix) > 12 {
		return "bad-op"
	}
	runChf("chf reset", []string{"reset"})
	acked, unusable, first := 0, 0, ""
	for r := 0; r < rounds; r++ {
		supi := saltSupi(fmt.Sprintf("%s%0*d", prefix, 20-len(prefix), r)) // (five digits from the process id: see conc_hammer.go)
		chfSupis[supi] = true
		body := func(nf string, bad bool) []byte {
			q := onlineUpdate(supi, "", 1, 0)
			q.MultipleUnitUsage = nil
			q.NfConsumerIdentification.NFName = nf
			if bad {
				q.NfConsumerIdentification.NFPLMNID = &models.PlmnId{Mcc: "20", Mnc: "93"}
			}
			b, _ := json.Marshal(q)
			return b
		}
		bodies := [][]byte{body("smf", false), body("nef", false), body("smf", true)}
		refs := make([]string, len(bodies))
		start := make(chan struct{})
		var wg sync.WaitGroup
		for i := range bodies {
			wg.Add(1)
			go func(i int) {
				defer wg.Done()
				<-start
				w := doHTTP("POST", ccPrefix+"/chargingdata", bodies[i])
				if w.Code == 201 {
					refs[i] = locOf(w)
				}
			}(i)
		}
		close(start)
		wg.Wait()
		for i, ref := range refs {
			if ref == "" {
				continue
			}
			acked++
			u := doHTTP("POST", ccPrefix+"/chargingdata/"+escapePath(ref)+"/update", bodies[i]).Code
			rl := doHTTP("POST", ccPrefix+"/chargingdata/"+escapePath(ref)+"/release", bodies[i]).Code
			if u != 200 || rl != 204 {
				unusable++
				if first == "" {
					first = fmt.Sprintf("%d/%d", u, rl)
				}
			}
		}
	}
	s := fmt.Sprintf("first rounds=%d acked=%d unusable=%d", rounds, acked, unusable)
	if first != "" {
		s += ":" + first
	}
	return s
}
