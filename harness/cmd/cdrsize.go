//go:build verif

package main

// stream "cdrsize" (C03): charging sessions whose requests carry many usage containers, driven through
// the real router; after every operation the observation is the status, the octets of the CDR file
// the operation wrote (/tmp/<supi>.cdr, removed before the operation) and the BER encoding of every
// record the subscriber context holds.  The Lean side reads the file with an independent TS 32.297
// reader and a generic BER walker and compares it with the dumpCdrFile model.
//
//   cdrsize reset
//   cdrsize create  <h> <supiHex> <nfHex> <nusage> <ncont> <upflen>
//   cdrsize update  <h> <nusage> <ncont> <upflen>
//   cdrsize release <h> <nusage> <ncont> <upflen>
//   cdrsize fit   <h> <delta>     an update sized at run time: len(record) + len(usage) = 65535 + delta
//   cdrsize fitbare <h> <delta>   the same; the update carries no nfConsumerIdentification and no chargingId (what the create said is not repeated)
//   cdrsize fiton <h> <delta>     the same, and the first container reports ONLINE_CHARGING usage with a QUOTA_THRESHOLD
//                                 trigger (the update that crosses the record limit also cuts the session's first partial record)
//   cdrsize end
//
// <h> is a session handle chosen by the generator; the reference it stands for is whatever the
// Location header of the create answered.

import (
	"bufio"
	"bytes"
	"encoding/json"
	"fmt"
	"net/http/httptest"
	"os"
	"strings"
	"time"

	"github.com/free5gc/chf/cdr/asn"
	"github.com/free5gc/chf/cdr/cdrConvert"
	"github.com/free5gc/chf/cdr/cdrType"
	chf_context "github.com/free5gc/chf/internal/context"
	"github.com/free5gc/openapi/models"
)

type sizeSess struct {
	sid, supi, nf string
	seq           int
}

var (
	sizeOpCount  int
	staleFile    = bytes.Repeat([]byte{0xEE}, 300000)
	sizeSessions = map[string]*sizeSess{}
	sizeCounter  uint64
	sizeSent     = map[string]int{} // subscriber -> containers carried by its accepted requests
	sizeOnline   bool               // the next request's first container is online usage with a trigger
	sizeBare     bool               // the next request carries neither consumer identification nor the create's charging id
)

func init() {
	streams["cdrsize"] = &stream{
		setup: func() { startChf([]string{"nchf-convergedcharging"}, false) },
		gen:   genCdrSize,
		run:   runCdrSize,
	}
}

// offline usage: nusage rating groups' worth of MultipleUnitUsage, each with ncont containers and a UPF id of upflen octets
func sizeReq(s *sizeSess, nusage, ncont, upflen int) *models.ChfConvergedChargingChargingDataRequest {
	r := &models.ChfConvergedChargingChargingDataRequest{}
	r.SubscriberIdentifier = s.supi
	r.NfConsumerIdentification = &models.ChfConvergedChargingNfIdentification{NFName: s.nf, NodeFunctionality: "SMF"}
	r.ChargingId = 7
	r.InvocationSequenceNumber = int32(s.seq)
	s.seq++
	now := time.Now()
	r.InvocationTimeStamp = &now
	for i := 0; i < nusage; i++ {
		var u models.ChfConvergedChargingMultipleUnitUsage
		u.RatingGroup = int32(1 + i%3)
		u.UPFID = strings.Repeat("u", upflen)
		for j := 0; j < ncont; j++ {
			sizeCounter++
			k := sizeCounter * 2654435761
			var c models.ChfConvergedChargingUsedUnitContainer
			c.QuotaManagementIndicator = models.QuotaManagementIndicator_OFFLINE_CHARGING
			c.TotalVolume = int32(k % 2147483647)
			c.UplinkVolume = int32(k % 65521)
			c.DownlinkVolume = int32(k % 251)
			c.ServiceSpecificUnits = int32(k % 16777213)
			c.LocalSequenceNumber = int32(sizeCounter)
			if sizeOnline && i == 0 && j == 0 {
				c.QuotaManagementIndicator = models.QuotaManagementIndicator_ONLINE_CHARGING
				c.Triggers = []models.ChfConvergedChargingTrigger{{TriggerType: models.ChfConvergedChargingTriggerType_QUOTA_THRESHOLD, TriggerCategory: models.TriggerCategory_IMMEDIATE_REPORT}}
				c.TotalVolume, c.UplinkVolume, c.DownlinkVolume, c.ServiceSpecificUnits = 3, 1, 2, 0
				u.RequestedUnit = &models.RequestedUnit{TotalVolume: 50}
				r.Triggers = []models.ChfConvergedChargingTrigger{{TriggerType: models.ChfConvergedChargingTriggerType_VOLUME_LIMIT, TriggerCategory: models.TriggerCategory_IMMEDIATE_REPORT}}
			}
			u.UsedUnitContainer = append(u.UsedUnitContainer, c)
		}
		r.MultipleUnitUsage = append(r.MultipleUnitUsage, u)
	}
	return r
}

func runCdrSize(line string, t []string) string {
	if len(t) == 0 {
		return "bad-op"
	}
	p := &tk{t: t[1:], ok: true}
	switch t[0] {
	case "reset":
		sizeSessions = map[string]*sizeSess{}
		sizeCounter = 0
		sizeSent = map[string]int{}
		return runChf(line, t)
	case "end":
		for _, s := range sizeSessions {
			os.Remove("/tmp/" + s.supi + ".cdr")
		}
		return "ok"
	}
	var s *sizeSess
	h := p.next()
	if t[0] == "create" {
		s = &sizeSess{supi: saltSupi(p.hexs()), nf: p.hexs()}
	} else {
		s = sizeSessions[h]
	}
	kind := t[0]
	var nusage, ncont, upflen int
	sizeOnline = false
	sizeBare = false
	if kind == "fitbare" {
		// the update that crosses the limit is an update like most: what a create says about the consumer is not repeated in it
		sizeBare = true
		kind = "fit"
	}
	if kind == "fiton" {
		if s == nil {
			return "bad-op"
		}
		sizeOnline = true
		store.set(s.supi, 1, "100000000", "1")
		kind = "fit"
	}
	defer func() { sizeOnline = false }()
	if kind == "fit" {
		// an update sized at run time so that len(record) + len(usage) = 65535 + delta exactly
		delta := int(p.i())
		if !p.ok || len(p.t) != 0 || s == nil {
			return "bad-op"
		}
		nusage, ncont, upflen = fitSizes(s, delta)
		kind = "update"
	} else {
		nusage, ncont, upflen = int(p.i()), int(p.i()), int(p.i())
		if !p.ok || len(p.t) != 0 || s == nil {
			return "bad-op"
		}
	}
	path := "/tmp/" + s.supi + ".cdr"
	// what the operation finds at the file's place: nothing, or (every other operation) an older, LONGER file - octets
	// that are not a CDR file, so that it is still told from a file the operation wrote; a write that does not
	// replace the whole file leaves some of them behind
	os.Remove(path)
	sizeOpCount++
	stale := sizeOpCount%2 == 0
	if stale {
		_ = os.WriteFile(path, staleFile, 0o644)
	}
	chfSupis[s.supi] = true
	req := sizeReq(s, nusage, ncont, upflen)
	if sizeBare {
		req.NfConsumerIdentification = nil
		req.ChargingId = 0
	}
	pre, chg := sessionRecordLen(s), usageLen(req)
	// the record the session writes to before the request (fields + what OpenCDR took from outside the charging model)
	preRec, preDump := sessionRecord(s), "-"
	if preRec != nil {
		preDump = recEnvOf(preRec) + "/" + dumpRecord(preRec)
	}
	b, _ := json.Marshal(req)
	var w *httptest.ResponseRecorder
	switch kind {
	case "create":
		w = doHTTP("POST", ccPrefix+"/chargingdata", b)
		if l := w.Header().Get("Location"); l != "" {
			if i := strings.LastIndex(l, "/chargingdata/"); i >= 0 {
				s.sid = l[i+len("/chargingdata/"):]
				sizeSessions[h] = s
			}
		}
	case "update", "release":
		w = doHTTP("POST", ccPrefix+"/chargingdata/"+escapePath(s.sid)+"/"+kind, b)
	default:
		return "bad-op"
	}
	file := "~"
	if fb, err := os.ReadFile(path); err == nil && !(stale && bytes.Equal(fb, staleFile)) {
		file = hexOf(fb)
		if file == "" {
			file = "-"
		}
	}
	if w.Code/100 == 2 {
		sizeSent[s.supi] += nusage * ncont
	}
	var recs []string
	recorded, distinct := 0, map[int64]bool{}
	if ue, ok := chf_context.GetSelf().ChfUeFindBySupi(s.supi); ok {
		for _, r := range ue.Records {
			if r != nil && r.ChargingFunctionRecord != nil {
				for _, mu := range r.ChargingFunctionRecord.ListOfMultipleUnitUsage {
					for _, c := range mu.UsedUnitContainers {
						recorded++
						if c.LocalSequenceNumber != nil {
							distinct[c.LocalSequenceNumber.Value] = true
						}
					}
				}
			}
			rb, err := asn.BerMarshalWithParams(&r, "explicit,choice")
			if err != nil {
				recs = append(recs, "err")
			} else {
				recs = append(recs, hexOf(rb))
			}
		}
	}
	rs := "-"
	if len(recs) > 0 {
		rs = strings.Join(recs, ";")
	}
	// record fields of every record (for the Lean record encoder), the request's usage as it is recorded, and whether
	// the request made the session continue in a new record
	var rfs []string
	if ue, ok := chf_context.GetSelf().ChfUeFindBySupi(s.supi); ok {
		for _, r := range ue.Records {
			rfs = append(rfs, recEnvOf(r)+"/"+dumpRecord(r))
		}
	}
	rf := "-"
	if len(rfs) > 0 {
		rf = strings.Join(rfs, "|")
	}
	split := 0
	if postRec := sessionRecord(s); kind == "update" && preRec != nil && postRec != nil && postRec != preRec {
		split = 1
	}
	rq := dumpRecord(&cdrType.CHFRecord{ChargingFunctionRecord: &cdrType.ChargingRecord{ListOfMultipleUnitUsage: cdrConvert.MultiUnitUsageToCdr(req.MultipleUnitUsage)}})
	if i := strings.LastIndex(rq, ",u="); i >= 0 {
		rq = rq[i+3:]
	}
	return fmt.Sprintf("st=%d pre=%d chg=%d cont=%d:%d:%d file=%s recs=%s split=%d prf=%s rq=%s rf=%s", w.Code, pre, chg, recorded, len(distinct), sizeSent[s.supi], file, rs,
		split, preDump, rq, rf)
}

// the record the session currently writes to
func sessionRecord(s *sizeSess) *cdrType.CHFRecord {
	ue, ok := chf_context.GetSelf().ChfUeFindBySupi(s.supi)
	if !ok {
		return nil
	}
	r, ok := ue.Cdr[s.sid]
	if !ok {
		return nil
	}
	return r
}

// The CHF writes /tmp/<supi>.cdr, and several checks may run this stream at the same time: five digits of the
// subscriber identifier are replaced by digits of the process id (same length, so every size is unchanged).
func saltSupi(supi string) string {
	if len(supi) >= 15 && strings.HasPrefix(supi, "imsi-") {
		return supi[:5] + fmt.Sprintf("%05d", os.Getpid()%100000) + supi[10:]
	}
	return supi
}

// size of the record the session currently writes to (-1: none), as the CHF marshals it
func sessionRecordLen(s *sizeSess) int {
	ue, ok := chf_context.GetSelf().ChfUeFindBySupi(s.supi)
	if !ok {
		return -1
	}
	r, ok := ue.Cdr[s.sid]
	if !ok || r == nil {
		return -1
	}
	b, err := asn.BerMarshalWithParams(&r, "explicit,choice")
	if err != nil {
		return -1
	}
	return len(b)
}

// size of the request's usage as the update path's guard measures it
func usageLen(r *models.ChfConvergedChargingChargingDataRequest) int {
	if len(r.MultipleUnitUsage) == 0 {
		return 0
	}
	u := cdrConvert.MultiUnitUsageToCdr(r.MultipleUnitUsage)
	b, err := asn.BerMarshalWithParams(&u, "explicit,choice")
	if err != nil {
		return -1
	}
	return len(b)
}

func fitSizes(s *sizeSess, delta int) (int, int, int) {
	target := 65535 + delta - sessionRecordLen(s)
	probe := func(nc, upf int) int {
		c, q := sizeCounter, s.seq
		n := usageLen(sizeReq(s, 1, nc, upf))
		sizeCounter, s.seq = c, q
		return n
	}
	nc := 0
	for probe(nc+50, 200) < target-400 {
		nc += 50
	}
	upf := 200
	for k := 0; k < 8; k++ {
		d := target - probe(nc, upf)
		if d == 0 {
			break
		}
		upf += d
		if upf < 0 {
			upf = 0
		}
	}
	return 1, nc, upf
}

func genCdrSize(o genOpts, w *bufio.Writer) {
	r := &rng{s: o.seed}
	big := o.tier == "thorough"
	h := 0
	scenario := func(f func(mk func(supi, nf string, nu, nc, upf int) string)) {
		fmt.Fprintf(w, "cdrsize reset\n")
		f(func(supi, nf string, nu, nc, upf int) string {
			h++
			hs := fmt.Sprintf("h%d", h)
			fmt.Fprintf(w, "cdrsize create %s %s %s %d %d %d\n", hs, hexOf([]byte(supi)), hexOf([]byte(nf)), nu, nc, upf)
			return hs
		})
		fmt.Fprintf(w, "cdrsize end\n")
	}
	op := func(kind, hs string, nu, nc, upf int) {
		fmt.Fprintf(w, "cdrsize %s %s %d %d %d\n", kind, hs, nu, nc, upf)
	}
	// 1. many small updates on one session: the record grows through the 127/255/65535 header boundaries
	if o.mode != "online" {
		scenario(func(mk func(string, string, int, int, int) string) {
			hs := mk("imsi-208930000000001", "smf1", 0, 0, 0)
			n := 40
			if big {
				n = 160
			}
			for i := 0; i < n; i++ {
				op("update", hs, 1+r.intn(3), 5+r.intn(60), r.intn(12))
			}
			op("release", hs, 1, 2, 4)
		})
		// 2. updates sized to land just below / at / above the limit, then a release that adds usage
		for _, fill := range []int{2300, 2500, 2590, 2600, 2610} {
			scenario(func(mk func(string, string, int, int, int) string) {
				hs := mk("imsi-208930000000002", "smf", 1, 3, 3)
				op("update", hs, 1, fill, 5)
				op("update", hs, 1, 20+r.intn(30), 5)
				op("update", hs, 2, 10, 0)
				op("release", hs, 1, 30+r.intn(100), 5)
			})
		}
		// 2b. updates sized at run time so that record + usage is exactly 65535 + delta, on a fresh and on a grown record
		for _, delta := range []int{-8, -3, -2, -1, 0, 1, 2, 5, 8, 40, 120, 200, 340} {
			scenario(func(mk func(string, string, int, int, int) string) {
				hs := mk("imsi-208930000000007", "smf", 0, 0, 0)
				fmt.Fprintf(w, "cdrsize fit %s %d\n", hs, delta)
				op("release", hs, 0, 0, 0)
			})
			scenario(func(mk func(string, string, int, int, int) string) {
				hs := mk("imsi-208930000000008", "smf", 1, 4, 3)
				op("update", hs, 1, 900, 3)
				fmt.Fprintf(w, "cdrsize fit %s %d\n", hs, delta)
				op("release", hs, 0, 0, 0)
			})
		}
	}
	// 2c'. the update that crosses the limit does not repeat what the create said about the consumer
	for _, delta := range []int{-2, 1, 40} {
		scenario(func(mk func(string, string, int, int, int) string) {
			hs := mk("imsi-208930000000010", "smf", 1, 4, 3)
			op("update", hs, 1, 900, 3)
			fmt.Fprintf(w, "cdrsize fitbare %s %d\n", hs, delta)
			op("update", hs, 1, 2, 3)
			op("release", hs, 0, 0, 0)
		})
	}
	// 2c. the update that crosses the limit is also the session's first online report with a trigger
	for _, delta := range []int{-2, 1, 40, 340} {
		scenario(func(mk func(string, string, int, int, int) string) {
			hs := mk("imsi-208930000000009", "smf", 1, 4, 3)
			op("update", hs, 1, 900, 3)
			fmt.Fprintf(w, "cdrsize fiton %s %d\n", hs, delta)
			op("update", hs, 1, 2, 3)
			op("release", hs, 0, 0, 0)
		})
	}
	if o.mode == "online" {
		return
	}
	// 3. one request larger than a whole record (update, create, release)
	scenario(func(mk func(string, string, int, int, int) string) {
		hs := mk("imsi-208930000000003", "smf", 1, 1, 1)
		op("update", hs, 3, 1000, 8)
		op("update", hs, 1, 1, 1)
		op("release", hs, 0, 0, 0)
	})
	scenario(func(mk func(string, string, int, int, int) string) {
		hs := mk("imsi-208930000000004", "smf", 2, 1500, 8)
		op("update", hs, 1, 1, 1)
		op("release", hs, 0, 0, 0)
	})
	scenario(func(mk func(string, string, int, int, int) string) {
		hs := mk("imsi-208930000000005", "smf", 1, 1, 1)
		op("update", hs, 1, 10, 1)
		op("release", hs, 3, 1000, 8)
	})
	// a single very long UPF id
	scenario(func(mk func(string, string, int, int, int) string) {
		hs := mk("imsi-208930000000006", "smf", 1, 1, 1)
		op("update", hs, 1, 1, 70000)
		op("release", hs, 0, 0, 0)
	})
	// 4. random histories: several sessions of several subscribers, mixed sizes
	n := o.n
	for done := 0; done < n; {
		scenario(func(mk func(string, string, int, int, int) string) {
			var hss []string
			nsess := 1 + r.intn(3)
			for i := 0; i < nsess; i++ {
				hss = append(hss, mk(fmt.Sprintf("imsi-20893000000001%d", r.intn(2)), r.pickStr("smf", "smf-a", ""), r.intn(3), r.intn(40), r.intn(10)))
			}
			steps := 3 + r.intn(12)
			for k := 0; k < steps; k++ {
				hs := hss[r.intn(len(hss))]
				nc := r.intn(80)
				if r.chance(12) {
					nc = 400 + r.intn(1500)
				}
				kind := "update"
				if r.chance(10) {
					kind = "release"
				}
				op(kind, hs, r.intn(4), nc, r.intn(20))
				done++
			}
			for _, hs := range hss {
				if r.chance(60) {
					op("release", hs, r.intn(2), r.intn(30), 3)
					done++
				}
			}
		})
	}
}
