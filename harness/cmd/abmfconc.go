//go:build verif

package main

// abmf conc <ueHex> <rg> <balance> <nconn> <nreq> <amount>
//
// C07 when requests for one account arrive on several connections at once (the CHF dials a connection per request; two
// CHF instances or an external client may debit the same account together): nconn Diameter connections to the real
// account-balance server, each sending nreq reservations (UPDATE_REQUEST, DIRECT_DEBITING) of <amount> for the same
// account, all started together.  Every grant must lower the stored balance by exactly the grant: at the end
// initial balance - stored balance = sum of the grants.
//
// observation:  conc answers=<k> granted=<sum of the grants> spent=<initial - stored> <store dump>

import (
	"fmt"
	"strconv"
	"sync"
	"time"

	"github.com/fiorix/go-diameter/diam"
	"github.com/fiorix/go-diameter/diam/datatype"
	"github.com/fiorix/go-diameter/diam/dict"

	charging_code "github.com/free5gc/chf/ccs_diameter/code"
	cd "github.com/free5gc/chf/ccs_diameter/datatype"
)

func runAbmfConc(t []string) string {
	if len(t) != 7 {
		return "bad-op"
	}
	ue, ok := unhex(t[1])
	rg, bal, nconn, nreq, amount := u(t[2]), u(t[3]), int(u(t[4])), int(u(t[5])), u(t[6])
	if !ok || nconn < 1 || nconn > 64 || nreq < 1 || nreq > 1000 || len(ue) < 5 {
		return "bad-op"
	}
	store.set(string(ue), int64(rg), strconv.FormatUint(bal, 10), "1")
	peers := make([]*diamPeer, nconn)
	for i := range peers {
		peers[i] = newPeer(fmt.Sprintf("127.0.0.1:%d", abmfPort), "CCA")
	}
	var mu sync.Mutex
	var granted uint64
	answers := 0
	start := make(chan struct{})
	var wg sync.WaitGroup
	for i := range peers {
		wg.Add(1)
		go func(i int) {
			defer wg.Done()
			p := peers[i]
			<-start
			for k := 0; k < nreq; k++ {
				ccr := &cd.AccountDebitRequest{
					SessionId:       datatype.UTF8String(fmt.Sprintf("c%d", i)),
					OriginHost:      "client",
					OriginRealm:     "go-diameter",
					DestinationHost: "server", DestinationRealm: "go-diameter",
					EventTimestamp:  datatype.Time(time.Unix(1700000000, 0)),
					UserName:        datatype.OctetString("CHF"),
					CcRequestType:   cd.UPDATE_REQUEST,
					CcRequestNumber: datatype.Unsigned32(k),
					RequestedAction: cd.DIRECT_DEBITING,
					SubscriptionId: &cd.SubscriptionId{
						SubscriptionIdType: cd.END_USER_IMSI,
						SubscriptionIdData: datatype.UTF8String(ue[5:]),
					},
					MultipleServicesCreditControl: &cd.MultipleServicesCreditControl{
						RatingGroup:          datatype.Unsigned32(rg),
						RequestedServiceUnit: &cd.RequestedServiceUnit{CCTotalOctets: datatype.Unsigned64(amount)},
						UsedServiceUnit:      &cd.UsedServiceUnit{CCTotalOctets: 0},
					},
				}
				msg := diam.NewRequest(charging_code.ABMF_CreditControl, charging_code.Re_interface, dict.Default)
				if err := msg.Marshal(ccr); err != nil {
					return
				}
				if _, err := msg.WriteTo(p.conn); err != nil {
					return
				}
				select {
				case a := <-p.ch:
					var cca cd.AccountDebitResponse
					if a.Unmarshal(&cca) == nil && cca.MultipleServicesCreditControl != nil && cca.MultipleServicesCreditControl.GrantedServiceUnit != nil {
						mu.Lock()
						granted += uint64(cca.MultipleServicesCreditControl.GrantedServiceUnit.CCTotalOctets)
						answers++
						mu.Unlock()
					}
				case <-time.After(5 * time.Second):
					return
				}
			}
		}(i)
	}
	close(start)
	wg.Wait()
	for _, p := range peers {
		p.conn.Close()
	}
	final := int64(0)
	store.mu.Lock()
	if d, ok := store.docs[acctKey{string(ue), int64(rg)}]; ok {
		final, _ = strconv.ParseInt(d["quota"].(string), 10, 64)
	}
	store.mu.Unlock()
	return fmt.Sprintf("conc answers=%d granted=%d spent=%d %s", answers, granted, int64(bal)-final, storeDumpHex())
}
