//go:build verif

// Command verifharness drives the real free5gc/chf code for the correspondence checks
// of /verif.  It is mapped into /repo/cmd/verifharness by `go build -overlay`, so it is
// compiled from /repo's working tree and may import internal packages.
//
//	verifharness <stream> gen  -seed N -n N -tier quick|thorough   > ops
//	verifharness <stream> run  < ops                               > impl outputs
package main

import (
	"bufio"
	"encoding/hex"
	"flag"
	"fmt"
	"io"
	"log"
	"os"
	"runtime"
	"runtime/debug"
	"sort"
	"strconv"
	"strings"
	"time"
)

// rng is a splitmix64 generator: every random choice of every generator derives from
// the one seed, so a disagreement replays exactly.
type rng struct{ s uint64 }

func (r *rng) next() uint64 {
	r.s += 0x9e3779b97f4a7c15
	z := r.s
	z = (z ^ (z >> 30)) * 0xbf58476d1ce4e5b9
	z = (z ^ (z >> 27)) * 0x94d049bb133111eb
	return z ^ (z >> 31)
}
func (r *rng) intn(n int) int {
	if n <= 0 {
		return 0
	}
	return int(r.next() % uint64(n))
}
func (r *rng) chance(pct int) bool { return r.intn(100) < pct }
func (r *rng) pick(xs ...int) int  { return xs[r.intn(len(xs))] }
func (r *rng) bytes(n int) []byte {
	b := make([]byte, n)
	for i := range b {
		b[i] = byte(r.next())
	}
	return b
}

func hexOf(b []byte) string {
	if len(b) == 0 {
		return "-"
	}
	return hex.EncodeToString(b)
}

func unhex(s string) ([]byte, bool) {
	if s == "-" {
		return []byte{}, true
	}
	out, err := hex.DecodeString(s)
	return out, err == nil
}

type genOpts struct {
	seed uint64
	n    int
	tier string
	mode string
}

type stream struct {
	gen func(o genOpts, w *bufio.Writer)
	run func(line string, toks []string) string
	// optional set-up before the first run op (servers, fake store ...)
	setup func()
}

var streams = map[string]*stream{}

func main() {
	if len(os.Args) < 3 {
		fmt.Fprintln(os.Stderr, "usage: verifharness <stream> gen|run [flags]")
		os.Exit(2)
	}
	name, mode := os.Args[1], os.Args[2]
	// go-diameter prints recovered handler panics through the standard logger
	log.SetOutput(io.Discard)
	if name == "config-child" {
		klog := ""
		if len(os.Args) > 3 {
			klog = os.Args[3]
		}
		configChild(os.Args[2], klog)
		return
	}
	if name == "dump-tables" {
		dumpTables(os.Args[2])
		cleanupTemp()
		return
	}
	st, ok := streams[name]
	if !ok {
		fmt.Fprintln(os.Stderr, "unknown stream", name)
		os.Exit(2)
	}
	fs := flag.NewFlagSet(name, flag.ExitOnError)
	seed := fs.Uint64("seed", 1, "PRNG seed")
	n := fs.Int("n", 100, "number of cases")
	tier := fs.String("tier", "quick", "quick|thorough")
	gmode := fs.String("mode", "", "generator variant")
	_ = fs.Parse(os.Args[3:])
	// the protocol owns the process's standard output; anything the code under test prints with fmt.Print*
	// (cdrFile.Encoding's warnings, for one) goes to the null device instead of between two answers
	protoOut := os.Stdout
	if dn, err := os.OpenFile(os.DevNull, os.O_WRONLY, 0); err == nil {
		os.Stdout = dn
	}
	out := bufio.NewWriterSize(protoOut, 1<<20)
	defer cleanupTemp()
	defer out.Flush()
	switch mode {
	case "gen":
		st.gen(genOpts{seed: *seed, n: *n, tier: *tier, mode: *gmode}, out)
	case "run":
		if st.setup != nil {
			st.setup()
		}
		in := bufio.NewReaderSize(os.Stdin, 1<<20)
		for {
			line, err := in.ReadString('\n')
			line = strings.TrimRight(line, "\r\n")
			if line != "" {
				toks := strings.Fields(line)
				// first token repeats the stream name (the driver dispatches on it)
				if len(toks) > 0 && toks[0] == name {
					toks = toks[1:]
				}
				// an operation that does not return wedges every operation behind it: after the deadline it is answered "hang",
				// the goroutines are dumped to stderr and the process ends (the operations behind it are then reported as not run)
				resc := make(chan string, 1)
				go func() { resc <- safeRun(st, line, toks) }()
				var res string
				select {
				case res = <-resc:
				case <-time.After(opDeadlineFor(toks)):
					out.WriteString("hang\n")
					out.Flush()
					buf := make([]byte, 1<<20)
					fmt.Fprintf(os.Stderr, "operation did not return within %s: %s\n%s\n", opDeadlineFor(toks), line, buf[:runtime.Stack(buf, true)])
					os.Exit(3)
				}
				out.WriteString(res)
				out.WriteByte('\n')
				out.Flush()
			}
			if err != nil {
				break
			}
		}
	default:
		fmt.Fprintln(os.Stderr, "unknown mode", mode)
		os.Exit(2)
	}
}

// opDeadline: how long one operation may take (VERIF_OP_DEADLINE_S, default 300 s; the longest legitimate operations - scripted
// peer scenarios, bursts of thousands of requests, files of 130 MB - stay below a minute)
func opDeadline() time.Duration {
	if v, err := strconv.Atoi(os.Getenv("VERIF_OP_DEADLINE_S")); err == nil && v > 0 {
		return time.Duration(v) * time.Second
	}
	return 300 * time.Second
}

// loops of thousands of rounds (conc hammer / conc first: they watch their own progress) get half an hour
func opDeadlineFor(toks []string) time.Duration {
	if len(toks) > 0 && (toks[0] == "hammer" || toks[0] == "first") {
		if d := 6 * opDeadline(); d > 0 {
			return d
		}
	}
	return opDeadline()
}

func safeRun(st *stream, line string, toks []string) (res string) {
	defer func() {
		if p := recover(); p != nil {
			res = "panic"
			if os.Getenv("VERIF_DEBUG") != "" {
				fmt.Fprintf(os.Stderr, "panic: %v\n%s\n", p, debug.Stack())
			}
		}
	}()
	return st.run(line, toks)
}

func (r *rng) pickStr(xs ...string) string { return xs[r.intn(len(xs))] }

func sortStrings(s []string)                    { sort.Strings(s) }
func joinStrings(s []string, sep string) string { return strings.Join(s, sep) }
