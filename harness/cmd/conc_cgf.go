//go:build verif

package main

// conc cgf up|drop|down|off — the charging gateway function (CDR transfer to the billing domain over FTP) around the
// requests of the conc stream.
//
//	up     a minimal FTP server standing for the billing domain listens on a loopback port; the first `up` also enables the
//	       CGF (configuration.cgf.enable: true, cgf.OpenServer as ChfApp.Start does) and waits until the CHF has logged in
//	drop   the billing domain closes every control connection (idle time-out, restart): the next transfer has to log in again
//	down   the billing domain is unreachable (listener closed, connections closed): transfers fail, requests must still be answered
//	off    the CGF is disabled again
//
// observation: ok stor=<files stored so far> logins=<logins so far> [torn=<uploads that are not a whole CDR file>:<octets received>/<length field of the first>]   |   failed:<why>
//
// Every create and every update calls cgf.SendCDR before it answers (the update while it holds the subscriber's mutex), so a
// transfer that blocks blocks the request - and, through the connection mutex, every later request of every subscriber.

import (
	"bufio"
	"context"
	"fmt"
	"io"
	"net"
	"strings"
	"sync"
	"time"

	"github.com/free5gc/chf/internal/cgf"
	"github.com/free5gc/chf/pkg/factory"
)

type billingFtp struct {
	mu     sync.Mutex
	ln     net.Listener
	port   int
	conns  []net.Conn
	stors  int
	logins int
	torn   int    // uploads that are not a whole CDR file: the length field of the file header differs from the octets received
	torn1  string // the first of them: <received>/<length field>
}

var (
	billing    *billingFtp
	cgfOpened  bool
	concWedged bool // a batch did not return: later requests would block for ever, they are not sent
)

func (s *billingFtp) listen() error {
	s.mu.Lock()
	defer s.mu.Unlock()
	if s.ln != nil {
		return nil
	}
	var err error
	for i := 0; i < 50; i++ {
		s.ln, err = net.Listen("tcp", fmt.Sprintf("127.0.0.1:%d", s.port))
		if err == nil {
			break
		}
		time.Sleep(20 * time.Millisecond)
	}
	if err != nil {
		return err
	}
	s.port = s.ln.Addr().(*net.TCPAddr).Port
	ln := s.ln
	go func() {
		for {
			c, errAccept := ln.Accept()
			if errAccept != nil {
				return
			}
			s.mu.Lock()
			s.conns = append(s.conns, c)
			s.mu.Unlock()
			go s.serve(c)
		}
	}()
	return nil
}

func (s *billingFtp) dropConnections() {
	s.mu.Lock()
	defer s.mu.Unlock()
	for _, c := range s.conns {
		_ = c.Close()
	}
	s.conns = nil
}

func (s *billingFtp) stop() {
	s.mu.Lock()
	if s.ln != nil {
		_ = s.ln.Close()
		s.ln = nil
	}
	s.mu.Unlock()
	s.dropConnections()
}

// just what github.com/jlaffaye/ftp needs for login, NOOP, STOR and LIST
func (s *billingFtp) serve(c net.Conn) {
	defer c.Close()
	r := bufio.NewReader(c)
	reply := func(format string, a ...interface{}) { fmt.Fprintf(c, format+"\r\n", a...) }
	files := map[string]int{}
	var data net.Listener
	defer func() {
		if data != nil {
			_ = data.Close()
		}
	}()
	accept := func() net.Conn {
		if data == nil {
			return nil
		}
		if tl, ok := data.(*net.TCPListener); ok {
			_ = tl.SetDeadline(time.Now().Add(3 * time.Second))
		}
		dc, err := data.Accept()
		if err != nil {
			return nil
		}
		return dc
	}
	reply("220 billing domain ready")
	for {
		line, err := r.ReadString('\n')
		if err != nil {
			return
		}
		line = strings.TrimRight(line, "\r\n")
		cmd, arg := line, ""
		if i := strings.Index(line, " "); i >= 0 {
			cmd, arg = line[:i], line[i+1:]
		}
		switch strings.ToUpper(cmd) {
		case "USER":
			reply("331 password please")
		case "PASS":
			s.mu.Lock()
			s.logins++
			s.mu.Unlock()
			reply("230 logged in")
		case "FEAT":
			reply("502 no features")
		case "TYPE", "NOOP", "OPTS":
			reply("200 ok")
		case "EPSV", "PASV":
			if data != nil {
				_ = data.Close()
			}
			data, err = net.Listen("tcp", "127.0.0.1:0")
			if err != nil {
				data = nil
				reply("425 no data port")
				continue
			}
			p := data.Addr().(*net.TCPAddr).Port
			if strings.ToUpper(cmd) == "EPSV" {
				reply("229 Entering Extended Passive Mode (|||%d|)", p)
			} else {
				reply("227 Entering Passive Mode (127,0,0,1,%d,%d)", p/256, p%256)
			}
		case "STOR":
			reply("150 send it")
			dc := accept()
			if dc == nil {
				reply("425 no data connection")
				continue
			}
			body, _ := io.ReadAll(dc)
			n := len(body)
			_ = dc.Close()
			files[arg] = n
			// what arrives in the billing domain is a whole CDR file (TS 32.297: the first four octets are the file length)
			declared := -1
			if n >= 4 {
				declared = int(body[0])<<24 | int(body[1])<<16 | int(body[2])<<8 | int(body[3])
			}
			s.mu.Lock()
			s.stors++
			if declared != n {
				s.torn++
				if s.torn1 == "" {
					s.torn1 = fmt.Sprintf("%d/%d", n, declared)
				}
			}
			s.mu.Unlock()
			reply("226 stored")
		case "LIST", "MLSD":
			reply("150 here it comes")
			dc := accept()
			if dc == nil {
				reply("425 no data connection")
				continue
			}
			for name, size := range files {
				fmt.Fprintf(dc, "-rw-r--r-- 1 cgf cgf %d Jan 01 00:00 %s\r\n", size, name)
			}
			_ = dc.Close()
			reply("226 done")
		case "QUIT":
			reply("221 bye")
			return
		default:
			reply("502 not implemented")
		}
	}
}

func runCgf(t []string) string {
	if len(t) != 1 {
		return "bad-op"
	}
	if billing == nil {
		billing = &billingFtp{}
	}
	switch t[0] {
	case "up":
		if err := billing.listen(); err != nil {
			return "failed:listen"
		}
		if !cgfOpened {
			cfg := factory.ChfConfig.Configuration
			cfg.Cgf = &factory.Cgf{Enable: true, HostIPv4: "127.0.0.1", Port: billing.port, ListenPort: freePort()}
			cfg.Cgf.PassiveTransferPortRange.Start = 0
			cgf.CGFEnable = true
			var wg sync.WaitGroup
			wg.Add(1)
			unlockCfg := lockCgfConfig()
			opened := cgf.OpenServer(context.Background(), &wg)
			unlockCfg()
			if opened == nil {
				return "failed:OpenServer"
			}
			cgfOpened = true
			// the CHF logs in to the billing domain at start-up
			for i := 0; i < 500; i++ {
				billing.mu.Lock()
				n := billing.logins
				billing.mu.Unlock()
				if n > 0 {
					break
				}
				time.Sleep(10 * time.Millisecond)
			}
		}
		cgf.CGFEnable = true
	case "drop":
		billing.dropConnections()
		time.Sleep(50 * time.Millisecond)
	case "down":
		billing.stop()
		time.Sleep(50 * time.Millisecond)
	case "off":
		cgf.CGFEnable = false
	default:
		return "bad-op"
	}
	billing.mu.Lock()
	defer billing.mu.Unlock()
	if billing.torn > 0 {
		return fmt.Sprintf("ok stor=%d logins=%d torn=%d:%s", billing.stors, billing.logins, billing.torn, billing.torn1)
	}
	return fmt.Sprintf("ok stor=%d logins=%d", billing.stors, billing.logins)
}
