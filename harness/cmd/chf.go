//go:build verif

package main

import (
	"bufio"
	"bytes"
	"context"
	"encoding/json"
	"fmt"
	"io"
	"net"
	"net/http"
	"net/http/httptest"
	"os"
	"reflect"
	"sort"
	"strconv"
	"strings"
	"sync"
	"time"

	"github.com/gin-gonic/gin"
	"golang.org/x/net/http2"
	"golang.org/x/net/http2/h2c"

	"github.com/free5gc/chf/cdr/cdrType"
	chf_context "github.com/free5gc/chf/internal/context"
	"github.com/free5gc/chf/pkg/factory"
	"github.com/free5gc/chf/pkg/service"
	"github.com/free5gc/openapi/models"
)

var (
	chfRouter   *gin.Engine
	sinkURL     string
	sinkMu      sync.Mutex
	sinkGot     []string
	sinkSlow    time.Duration
	sinkReenter func()
	chfSupis    = map[string]bool{}
)

func startSink() {
	l, err := net.Listen("tcp", "127.0.0.1:0")
	if err != nil {
		panic(err)
	}
	sinkURL = "http://" + l.Addr().String()
	h := http.HandlerFunc(func(w http.ResponseWriter, r *http.Request) {
		b, _ := io.ReadAll(r.Body)
		var n models.ChargingNotifyRequest
		_ = json.Unmarshal(b, &n)
		var rgs []string
		for _, d := range n.ReauthorizationDetails {
			rgs = append(rgs, strconv.Itoa(int(d.RatingGroup)))
		}
		sinkMu.Lock()
		entry := hexOf([]byte(r.URL.Path)) + ":" + strings.Join(rgs, "+")
		if n.NotificationType != models.ChfConvergedChargingNotificationType_REAUTHORIZATION {
			// what is sent for a recharge is a re-authorisation notification (TS 32.291: notificationType is mandatory)
			entry += ":!" + hexOf([]byte(n.NotificationType))
		}
		sinkGot = append(sinkGot, entry)
		slow, reenter := sinkSlow, sinkReenter
		sinkMu.Unlock()
		// a consumer that takes its time to answer, or that sends a request of its own before it answers
		if strings.HasPrefix(r.URL.Path, "/n/slow/") && slow > 0 {
			time.Sleep(slow)
		}
		if strings.HasPrefix(r.URL.Path, "/n/reenter/") && reenter != nil {
			reenter()
		}
		// a consumer that has the notification and goes away without answering it (restart, connection reset): the stream
		// is aborted, the CHF's client sees a transport error, not an HTTP answer
		if strings.HasPrefix(r.URL.Path, "/n/drop/") {
			panic(http.ErrAbortHandler)
		}
		w.WriteHeader(http.StatusNoContent)
	})
	go func() { _ = http.Serve(l, h2c.NewHandler(h, &http2.Server{})) }()
}

func startChf(services []string, oauth bool) {
	startEnv()
	startSink()
	gin.SetMode(gin.ReleaseMode)
	cfg := factory.ChfConfig
	cfg.Configuration.ServiceNameList = services
	app, err := service.NewApp(context.Background(), cfg, "")
	if err != nil {
		panic(err)
	}
	chf_context.GetSelf().OAuth2Required = oauth
	chfRouter = app.VerifSbi().VerifRouter()
}

// ---- request (de)serialisation ----

var trigCodes = map[string]models.ChfConvergedChargingTrigger{
	"F": {TriggerType: models.ChfConvergedChargingTriggerType_FINAL, TriggerCategory: models.TriggerCategory_IMMEDIATE_REPORT},
	"V": {TriggerType: models.ChfConvergedChargingTriggerType_VOLUME_LIMIT, TriggerCategory: models.TriggerCategory_IMMEDIATE_REPORT},
	"Q": {TriggerType: models.ChfConvergedChargingTriggerType_QUOTA_THRESHOLD, TriggerCategory: models.TriggerCategory_IMMEDIATE_REPORT},
	"M": {TriggerType: models.ChfConvergedChargingTriggerType_MAX_NUMBER_OF_CHANGES_IN_CHARGING_CONDITIONS, TriggerCategory: models.TriggerCategory_IMMEDIATE_REPORT},
	"I": {TriggerType: models.ChfConvergedChargingTriggerType_MANAGEMENT_INTERVENTION, TriggerCategory: models.TriggerCategory_IMMEDIATE_REPORT},
	"X": {TriggerType: models.ChfConvergedChargingTriggerType_TIME_LIMIT, TriggerCategory: models.TriggerCategory_DEFERRED_REPORT},
}

var qmiCodes = []models.QuotaManagementIndicator{"", models.QuotaManagementIndicator_ONLINE_CHARGING,
	models.QuotaManagementIndicator_OFFLINE_CHARGING, models.QuotaManagementIndicator_QUOTA_MANAGEMENT_SUSPENDED}

type tk struct {
	t  []string
	ok bool
}

func (p *tk) next() string {
	if len(p.t) == 0 {
		p.ok = false
		return ""
	}
	s := p.t[0]
	p.t = p.t[1:]
	return s
}
func (p *tk) i() int64 {
	v, err := strconv.ParseInt(p.next(), 10, 64)
	if err != nil {
		p.ok = false
	}
	return v
}
func (p *tk) hexs() string {
	b, ok := unhex(p.next())
	if !ok {
		p.ok = false
	}
	return string(b)
}

func parseReq(p *tk) *models.ChfConvergedChargingChargingDataRequest {
	r := &models.ChfConvergedChargingChargingDataRequest{}
	r.SubscriberIdentifier = p.hexs()
	if len(p.t) > 0 && p.t[0] == "~" {
		p.next()
	} else {
		r.NfConsumerIdentification = &models.ChfConvergedChargingNfIdentification{NFName: p.hexs(), NodeFunctionality: "SMF"}
	}
	r.ChargingId = int32(p.i())
	r.InvocationSequenceNumber = int32(p.i())
	switch p.i() {
	case 1:
		r.NotifyUri = sinkURL + "/n/" + r.SubscriberIdentifier
	case 2:
		// another address (generated for updates and releases only: the address registered by the create stays the subscriber's)
		r.NotifyUri = sinkURL + "/m/" + r.SubscriberIdentifier
	}
	applyCreateFlags(r, p.i()) // bit 0: oneTimeEvent; bits 1, 2: contents that OpenCDR refuses; bit 3: retransmissionIndicator (chf_events.go)
	now := time.Now()
	r.InvocationTimeStamp = &now
	nt := int(p.i())
	for i := 0; i < nt && p.ok; i++ {
		t, ok := trigCodes[p.next()]
		if !ok {
			p.ok = false
		}
		r.Triggers = append(r.Triggers, t)
	}
	nu := int(p.i())
	for i := 0; i < nu && p.ok; i++ {
		var u models.ChfConvergedChargingMultipleUnitUsage
		u.RatingGroup = int32(p.i())
		if len(p.t) > 0 && p.t[0] == "~" {
			p.next()
		} else {
			u.RequestedUnit = &models.RequestedUnit{TotalVolume: int32(p.i())}
		}
		u.UPFID = p.hexs()
		nc := int(p.i())
		for j := 0; j < nc && p.ok; j++ {
			var c models.ChfConvergedChargingUsedUnitContainer
			q := int(p.i())
			if q < 0 || q > 3 {
				p.ok = false
				q = 0
			}
			c.QuotaManagementIndicator = qmiCodes[q]
			c.TotalVolume = int32(p.i())
			c.UplinkVolume = int32(p.i())
			c.DownlinkVolume = int32(p.i())
			c.ServiceSpecificUnits = int32(p.i())
			c.LocalSequenceNumber = int32(p.i())
			u.UsedUnitContainer = append(u.UsedUnitContainer, c)
		}
		r.MultipleUnitUsage = append(r.MultipleUnitUsage, u)
	}
	return r
}

// ---- state dump ----

func sortedRgs[V any](m map[int32]V) []int32 {
	var ks []int32
	for k := range m {
		ks = append(ks, k)
	}
	sort.Slice(ks, func(i, j int) bool { return ks[i] < ks[j] })
	return ks
}

func dumpRecord(r *cdrType.CHFRecord) string {
	if r == nil || r.ChargingFunctionRecord == nil {
		return "nil"
	}
	c := r.ChargingFunctionRecord
	sid := "-"
	if c.ChargingSessionIdentifier != nil {
		sid = hexOf(c.ChargingSessionIdentifier.Value)
	}
	sub := "-"
	if c.SubscriberIdentifier != nil {
		sub = fmt.Sprintf("%d.%s", c.SubscriberIdentifier.SubscriptionIDType.Value, hexOf([]byte(c.SubscriberIdentifier.SubscriptionIDData)))
	}
	cid := int64(-1)
	if c.ChargingID != nil {
		cid = c.ChargingID.Value
	}
	nf := "-"
	if c.NFunctionConsumerInformation.NetworkFunctionName != nil {
		nf = hexOf([]byte(c.NFunctionConsumerInformation.NetworkFunctionName.Value))
	}
	lsn := int64(-1)
	if c.LocalRecordSequenceNumber != nil {
		lsn = c.LocalRecordSequenceNumber.Value
	}
	rsn := int64(-1)
	if c.RecordSequenceNumber != nil {
		rsn = *c.RecordSequenceNumber
	}
	var us []string
	for _, u := range c.ListOfMultipleUnitUsage {
		var cs []string
		for _, k := range u.UsedUnitContainers {
			f := func(p *cdrType.DataVolumeOctets) int64 {
				if p == nil {
					return -1
				}
				return p.Value
			}
			l := int64(-1)
			if k.LocalSequenceNumber != nil {
				l = k.LocalSequenceNumber.Value
			}
			s := int64(-1)
			if k.ServiceSpecificUnits != nil {
				s = *k.ServiceSpecificUnits
			}
			cs = append(cs, fmt.Sprintf("%d/%d/%d/%d/%d", l, f(k.DataTotalVolume), f(k.DataVolumeUplink), f(k.DataVolumeDownlink), s))
		}
		upf := "-"
		if u.UPFID != nil {
			upf = hexOf([]byte(u.UPFID.Value))
		}
		us = append(us, fmt.Sprintf("%d~%s~%s", u.RatingGroup.Value, upf, strings.Join(cs, "+")))
	}
	usage := "-"
	if len(us) > 0 {
		usage = strings.Join(us, ";")
	}
	return fmt.Sprintf("sid=%s,sub=%s,cid=%d,nf=%s,lsn=%d,rsn=%d,cause=%d,u=%s", sid, sub, cid, nf, lsn, rsn, c.CauseForRecClosing.Value, usage)
}

func dumpState() string {
	var ues []string
	supis := make([]string, 0, len(chfSupis))
	for s := range chfSupis {
		supis = append(supis, s)
	}
	sort.Strings(supis)
	for _, s := range supis {
		ue, ok := chf_context.GetSelf().ChfUeFindBySupi(s)
		if !ok {
			continue
		}
		var parts []string
		for _, rg := range sortedRgs(ue.RatingType) {
			parts = append(parts, fmt.Sprintf("%d=%d/%d/%d/%d", rg, ue.ReservedQuota[rg], ue.RatingType[rg], ue.UnitCost[rg], ue.AcctRequestNum[rg]))
		}
		m := "-"
		if len(parts) > 0 {
			m = strings.Join(parts, ";")
		}
		// records and the session map (as indices into Records; x = not in Records)
		var recs []string
		for _, r := range ue.Records {
			recs = append(recs, dumpRecord(r))
		}
		var sids []string
		for sid := range ue.Cdr {
			sids = append(sids, sid)
		}
		sort.Strings(sids)
		var cm []string
		for _, sid := range sids {
			idx := "x"
			for i, r := range ue.Records {
				if r == ue.Cdr[sid] {
					idx = strconv.Itoa(i)
				}
			}
			cm = append(cm, hexOf([]byte(sid))+">"+idx)
		}
		rs, cs := "-", "-"
		if len(recs) > 0 {
			rs = strings.Join(recs, "|")
		}
		if len(cm) > 0 {
			cs = strings.Join(cm, ";")
		}
		ues = append(ues, fmt.Sprintf("%s money=%s cdr=%s rec=%s", hexOf([]byte(s)), m, cs, rs))
	}
	u := "-"
	if len(ues) > 0 {
		u = strings.Join(ues, " ")
	}
	return fmt.Sprintf("bal=%s nue=%d %s", storeDumpHex(), len(ues), u)
}

func doHTTP(method, path string, body []byte) *httptest.ResponseRecorder {
	req := httptest.NewRequest(method, path, bytes.NewReader(body))
	req.Header.Set("Content-Type", "application/json")
	w := httptest.NewRecorder()
	chfRouter.ServeHTTP(w, req)
	return w
}

func respSummary(w *httptest.ResponseRecorder) string {
	loc := "-"
	if l := w.Header().Get("Location"); l != "" {
		i := strings.LastIndex(l, "/chargingdata/")
		if i >= 0 {
			loc = hexOf([]byte(l[i+len("/chargingdata/"):]))
		} else {
			loc = "?"
		}
	}
	seq, ts, mui := "-", 0, "-"
	var rsp models.ChfConvergedChargingChargingDataResponse
	if w.Code/100 == 2 && w.Body.Len() > 0 && json.Unmarshal(w.Body.Bytes(), &rsp) == nil {
		seq = strconv.Itoa(int(rsp.InvocationSequenceNumber))
		if rsp.InvocationTimeStamp != nil {
			ts = 1
		}
		var ms []string
		for _, m := range rsp.MultipleUnitInformation {
			g := "-"
			if m.GrantedUnit != nil {
				g = strconv.Itoa(int(m.GrantedUnit.TotalVolume))
			}
			f := 0
			if m.FinalUnitIndication != nil && m.FinalUnitIndication.FinalUnitAction == models.FinalUnitAction_TERMINATE {
				f = 1
			}
			ms = append(ms, fmt.Sprintf("%d:%s:%d", m.RatingGroup, g, f))
		}
		if len(ms) > 0 {
			mui = strings.Join(ms, ";")
		}
	}
	blen := w.Body.Len()
	return fmt.Sprintf("st=%d loc=%s seq=%s ts=%d body=%d mui=%s", w.Code, loc, seq, ts, btoi(blen > 0), mui)
}

func btoi(b bool) int {
	if b {
		return 1
	}
	return 0
}

const ccPrefix = "/nchf-convergedcharging/v3"

func init() {
	streams["chf"] = &stream{
		setup: func() { startChf([]string{"nchf-convergedcharging"}, false) },
		gen:   genChf,
		run:   runChf,
	}
}

func cleanupCdrFiles() {
	for s := range chfSupis {
		os.Remove("/tmp/" + s + ".cdr")
	}
}

func runChf(line string, t []string) string {
	if len(t) == 0 {
		return "bad-op"
	}
	p := &tk{t: t[1:], ok: true}
	sinkMu.Lock()
	sinkGot = nil
	sinkMu.Unlock()
	var w *httptest.ResponseRecorder
	switch t[0] {
	case "acct":
		ue, rg, q, c := p.hexs(), p.i(), p.hexs(), p.hexs()
		if !p.ok {
			return "bad-op"
		}
		store.set(ue, rg, q, c)
		return "ok"
	case "credit":
		ue, rg, amt := p.hexs(), p.i(), p.i()
		if !p.ok {
			return "bad-op"
		}
		store.mu.Lock()
		if d, ok := store.docs[acctKey{ue, rg}]; ok {
			if v, err := strconv.ParseInt(d["quota"].(string), 10, 64); err == nil {
				d["quota"] = strconv.FormatInt(v+amt, 10)
			}
		}
		store.mu.Unlock()
		return "ok"
	case "end":
		cleanupCdrFiles()
		return "ok"
	case "slowdb":
		ms := p.i()
		if !p.ok {
			return "bad-op"
		}
		store.mu.Lock()
		store.putDelay = time.Duration(ms) * time.Millisecond
		store.mu.Unlock()
		return "ok"
	case "outage":
		// the account-balance / rating server becomes unreachable (down: dial error; silent: no answer) or reachable again
		if len(t) != 3 || !setOutage(t[1], t[2]) {
			return "bad-op"
		}
		return "ok"
	case "reset":
		// a fresh world: subscribers, accounts, sequence numbers; every server reachable
		cleanupCdrFiles()
		clearOutages()
		self := chf_context.GetSelf()
		self.UePool.Range(func(k, v interface{}) bool { self.UePool.Delete(k); return true })
		// zero the sequence counters by name (reflection: the harness must keep building when a
		// change to the tree renames or removes one of them)
		rv := reflect.ValueOf(self).Elem()
		for _, name := range []string{"LocalRecordSequenceNumber", "ChargingSessionSequence"} {
			if f := rv.FieldByName(name); f.IsValid() && f.CanSet() && f.Kind() == reflect.Uint64 {
				f.SetUint(0)
			}
		}
		self.RecordSequenceNumber = map[string]int64{}
		store.reset()
		chfSupis = map[string]bool{}
		return "ok"
	case "create":
		r := parseReq(p)
		if !p.ok || len(p.t) != 0 {
			return "bad-op"
		}
		chfSupis[r.SubscriberIdentifier] = true
		b, _ := json.Marshal(r)
		w = doHTTP("POST", ccPrefix+"/chargingdata", b)
	case "update", "release":
		sid := p.hexs()
		r := parseReq(p)
		if !p.ok || len(p.t) != 0 {
			return "bad-op"
		}
		chfSupis[r.SubscriberIdentifier] = true
		b, _ := json.Marshal(r)
		w = doHTTP("POST", ccPrefix+"/chargingdata/"+escapePath(sid)+"/"+t[0], b)
	case "recharge":
		info := p.hexs()
		if !p.ok {
			return "bad-op"
		}
		w = doHTTP("PUT", ccPrefix+"/recharging/"+escapePath(info), nil)
	default:
		return "bad-op"
	}
	// the notification is sent synchronously inside the handler; the sink has recorded it
	sinkMu.Lock()
	notif := "-"
	if len(sinkGot) > 0 {
		notif = strings.Join(sinkGot, ";")
	}
	sinkMu.Unlock()
	return respSummary(w) + " notif=" + notif + " " + dumpState()
}

func escapePath(s string) string {
	var sb strings.Builder
	for i := 0; i < len(s); i++ {
		c := s[i]
		if (c >= 'a' && c <= 'z') || (c >= 'A' && c <= 'Z') || (c >= '0' && c <= '9') || c == '-' || c == '_' || c == '.' {
			sb.WriteByte(c)
		} else {
			fmt.Fprintf(&sb, "%%%02X", c)
		}
	}
	return sb.String()
}

// ---- generator ----

type genSess struct {
	supi, nf, sid string
	lastGrant     map[int]int
	live          bool
	inv           int // invocation sequence numbers are the consumer's, counted per session (two sessions of a subscriber
	// use the same numbers)
	cseq map[int]int // used unit containers are numbered per charging session and rating group (TS 32.291): a subscriber's
	// second session starts at 1 again
}

func fmtReq(supi, nf string, cid, seq int, uri, one int, trigs []string, usages []string) string {
	nfTok := "~"
	if nf != "\x00" {
		nfTok = hexOf([]byte(nf))
	}
	s := fmt.Sprintf("%s %s %d %d %d %d %d", hexOf([]byte(supi)), nfTok, cid, seq, uri, one, len(trigs))
	for _, t := range trigs {
		s += " " + t
	}
	s += fmt.Sprintf(" %d", len(usages))
	for _, u := range usages {
		s += " " + u
	}
	return s
}

func genChf(o genOpts, w *bufio.Writer) {
	if gen, ok := chfGenModes[o.mode]; ok {
		gen(o, w) // generator variants that live in files of their own (chf_events.go, ...)
		return
	}
	if o.mode == "comply" {
		genChfComply(o, w)
		return
	}
	r := &rng{s: o.seed}
	lsn := 0
	// the generator mirrors the session id rule (supi+nf+counter) only to address requests; the real
	// references come from the Location header and are compared by the check.
	counter := 0
	if o.mode == "names" {
		// adversarial block: one SUPI, many creates whose consumer names end in digits or are empty, so that
		// any digit-ambiguous construction of the reference (name ++ counter) must collide:
		// ("1",0) vs ("",10), ("1",1) vs ("",11), ("2",0)…
		fmt.Fprintf(w, "chf reset\n")
		names := []string{"1", "1", "2", "a1", "a", "", "1-", "0", "9", "10", "", "", "a", "1", "", "", "", "", "", "", "", ""}
		for k, nf := range names {
			fmt.Fprintf(w, "chf create %s\n", fmtReq("imsi-1", nf, 100+k, 0, 1, 0, nil, nil))
		}
		// empty consumer names and SUPIs that are prefixes of one another: "imsi-11"+""+0 vs "imsi-1"+""+10
		fmt.Fprintf(w, "chf reset\n")
		fmt.Fprintf(w, "chf create %s\n", fmtReq("imsi-11", "", 100, 0, 1, 0, nil, nil))
		for k := 1; k < 10; k++ {
			fmt.Fprintf(w, "chf create %s\n", fmtReq("imsi-2", r.pickStr("", "a"), 100+k, 0, 1, 0, nil, nil))
		}
		fmt.Fprintf(w, "chf create %s\n", fmtReq("imsi-1", "", 110, 0, 1, 0, nil, nil))
		fmt.Fprintf(w, "chf create %s\n", fmtReq("imsi-111", "", 111, 0, 1, 0, nil, nil))
		fmt.Fprintf(w, "chf create %s\n", fmtReq("imsi-1", "1", 112, 0, 1, 0, nil, nil))
		// SUPIs that cannot name the subscriber's CDR file (path separator, NUL, too long) and their nearest neighbours
		fmt.Fprintf(w, "chf reset\n")
		accepted := 0
		for k, sp := range []string{"imsi-1/2", "imsi-../../etc/passwd", "imsi-1\x002", "imsi-" + strings.Repeat("7", 247), "imsi-" + strings.Repeat("7", 246),
			"imsi-/", "imsi-1\\2", "imsi-1.2", "imsi-..", "imsi-1\n2", "imsi-1\x7f", "imsi-1\t2"} {
			fmt.Fprintf(w, "chf create %s\n", fmtReq(sp, "smf", 100+k, 0, 1, 0, nil, nil))
			ref := sp + "smf-" + strconv.Itoa(accepted)
			if strings.ContainsAny(sp, "/\x00") {
				ref = "ref-" + strconv.Itoa(k) // (a reference with a path separator does not reach the handler at all)
			} else if strings.ContainsFunc(sp, func(r rune) bool { return r < 0x20 || r == 0x7f }) {
				// refused: the reference could not be handed to the consumer in a header
			} else if len(sp) <= 251 {
				accepted++
			}
			fmt.Fprintf(w, "chf update %s %s\n", hexOf([]byte(ref)), fmtReq(sp, "smf", 100+k, 1, 1, 0, nil, nil))
		}
		fmt.Fprintf(w, "chf reset\n")
		for k, nf := range []string{"23", "3", "", "2"} {
			fmt.Fprintf(w, "chf create %s\n", fmtReq([]string{"imsi-1", "imsi-12", "imsi-123", "imsi-1"}[k], nf, 100+k, 0, 1, 0, nil, nil))
		}
	}
	for done := 0; done < o.n; {
		fmt.Fprintf(w, "chf reset\n")
		counter = 0
		// one scenario: 1-3 subscribers, 1-2 rating groups each, 1-2 sessions
		nsub := 1 + r.intn(2)
		huge := o.mode == "" && r.chance(14) // volumes whose price lies between 2^31 and 2^32
		if o.mode == "" && r.chance(8) {
			fmt.Fprintf(w, "chf slowdb 15\n") // the account store writes slowly in this history
		}
		var sess []*genSess
		rgs := []int{1, 2}
		costs := []int{1, 2, 3, 7, 1000}
		for s := 0; s < nsub; s++ {
			supi := fmt.Sprintf("imsi-20893%04d%06d", o.seed%10000, r.intn(1000000))
			if o.mode == "names" {
				// one SUPI a prefix of another, digit tails
				supi = r.pickStr("imsi-1", "imsi-12", "imsi-123", "imsi-", "imsi-1-", "imsi-10")
				dup := false
				for _, x := range sess {
					if x.supi == supi {
						dup = true
					}
				}
				if dup {
					continue
				}
			}
			cost := costs[r.intn(len(costs))]
			if huge {
				cost = 2
			}
			for _, rg := range rgs {
				bal := r.pick(0, 1, 50, 150, 199, 200, 201, 999, 1000, 5000, 100000) * r.pick(1, 1, cost)
				if huge {
					// mostly more money than any request needs; sometimes less than one requested quota, above 2^24 and not round
					bal = r.pick(12000000000, 12000000000, 12000000000, 33554431, 50000001, 1234567891, 3999999999)
				}
				costStr := strconv.Itoa(cost)
				if o.mode == "costs" {
					// stored tariffs of every shape: the CHF and the rating server must decode them alike
					costStr = r.pickStr("0", "", "abc", "0.0", "0.5", "1e3", "1.5", "2", "3", "10", "007", "4294967296", "-1", "1.", ".5", " 2")
					if r.chance(50) {
						costStr = genTariffText(r)
					}
				}
				fmt.Fprintf(w, "chf acct %s %d %s %s\n", hexOf([]byte(supi)), rg, hexOf([]byte(strconv.Itoa(bal))), hexOf([]byte(costStr)))
			}
			ns := 1 + r.intn(2)
			if o.mode == "names" {
				ns = 2 + r.intn(3)
			}
			for k := 0; k < ns; k++ {
				nf := r.pickStr("smf1", "smf", "a1", "a", "")
				if o.mode == "names" {
					nf = r.pickStr("a1", "a", "", "1", "10", "-1", "a-1", "-", "smf-0", "0")
				}
				// a subscriber's first session registers the notification address; a later one may come without an address of its own
				uriTok := 1
				if k > 0 && o.mode != "names" {
					uriTok = r.pick(1, 0, 0)
				}
				fmt.Fprintf(w, "chf create %s\n", fmtReq(supi, nf, 100+k, 0, uriTok, 0, nil, nil))
				sess = append(sess, &genSess{supi: supi, nf: nf, sid: supi + nf + "-" + strconv.Itoa(counter), lastGrant: map[int]int{}, live: true})
				counter++
				done++
			}
		}
		steps := 6 + r.intn(10)
		var outages outageGen
		for i := 0; i < steps && done < o.n; i++ {
			s := sess[r.intn(len(sess))]
			if !s.live {
				continue
			}
			if o.mode == "" {
				outages.step(r, o, w)
			}
			var usages []string
			nrg := 1 + r.intn(2)
			for k := 0; k < nrg; k++ {
				rg := rgs[(k+r.intn(2))%2]
				req := r.pick(0, 1, 50, 100, 100, 100, 101, 250)
				// compliant consumer mostly: used <= last grant (the model's grant is not known to the
				// generator; it uses the requested volume of the previous round as an upper bound and the
				// check classifies compliance from the implementation's trace)
				lg := s.lastGrant[rg]
				used := 0
				switch r.intn(6) {
				case 0:
					used = 0
				case 1:
					used = lg
				case 2:
					if lg > 0 {
						used = lg - 1
					}
				case 3:
					used = lg / 2
				case 4:
					used = lg + r.pick(0, 0, 1, 7) // sometimes over-reporting
				default:
					used = r.intn(lg + 1)
				}
				qmi := 1
				if r.chance(8) {
					qmi = 2
				}
				// every mix of quota-management indicators (absent, online, offline, suspended) within one usage
				mixed := r.chance(15)
				if huge {
					req = r.pick(100, 1000000000, 1500000000, 2000000000)
					switch r.intn(4) {
					case 0:
						used = lg
					case 1:
						used = lg / 2
					case 2:
						used = 0
					}
				}
				reqTok := strconv.Itoa(req)
				if r.chance(10) {
					reqTok = "~" // a usage report that asks for nothing (no requestedUnit)
				}
				// the report spread over one to three containers
				nc := 1
				if r.chance(25) || mixed {
					nc = 2 + r.intn(2)
				}
				var conts []string
				left := used
				for c := 0; c < nc; c++ {
					part := left
					if c < nc-1 {
						part = left / 2
					}
					left -= part
					if s.cseq == nil {
						s.cseq = map[int]int{}
					}
					s.cseq[rg]++
					lsn = s.cseq[rg]
					q := qmi
					if mixed {
						// a container that is not online carries a volume of its own (it is not part of the rated usage)
						if q = r.intn(4); q != 1 {
							left += part
							part = r.pick(0, 1, 7, 50, lg)
						}
					}
					conts = append(conts, fmt.Sprintf("%d %d %d %d %d %d", q, part, part/2, part-part/2, r.intn(3), lsn))
				}
				usages = append(usages, fmt.Sprintf("%d %s %s %d %s", rg, reqTok, hexOf([]byte("upf1")), nc, strings.Join(conts, " ")))
				s.lastGrant[rg] = req
			}
			var trigs []string
			if r.chance(12) || (huge && r.chance(35)) {
				trigs = append(trigs, "F")
			} else if r.chance(10) {
				trigs = append(trigs, r.pickStr("V", "Q", "M", "I", "X"))
			}
			op := "update"
			if r.chance(8) {
				op = "release"
				s.live = false
			}
			sid, supiReq := s.sid, s.supi
			if o.mode == "api" && r.chance(25) {
				// unknown / stale / foreign references, unknown subscribers: must be rejected without effect
				switch r.intn(5) {
				case 0:
					sid = "nosuch"
				case 1:
					sid = s.sid + "0"
				case 2:
					other := sess[r.intn(len(sess))]
					if other.supi != s.supi {
						sid = other.sid
					} else {
						sid = ""
					}
				case 3:
					supiReq = "imsi-999999999999999"
				default:
					for _, x := range sess {
						if !x.live && x.supi == s.supi {
							sid = x.sid
						}
					}
				}
				if op == "release" {
					s.live = true
				}
			}
			s.inv++
			fmt.Fprintf(w, "chf %s %s %s\n", op, hexOf([]byte(sid)), fmtReq(supiReq, s.nf, 100, s.inv, r.pick(1, 1, 0, 2, 2), r.pick(0, 0, 0, 0, 8), trigs, usages))
			done++
			if o.mode == "api" && r.chance(10) {
				fmt.Fprintf(w, "chf recharge %s\n", hexOf([]byte(r.pickStr(s.supi+"_1", s.supi+"_2", s.supi, s.supi+"_x", "imsi-404_1", s.supi+"_1_2", "_", s.supi+"_-3", s.supi+"_99999999999",
					s.supi+"_010", s.supi+"_08", s.supi+"_0x1", s.supi+"_+1", s.supi+"_ 1", s.supi+"_01"))))
			}
			if o.mode == "" && !huge && r.chance(6) {
				// the operator changes the tariff (and re-bases the balance) in the middle of the history
				fmt.Fprintf(w, "chf acct %s %d %s %s\n", hexOf([]byte(s.supi)), rgs[r.intn(2)], hexOf([]byte(strconv.Itoa(r.pick(500, 5000, 100000)))),
					hexOf([]byte(strconv.Itoa(r.pick(1, 2, 3, 5, 7)))))
			}
			if o.mode == "costs" && r.chance(15) {
				fmt.Fprintf(w, "chf acct %s %d %s %s\n", hexOf([]byte(s.supi)), rgs[r.intn(2)], hexOf([]byte(strconv.Itoa(r.pick(500, 5000, 100000)))),
					hexOf([]byte(r.pickStr("0", "", "abc", "0.5", "1.5", "2", "3", "5", "10", "007", "4294967296", "1.", genTariffText(r)))))
			}
			if r.chance(6) {
				fmt.Fprintf(w, "chf credit %s %d %d\n", hexOf([]byte(s.supi)), rgs[r.intn(2)], r.pick(100, 1000, 5000))
				fmt.Fprintf(w, "chf recharge %s\n", hexOf([]byte(s.supi+"_"+strconv.Itoa(rgs[r.intn(2)]))))
			}
		}
	}
	fmt.Fprintf(w, "chf end\n")
}
