//go:build verif

package main

import (
	"bufio"
	"fmt"
	"math"
	"strconv"
	"time"

	"github.com/fiorix/go-diameter/diam"
	"github.com/fiorix/go-diameter/diam/datatype"
	"github.com/fiorix/go-diameter/diam/dict"

	charging_code "github.com/free5gc/chf/ccs_diameter/code"
	cd "github.com/free5gc/chf/ccs_diameter/datatype"
)

var rfPeer *diamPeer

func init() {
	streams["rf"] = &stream{
		setup: func() {
			startEnv()
			rfPeer = newPeer(fmt.Sprintf("127.0.0.1:%d", rfPort), "SUA")
		},
		gen: genRf,
		run: func(line string, t []string) string {
			switch {
			case len(t) == 4 && t[0] == "set":
				ue, _ := unhex(t[1])
				c, _ := unhex(t[3])
				store.set(string(ue), int64(u(t[2])), "0", string(c))
				return "ok"
			case len(t) == 2 && t[0] == "reset":
				store.reset()
				return "ok"
			case len(t) == 8 && t[0] == "sur":
				sess, _ := unhex(t[1])
				sub, _ := unhex(t[3])
				sur := &cd.ServiceUsageRequest{
					SessionId:       datatype.UTF8String(sess),
					OriginHost:      "client",
					OriginRealm:     "go-diameter",
					DestinationHost: "server", DestinationRealm: "go-diameter",
					ActualTime: datatype.Time(time.Unix(1700000000, 0)),
					UserName:   datatype.OctetString("CHF"),
					ServiceRating: &cd.ServiceRating{
						ServiceIdentifier: datatype.Unsigned32(u(t[4])),
						RequestSubType:    cd.RequestSubType(u(t[5])),
						ConsumedUnits:     datatype.Unsigned32(u(t[6])),
						MonetaryQuota:     datatype.Unsigned32(u(t[7])),
					},
				}
				if t[3] != "-" {
					// "-": the optional Subscription-Id grouped AVP is left out of the request
					sur.SubscriptionId = &cd.SubscriptionId{
						SubscriptionIdType: cd.SubscriptionIdType(u(t[2])),
						SubscriptionIdData: datatype.UTF8String(sub),
					}
				}
				msg := diam.NewRequest(charging_code.ServiceUsageMessage, charging_code.Re_interface, dict.Default)
				if err := msg.Marshal(sur); err != nil {
					return "marshal-error"
				}
				// "~": the optional ConsumedUnits / MonetaryQuota AVP is left out of the Service-Rating group (the struct
				// marshalling always writes scalar members, a peer need not)
				var omit []string
				if t[6] == "~" {
					omit = append(omit, "ConsumedUnits")
				}
				if t[7] == "~" {
					omit = append(omit, "MonetaryQuota")
				}
				if len(omit) > 0 && !stripNested(msg, omit) {
					return "strip-error"
				}
				a, st := rfPeer.roundTrip(msg)
				switch st {
				case rtNoAnswer:
					return "noanswer"
				case rtClosed:
					return "panic"
				}
				var sua cd.ServiceUsageResponse
				if err := a.Unmarshal(&sua); err != nil {
					return "unmarshal-error"
				}
				sr := sua.ServiceRating
				if sr == nil || sr.MonetaryTariff == nil || sr.MonetaryTariff.RateElement == nil ||
					sr.MonetaryTariff.RateElement.UnitCost == nil {
					return "ans-without-tariff"
				}
				uc := sr.MonetaryTariff.RateElement.UnitCost
				// the CHF's reading of the tariff (expression of getUnitCost in converged_charging.go)
				chf := uint32(uc.ValueDigits) * uint32(math.Pow10(int(uc.Exponent)))
				return fmt.Sprintf("ans %s %d %d %d %d %d", hexOf([]byte(sua.SessionId)), uc.ValueDigits, uc.Exponent,
					sr.AllowedUnits, sr.Price, chf)
			}
			return "bad-op"
		},
	}
}

// stripNested removes the named AVPs from every grouped AVP of the message and fixes the message length
func stripNested(m *diam.Message, names []string) bool {
	codes := map[uint32]bool{}
	for _, n := range names {
		a, err := dict.Default.FindAVP(charging_code.Re_interface, n)
		if err != nil {
			return false
		}
		codes[a.Code] = true
	}
	for _, a := range m.AVP {
		if g, ok := a.Data.(*diam.GroupedAVP); ok {
			var keep []*diam.AVP
			for _, x := range g.AVP {
				if !codes[x.Code] {
					keep = append(keep, x)
				}
			}
			g.AVP = keep
		}
	}
	n := diam.HeaderLength
	for _, a := range m.AVP {
		n += a.Len()
	}
	m.Header.MessageLength = uint32(n)
	return true
}

var rfAmounts = []uint64{0, 1, 2, 3, 7, 99, 100, 101, 1000, 65535, 65536, 1 << 31, 1<<32 - 1}

func genCost(r *rng, thorough bool) string {
	switch r.intn(12) {
	case 0:
		return r.pickStr("0", "", "abc", "0.0", ".", "-1", "+3", " 2", "1e3", "0x10", "00", "-0")
	case 1:
		return r.pickStr("1.5", "0.5", "2.0", "10.25", "1.", ".5", "1..2", "1.2.3", "3.000000000", "1.0000000000000000000")
	case 2:
		return r.pickStr("4294967295", "4294967296", "2147483648", "9223372036854775807", "9223372036854775808", "65536",
			"4294967297", "8589934594", "4294968296")
	case 3:
		if thorough {
			// random short string over the cost alphabet
			al := "0123456789.+-a"
			n := r.intn(4)
			b := make([]byte, n)
			for i := range b {
				b[i] = al[r.intn(len(al))]
			}
			return string(b)
		}
		return strconv.Itoa(r.intn(50))
	default:
		return strconv.Itoa(r.pick(1, 1, 2, 3, 7, 10, 1000, 12345))
	}
}

func genRf(o genOpts, w *bufio.Writer) {
	r := &rng{s: o.seed}
	ue := "imsi-208930000000001"
	for done := 0; done < o.n; {
		fmt.Fprintf(w, "rf reset x\n")
		rgs := []int{1, 2, 4294967295}
		for _, rg := range rgs {
			fmt.Fprintf(w, "rf set %s %d %s\n", hexOf([]byte(ue)), rg, hexOf([]byte(genCost(r, o.tier == "thorough"))))
		}
		for i := 0; i < 12 && done < o.n; i++ {
			rg := rgs[r.intn(len(rgs))]
			sub, subType := ue[5:], 1
			if r.chance(5) {
				switch r.intn(3) {
				case 0:
					sub = "999"
				case 1:
					rg = 9
				default:
					subType = 0
				}
			}
			amt := func() uint64 {
				x := rfAmounts[r.intn(len(rfAmounts))]
				if r.chance(30) {
					x = uint64(r.intn(100000))
				}
				return x
			}
			subTok := hexOf([]byte(sub))
			if r.chance(4) {
				subTok = "-"
			}
			amtTok := func() string {
				v := amt()
				if r.chance(8) {
					return "~" // the optional AVP is absent: the server sees no consumed units / no monetary quota
				}
				return strconv.FormatUint(v, 10)
			}
			fmt.Fprintf(w, "rf sur %s %d %s %d %d %s %s\n", hexOf([]byte(fmt.Sprintf("r%d", r.intn(1000)))),
				subType, subTok, rg, r.pick(1, 1, 1, 2, 2, 0, 3, 9), amtTok(), amtTok())
			done++
		}
	}
}
