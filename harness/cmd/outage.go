//go:build verif

package main

// Fault injection for the chf stream: `chf outage abmf|rf down|silent|up` makes the account-balance server or the
// rating server unreachable for the operations that follow.
//   down   - the CHF's client configuration points at a port where every connection is closed at once: the dial
//            (TLS handshake) fails, Send…Request returns an error immediately;
//   silent - it points at a Diameter peer that completes the capabilities exchange and never answers a request:
//            Send…Request returns its time-out error after 5 s (thorough tier only - each request costs 5 s);
//   up     - the real server again.
// The servers themselves keep running and keep their state: only the reachability changes, as in the Lean model
// (State.abmfUp / State.rfUp).

import (
	"bufio"
	"fmt"
	"net"
	"sync"

	"github.com/fiorix/go-diameter/diam"
	"github.com/fiorix/go-diameter/diam/sm"

	"github.com/free5gc/chf/pkg/factory"
)

var (
	deadOnce, silentOnce sync.Once
	deadPortNo           int
	silentPortNo         int
)

// deadPort: a listener that closes every accepted connection immediately
func deadPort() int {
	deadOnce.Do(func() {
		l, err := net.Listen("tcp", "127.0.0.1:0")
		if err != nil {
			panic(err)
		}
		deadPortNo = l.Addr().(*net.TCPAddr).Port
		go func() {
			for {
				c, err := l.Accept()
				if err != nil {
					return
				}
				c.Close()
			}
		}()
	})
	return deadPortNo
}

// silentPort: a Diameter peer that answers the capabilities exchange (go-diameter's state machine does) and
// drops every other message
func silentPort() int {
	silentOnce.Do(func() {
		silentPortNo = freePort()
		mux := sm.New(relaySettings("silent"))
		go func() {
			for range mux.ErrorReports() {
			}
		}()
		mux.HandleFunc("ALL", func(c diam.Conn, m *diam.Message) {})
		go func() {
			_ = diam.ListenAndServeTLS(fmt.Sprintf("127.0.0.1:%d", silentPortNo), certPem, certKey, mux, nil)
		}()
		waitPort(silentPortNo)
	})
	return silentPortNo
}

func setOutage(which, mode string) bool {
	cfg := factory.ChfConfig.Configuration
	var d *factory.Diameter
	var realPort int
	switch which {
	case "abmf":
		d, realPort = cfg.AbmfDiameter, abmfPort
	case "rf":
		d, realPort = cfg.RfDiameter, rfPort
	default:
		return false
	}
	switch mode {
	case "up":
		d.Port = realPort
	case "down":
		d.Port = deadPort()
	case "silent":
		d.Port = silentPort()
	default:
		return false
	}
	return true
}

// every server reachable again (chf reset)
func clearOutages() {
	setOutage("abmf", "up")
	setOutage("rf", "up")
}

// ---- generator: outages within a history ----

type outageGen struct{ down map[string]bool }

// step is called before every request of a history: now and then one of the two servers becomes unreachable for a
// few requests (both may be unreachable at the same time), and reachable again
func (g *outageGen) step(r *rng, o genOpts, w *bufio.Writer) {
	if g.down == nil {
		g.down = map[string]bool{}
	}
	for _, which := range []string{"abmf", "rf"} {
		if g.down[which] {
			if r.chance(45) {
				fmt.Fprintf(w, "chf outage %s up\n", which)
				g.down[which] = false
			}
			continue
		}
		if r.chance(4) {
			mode := "down"
			if o.tier == "thorough" && which == "abmf" && r.chance(4) {
				mode = "silent" // 5 s per request: rarely, and only where one request is made per usage
			}
			fmt.Fprintf(w, "chf outage %s %s\n", which, mode)
			g.down[which] = true
		}
	}
}
