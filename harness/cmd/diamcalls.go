//go:build verif

package main

// Call sites of the two Diameter client functions (part of dump-tables diamclient → Gen/DiamClient.lean).
//
// The client machine (Model/DiamClient.lean) lets a request of a subscriber start only when none is in progress.
// That rests on every call of abmf.SendAccountDebitRequest / rating.SendServiceUsageRequest being an ordinary call
// made by the charging operation itself (which holds the subscriber lock until it returns).  The extractor lists
// every call of the two functions in the non-test Go files under internal/ and pkg/ and marks a call `async` when
//   - it sits lexically inside a `go` statement, a `defer` statement or a function literal — other than a literal that
//     runs as part of the call it appears in: one that is called on the spot (`func() {…}()`), or one handed to a function
//     of the scanned files that does nothing with that parameter but call it by ordinary calls (`withLock(ue, func() {…})`) —, or
//   - the function it sits in is (transitively, by name) started by a `go` statement or deferred, or called from
//     inside a `go` statement, deferred call or function literal, anywhere in the scanned files.
// (Not seen: a function stored in a variable and started through it.)

import (
	"fmt"
	"go/ast"
	"go/parser"
	"go/token"
	"os"
	"path/filepath"
	"sort"
	"strings"
)

type callSite struct {
	file, fn, callee string
	line             int
	async            bool
}

var clientFuncs = map[string]bool{"SendAccountDebitRequest": true, "SendServiceUsageRequest": true}

func calleeName(e ast.Expr) string {
	switch x := e.(type) {
	case *ast.Ident:
		return x.Name
	case *ast.SelectorExpr:
		return x.Sel.Name
	}
	return ""
}

func astClientCallSites() ([]callSite, error) {
	root := repoRoot()
	var files []string
	for _, top := range []string{"internal", "pkg", "cmd"} {
		_ = filepath.Walk(filepath.Join(root, top), func(p string, info os.FileInfo, err error) error {
			if err != nil || info.IsDir() {
				return nil
			}
			if strings.HasSuffix(p, ".go") && !strings.HasSuffix(p, "_test.go") && !strings.Contains(p, "verifharness") {
				files = append(files, p)
			}
			return nil
		})
	}
	sort.Strings(files)
	fset := token.NewFileSet()
	type fnInfo struct {
		calls map[string]bool // names of functions called by ordinary calls
	}
	fns := map[string]*fnInfo{}  // function name -> calls (merged over packages: an over-approximation)
	asyncFn := map[string]bool{} // functions started by go / defer / used as a value
	var sites []callSite
	parsed := map[string]*ast.File{}
	for _, p := range files {
		f, err := parser.ParseFile(fset, p, nil, 0)
		if err != nil {
			return nil, err
		}
		parsed[p] = f
	}
	// functions that only ever CALL a function-typed parameter, by ordinary calls of their own task: name -> parameter indices
	// (a name declared twice with different behaviour is dropped)
	syncParams := map[string]map[int]bool{}
	dropped := map[string]bool{}
	for _, p := range files {
		for _, d := range parsed[p].Decls {
			fd, ok := d.(*ast.FuncDecl)
			if !ok || fd.Body == nil || fd.Type.Params == nil {
				continue
			}
			idx := 0
			good := map[int]bool{}
			for _, fld := range fd.Type.Params.List {
				_, isFunc := fld.Type.(*ast.FuncType)
				names := fld.Names
				if len(names) == 0 {
					idx++
					continue
				}
				for _, nm := range names {
					if isFunc && nm.Name != "_" {
						okUse := true
						var st []ast.Node
						ast.Inspect(fd.Body, func(n ast.Node) bool {
							if n == nil {
								st = st[:len(st)-1]
								return true
							}
							if id, isID := n.(*ast.Ident); isID && id.Name == nm.Name {
								// allowed: the Fun of a CallExpr that is not under go / defer / a function literal
								par := ast.Node(nil)
								if len(st) > 0 {
									par = st[len(st)-1]
								}
								ce, isCall := par.(*ast.CallExpr)
								if !isCall || ce.Fun != ast.Expr(id) {
									okUse = false
								}
								for _, a := range st {
									switch a.(type) {
									case *ast.GoStmt, *ast.DeferStmt, *ast.FuncLit:
										okUse = false
									}
								}
							}
							st = append(st, n)
							return true
						})
						if okUse {
							good[idx] = true
						}
					}
					idx++
				}
			}
			name := fd.Name.Name
			if _, seen := syncParams[name]; seen || dropped[name] {
				delete(syncParams, name)
				dropped[name] = true
				continue
			}
			syncParams[name] = good
		}
	}
	for _, p := range files {
		f := parsed[p]
		rel, _ := filepath.Rel(root, p)
		for _, d := range f.Decls {
			fd, ok := d.(*ast.FuncDecl)
			if !ok || fd.Body == nil {
				continue
			}
			name := fd.Name.Name
			if fns[name] == nil {
				fns[name] = &fnInfo{calls: map[string]bool{}}
			}
			// walk with a stack of enclosing nodes
			var stack []ast.Node
			ast.Inspect(fd.Body, func(n ast.Node) bool {
				if n == nil {
					stack = stack[:len(stack)-1]
					return true
				}
				inAsync := false
				for i, s := range stack {
					switch x := s.(type) {
					case *ast.GoStmt, *ast.DeferStmt:
						inAsync = true
					case *ast.FuncLit:
						// a literal that runs as part of the (ordinary) call it appears in is not a task of its own
						syncLit := false
						if i > 0 {
							if ce, ok := stack[i-1].(*ast.CallExpr); ok {
								if ce.Fun == ast.Expr(x) {
									syncLit = true
								} else if good := syncParams[calleeName(ce.Fun)]; good != nil {
									for k, a := range ce.Args {
										if a == ast.Expr(x) && good[k] {
											syncLit = true
										}
									}
								}
							}
						}
						if !syncLit {
							inAsync = true
						}
					}
				}
				switch x := n.(type) {
				case *ast.GoStmt:
					if c := calleeName(x.Call.Fun); c != "" {
						asyncFn[c] = true
					}
				case *ast.DeferStmt:
					if c := calleeName(x.Call.Fun); c != "" {
						asyncFn[c] = true
					}
				case *ast.CallExpr:
					c := calleeName(x.Fun)
					if c != "" {
						if inAsync {
							asyncFn[c] = true
						} else {
							fns[name].calls[c] = true
						}
						if clientFuncs[c] && !strings.HasPrefix(rel, filepath.Join("internal", "abmf")+string(filepath.Separator)) &&
							!strings.HasPrefix(rel, filepath.Join("internal", "rating")+string(filepath.Separator)) {
							sites = append(sites, callSite{file: rel, fn: name, callee: c, line: fset.Position(x.Pos()).Line, async: inAsync})
						}
					}
				}
				stack = append(stack, n)
				return true
			})
		}
	}
	// functions reachable (by ordinary calls) from a function that runs asynchronously run asynchronously too
	for changed := true; changed; {
		changed = false
		for name := range asyncFn {
			if fi := fns[name]; fi != nil {
				for c := range fi.calls {
					if !asyncFn[c] {
						asyncFn[c] = true
						changed = true
					}
				}
			}
		}
	}
	for i := range sites {
		if asyncFn[sites[i].fn] {
			sites[i].async = true
		}
	}
	return sites, nil
}

func clientCallSitesLean() (string, map[string]bool) {
	sites, err := astClientCallSites()
	if err != nil {
		fmt.Fprintln(os.Stderr, "ast:", err)
		os.Exit(1)
	}
	serial := map[string]bool{"SendAccountDebitRequest": true, "SendServiceUsageRequest": true}
	var sb strings.Builder
	sb.WriteString("/-- every call of the two client functions outside their own packages: file, enclosing function, callee,\n" +
		"    whether it runs outside the calling operation (go / defer / function literal, directly or through helpers) -/\n")
	sb.WriteString("structure CallSite where\n  file : String\n  fn : String\n  callee : String\n  async : Bool\nderiving DecidableEq, Repr\n\n")
	sb.WriteString("def clientCallSites : List CallSite := [\n")
	for i, s := range sites {
		if s.async {
			serial[s.callee] = false
		}
		sep := ","
		if i == len(sites)-1 {
			sep = ""
		}
		fmt.Fprintf(&sb, "  ⟨%q, %q, %q, %v⟩%s\n", s.file, s.fn, s.callee, s.async, sep)
	}
	sb.WriteString("]\n\n")
	return sb.String(), serial
}

// astPassThrough: the client function hands the decoded answer to its caller as it was decoded - in the select case
// that receives the answer, nothing stands between `m.Unmarshal(&x)` and `return &x, nil`: the only statements are the
// declaration of x, the `if … m.Unmarshal(&x) …` whose body only returns, and the return (C17: every field "received
// with exactly the value that was sent").
func astPassThrough(file, sendFn string) bool {
	fset := token.NewFileSet()
	f, err := parser.ParseFile(fset, file, nil, 0)
	if err != nil {
		return false
	}
	found, ok := false, true
	for _, d := range f.Decls {
		fd, isFn := d.(*ast.FuncDecl)
		if !isFn || fd.Body == nil || fd.Name.Name != sendFn {
			continue
		}
		ast.Inspect(fd.Body, func(n ast.Node) bool {
			sel, isSel := n.(*ast.SelectStmt)
			if !isSel {
				return true
			}
			for _, c := range sel.Body.List {
				cc := c.(*ast.CommClause)
				as, isAs := cc.Comm.(*ast.AssignStmt)
				if !isAs || len(as.Rhs) != 1 {
					continue
				}
				if u, isRecv := as.Rhs[0].(*ast.UnaryExpr); !isRecv || u.Op != token.ARROW {
					continue
				}
				found = true
				for _, st := range cc.Body {
					switch x := st.(type) {
					case *ast.DeclStmt, *ast.ReturnStmt:
					case *ast.IfStmt:
						// if <init: … Unmarshal(…)>; cond { return … }  without else
						isUnmarshal := false
						if init, isInit := x.Init.(*ast.AssignStmt); isInit && len(init.Rhs) == 1 {
							if call, isCall := init.Rhs[0].(*ast.CallExpr); isCall && calleeName(call.Fun) == "Unmarshal" {
								isUnmarshal = true
							}
						}
						onlyReturns := x.Else == nil
						for _, b := range x.Body.List {
							if _, isRet := b.(*ast.ReturnStmt); !isRet {
								onlyReturns = false
							}
						}
						if !isUnmarshal || !onlyReturns {
							ok = false
						}
					default:
						ok = false
					}
				}
			}
			return true
		})
	}
	return found && ok
}
