//go:build verif

package main

// A Diameter relay between the CHF and its rating / account-balance servers (peer stream, step D<k>): every request
// the CHF sends is forwarded unchanged to the real server over a connection of its own, and the server's answer is
// written back to the CHF k times (a retransmitting / duplicating peer).  Delays are still injected in the real
// servers, so "late" and "lost" keep their meaning.  Scenarios without a D step talk to the servers directly.

import (
	"fmt"
	"net"
	"sync"
	"sync/atomic"
	"time"

	"github.com/fiorix/go-diameter/diam"
	"github.com/fiorix/go-diameter/diam/avp"
	"github.com/fiorix/go-diameter/diam/datatype"
	"github.com/fiorix/go-diameter/diam/dict"
	"github.com/fiorix/go-diameter/diam/sm"

	"github.com/free5gc/chf/pkg/factory"
)

var (
	relayOnce                  sync.Once
	relayRfPort, relayAbmfPort int
	relayCopies                int32 = 1
	relaying                   bool
)

func relaySettings(name string) *sm.Settings {
	return &sm.Settings{
		OriginHost:       datatype.DiameterIdentity(name),
		OriginRealm:      datatype.DiameterIdentity("go-diameter"),
		VendorID:         13,
		ProductName:      "go-diameter",
		OriginStateID:    datatype.Unsigned32(1),
		FirmwareRevision: 1,
		HostIPAddresses:  []datatype.Address{datatype.Address(net.ParseIP("127.0.0.1"))},
	}
}

func startRelay(upPort int) int {
	port := freePort()
	mux := sm.New(relaySettings("relay"))
	go func() {
		for range mux.ErrorReports() {
		}
	}()
	mux.HandleFunc("ALL", func(c diam.Conn, m *diam.Message) {
		if m.Header.CommandFlags&diam.RequestFlag == 0 {
			return // only requests are relayed
		}
		ans := make(chan *diam.Message, 1)
		umux := sm.New(relaySettings("relay-client"))
		done := make(chan struct{})
		defer close(done)
		go func() {
			for {
				select {
				case <-umux.ErrorReports():
				case <-done:
					return
				}
			}
		}()
		umux.HandleFunc("ALL", func(_ diam.Conn, a *diam.Message) {
			select {
			case ans <- a:
			default:
			}
		})
		cli := &sm.Client{
			Dict:               dict.Default,
			Handler:            umux,
			MaxRetransmits:     1,
			RetransmitInterval: 2 * time.Second,
			EnableWatchdog:     false,
			AuthApplicationID:  []*diam.AVP{diam.NewAVP(avp.AuthApplicationID, avp.Mbit, 0, datatype.Unsigned32(4))},
		}
		up, err := cli.DialNetworkTLS("tcp", fmt.Sprintf("127.0.0.1:%d", upPort), certPem, certKey)
		if err != nil {
			return
		}
		defer up.Close()
		if _, err := m.WriteTo(up); err != nil {
			return
		}
		select {
		case a := <-ans:
			for i := int32(0); i < atomic.LoadInt32(&relayCopies); i++ {
				if _, err := a.WriteTo(c); err != nil {
					return
				}
			}
		case <-time.After(60 * time.Second):
		}
	})
	go func() {
		_ = diam.ListenAndServeTLS(fmt.Sprintf("127.0.0.1:%d", port), certPem, certKey, mux, nil)
	}()
	waitPort(port)
	return port
}

// useRelay points the CHF's two Diameter clients at relays in front of the real servers
func useRelay() {
	relayOnce.Do(func() {
		relayRfPort, relayAbmfPort = startRelay(rfPort), startRelay(abmfPort)
		factory.ChfConfig.Configuration.RfDiameter.Port = relayRfPort
		factory.ChfConfig.Configuration.AbmfDiameter.Port = relayAbmfPort
		relaying = true
	})
}
