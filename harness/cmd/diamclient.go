//go:build verif

package main

// dump-tables diamclient → ChfVerif/Gen/DiamClient.lean: syntactic facts (go/ast) about the two Diameter
// client functions, the parameters of the client model (Model/DiamClient.lean):
//
//   closesConn   the connection returned by DialNetworkTLS is closed by a `defer <conn>.Close()`
//   ownChan      the channel handed to the answer handler and read by the select is created by make in the
//                function itself (not a field of the subscriber context)
//   buffered     … with a capacity of at least 1
//   nonBlocking  every channel send in the answer handler is a case of a select that has a default clause
//   timeoutMs    the duration of the time.After case of the select, in milliseconds (0: none)
//   watchdog     the sm.Client the function dials with (`<x>.<Field>.DialNetworkTLS`) is built with
//                `EnableWatchdog: true` in internal/context (or the field is assigned anywhere else, or its value
//                is not a literal): go-diameter then starts a watchdog goroutine per connection, which learns of
//                the connection's end only if a message was read on it after the handshake
//   syncDial     the DialNetworkTLS call is a plain call of the function's own task: the function contains the call, not
//                inside a function literal, and contains no `go` statement at all (a dial or an exchange started in a
//                task of its own can outlive the request that started it)
//   connBound    the answer handler is registered for the connection the request dialled and ignores messages read from any
//                other connection: the handler factory is called with the dialled connection as an argument, and the handler's
//                first statement is `if <its conn parameter> != <that argument> { return }` (the state machine the handler is
//                registered on is shared by all connections of the subscriber: the reader task of a connection closed at a
//                time-out may still hand a message it had already read to the handler registered by the NEXT request)
//   dialDeadlineMs  when the dial is not synchronous: the duration of a time.After case of a select that does not
//                receive from the answer channel (the deadline after which the request stops waiting), else 0

import (
	"fmt"
	"go/ast"
	"go/parser"
	"go/token"
	"os"
	"path/filepath"
	"strconv"
	"strings"
)

type clientFacts struct {
	closesConn, ownChan, buffered, nonBlocking bool
	timeoutMs                                  int
	clientField                                string
	watchdog                                   bool
	syncDial                                   bool
	dialDeadlineMs                             int
	connBound                                  bool
}

// EnableWatchdog of the sm.Client stored in field `field` of the subscriber context
func astWatchdog(field string) bool {
	dir := filepath.Join(repoRoot(), "internal", "context")
	ents, err := os.ReadDir(dir)
	if err != nil {
		return true
	}
	found, on := false, false
	for _, e := range ents {
		if e.IsDir() || !strings.HasSuffix(e.Name(), ".go") || strings.HasSuffix(e.Name(), "_test.go") {
			continue
		}
		fset := token.NewFileSet()
		f, err := parser.ParseFile(fset, filepath.Join(dir, e.Name()), nil, 0)
		if err != nil {
			return true
		}
		ast.Inspect(f, func(n ast.Node) bool {
			switch x := n.(type) {
			case *ast.AssignStmt:
				for _, l := range x.Lhs {
					if strings.HasSuffix(exprStr(l), ".EnableWatchdog") {
						found, on = true, true // assigned outside the literal: assume the worst
					}
				}
				// the field is given something that is neither a literal nor the result of a function of the package
				// (whose literals are looked at below): assume the worst
				if len(x.Lhs) == 1 && len(x.Rhs) == 1 && strings.HasSuffix(exprStr(x.Lhs[0]), "."+field) {
					switch r := x.Rhs[0].(type) {
					case *ast.UnaryExpr, *ast.CompositeLit:
					case *ast.CallExpr:
						if _, plain := r.Fun.(*ast.Ident); !plain {
							found, on = true, true
						}
					default:
						found, on = true, true
					}
				}
			case *ast.CompositeLit:
				// every sm.Client literal of the package (wherever it is built: in place or in a helper)
				if exprStr(x.Type) != "sm.Client" {
					return true
				}
				found = true
				for _, el := range x.Elts {
					if kv, ok := el.(*ast.KeyValueExpr); ok && exprStr(kv.Key) == "EnableWatchdog" {
						if exprStr(kv.Value) != "false" {
							on = true
						}
					}
				}
			}
			return true
		})
	}
	return on || !found
}

func exprStr(e ast.Expr) string {
	switch x := e.(type) {
	case *ast.Ident:
		return x.Name
	case *ast.SelectorExpr:
		return exprStr(x.X) + "." + x.Sel.Name
	}
	return "?"
}

// durationMs evaluates `N * time.Second`, `time.Millisecond * N`, a parenthesised one, or the name of a constant of the file
// declared as one of these (0: not such an expression)
func durationMs(e ast.Expr, consts map[string]ast.Expr, depth int) int {
	if depth > 4 {
		return 0
	}
	switch x := e.(type) {
	case *ast.ParenExpr:
		return durationMs(x.X, consts, depth+1)
	case *ast.Ident:
		if c, ok := consts[x.Name]; ok {
			return durationMs(c, consts, depth+1)
		}
	case *ast.BinaryExpr:
		if x.Op != token.MUL {
			return 0
		}
		num, unit := x.X, x.Y
		if _, ok := num.(*ast.BasicLit); !ok {
			if _, ok := x.Y.(*ast.BasicLit); ok {
				num, unit = x.Y, x.X
			}
		}
		if id, ok := num.(*ast.Ident); ok {
			if c, ok := consts[id.Name]; ok {
				num = c
			}
		}
		bl, ok := num.(*ast.BasicLit)
		if !ok {
			return 0
		}
		n, err := strconv.Atoi(bl.Value)
		if err != nil {
			return 0
		}
		switch exprStr(unit) {
		case "time.Second":
			return n * 1000
		case "time.Millisecond":
			return n
		}
	}
	return 0
}

func astClientFacts(file, sendFn, handlerFn string) (clientFacts, error) {
	var cf clientFacts
	handlerChecks := false
	fset := token.NewFileSet()
	f, err := parser.ParseFile(fset, file, nil, 0)
	if err != nil {
		return cf, err
	}
	// constants of the file (a time-out given a name), helpers that only make a channel (`return make(chan T, n)`), and the
	// plain functions of the file by name (a send moved into a helper is looked at where it is)
	consts := map[string]ast.Expr{}
	chanMakers := map[string]int{}
	funcs := map[string]*ast.FuncDecl{}
	for _, d := range f.Decls {
		switch x := d.(type) {
		case *ast.GenDecl:
			if x.Tok == token.CONST {
				for _, sp := range x.Specs {
					if vs, ok := sp.(*ast.ValueSpec); ok && len(vs.Names) == len(vs.Values) {
						for i, n := range vs.Names {
							consts[n.Name] = vs.Values[i]
						}
					}
				}
			}
		case *ast.FuncDecl:
			if x.Recv != nil || x.Body == nil {
				continue
			}
			funcs[x.Name.Name] = x
			if len(x.Body.List) == 1 {
				if rs, ok := x.Body.List[0].(*ast.ReturnStmt); ok && len(rs.Results) == 1 {
					if c, ok := rs.Results[0].(*ast.CallExpr); ok {
						if id, ok := c.Fun.(*ast.Ident); ok && id.Name == "make" && len(c.Args) >= 1 {
							if _, isChan := c.Args[0].(*ast.ChanType); isChan {
								capN := 0
								if len(c.Args) >= 2 {
									if bl, ok := c.Args[1].(*ast.BasicLit); ok {
										capN, _ = strconv.Atoi(bl.Value)
									}
								}
								chanMakers[x.Name.Name] = capN
							}
						}
					}
				}
			}
		}
	}
	// helper functions of the file that make the dial themselves (a plain call, not in a function literal, no go statement)
	// and hand the connection back: `conn, err := helper(...)` in the client function is then the dial
	dialHelpers := map[string]string{} // helper name -> client field
	for _, d := range f.Decls {
		fd, ok := d.(*ast.FuncDecl)
		if !ok || fd.Body == nil || fd.Name.Name == sendFn || fd.Recv != nil {
			continue
		}
		field, plain, other := "", 0, 0
		var walkH func(n ast.Node, inLit bool)
		walkH = func(n ast.Node, inLit bool) {
			ast.Inspect(n, func(k ast.Node) bool {
				switch x := k.(type) {
				case *ast.GoStmt:
					other++
				case *ast.FuncLit:
					if !inLit {
						walkH(x.Body, true)
						return false
					}
				case *ast.CallExpr:
					if strings.HasSuffix(exprStr(x.Fun), "DialNetworkTLS") {
						if inLit {
							other++
						} else {
							plain++
							if parts := strings.Split(exprStr(x.Fun), "."); len(parts) >= 2 {
								field = parts[len(parts)-2]
							}
						}
					}
				}
				return true
			})
		}
		walkH(fd.Body, false)
		if plain == 1 && other == 0 {
			dialHelpers[fd.Name.Name] = field
		}
	}
	handlerConnArg := ""
	for _, d := range f.Decls {
		fd, ok := d.(*ast.FuncDecl)
		if !ok || fd.Body == nil {
			continue
		}
		switch fd.Name.Name {
		case sendFn:
			connVar, handed, received := "", "", ""
			made := map[string]int{} // local channel variable -> capacity
			ast.Inspect(fd.Body, func(n ast.Node) bool {
				switch x := n.(type) {
				case *ast.AssignStmt:
					if len(x.Rhs) == 1 {
						if c, ok := x.Rhs[0].(*ast.CallExpr); ok {
							if strings.HasSuffix(exprStr(c.Fun), "DialNetworkTLS") && len(x.Lhs) >= 1 {
								connVar = exprStr(x.Lhs[0])
								if parts := strings.Split(exprStr(c.Fun), "."); len(parts) >= 2 {
									cf.clientField = parts[len(parts)-2]
								}
							}
							if field, ok := dialHelpers[exprStr(c.Fun)]; ok && len(x.Lhs) >= 1 {
								connVar = exprStr(x.Lhs[0])
								cf.clientField = field
							}
							if id, ok := c.Fun.(*ast.Ident); ok && x.Tok == token.DEFINE && len(c.Args) == 0 {
								if capN, isMaker := chanMakers[id.Name]; isMaker {
									made[exprStr(x.Lhs[0])] = capN
								}
							}
							if id, ok := c.Fun.(*ast.Ident); ok && id.Name == "make" && len(c.Args) >= 1 && x.Tok == token.DEFINE {
								if _, isChan := c.Args[0].(*ast.ChanType); isChan {
									capN := 0
									if len(c.Args) >= 2 {
										if bl, ok := c.Args[1].(*ast.BasicLit); ok {
											capN, _ = strconv.Atoi(bl.Value)
										}
									}
									made[exprStr(x.Lhs[0])] = capN
								}
							}
						}
					}
				case *ast.DeferStmt:
					if connVar != "" && exprStr(x.Call.Fun) == connVar+".Close" {
						cf.closesConn = true
					}
					if lit, ok := x.Call.Fun.(*ast.FuncLit); ok && connVar != "" {
						// `defer func() { …; conn.Close() }()`
						for _, st := range lit.Body.List {
							if es, ok := st.(*ast.ExprStmt); ok {
								if c, ok := es.X.(*ast.CallExpr); ok && exprStr(c.Fun) == connVar+".Close" {
									cf.closesConn = true
								}
							}
						}
					}
				case *ast.CallExpr:
					// <mux>.Handle("…", <handlerFn>(<chan>))
					if strings.HasSuffix(exprStr(x.Fun), ".Handle") && len(x.Args) == 2 {
						if hc, ok := x.Args[1].(*ast.CallExpr); ok && exprStr(hc.Fun) == handlerFn && len(hc.Args) >= 1 {
							handed = exprStr(hc.Args[0])
							if len(hc.Args) >= 2 {
								handlerConnArg = exprStr(hc.Args[1])
							} else {
								handlerConnArg = ""
							}
						}
					}
				case *ast.SelectStmt:
					for _, c := range x.Body.List {
						cc := c.(*ast.CommClause)
						switch s := cc.Comm.(type) {
						case *ast.AssignStmt:
							if u, ok := s.Rhs[0].(*ast.UnaryExpr); ok && u.Op == token.ARROW {
								received = exprStr(u.X)
							}
						case *ast.ExprStmt:
							// <-time.After(N * time.Second)
							if u, ok := s.X.(*ast.UnaryExpr); ok && u.Op == token.ARROW {
								if call, ok := u.X.(*ast.CallExpr); ok && exprStr(call.Fun) == "time.After" && len(call.Args) == 1 {
									if d := durationMs(call.Args[0], consts, 0); d > 0 {
										cf.timeoutMs = d
									}
								}
							}
						}
					}
				}
				return true
			})
			// the deferred Close must be in force before anything else can end the function: between the dial and the `defer`
			// only the dial's own error check (`if err != nil { … }`, no init statement) may return
			if cf.closesConn {
				dialIdx, deferIdx := -1, -1
				for i, st := range fd.Body.List {
					if as, ok := st.(*ast.AssignStmt); ok && len(as.Rhs) == 1 && dialIdx < 0 {
						if c, ok := as.Rhs[0].(*ast.CallExpr); ok {
							_, viaHelper := dialHelpers[exprStr(c.Fun)]
							if strings.HasSuffix(exprStr(c.Fun), "DialNetworkTLS") || viaHelper {
								dialIdx = i
							}
						}
					}
					if ds, ok := st.(*ast.DeferStmt); ok && deferIdx < 0 && connVar != "" {
						closes := exprStr(ds.Call.Fun) == connVar+".Close"
						if lit, ok := ds.Call.Fun.(*ast.FuncLit); ok {
							ast.Inspect(lit.Body, func(k ast.Node) bool {
								if c, ok := k.(*ast.CallExpr); ok && exprStr(c.Fun) == connVar+".Close" {
									closes = true
								}
								return true
							})
						}
						if closes {
							deferIdx = i
						}
					}
				}
				if dialIdx < 0 || deferIdx < dialIdx {
					cf.closesConn = false
				} else {
					for i := dialIdx + 1; i < deferIdx; i++ {
						st := fd.Body.List[i]
						hasReturn := false
						ast.Inspect(st, func(k ast.Node) bool {
							switch k.(type) {
							case *ast.FuncLit:
								return false
							case *ast.ReturnStmt:
								hasReturn = true
							}
							return true
						})
						if !hasReturn {
							continue
						}
						ifs, ok := st.(*ast.IfStmt)
						dialCheck := ok && ifs.Init == nil && i == dialIdx+1
						if dialCheck {
							if be, ok := ifs.Cond.(*ast.BinaryExpr); !ok || be.Op != token.NEQ || exprStr(be.Y) != "nil" {
								dialCheck = false
							}
						}
						if !dialCheck {
							cf.closesConn = false
						}
					}
				}
			}
			if capN, ok := made[handed]; ok && handed == received {
				cf.ownChan = true
				cf.buffered = capN >= 1
			}
			// is the dial a plain call of this function's own task?
			goStmts, dialTop, dialNested := 0, 0, 0
			var walk func(n ast.Node, inLit bool)
			walk = func(n ast.Node, inLit bool) {
				ast.Inspect(n, func(k ast.Node) bool {
					switch x := k.(type) {
					case *ast.GoStmt:
						goStmts++
					case *ast.FuncLit:
						if !inLit {
							walk(x.Body, true)
							return false
						}
					case *ast.CallExpr:
						if strings.HasSuffix(exprStr(x.Fun), "DialNetworkTLS") {
							if inLit {
								dialNested++
							} else {
								dialTop++
							}
						}
					}
					return true
				})
			}
			walk(fd.Body, false)
			// (a dial made through a helper of the file counts as this function's own plain call)
			ast.Inspect(fd.Body, func(k ast.Node) bool {
				if c, ok := k.(*ast.CallExpr); ok {
					if _, isHelper := dialHelpers[exprStr(c.Fun)]; isHelper {
						dialTop++
					}
				}
				return true
			})
			cf.syncDial = goStmts == 0 && dialTop == 1 && dialNested == 0
			if handlerConnArg != "" && handlerConnArg == connVar {
				cf.connBound = true // … provided the handler checks it (below)
			}
			if !cf.syncDial {
				// a select with a timer that is not the answer select
				ast.Inspect(fd.Body, func(n ast.Node) bool {
					sel, ok := n.(*ast.SelectStmt)
					if !ok {
						return true
					}
					recvAnswer, ms := false, 0
					for _, c := range sel.Body.List {
						cc := c.(*ast.CommClause)
						switch st := cc.Comm.(type) {
						case *ast.AssignStmt:
							if u, ok := st.Rhs[0].(*ast.UnaryExpr); ok && u.Op == token.ARROW && received != "" && exprStr(u.X) == received {
								recvAnswer = true
							}
						case *ast.ExprStmt:
							if u, ok := st.X.(*ast.UnaryExpr); ok && u.Op == token.ARROW {
								if call, ok := u.X.(*ast.CallExpr); ok && exprStr(call.Fun) == "time.After" && len(call.Args) == 1 {
									if d := durationMs(call.Args[0], consts, 0); d > 0 {
										ms = d
									}
								}
							}
						}
					}
					if !recvAnswer && ms > 0 && cf.dialDeadlineMs == 0 {
						cf.dialDeadlineMs = ms
					}
					return true
				})
			}
		case handlerFn:
			sends, guarded := 0, 0
			// the handler's own body and the bodies of the file's plain functions it calls (one level)
			bodies := []ast.Node{fd.Body}
			ast.Inspect(fd.Body, func(n ast.Node) bool {
				if c, ok := n.(*ast.CallExpr); ok {
					if id, ok := c.Fun.(*ast.Ident); ok {
						if h, ok := funcs[id.Name]; ok && h != fd {
							bodies = append(bodies, h.Body)
						}
					}
				}
				return true
			})
			for _, body := range bodies {
				ast.Inspect(body, func(n ast.Node) bool {
					switch x := n.(type) {
					case *ast.SendStmt:
						sends++
					case *ast.SelectStmt:
						hasDefault := false
						for _, c := range x.Body.List {
							if c.(*ast.CommClause).Comm == nil {
								hasDefault = true
							}
						}
						if hasDefault {
							for _, c := range x.Body.List {
								if _, ok := c.(*ast.CommClause).Comm.(*ast.SendStmt); ok {
									guarded++
								}
							}
						}
					}
					return true
				})
			}
			cf.nonBlocking = sends > 0 && sends == guarded
			// func H(ch chan …, from diam.Conn) diam.HandlerFunc { return func(c diam.Conn, m *diam.Message) { if c != from { return } … } }
			handlerChecks = false
			if fd.Type.Params != nil && len(fd.Type.Params.List) >= 2 && len(fd.Type.Params.List[1].Names) == 1 {
				from := fd.Type.Params.List[1].Names[0].Name
				ast.Inspect(fd.Body, func(n ast.Node) bool {
					lit, ok := n.(*ast.FuncLit)
					if !ok || lit.Type.Params == nil || len(lit.Type.Params.List) < 1 || len(lit.Type.Params.List[0].Names) != 1 || len(lit.Body.List) == 0 {
						return true
					}
					c := lit.Type.Params.List[0].Names[0].Name
					// the same test the other way round: the whole body is `if c == from { … }`
					if ifs, ok := lit.Body.List[0].(*ast.IfStmt); ok && ifs.Init == nil && ifs.Else == nil && len(lit.Body.List) == 1 {
						if be, ok := ifs.Cond.(*ast.BinaryExpr); ok && be.Op == token.EQL {
							l, r := exprStr(be.X), exprStr(be.Y)
							if (l == c && r == from) || (l == from && r == c) {
								handlerChecks = true
							}
						}
					}
					if ifs, ok := lit.Body.List[0].(*ast.IfStmt); ok && ifs.Init == nil && ifs.Else == nil {
						if be, ok := ifs.Cond.(*ast.BinaryExpr); ok && be.Op == token.NEQ {
							l, r := exprStr(be.X), exprStr(be.Y)
							if (l == c && r == from) || (l == from && r == c) {
								if n := len(ifs.Body.List); n >= 1 {
									if rs, ok := ifs.Body.List[n-1].(*ast.ReturnStmt); ok && len(rs.Results) == 0 {
										handlerChecks = true
									}
								}
							}
						}
					}
					return false
				})
			}
		}
	}
	cf.connBound = cf.connBound && handlerChecks
	return cf, nil
}

func init() {
	tableDumpers["diamclient"] = func() {
		var sb strings.Builder
		sb.WriteString("/- GENERATED from the repository's working tree by `verifharness dump-tables diamclient` — do not edit. -/\n")
		sb.WriteString("import ChfVerif.Model.DiamClient\nnamespace Chf.Gen\nopen Chf.DiamClient\n\n")
		sitesLean, serial := clientCallSitesLean()
		sb.WriteString(sitesLean)
		for _, c := range []struct{ name, file, send, handler string }{
			{"abmfClient", filepath.Join("internal", "abmf", "abmf.go"), "SendAccountDebitRequest", "HandleCCA"},
			{"ratingClient", filepath.Join("internal", "rating", "rating.go"), "SendServiceUsageRequest", "HandleSUA"},
		} {
			cf, err := astClientFacts(filepath.Join(repoRoot(), c.file), c.send, c.handler)
			if err != nil {
				fmt.Fprintln(os.Stderr, "ast:", err)
				os.Exit(1)
			}
			cf.watchdog = astWatchdog(cf.clientField)
			fmt.Fprintf(&sb, "/-- %s: %s / %s; internal/context: the sm.Client in field %q; serial: no call site above is async -/\ndef %s : Cfg := ⟨%v, %v, %v, %v, %d, %v, %v, %d, %v, %v⟩\n\n", c.file, c.send, c.handler,
				cf.clientField, c.name, cf.closesConn, cf.ownChan, cf.buffered, cf.nonBlocking, cf.timeoutMs, cf.watchdog, cf.syncDial, cf.dialDeadlineMs, serial[c.send], cf.connBound)
		}
		sb.WriteString("end Chf.Gen\n")
		fmt.Print(sb.String())
	}
}
