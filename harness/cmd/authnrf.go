//go:build verif

package main

// auth nrf <200|201> <0|1>
//
// "When the NRF has declared OAuth2 mandatory": the declaration reaches the CHF in the answer to its registration
// (customInfo.oauth2 of the profile the NRF sends back).  The real consumer.RegisterNFInstance runs against a stand-in NRF that
// answers the registration PUT with the given status - 201 Created with a Location for a new profile, 200 OK without one when the
// NRF replaces a profile it already holds for the instance id - and declares OAuth2 mandatory (1) or not (0).  Then a route is
// probed without a token.
//
// observation: nrf answered=<status> declared=<0|1> required=<0|1 CHFContext.OAuth2Required afterwards> probe=<401|open>

import (
	"context"
	"encoding/json"
	"fmt"
	"io"
	"net"
	"net/http"
	"net/http/httptest"
	"strings"
	"time"

	"golang.org/x/net/http2"
	"golang.org/x/net/http2/h2c"

	chf_context "github.com/free5gc/chf/internal/context"
	"github.com/free5gc/chf/pkg/factory"
	"github.com/free5gc/chf/pkg/service"
)

func runAuthNrf(t []string) string {
	if len(t) != 3 || (t[1] != "200" && t[1] != "201") || (t[2] != "0" && t[2] != "1") {
		return "bad-op"
	}
	startEnv()
	setupNrfCert()
	l, err := net.Listen("tcp", "127.0.0.1:0")
	if err != nil {
		return "setup-failed"
	}
	defer l.Close()
	base := "http://" + l.Addr().String()
	h := http.HandlerFunc(func(w http.ResponseWriter, r *http.Request) {
		if r.Method != http.MethodPut || !strings.HasPrefix(r.URL.Path, "/nnrf-nfm/v1/nf-instances/") {
			w.WriteHeader(http.StatusNotFound)
			return
		}
		b, _ := io.ReadAll(r.Body)
		var prof map[string]interface{}
		if json.Unmarshal(b, &prof) != nil {
			w.WriteHeader(http.StatusBadRequest)
			return
		}
		prof["customInfo"] = map[string]interface{}{"oauth2": t[2] == "1"}
		out, _ := json.Marshal(prof)
		w.Header().Set("Content-Type", "application/json")
		if t[1] == "201" {
			w.Header().Set("Location", base+r.URL.Path)
			w.WriteHeader(http.StatusCreated)
		} else {
			w.WriteHeader(http.StatusOK)
		}
		_, _ = w.Write(out)
	})
	go func() { _ = http.Serve(l, h2c.NewHandler(h, &http2.Server{})) }()

	cfg := baseConfig()
	cfg.Configuration.ServiceNameList = allServices
	cfg.Configuration.NrfUri = base
	factory.ChfConfig = cfg
	app, err := service.NewApp(context.Background(), cfg, "")
	if err != nil {
		return "setup-failed"
	}
	self := chf_context.GetSelf()
	self.OAuth2Required = false
	self.NrfCertPem = nrfCertPem
	self.NrfUri = base
	ctx, cancel := context.WithTimeout(context.Background(), 8*time.Second)
	defer cancel()
	if _, _, err := app.Consumer().RegisterNFInstance(ctx); err != nil {
		return "register-failed"
	}
	required := 0
	if self.OAuth2Required {
		required = 1
	}
	w := httptest.NewRecorder()
	app.VerifSbi().VerifRouter().ServeHTTP(w, httptest.NewRequest("GET", "/nchf-convergedcharging/v3/", nil))
	probe := "open"
	if w.Code == 401 {
		probe = "401"
	}
	return fmt.Sprintf("nrf answered=%s declared=%s required=%d probe=%s", t[1], t[2], required, probe)
}
