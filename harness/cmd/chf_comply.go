//go:build verif

package main

// Generator mode `comply` of the chf stream (C06): histories of a consumer that provably never reports more than it
// was last granted, on accounts that run short of money within the history, with outages of the two servers.
//
// The generator cannot see the grants.  It keeps, per (subscriber, rating group), a LOWER bound of the money still
// available - credited minus unit cost x usage it has reported (C01's identity; usage dropped in an outage only makes
// the real amount larger) - and from it a lower bound of every grant:  min(requested, floor(available / unit cost)),
// 0 once the money was short (final-unit indication: the rating group is in debit mode until a recharge) and 0 for a
// request made while a server was unreachable.  Reported usage never exceeds that bound.

import (
	"bufio"
	"fmt"
	"strconv"
)

type complyRg struct {
	cost    int
	avail   int // lower bound of balance + unconsumed reservation
	grantLB int // lower bound of the volume last granted
	short   bool
}

func genChfComply(o genOpts, w *bufio.Writer) {
	r := &rng{s: o.seed ^ 0x5eed06}
	for done := 0; done < o.n; {
		fmt.Fprintf(w, "chf reset\n")
		counter := 0
		type sub struct {
			supi, sid string
			rgs       map[int]*complyRg
			live      bool
			cseq      map[int]int // containers are numbered per charging session and rating group: a later session starts at 1 again
		}
		var subs []*sub
		nsub := 1 + r.intn(2)
		for k := 0; k < nsub; k++ {
			s := &sub{supi: fmt.Sprintf("imsi-20894%04d%06d", o.seed%10000, r.intn(1000000)), rgs: map[int]*complyRg{}, live: true}
			for _, rg := range []int{1, 2} {
				c := r.pick(1, 1, 2, 3, 7)
				bal := c * r.pick(0, 50, 99, 150, 199, 250, 400, 1000)
				s.rgs[rg] = &complyRg{cost: c, avail: bal}
				fmt.Fprintf(w, "chf acct %s %d %s %s\n", hexOf([]byte(s.supi)), rg, hexOf([]byte(strconv.Itoa(bal))), hexOf([]byte(strconv.Itoa(c))))
			}
			fmt.Fprintf(w, "chf create %s\n", fmtReq(s.supi, "smf", 100+k, 0, 1, 0, nil, nil))
			s.sid = s.supi + "smf-" + strconv.Itoa(counter)
			counter++
			done++
			subs = append(subs, s)
		}
		down := map[string]bool{}
		steps := 6 + r.intn(9)
		for i := 0; i < steps && done < o.n; i++ {
			s := subs[r.intn(len(subs))]
			if !s.live {
				continue
			}
			// outages: the account-balance server more often than the rating server
			for _, which := range []string{"abmf", "rf"} {
				if down[which] {
					if r.chance(50) {
						fmt.Fprintf(w, "chf outage %s up\n", which)
						down[which] = false
					}
				} else if r.chance(map[string]int{"abmf": 12, "rf": 3}[which]) {
					fmt.Fprintf(w, "chf outage %s down\n", which)
					down[which] = true
				}
			}
			anyDown := down["abmf"] || down["rf"]
			last := i == steps-1 || r.chance(6)
			final := last && r.chance(50)
			var usages []string
			first := 1 + r.intn(2)
			nrg := 1 + r.intn(2)
			for k := 0; k < nrg; k++ {
				rg := 1 + (first+k)%2
				st := s.rgs[rg]
				used := 0
				switch r.intn(5) {
				case 0:
					used = 0
				case 1, 2:
					used = st.grantLB
				case 3:
					used = st.grantLB / 2
				default:
					used = r.intn(st.grantLB + 1)
				}
				req := r.pick(0, 1, 50, 100, 100, 100, 101, 250)
				st.avail -= used * st.cost
				reqTok := strconv.Itoa(req)
				switch {
				case last:
					// the last report asks for nothing more
					reqTok = "~"
					st.grantLB = 0
				case anyDown || st.short:
					st.grantLB = 0
				case st.avail >= req*st.cost:
					st.grantLB = req
				default:
					// money short: what is left is granted with a final-unit indication, then nothing until a recharge
					st.grantLB = 0
					if st.avail > 0 {
						st.grantLB = st.avail / st.cost
						if st.grantLB > req {
							st.grantLB = req
						}
					}
					st.short = true
				}
				if final {
					st.short = true // the rating group may stay in debit mode
				}
				nc := 1
				if r.chance(20) {
					nc = 2
				}
				var conts []string
				left := used
				for c := 0; c < nc; c++ {
					part := left
					if c < nc-1 {
						part = left / 2
					}
					left -= part
					if s.cseq == nil {
						s.cseq = map[int]int{}
					}
					s.cseq[rg]++
					conts = append(conts, fmt.Sprintf("1 %d %d %d %d %d", part, part/2, part-part/2, r.intn(3), s.cseq[rg]))
				}
				usages = append(usages, fmt.Sprintf("%d %s %s %d %s", rg, reqTok, hexOf([]byte("upf1")), nc, joinStrings(conts, " ")))
			}
			var trigs []string
			if final {
				trigs = []string{"F"}
			}
			op := "update"
			if last {
				op = "release"
				s.live = false
			}
			fmt.Fprintf(w, "chf %s %s %s\n", op, hexOf([]byte(s.sid)), fmtReq(s.supi, "smf", 100, i+1, 1, 0, trigs, usages))
			done++
			if last && i < steps-2 && r.chance(60) {
				// the consumer's next charging session for the same subscriber (the first one is over: nothing granted is outstanding)
				fmt.Fprintf(w, "chf create %s\n", fmtReq(s.supi, "smf", 100, 0, 1, 0, nil, nil))
				s.sid = s.supi + "smf-" + strconv.Itoa(counter)
				counter++
				done++
				s.live = true
				s.cseq = nil
				for _, st := range s.rgs {
					st.grantLB = 0
				}
			}
			if !last && r.chance(7) {
				// the operator credits the account and tells the CHF: the rating group is back in reserve mode
				rg := 1 + r.intn(2)
				amt := s.rgs[rg].cost * r.pick(50, 100, 300)
				fmt.Fprintf(w, "chf credit %s %d %d\n", hexOf([]byte(s.supi)), rg, amt)
				fmt.Fprintf(w, "chf recharge %s\n", hexOf([]byte(s.supi+"_"+strconv.Itoa(rg))))
				s.rgs[rg].avail += amt
				s.rgs[rg].short = false
			}
		}
	}
	fmt.Fprintf(w, "chf end\n")
}
