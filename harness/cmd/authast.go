//go:build verif

package main

// go/ast extractors for the two functions every authorization decision goes through:
//
//	util.(*RouterAuthorizationCheck).Check          (internal/util/router_auth_check.go)  - the gin middleware
//	context.(*CHFContext).AuthorizationCheck        (internal/context/context.go)         - the decision
//
// Each function body is unfolded into its control-flow paths (statement sequences with the branch taken at
// every `if`, ending at a `return` or at the end of the body).  The steps of a path are classified into the
// event vocabulary of Model/Router.lean; what the extractor does not interpret (loops, switch, select, go,
// defer, assignments to the error variable from elsewhere) is reported as `opaque` and is never taken to be
// harmless by the Lean side.  The tables go to Gen/Routes.lean (checkPaths, authPaths).

import (
	"bytes"
	"fmt"
	"go/ast"
	"go/parser"
	"go/printer"
	"go/token"
	"os"
	"path/filepath"
	"strconv"
	"strings"
)

type flowPath struct {
	evs []string // Lean terms
	ret string   // Lean term (only used for functions with a result)
}

type flowEnum struct {
	fset   *token.FileSet
	paths  []flowPath
	stmtEv func(s ast.Stmt) []string           // events of a simple statement
	condEv func(c ast.Expr, taken bool) string // event of a branch
	retEv  func(r *ast.ReturnStmt) string      // r == nil: end of body reached
}

func (e *flowEnum) src(n ast.Node) string {
	var b bytes.Buffer
	_ = printer.Fprint(&b, e.fset, n)
	s := strings.Join(strings.Fields(b.String()), " ")
	if len(s) > 160 {
		s = s[:160] + "…"
	}
	return s
}

func cp(a []string, more ...string) []string {
	out := make([]string, 0, len(a)+len(more))
	out = append(out, a...)
	return append(out, more...)
}

func (e *flowEnum) block(stmts []ast.Stmt, pre []string, cont func(pre []string)) {
	if len(e.paths) > 256 {
		return // the table stays finite; the count itself then differs from the model's expectation
	}
	if len(stmts) == 0 {
		cont(pre)
		return
	}
	s, rest := stmts[0], stmts[1:]
	next := func(p []string) { e.block(rest, p, cont) }
	switch x := s.(type) {
	case *ast.ReturnStmt:
		e.paths = append(e.paths, flowPath{evs: pre, ret: e.retEv(x)})
	case *ast.IfStmt:
		p := pre
		if x.Init != nil {
			p = cp(pre, e.stmtEv(x.Init)...)
		}
		e.block(x.Body.List, cp(p, e.condEv(x.Cond, true)), next)
		switch el := x.Else.(type) {
		case nil:
			next(cp(p, e.condEv(x.Cond, false)))
		case *ast.BlockStmt:
			e.block(el.List, cp(p, e.condEv(x.Cond, false)), next)
		default:
			e.block([]ast.Stmt{el}, cp(p, e.condEv(x.Cond, false)), next)
		}
	case *ast.BlockStmt:
		e.block(x.List, pre, next)
	case *ast.ExprStmt, *ast.AssignStmt, *ast.DeclStmt, *ast.IncDecStmt, *ast.EmptyStmt:
		next(cp(pre, e.stmtEv(s)...))
	default:
		next(cp(pre, fmt.Sprintf(".unread %s", leanStr(e.src(s)))))
	}
}

func findFunc(file, recvType, name string) (*token.FileSet, *ast.FuncDecl, error) {
	fset := token.NewFileSet()
	f, err := parser.ParseFile(fset, file, nil, 0)
	if err != nil {
		return nil, nil, err
	}
	for _, d := range f.Decls {
		fn, ok := d.(*ast.FuncDecl)
		if !ok || fn.Name.Name != name || fn.Recv == nil || len(fn.Recv.List) != 1 || fn.Body == nil {
			continue
		}
		t := fn.Recv.List[0].Type
		if st, ok := t.(*ast.StarExpr); ok {
			t = st.X
		}
		if id, ok := t.(*ast.Ident); ok && id.Name == recvType {
			return fset, fn, nil
		}
	}
	return nil, nil, fmt.Errorf("%s.%s not found in %s", recvType, name, file)
}

func recvName(fn *ast.FuncDecl) string {
	if len(fn.Recv.List[0].Names) == 1 {
		return fn.Recv.List[0].Names[0].Name
	}
	return "_"
}

func paramNames(fn *ast.FuncDecl) []string {
	var out []string
	for _, f := range fn.Type.Params.List {
		for _, n := range f.Names {
			out = append(out, n.Name)
		}
	}
	return out
}

func isIdent(e ast.Expr, name string) bool {
	id, ok := e.(*ast.Ident)
	return ok && id.Name == name
}

// selector chain "a.b.c" of an expression ("" if it is not a plain chain)
func selChain(e ast.Expr) string {
	switch x := e.(type) {
	case *ast.Ident:
		return x.Name
	case *ast.SelectorExpr:
		if p := selChain(x.X); p != "" {
			return p + "." + x.Sel.Name
		}
	}
	return ""
}

var conversions = map[string]bool{"string": true, "int": true, "int32": true, "int64": true, "uint32": true, "uint64": true, "bool": true, "byte": true, "len": true}

// calls of a statement, outermost first, conversions and logging left out
func callsOf(s ast.Node) []*ast.CallExpr {
	var out []*ast.CallExpr
	ast.Inspect(s, func(n ast.Node) bool {
		c, ok := n.(*ast.CallExpr)
		if !ok {
			return true
		}
		ch := selChain(c.Fun)
		if conversions[ch] {
			return true
		}
		if strings.HasPrefix(ch, "logger.") {
			return false // logging (and the arguments formatted for it)
		}
		out = append(out, c)
		return true
	})
	return out
}

var httpStatus = map[string]int{"StatusUnauthorized": 401, "StatusForbidden": 403, "StatusOK": 200, "StatusBadRequest": 400,
	"StatusNotFound": 404, "StatusInternalServerError": 500, "StatusNoContent": 204, "StatusCreated": 201}

func statusOf(e ast.Expr) int {
	switch x := e.(type) {
	case *ast.BasicLit:
		n, _ := strconv.Atoi(x.Value)
		return n
	case *ast.SelectorExpr:
		if isIdent(x.X, "http") {
			return httpStatus[x.Sel.Name]
		}
	}
	return 0
}

// errCond: is the expression `<errVar> != nil` (true, true) / `<errVar> == nil` (true, false)?
func errCond(c ast.Expr, errVar string) (isErr bool, nonNil bool) {
	b, ok := c.(*ast.BinaryExpr)
	if !ok || errVar == "" {
		return false, false
	}
	x, y := b.X, b.Y
	if isIdent(x, "nil") {
		x, y = y, x
	}
	if !isIdent(x, errVar) || !isIdent(y, "nil") {
		return false, false
	}
	switch b.Op {
	case token.NEQ:
		return true, true
	case token.EQL:
		return true, false
	}
	return false, false
}

func leanBool(b bool) string {
	if b {
		return "true"
	}
	return "false"
}

// package-level constants of the package in dir whose value is a string literal (name -> quoted literal)
func pkgStringConsts(dir string) map[string]string {
	out := map[string]string{}
	pkgs, err := parser.ParseDir(token.NewFileSet(), dir, func(fi os.FileInfo) bool { return !strings.HasSuffix(fi.Name(), "_test.go") }, 0)
	if err != nil {
		return out
	}
	for _, p := range pkgs {
		for _, f := range p.Files {
			for _, d := range f.Decls {
				gd, ok := d.(*ast.GenDecl)
				if !ok || gd.Tok != token.CONST {
					continue
				}
				for _, sp := range gd.Specs {
					if vs, ok := sp.(*ast.ValueSpec); ok && len(vs.Names) == len(vs.Values) {
						for i, n := range vs.Names {
							if l, ok := vs.Values[i].(*ast.BasicLit); ok && l.Kind == token.STRING {
								out[n.Name] = l.Value
							}
						}
					}
				}
			}
		}
	}
	return out
}

// ---- the middleware: RouterAuthorizationCheck.Check ----

func checkPathsOf(file string) ([]flowPath, error) {
	fset, fn, err := findFunc(file, "RouterAuthorizationCheck", "Check")
	if err != nil {
		return nil, err
	}
	ps := paramNames(fn)
	if len(ps) != 2 {
		return nil, fmt.Errorf("Check: unexpected parameter list")
	}
	gc, nf, rac := ps[0], ps[1], recvName(fn)
	strConsts := pkgStringConsts(filepath.Dir(file))
	tokenVar, errVar := "", ""
	e := &flowEnum{fset: fset}
	isHeaderGet := func(c *ast.CallExpr) bool {
		if selChain(c.Fun) != gc+".Request.Header.Get" || len(c.Args) != 1 {
			return false
		}
		if id, ok := c.Args[0].(*ast.Ident); ok {
			// a constant of the package that names the header
			return strConsts[id.Name] == `"Authorization"`
		}
		l, ok := c.Args[0].(*ast.BasicLit)
		return ok && l.Value == `"Authorization"`
	}
	isAuthCall := func(c *ast.CallExpr) bool {
		if selChain(c.Fun) != nf+".AuthorizationCheck" || len(c.Args) != 2 {
			return false
		}
		tokOK := (tokenVar != "" && isIdent(c.Args[0], tokenVar))
		if inner, ok := c.Args[0].(*ast.CallExpr); ok && isHeaderGet(inner) {
			tokOK = true
		}
		return tokOK && selChain(c.Args[1]) == rac+".serviceName"
	}
	callEv := func(c *ast.CallExpr) []string {
		ch := selChain(c.Fun)
		switch {
		case isHeaderGet(c):
			return nil
		case ch == gc+".Abort" && len(c.Args) == 0:
			return []string{".abort"}
		case (ch == gc+".JSON" || ch == gc+".IndentedJSON" || ch == gc+".String" || ch == gc+".Status" || ch == gc+".Data") && len(c.Args) >= 1:
			return []string{fmt.Sprintf(".respond %d", statusOf(c.Args[0]))}
		case (ch == gc+".AbortWithStatusJSON" || ch == gc+".AbortWithStatus" || ch == gc+".AbortWithError") && len(c.Args) >= 1:
			return []string{fmt.Sprintf(".respond %d", statusOf(c.Args[0])), ".abort"}
		case ch == gc+".Next":
			return []string{".next"}
		case ch == errVar+".Error" && errVar != "":
			return nil
		}
		return []string{fmt.Sprintf(".call %s", leanStr(e.src(c)))}
	}
	e.stmtEv = func(s ast.Stmt) []string {
		var evs []string
		if a, ok := s.(*ast.AssignStmt); ok && len(a.Lhs) == 1 && len(a.Rhs) == 1 {
			if c, ok := a.Rhs[0].(*ast.CallExpr); ok {
				lhs, _ := a.Lhs[0].(*ast.Ident)
				switch {
				case lhs != nil && isHeaderGet(c):
					tokenVar = lhs.Name
					return nil
				case lhs != nil && isAuthCall(c):
					errVar = lhs.Name
					return []string{".authCall"}
				}
			}
		}
		if a, ok := s.(*ast.AssignStmt); ok {
			for _, l := range a.Lhs {
				if errVar != "" && isIdent(l, errVar) || tokenVar != "" && isIdent(l, tokenVar) {
					return []string{fmt.Sprintf(".unread %s", leanStr(e.src(s)))}
				}
			}
		}
		seen := map[*ast.CallExpr]bool{}
		for _, c := range callsOf(s) {
			if seen[c] {
				continue
			}
			evs = append(evs, callEv(c)...)
			// the arguments of an interpreted call are not reported again
			for _, inner := range callsOf(c)[1:] {
				seen[inner] = true
			}
		}
		return evs
	}
	e.condEv = func(c ast.Expr, taken bool) string {
		if isErr, nonNil := errCond(c, errVar); isErr {
			return fmt.Sprintf(".errNonNil %s", leanBool(taken == nonNil))
		}
		return fmt.Sprintf(".cond %s %s", leanStr(e.src(c)), leanBool(taken))
	}
	e.retEv = func(r *ast.ReturnStmt) string { return "" }
	e.block(fn.Body.List, nil, func(pre []string) { e.paths = append(e.paths, flowPath{evs: pre}) })
	return e.paths, nil
}

// ---- the decision: CHFContext.AuthorizationCheck ----

func authPathsOf(file string) ([]flowPath, error) {
	fset, fn, err := findFunc(file, "CHFContext", "AuthorizationCheck")
	if err != nil {
		return nil, err
	}
	ps := paramNames(fn)
	if len(ps) != 2 {
		return nil, fmt.Errorf("AuthorizationCheck: unexpected parameter list")
	}
	tok, svc, recv := ps[0], ps[1], recvName(fn)
	errVar := ""
	e := &flowEnum{fset: fset}
	isVerify := func(x ast.Expr) bool {
		c, ok := x.(*ast.CallExpr)
		if !ok || selChain(c.Fun) != "oauth.VerifyOAuth" || len(c.Args) != 3 {
			return false
		}
		conv, ok := c.Args[1].(*ast.CallExpr)
		svcOK := ok && isIdent(conv.Fun, "string") && len(conv.Args) == 1 && isIdent(conv.Args[0], svc)
		return isIdent(c.Args[0], tok) && svcOK && selChain(c.Args[2]) == recv+".NrfCertPem"
	}
	e.stmtEv = func(s ast.Stmt) []string {
		if a, ok := s.(*ast.AssignStmt); ok && len(a.Lhs) == 1 && len(a.Rhs) == 1 {
			if lhs, ok := a.Lhs[0].(*ast.Ident); ok && isVerify(a.Rhs[0]) {
				errVar = lhs.Name
				return []string{".verifyAssign"}
			}
		}
		if a, ok := s.(*ast.AssignStmt); ok {
			for _, l := range a.Lhs {
				if errVar != "" && isIdent(l, errVar) || isIdent(l, tok) || isIdent(l, svc) || strings.HasPrefix(selChain(l), recv+".") {
					return []string{fmt.Sprintf(".unread %s", leanStr(e.src(s)))}
				}
			}
		}
		var evs []string
		for _, c := range callsOf(s) {
			evs = append(evs, fmt.Sprintf(".call %s", leanStr(e.src(c))))
		}
		return evs
	}
	e.condEv = func(c ast.Expr, taken bool) string {
		if u, ok := c.(*ast.UnaryExpr); ok && u.Op == token.NOT && selChain(u.X) == recv+".OAuth2Required" {
			return fmt.Sprintf(".notRequired %s", leanBool(taken))
		}
		if selChain(c) == recv+".OAuth2Required" {
			return fmt.Sprintf(".notRequired %s", leanBool(!taken))
		}
		return fmt.Sprintf(".cond %s %s", leanStr(e.src(c)), leanBool(taken))
	}
	e.retEv = func(r *ast.ReturnStmt) string {
		if r == nil || len(r.Results) != 1 {
			return ".other \"(no single result)\""
		}
		x := r.Results[0]
		switch {
		case isIdent(x, "nil"):
			return ".nil"
		case isVerify(x):
			return ".verify"
		case errVar != "" && isIdent(x, errVar):
			return ".errVar"
		}
		return fmt.Sprintf(".other %s", leanStr(e.src(x)))
	}
	e.block(fn.Body.List, nil, func(pre []string) {
		e.paths = append(e.paths, flowPath{evs: pre, ret: ".other \"(end of body)\""})
	})
	return e.paths, nil
}

func leanList(xs []string) string { return "[" + strings.Join(xs, ", ") + "]" }
