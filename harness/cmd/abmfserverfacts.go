//go:build verif

package main

// dump-tables abmfserver → ChfVerif/Gen/AbmfServer.lean: how the account-balance server (pkg/abmf/abmf.go: handleCCR) brackets
// its read-modify-write of an account.  go-diameter serves every connection in a task of its own, so the handler runs
// concurrently with itself; C07's theorems are about handleCCR as ONE step per request (Model/Abmf.lean) — the fact that makes the
// real handler such a step is that the store read (RestfulAPIGetOne) and the store write (RestfulAPIPutOne) both happen while a lock
// taken before the read is held until the handler returns:
//
//   lockBeforeRead   a statement before the first RestfulAPIGetOne either calls <x>.Lock() or binds the result of a call whose name
//                    contains "lock" (a function that locks and returns the unlock function)
//   heldToReturn     that lock is released by a `defer` (of <x>.Unlock() or of the bound unlock function) and nowhere else
//   perAccount       the lock call mentions the subscriber and the rating group (its arguments / receiver are built from them)
//   readsAndWrites   the handler reads and writes the store (otherwise there is nothing to protect)

import (
	"fmt"
	"go/ast"
	"go/parser"
	"go/token"
	"os"
	"path/filepath"
	"strings"
)

func init() {
	tableDumpers["abmfserver"] = func() {
		// the handler is found by what it does, not by its name or file: the innermost function body (declaration or literal) of
		// package pkg/abmf among whose own statements the account is read from the store
		dir := filepath.Join(repoRoot(), "pkg", "abmf")
		fset := token.NewFileSet()
		pkgs, err := parser.ParseDir(fset, dir, func(fi os.FileInfo) bool { return !strings.HasSuffix(fi.Name(), "_test.go") }, 0)
		if err != nil {
			fmt.Fprintln(os.Stderr, "ast:", err)
			os.Exit(1)
		}
		lockBeforeRead, heldToReturn, perAccount, readsAndWrites := false, false, false, false
		var bodies []*ast.BlockStmt
		for _, p := range pkgs {
			for _, f := range p.Files {
				ast.Inspect(f, func(n ast.Node) bool {
					switch x := n.(type) {
					case *ast.FuncDecl:
						if x.Body != nil {
							bodies = append(bodies, x.Body)
						}
					case *ast.FuncLit:
						bodies = append(bodies, x.Body)
					}
					return true
				})
			}
		}
		callsIn := func(n ast.Node, name string) bool {
			found := false
			ast.Inspect(n, func(k ast.Node) bool {
				if c, ok := k.(*ast.CallExpr); ok && strings.HasSuffix(exprStr(c.Fun), name) {
					found = true
				}
				return true
			})
			return found
		}
		var handler *ast.BlockStmt
		for _, b := range bodies {
			if callsIn(b, "RestfulAPIGetOne") && (handler == nil || (b.Pos() >= handler.Pos() && b.End() <= handler.End())) {
				handler = b
			}
		}
		for _, body := range []*ast.BlockStmt{handler} {
			if body == nil {
				continue
			}
			contains := func(n ast.Node, name string) bool {
				found := false
				ast.Inspect(n, func(k ast.Node) bool {
					if c, ok := k.(*ast.CallExpr); ok && strings.HasSuffix(exprStr(c.Fun), name) {
						found = true
					}
					return true
				})
				return found
			}
			readIdx, writeIdx := -1, -1
			for i, st := range body.List {
				if readIdx < 0 && contains(st, "RestfulAPIGetOne") {
					readIdx = i
				}
				if contains(st, "RestfulAPIPutOne") {
					writeIdx = i
				}
			}
			readsAndWrites = readIdx >= 0 && writeIdx >= 0
			unlockName, lockRecv := "", ""
			lockIdx := -1
			for i, st := range body.List {
				if readIdx >= 0 && i >= readIdx {
					break
				}
				switch x := st.(type) {
				case *ast.AssignStmt:
					if len(x.Rhs) == 1 && len(x.Lhs) == 1 {
						if c, ok := x.Rhs[0].(*ast.CallExpr); ok && strings.Contains(strings.ToLower(exprStr(c.Fun)), "lock") {
							unlockName, lockIdx = exprStr(x.Lhs[0]), i
							args := ""
							for _, a := range c.Args {
								ast.Inspect(a, func(k ast.Node) bool {
									if id, ok := k.(*ast.Ident); ok {
										args += " " + strings.ToLower(id.Name)
									}
									return true
								})
							}
							perAccount = strings.Contains(args, "subscriber") && (strings.Contains(args, "rg") || strings.Contains(args, "rating"))
						}
					}
				case *ast.ExprStmt:
					if c, ok := x.X.(*ast.CallExpr); ok && strings.HasSuffix(exprStr(c.Fun), ".Lock") {
						lockRecv, lockIdx = strings.TrimSuffix(exprStr(c.Fun), ".Lock"), i
					}
				}
			}
			lockBeforeRead = lockIdx >= 0
			if lockBeforeRead {
				deferred, elsewhere := 0, 0
				ast.Inspect(body, func(n ast.Node) bool {
					switch x := n.(type) {
					case *ast.DeferStmt:
						fn := exprStr(x.Call.Fun)
						if (unlockName != "" && fn == unlockName) || (lockRecv != "" && fn == lockRecv+".Unlock") {
							deferred++
						}
						return false
					case *ast.CallExpr:
						fn := exprStr(x.Fun)
						if (unlockName != "" && fn == unlockName) || (lockRecv != "" && fn == lockRecv+".Unlock") {
							elsewhere++
						}
					}
					return true
				})
				heldToReturn = deferred == 1 && elsewhere == 0
			}
		}
		// the read-modify-write may also be a function literal handed to a function of the package that brackets it:
		// `withAccountLocked(subscriber, rg, func() { …read … write… })` with `mu.Lock(); defer mu.Unlock(); critical()` inside
		if handler != nil && readsAndWrites && !lockBeforeRead {
			var site *ast.CallExpr
			argIdx := -1
			for _, p := range pkgs {
				for _, f := range p.Files {
					ast.Inspect(f, func(n ast.Node) bool {
						if c, ok := n.(*ast.CallExpr); ok {
							for k, a := range c.Args {
								if lit, ok := a.(*ast.FuncLit); ok && lit.Body == handler {
									site, argIdx = c, k
								}
							}
						}
						return true
					})
				}
			}
			var wrapper *ast.FuncDecl
			if site != nil {
				if id, ok := site.Fun.(*ast.Ident); ok {
					for _, p := range pkgs {
						for _, f := range p.Files {
							for _, d := range f.Decls {
								if fd, ok := d.(*ast.FuncDecl); ok && fd.Recv == nil && fd.Name.Name == id.Name && fd.Body != nil {
									wrapper = fd
								}
							}
						}
					}
				}
			}
			if wrapper != nil {
				// the name of the parameter the literal is bound to
				param, k := "", 0
				for _, fld := range wrapper.Type.Params.List {
					for _, nm := range fld.Names {
						if k == argIdx {
							param = nm.Name
						}
						k++
					}
				}
				callIdx, lockIdx := -1, -1
				lockRecv := ""
				for i, st := range wrapper.Body.List {
					if es, ok := st.(*ast.ExprStmt); ok {
						if c, ok := es.X.(*ast.CallExpr); ok {
							if id, ok := c.Fun.(*ast.Ident); ok && id.Name == param && callIdx < 0 {
								callIdx = i
							}
							if strings.HasSuffix(exprStr(c.Fun), ".Lock") && callIdx < 0 {
								lockRecv, lockIdx = strings.TrimSuffix(exprStr(c.Fun), ".Lock"), i
							}
						}
					}
				}
				if param != "" && callIdx >= 0 && lockIdx >= 0 && lockIdx < callIdx {
					lockBeforeRead = true
					deferred, elsewhere, calls := 0, 0, 0
					ast.Inspect(wrapper.Body, func(n ast.Node) bool {
						switch x := n.(type) {
						case *ast.DeferStmt:
							if exprStr(x.Call.Fun) == lockRecv+".Unlock" {
								deferred++
							}
							return false
						case *ast.GoStmt, *ast.FuncLit:
							elsewhere++ // the literal must run in the wrapper's own task
						case *ast.CallExpr:
							if exprStr(x.Fun) == lockRecv+".Unlock" {
								elsewhere++
							}
							if id, ok := x.Fun.(*ast.Ident); ok && id.Name == param {
								calls++
							}
						}
						return true
					})
					heldToReturn = deferred == 1 && elsewhere == 0 && calls == 1
					args := ""
					for k, a := range site.Args {
						if k == argIdx {
							continue
						}
						ast.Inspect(a, func(n ast.Node) bool {
							if id, ok := n.(*ast.Ident); ok {
								args += " " + strings.ToLower(id.Name)
							}
							return true
						})
					}
					perAccount = strings.Contains(args, "subscriber") && (strings.Contains(args, "rg") || strings.Contains(args, "rating"))
				}
			}
		}
		fmt.Printf("/- GENERATED from the repository's working tree by `verifharness dump-tables abmfserver` — do not edit. -/\nnamespace Chf.Gen\n\n")
		fmt.Printf("/-- pkg/abmf/abmf.go: handleCCR — how the read-modify-write of an account is bracketed -/\nstructure AbmfServerFacts where\n  lockBeforeRead : Bool\n  heldToReturn : Bool\n  perAccount : Bool\n  readsAndWrites : Bool\nderiving DecidableEq, Repr\n\n")
		fmt.Printf("def abmfServer : AbmfServerFacts := ⟨%v, %v, %v, %v⟩\n\nend Chf.Gen\n", lockBeforeRead, heldToReturn, perAccount, readsAndWrites)
	}
}
