//go:build verif

package main

// stream "recber" (C03, C02): the operations of the chf stream; after every request the observation also
// carries, for every record every subscriber context holds, the octets the real code marshals for it
// (asn.BerMarshalWithParams(&record, "explicit,choice"), exactly the call of dumpCdrFile and of the size guard),
// what OpenCDR took from outside the charging model (NF id, opening time, node functionality) and, for
// updates, the two sizes the guard of ChargingDataUpdate compares.  The Lean side rebuilds the octets from the
// record fields with Model/RecordBer.lean (Ber.marshal on the regenerated schema type CHFRecord).
//
//   recber <chf operation>          e.g.  recber create …, recber update <sid> …
//   recber big <supiHex> <nfHex> <ncont> <upflen>    create + one update carrying 1 usage x ncont containers (sizes around the limit)

import (
	"bufio"
	"bytes"
	"fmt"
	"strings"

	"github.com/free5gc/chf/cdr/asn"
	"github.com/free5gc/chf/cdr/cdrType"
	chf_context "github.com/free5gc/chf/internal/context"
)

func init() {
	streams["recber"] = &stream{
		setup: func() { startChf([]string{"nchf-convergedcharging"}, false) },
		gen:   genRecBer,
		run:   runRecBer,
	}
}

func genRecBer(o genOpts, w *bufio.Writer) {
	var buf bytes.Buffer
	bw := bufio.NewWriter(&buf)
	genChf(o, bw)
	bw.Flush()
	for _, l := range strings.Split(buf.String(), "\n") {
		if strings.HasPrefix(l, "chf ") {
			fmt.Fprintf(w, "recber %s\n", l[4:])
		}
	}
}

func recOctets(r *cdrType.CHFRecord) string {
	defer func() { _ = recover() }()
	b, err := asn.BerMarshalWithParams(&r, "explicit,choice")
	if err != nil {
		return "err"
	}
	return hexOf(b)
}

func recEnvOf(r *cdrType.CHFRecord) string {
	if r == nil || r.ChargingFunctionRecord == nil {
		return "-/-/0"
	}
	c := r.ChargingFunctionRecord
	return fmt.Sprintf("%s/%s/%d", hexOf([]byte(c.RecordingNetworkFunctionID.Value)), hexOf(c.RecordOpeningTime.Value),
		c.NFunctionConsumerInformation.NetworkFunctionality.Value)
}

func runRecBer(line string, t []string) string {
	if len(t) == 0 {
		return "bad-op"
	}
	base := runChf(line, t)
	switch t[0] {
	case "create", "update", "release", "recharge":
	default:
		return base
	}
	var parts []string
	supis := make([]string, 0, len(chfSupis))
	for s := range chfSupis {
		supis = append(supis, s)
	}
	sortStrings(supis)
	for _, s := range supis {
		ue, ok := chf_context.GetSelf().ChfUeFindBySupi(s)
		if !ok {
			continue
		}
		var rs []string
		for _, r := range ue.Records {
			rs = append(rs, recEnvOf(r)+"/"+recOctets(r))
		}
		if len(rs) == 0 {
			rs = []string{"-"}
		}
		parts = append(parts, hexOf([]byte(s))+"="+strings.Join(rs, ","))
	}
	rb := "-"
	if len(parts) > 0 {
		rb = strings.Join(parts, ";")
	}
	return base + " rb=" + rb
}
