//go:build verif

package main

// stream "recber" (C03, C02): the operations of the chf stream; after every request the observation also
// carries, for every record every subscriber context holds, the octets the real code marshals for it
// (asn.BerMarshalWithParams(&record, "explicit,choice"), exactly the call of dumpCdrFile and of the size guard),
// what OpenCDR took from outside the charging model (NF id, opening time, node functionality) and, for
// updates, the two sizes the guard of ChargingDataUpdate compares.  The Lean side rebuilds the octets from the
// record fields with Model/RecordBer.lean (Ber.marshal on the regenerated schema type CHFRecord).
//
//   recber <chf operation>          e.g.  recber create …, recber update <sid> …
//   recber big <supiHex> <nfHex> <ncont> <upflen>    create + one update carrying 1 usage x ncont containers (sizes around the limit)

import (
	"bufio"
	"bytes"
	"fmt"
	"strings"

	"github.com/free5gc/chf/cdr/asn"
	"github.com/free5gc/chf/cdr/cdrType"
	chf_context "github.com/free5gc/chf/internal/context"
)

func init() {
	streams["recber"] = &stream{
		setup: func() { startChf([]string{"nchf-convergedcharging"}, false) },
		gen:   genRecBer,
		run:   runRecBer,
	}
}

func genRecBer(o genOpts, w *bufio.Writer) {
	var buf bytes.Buffer
	bw := bufio.NewWriter(&buf)
	genChf(o, bw)
	bw.Flush()
	for _, l := range strings.Split(buf.String(), "\n") {
		if strings.HasPrefix(l, "chf ") && l != "chf end" {
			fmt.Fprintf(w, "recber %s\n", l[4:])
		}
	}
	// long offline sessions in the chf stream's own operation format, so that the whole charging model (with the
	// BER size guard plugged in) is compared with the code across record splits: usage of nc containers per update,
	// sized to land below, at and above the 65535-octet limit, then small updates and a release that adds usage
	r := &rng{s: o.seed ^ 0x5eed}
	lsn := 1000000
	usage := func(rg, nc, upflen int) string {
		var sb strings.Builder
		fmt.Fprintf(&sb, "%d ~ %s %d", rg, hexOf([]byte(strings.Repeat("u", upflen))), nc)
		for j := 0; j < nc; j++ {
			lsn++
			k := uint64(lsn) * 2654435761
			fmt.Fprintf(&sb, " 2 %d %d %d %d %d", k%2147483647, k%65521, k%251, k%16777213, lsn)
		}
		return sb.String()
	}
	fills := []int{2500, 2590, 2596, 2600, 2610}
	if o.tier == "thorough" {
		fills = append(fills, 2300, 2580, 2594, 2595, 2597, 2598, 2599, 2601, 2602, 2605, 2620, 2700, 3000)
	}
	for k, fill := range fills {
		supi := fmt.Sprintf("imsi-20893%04d%06d", o.seed%10000, 900000+k)
		nf := r.pickStr("smf", "smf1", "")
		sid := supi + nf + "-0"
		fmt.Fprintf(w, "recber reset\n")
		fmt.Fprintf(w, "recber create %s\n", fmtReq(supi, nf, 7, 0, 0, 0, nil, nil))
		seq := 1
		upd := func(op string, us ...string) {
			fmt.Fprintf(w, "recber %s %s %s\n", op, hexOf([]byte(sid)), fmtReq(supi, nf, 7, seq, 0, 0, nil, us))
			seq++
		}
		upd("update", usage(1, 3, 3))
		upd("update", usage(1, fill, 5))
		upd("update", usage(2, 20+r.intn(40), 5))
		upd("update", usage(1, 10, 0), usage(2, 10, 0))
		upd("update", usage(1, fill/2, 5))
		upd("update", usage(1, fill/2+r.intn(80), 5))
		upd("release", usage(1, 30+r.intn(100), 5))
	}
	fmt.Fprintf(w, "recber end\n")
}

func recOctets(r *cdrType.CHFRecord) string {
	defer func() { _ = recover() }()
	b, err := asn.BerMarshalWithParams(&r, "explicit,choice")
	if err != nil {
		return "err"
	}
	return hexOf(b)
}

func recEnvOf(r *cdrType.CHFRecord) string {
	if r == nil || r.ChargingFunctionRecord == nil {
		return "-/-/0"
	}
	c := r.ChargingFunctionRecord
	return fmt.Sprintf("%s/%s/%d", hexOf([]byte(c.RecordingNetworkFunctionID.Value)), hexOf(c.RecordOpeningTime.Value),
		c.NFunctionConsumerInformation.NetworkFunctionality.Value)
}

func runRecBer(line string, t []string) string {
	if len(t) == 0 {
		return "bad-op"
	}
	base := runChf(line, t)
	switch t[0] {
	case "create", "update", "release", "recharge":
	default:
		return base
	}
	var parts []string
	supis := make([]string, 0, len(chfSupis))
	for s := range chfSupis {
		supis = append(supis, s)
	}
	sortStrings(supis)
	for _, s := range supis {
		ue, ok := chf_context.GetSelf().ChfUeFindBySupi(s)
		if !ok {
			continue
		}
		var rs []string
		for _, r := range ue.Records {
			rs = append(rs, recEnvOf(r)+"/"+recOctets(r))
		}
		if len(rs) == 0 {
			rs = []string{"-"}
		}
		parts = append(parts, hexOf([]byte(s))+"="+strings.Join(rs, ","))
	}
	rb := "-"
	if len(parts) > 0 {
		rb = strings.Join(parts, ";")
	}
	return base + " rb=" + rb
}
