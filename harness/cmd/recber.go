//go:build verif

package main

// stream "recber" (C03, C02): the operations of the chf stream; after every request the observation also
// carries, for every record every subscriber context holds, the octets the real code marshals for it
// (asn.BerMarshalWithParams(&record, "explicit,choice"), exactly the call of dumpCdrFile and of the size guard),
// what OpenCDR took from outside the charging model (NF id, opening time, node functionality) and, for
// updates, the two sizes the guard of ChargingDataUpdate compares.  The Lean side rebuilds the octets from the
// record fields with Model/RecordBer.lean (Ber.marshal on the regenerated schema type CHFRecord).
//
//   recber <chf operation>          e.g.  recber create …, recber update <sid> …
//   recber big <supiHex> <nfHex> <ncont> <upflen>    create + one update carrying 1 usage x ncont containers (sizes around the limit)

import (
	"bufio"
	"bytes"
	"encoding/json"
	"fmt"
	"strings"
	"time"

	"github.com/free5gc/chf/cdr/asn"
	"github.com/free5gc/chf/cdr/cdrType"
	chf_context "github.com/free5gc/chf/internal/context"
	"github.com/free5gc/openapi/models"
)

func init() {
	streams["recber"] = &stream{
		setup: func() { startChf([]string{"nchf-convergedcharging"}, false) },
		gen:   genRecBer,
		run:   runRecBer,
	}
}

func genRecBer(o genOpts, w *bufio.Writer) {
	var buf bytes.Buffer
	bw := bufio.NewWriter(&buf)
	genChf(o, bw)
	bw.Flush()
	for _, l := range strings.Split(buf.String(), "\n") {
		if strings.HasPrefix(l, "chf ") && l != "chf end" {
			fmt.Fprintf(w, "recber %s\n", l[4:])
		}
	}
	// long offline sessions in the chf stream's own operation format, so that the whole charging model (with the
	// BER size guard plugged in) is compared with the code across record splits: usage of nc containers per update,
	// sized to land below, at and above the 65535-octet limit, then small updates and a release that adds usage
	r := &rng{s: o.seed ^ 0x5eed}
	lsn := 1000000
	usage := func(rg, nc, upflen int) string {
		var sb strings.Builder
		fmt.Fprintf(&sb, "%d ~ %s %d", rg, hexOf([]byte(strings.Repeat("u", upflen))), nc)
		for j := 0; j < nc; j++ {
			lsn++
			k := uint64(lsn) * 2654435761
			fmt.Fprintf(&sb, " 2 %d %d %d %d %d", k%2147483647, k%65521, k%251, k%16777213, lsn)
		}
		return sb.String()
	}
	fills := []int{2500, 2590, 2596, 2600, 2610}
	if o.tier == "thorough" {
		fills = append(fills, 2300, 2580, 2594, 2595, 2597, 2598, 2599, 2601, 2602, 2605, 2620, 2700, 3000)
	}
	for k, fill := range fills {
		supi := fmt.Sprintf("imsi-20893%04d%06d", o.seed%10000, 900000+k)
		nf := r.pickStr("smf", "smf1", "")
		sid := supi + nf + "-0"
		fmt.Fprintf(w, "recber reset\n")
		fmt.Fprintf(w, "recber create %s\n", fmtReq(supi, nf, 7, 0, 0, 0, nil, nil))
		seq := 1
		upd := func(op string, us ...string) {
			// (updates and the release carry another charging id than the create: the session's records keep the create's)
			fmt.Fprintf(w, "recber %s %s %s\n", op, hexOf([]byte(sid)), fmtReq(supi, nf, 7+seq%3, seq, 0, 0, nil, us))
			seq++
		}
		upd("update", usage(1, 3, 3))
		upd("update", usage(1, fill, 5))
		upd("update", usage(2, 20+r.intn(40), 5))
		upd("update", usage(1, 10, 0), usage(2, 10, 0))
		upd("update", usage(1, fill/2, 5))
		upd("update", usage(1, fill/2+r.intn(80), 5))
		upd("release", usage(1, 30+r.intn(100), 5))
	}
	// creates that exercise every member OpenCDR reads from the request (consumer addresses, FQDN, PLMN id, node
	// functionality, service specification, registration / PDU session information), well-formed and not
	genCreateX(o, r, w)
	fmt.Fprintf(w, "recber end\n")
}

var functionalities = []string{"SMF", "AMF", "SMSF", "PGW_C_SMF", "NEF", "SGW", "I_SMF", "ePDG", "CEF", "MnS_Producer", "CHF", "smf", "", "UPF", "SMF "}

func genCreateX(o genOpts, r *rng, w *bufio.Writer) {
	n := 60
	if o.tier == "thorough" {
		n = 600
	}
	fmt.Fprintf(w, "recber reset\n")
	opt := func(xs ...string) string {
		if r.chance(45) {
			return "-"
		}
		return hexOf([]byte(xs[r.intn(len(xs))]))
	}
	for i := 0; i < n; i++ {
		supi := fmt.Sprintf("imsi-20893%04d%06d", o.seed%10000, 800000+r.intn(5))
		nf := r.pickStr("smf", "smf1", "a", "")
		plmn := "~"
		if r.chance(60) {
			plmn = hexOf([]byte(r.pickStr("208", "001", "460", "99f", "ABC", "20", "2089", "abc", "12x", ""))) + "/" +
				hexOf([]byte(r.pickStr("93", "001", "00", "f1", "9", "1234", "zz", "7F", "")))
		}
		pdu := "~"
		if r.chance(50) {
			pdu = fmt.Sprintf("%d/%d/%d/%s/%s", r.pick(0, 1, 7, 255, 65536, 2147483647, -1), r.pick(0, 1, 5, 255, 256, -128),
				r.pick(0, 1, 2, 128, 255, 1000), hexOf([]byte(r.pickStr("", "010203", "ffffff", "1", "abcdefabcdef"))),
				hexOf([]byte(r.pickStr("internet", "", "ims", strings.Repeat("d", 130)))))
			if r.chance(15) {
				pdu = r.pickStr("x0", "x1", "x2") // incomplete: no pduSessionInformation / networkSlicingInfo / sNSSAI
			}
		}
		fmt.Fprintf(w, "recber createx %s %s %s %s %s %s %s %s %d %s\n", hexOf([]byte(supi)), hexOf([]byte(nf)),
			hexOf([]byte(functionalities[r.intn(len(functionalities))])),
			opt("10.0.0.1", "1.2.3.4", strings.Repeat("9", 140)), opt("2001:db8::1", "::"), opt("smf.example.org", "a", strings.Repeat("f", 300)),
			plmn, opt("spec-info", "x", strings.Repeat("s", 200)), r.intn(2), pdu)
	}
}

func recOctets(r *cdrType.CHFRecord) string {
	defer func() { _ = recover() }()
	b, err := asn.BerMarshalWithParams(&r, "explicit,choice")
	if err != nil {
		return "err"
	}
	return hexOf(b)
}

func recEnvOf(r *cdrType.CHFRecord) string {
	if r == nil || r.ChargingFunctionRecord == nil {
		return "-/-/0"
	}
	c := r.ChargingFunctionRecord
	// "e": the usage list is an empty but non-nil slice (a record the size guard has just started)
	el := ""
	if c.ListOfMultipleUnitUsage != nil && len(c.ListOfMultipleUnitUsage) == 0 {
		el = "e"
	}
	return fmt.Sprintf("%s/%s/%d%s", hexOf([]byte(c.RecordingNetworkFunctionID.Value)), hexOf(c.RecordOpeningTime.Value),
		c.NFunctionConsumerInformation.NetworkFunctionality.Value, el)
}

// recber createx <supi> <nf> <functionality> <v4> <v6> <fqdn> <mcc/mnc|~> <svcSpec> <reg> <pdu: ~ | x0|x1|x2 | cid/sid/sst/sd/dnn>
func runCreateX(t []string) string {
	p := &tk{t: t[1:], ok: true}
	r := &models.ChfConvergedChargingChargingDataRequest{}
	r.SubscriberIdentifier = p.hexs()
	id := &models.ChfConvergedChargingNfIdentification{NFName: p.hexs()}
	id.NodeFunctionality = models.ChfConvergedChargingNodeFunctionality(p.hexs())
	id.NFIPv4Address, id.NFIPv6Address, id.NFFqdn = p.hexs(), p.hexs(), p.hexs()
	if pl := p.next(); pl != "~" {
		mm := strings.SplitN(pl, "/", 2)
		if len(mm) != 2 {
			return "bad-op"
		}
		a, ok1 := unhex(mm[0])
		b, ok2 := unhex(mm[1])
		if !ok1 || !ok2 {
			return "bad-op"
		}
		id.NFPLMNID = &models.PlmnId{Mcc: string(a), Mnc: string(b)}
	}
	r.NfConsumerIdentification = id
	r.ServiceSpecificationInfo = p.hexs()
	if p.i() == 1 {
		r.RegistrationChargingInformation = &models.RegistrationChargingInformation{}
	}
	switch pd := p.next(); {
	case pd == "~":
	case pd == "x0":
		r.PDUSessionChargingInformation = &models.ChfConvergedChargingPduSessionChargingInformation{ChargingId: 3}
	case pd == "x1":
		r.PDUSessionChargingInformation = &models.ChfConvergedChargingPduSessionChargingInformation{ChargingId: 3,
			PduSessionInformation: &models.ChfConvergedChargingPduSessionInformation{PduSessionID: 1}}
	case pd == "x2":
		r.PDUSessionChargingInformation = &models.ChfConvergedChargingPduSessionChargingInformation{ChargingId: 3,
			PduSessionInformation: &models.ChfConvergedChargingPduSessionInformation{PduSessionID: 1, NetworkSlicingInfo: &models.NetworkSlicingInfo{}}}
	default:
		f := strings.Split(pd, "/")
		if len(f) != 5 {
			return "bad-op"
		}
		sd, ok1 := unhex(f[3])
		dnn, ok2 := unhex(f[4])
		if !ok1 || !ok2 {
			return "bad-op"
		}
		r.PDUSessionChargingInformation = &models.ChfConvergedChargingPduSessionChargingInformation{ChargingId: int32(i64(f[0])),
			PduSessionInformation: &models.ChfConvergedChargingPduSessionInformation{PduSessionID: int32(i64(f[1])), DnnId: string(dnn),
				NetworkSlicingInfo: &models.NetworkSlicingInfo{SNSSAI: &models.Snssai{Sst: int32(i64(f[2])), Sd: string(sd)}}}}
	}
	if !p.ok || len(p.t) != 0 {
		return "bad-op"
	}
	r.ChargingId = 9
	now := time.Now()
	r.InvocationTimeStamp = &now
	chfSupis[r.SubscriberIdentifier] = true
	before := 0
	if ue, ok := chf_context.GetSelf().ChfUeFindBySupi(r.SubscriberIdentifier); ok {
		before = len(ue.Records)
	}
	b, _ := json.Marshal(r)
	w := doHTTP("POST", ccPrefix+"/chargingdata", b)
	out := fmt.Sprintf("st=%d", w.Code)
	if ue, ok := chf_context.GetSelf().ChfUeFindBySupi(r.SubscriberIdentifier); ok && len(ue.Records) == before+1 && w.Code == 201 {
		rec := ue.Records[before]
		out += " new=" + recEnvOf(rec) + "/" + recOctets(rec) + " rec=" + dumpRecord(rec)
	} else if ok && len(ue.Records) != before {
		out += " new=?"
	}
	return out
}

func runRecBer(line string, t []string) string {
	if len(t) == 0 {
		return "bad-op"
	}
	if t[0] == "createx" {
		return runCreateX(t)
	}
	base := runChf(line, t)
	switch t[0] {
	case "create", "update", "release", "recharge":
	default:
		return base
	}
	var parts []string
	supis := make([]string, 0, len(chfSupis))
	for s := range chfSupis {
		supis = append(supis, s)
	}
	sortStrings(supis)
	for _, s := range supis {
		ue, ok := chf_context.GetSelf().ChfUeFindBySupi(s)
		if !ok {
			continue
		}
		var rs []string
		for _, r := range ue.Records {
			rs = append(rs, recEnvOf(r)+"/"+recOctets(r))
		}
		if len(rs) == 0 {
			rs = []string{"-"}
		}
		parts = append(parts, hexOf([]byte(s))+"="+strings.Join(rs, ","))
	}
	rb := "-"
	if len(parts) > 0 {
		rb = strings.Join(parts, ";")
	}
	return base + " rb=" + rb
}
