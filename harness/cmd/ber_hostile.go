//go:build verif

package main

// Three further regions of the `ber` stream (generator and run side; the Lean side is lean/Driver/BerIO.lean):
//
//  1. values the codec CANNOT marshal, at every position: a CHOICE whose Present is 0 / negative / past the last
//     alternative or selects a nil alternative, a nil pointer as list element or mandatory member, OBJECT IDENTIFIER
//     and unsupported kinds, placed in the first / a middle / the last element of a SEQUENCE OF, in any member of a
//     SEQUENCE and under any nesting (ordinary `R` operations: the answer must be an error, never a panic and never
//     bytes).
//
//  2. ber H <mode> {<ty> <params> <val>}+      history of marshal calls (the result of marshal is a value, not a
//     view of storage shared with later calls, other goroutines or the argument):
//     mode s: the values are marshalled one after the other in one goroutine; the slices returned are kept as they
//             are; afterwards every byte buffer reachable from the arguments is overwritten; only then every kept
//             slice is compared with the copy taken when it was returned and unmarshalled into a fresh variable.
//     mode p: one goroutine per value, released together, each marshalling its value several times and keeping
//             every result; the same verification after all have finished.
//     answer: the `R` answers of the items joined by " | " (+ " moved" when the octets changed after the return).
//
//  3. ber V <goroutines> <stride> {<ty> <params> <hex|->}+   octet strings unmarshalled by several goroutines at
//     once into struct types the process has never decoded before (the struct types of the notation are built
//     with field names that are fresh for every operation), every goroutine decoding every item twice, goroutine j
//     starting at item j*stride.  answer: the `U` answers of the items joined by " | "; an item whose decodings
//     disagree with each other answers "diverge".  The experiment is repeated (2..100 times, the smaller the more often)
//     with types that are fresh again.
//     A Go runtime abort (fatal error: concurrent map writes, …) cannot be recovered: the process dies, the check
//     reports the operation it died in and restarts the harness behind it.

import (
	"bufio"
	"bytes"
	"fmt"
	"reflect"
	"runtime"
	"strings"
	"sync"
	"sync/atomic"
	"time"

	"github.com/free5gc/chf/cdr/asn"
)

// ---- 1. un-encodable values ----

type hostileSite struct {
	apply     func(r *rng)
	underList bool // somewhere below an element of a SEQUENCE OF
	nonLast   bool // … which is not the last element of its list
}

// collectSites walks a filled value the way makeField does and lists every place where the value can be made
// un-encodable without touching its type
func collectSites(v reflect.Value, optional, underList, nonLast bool, out *[]hostileSite) {
	t := v.Type()
	switch t {
	case asn.BitStringType, asn.OctetStringType, asn.ObjectIdentifierType, asn.EnumeratedType, asn.NullType:
		return
	}
	switch t.Kind() {
	case reflect.Ptr:
		if v.IsNil() {
			return
		}
		if !optional {
			vv := v
			*out = append(*out, hostileSite{func(*rng) { vv.Set(reflect.Zero(vv.Type())) }, underList, nonLast})
		}
		collectSites(v.Elem(), false, underList, nonLast, out)
	case reflect.Slice:
		n := v.Len()
		for i := 0; i < n; i++ {
			collectSites(v.Index(i), false, true, nonLast || i < n-1, out)
		}
	case reflect.Struct:
		if t.NumField() == 0 {
			return
		}
		switch t.Field(0).Name {
		case "Value", "List":
			collectSites(v.Field(0), false, underList, nonLast, out)
			return
		case "Present":
			vv := v
			*out = append(*out, hostileSite{func(r *rng) {
				nf := vv.NumField()
				cands := []int64{0, 0, -1, int64(nf), int64(nf + 2), -9223372036854775808, 9223372036854775807}
				for k := 1; k < nf; k++ { // an alternative that was not filled: a nil pointer is selected
					if f := vv.Field(k); f.Kind() == reflect.Ptr && f.IsNil() {
						cands = append(cands, int64(k), int64(k))
					}
				}
				vv.Field(0).SetInt(cands[r.intn(len(cands))])
			}, underList, nonLast})
			if p := v.Field(0).Int(); p >= 1 && p < int64(t.NumField()) {
				collectSites(v.Field(int(p)), false, underList, nonLast, out)
			}
			return
		}
		for i := 0; i < t.NumField(); i++ {
			opt := strings.Contains(t.Field(i).Tag.Get("ber"), "optional")
			collectSites(v.Field(i), opt, underList, nonLast, out)
		}
	}
}

// hasListOfComposite: the type contains a SEQUENCE OF whose elements can be made un-encodable
func mayFail(t reflect.Type, depth int) bool {
	if depth > 12 {
		return false
	}
	switch t {
	case asn.ObjectIdentifierType:
		return true
	case asn.BitStringType, asn.OctetStringType, asn.EnumeratedType, asn.NullType:
		return false
	}
	switch t.Kind() {
	case reflect.Ptr:
		return true
	case reflect.Slice:
		return mayFail(t.Elem(), depth+1)
	case reflect.Struct:
		if t.NumField() == 0 {
			return true
		}
		if t.Field(0).Name == "Present" {
			return true
		}
		for i := 0; i < t.NumField(); i++ {
			ft := t.Field(i).Type
			if strings.Contains(t.Field(i).Tag.Get("ber"), "optional") && ft.Kind() == reflect.Ptr {
				ft = ft.Elem()
			}
			if mayFail(ft, depth+1) {
				return true
			}
		}
		return false
	case reflect.Bool, reflect.Int, reflect.Int32, reflect.Int64, reflect.String:
		return false
	}
	return true
}

// growLists gives the lists whose elements may fail two to four elements, so that "not the last element" exists
func growLists(r *rng, v reflect.Value, depth int) {
	t := v.Type()
	switch t {
	case asn.BitStringType, asn.OctetStringType, asn.ObjectIdentifierType, asn.EnumeratedType, asn.NullType:
		return
	}
	switch t.Kind() {
	case reflect.Ptr:
		if !v.IsNil() {
			growLists(r, v.Elem(), depth+1)
		}
	case reflect.Slice:
		if mayFail(t.Elem(), 0) && v.Len() < 2 && depth < 9 && r.chance(70) {
			n := 2 + r.intn(3)
			s := reflect.MakeSlice(t, n, n)
			for i := 0; i < n; i++ {
				if i < v.Len() {
					s.Index(i).Set(v.Index(i))
				} else {
					fillValue(r, s.Index(i), 7, false, 30)
				}
			}
			v.Set(s)
		}
		for i := 0; i < v.Len(); i++ {
			growLists(r, v.Index(i), depth+1)
		}
	case reflect.Struct:
		if t.NumField() > 0 && t.Field(0).Name == "Present" {
			if p := v.Field(0).Int(); p >= 1 && p < int64(t.NumField()) {
				growLists(r, v.Field(int(p)), depth+1)
			}
			return
		}
		for i := 0; i < t.NumField(); i++ {
			growLists(r, v.Field(i), depth+1)
		}
	}
}

// spoil makes one to three places of a filled value un-encodable; half of the time a place below a list element
// that is not the last of its list is preferred.  Returns the number of places spoiled.
func spoil(r *rng, v reflect.Value) int {
	var sites []hostileSite
	collectSites(v, false, false, false, &sites)
	if len(sites) == 0 {
		return 0
	}
	k := r.pick(1, 1, 1, 2, 3)
	done := 0
	for ; done < k; done++ {
		pool := sites
		if r.chance(50) {
			var nl []hostileSite
			for _, s := range sites {
				if s.nonLast {
					nl = append(nl, s)
				}
			}
			if len(nl) > 0 {
				pool = nl
			}
		}
		pool[r.intn(len(pool))].apply(r)
	}
	return done
}

// genHostileType: struct types in the codec's tag language that contain what the schema avoids: pointers as list
// elements and as mandatory members, OBJECT IDENTIFIER and unsupported kinds as members, elements and alternatives
func genHostileType(r *rng, depth int) reflect.Type {
	prims := []reflect.Type{reflect.TypeOf(int64(0)), reflect.TypeOf(int32(0)), reflect.TypeOf(true), asn.OctetStringType,
		asn.BitStringType, asn.EnumeratedType, asn.NullType, asn.UTF8StringType, asn.IA5StringType, asn.ObjectIdentifierType}
	if depth > 3 || r.chance(30) {
		return prims[r.intn(len(prims))]
	}
	elem := func() reflect.Type {
		t := genHostileType(r, depth+1)
		if r.chance(40) {
			return reflect.PtrTo(t)
		}
		return t
	}
	switch r.intn(6) {
	case 0, 1:
		return reflect.SliceOf(elem())
	case 2:
		return reflect.StructOf([]reflect.StructField{{Name: "Value", Type: genHostileType(r, depth+1)}})
	case 3:
		n := 1 + r.intn(3)
		base := genTagBase(r)
		fs := []reflect.StructField{{Name: "Present", Type: reflect.TypeOf(int(0))}}
		for i := 0; i < n; i++ {
			at := reflect.PtrTo(genHostileType(r, depth+1))
			if r.chance(15) {
				at = r.pickType(asn.ObjectIdentifierType, reflect.TypeOf(uint8(0)), reflect.TypeOf(int64(0)))
			}
			fs = append(fs, reflect.StructField{Name: fmt.Sprintf("A%d", i), Type: at,
				Tag: reflect.StructTag(fmt.Sprintf(`ber:"tagNum:%d"`, base+i))})
		}
		return reflect.StructOf(fs)
	default:
		n := 1 + r.intn(4)
		base := genTagBase(r)
		var fs []reflect.StructField
		for i := 0; i < n; i++ {
			ft := genHostileType(r, depth+1)
			tag := fmt.Sprintf("tagNum:%d", base+i)
			switch {
			case r.chance(35):
				ft = reflect.PtrTo(ft)
				tag += ",optional"
			case r.chance(30):
				ft = reflect.PtrTo(ft) // mandatory member held by a pointer
			case r.chance(6):
				ft = reflect.TypeOf(uint8(0)) // a kind the codec has no encoding for
			}
			fs = append(fs, reflect.StructField{Name: fmt.Sprintf("F%d", i), Type: ft, Tag: reflect.StructTag(`ber:"` + tag + `"`)})
		}
		return reflect.StructOf(fs)
	}
}

func (r *rng) pickType(ts ...reflect.Type) reflect.Type { return ts[r.intn(len(ts))] }

// listTypes: the schema types that contain a SEQUENCE OF whose elements may fail
func hasFailingList(t reflect.Type, depth int) bool {
	if depth > 12 {
		return false
	}
	switch t {
	case asn.BitStringType, asn.OctetStringType, asn.ObjectIdentifierType, asn.EnumeratedType, asn.NullType:
		return false
	}
	switch t.Kind() {
	case reflect.Ptr:
		return hasFailingList(t.Elem(), depth+1)
	case reflect.Slice:
		return mayFail(t.Elem(), 0) || hasFailingList(t.Elem(), depth+1)
	case reflect.Struct:
		for i := 0; i < t.NumField(); i++ {
			if hasFailingList(t.Field(i).Type, depth+1) {
				return true
			}
		}
	}
	return false
}

func berItem(t reflect.Type, params string, v reflect.Value) string {
	return tyStr(t, 0) + " " + paramStr(params) + " " + valStr(v)
}

func genBerHostile(o genOpts, w *bufio.Writer) {
	r := &rng{s: o.seed*0x51ed27 + 0xbe5}
	big := o.tier == "thorough"
	rounds := 1
	if big {
		rounds = 6
	}
	// 1a. every schema type that has a place to spoil: anywhere, and with the lists grown first
	for round := 0; round < rounds; round++ {
		for _, n := range cdrTypeNames {
			t := cdrTypes[n]
			if !mayFail(t, 0) {
				continue
			}
			for k := 0; k < 2; k++ {
				if k == 1 && !hasFailingList(t, 0) {
					continue
				}
				v := reflect.New(t).Elem()
				fillValue(r, v, 0, false, []int{40, 80}[k])
				if k == 1 {
					growLists(r, v, 0)
				}
				if spoil(r, v) == 0 {
					continue
				}
				fmt.Fprintf(w, "ber R %s\n", berItem(t, "", v))
			}
		}
	}
	// the record as the CHF marshals it
	for k := 0; k < 8*rounds; k++ {
		t := cdrTypes["CHFRecord"]
		v := reflect.New(t).Elem()
		fillValue(r, v, 0, false, 60)
		growLists(r, v, 0)
		spoil(r, v)
		fmt.Fprintf(w, "ber R %s\n", berItem(t, "explicit,choice", v))
	}
	// 1b. generated types with pointer elements, mandatory pointers, OBJECT IDENTIFIER and unsupported kinds;
	// unspoiled (the model and the code must agree on what marshals at all) and spoiled
	for i := 0; i < o.n; i++ {
		t := genHostileType(r, 0)
		for k := 0; k < 3; k++ {
			v := reflect.New(t).Elem()
			fillValue(r, v, 0, false, 60)
			if k > 0 {
				growLists(r, v, 0)
				spoil(r, v)
			}
			fmt.Fprintf(w, "ber R %s\n", berItem(t, r.pickStr("", "", "", "set", "tagNum:3", "tagNum:40,explicit"), v))
		}
	}
	// 1c. the list shapes by hand: one bad element at every position of lists of 1..4 elements, every kind of badness
	{
		ch := reflect.StructOf([]reflect.StructField{{Name: "Present", Type: reflect.TypeOf(int(0))},
			{Name: "A", Type: reflect.PtrTo(reflect.TypeOf(int64(0))), Tag: `ber:"tagNum:0"`},
			{Name: "B", Type: reflect.PtrTo(asn.OctetStringType), Tag: `ber:"tagNum:1"`},
			{Name: "C", Type: asn.ObjectIdentifierType, Tag: `ber:"tagNum:2"`}})
		good := func() reflect.Value {
			v := reflect.New(ch).Elem()
			x := int64(r.intn(300))
			v.Field(0).SetInt(1)
			v.Field(1).Set(reflect.ValueOf(&x))
			return v
		}
		bads := []func() reflect.Value{
			func() reflect.Value { return reflect.New(ch).Elem() },                                                   // Present 0
			func() reflect.Value { v := good(); v.Field(0).SetInt(4); return v },                                     // past the last alternative
			func() reflect.Value { v := good(); v.Field(0).SetInt(-1); return v },                                    // negative
			func() reflect.Value { v := good(); v.Field(0).SetInt(2); return v },                                     // nil alternative selected
			func() reflect.Value { v := good(); v.Field(0).SetInt(3); v.Field(3).SetBytes([]byte{42, 3}); return v }, // OID
		}
		lt := reflect.SliceOf(ch)
		pt := reflect.SliceOf(reflect.PtrTo(ch))
		for n := 1; n <= 4; n++ {
			for pos := 0; pos < n; pos++ {
				for bi, bad := range bads {
					lv := reflect.MakeSlice(lt, n, n)
					for i := 0; i < n; i++ {
						if i == pos {
							lv.Index(i).Set(bad())
						} else {
							lv.Index(i).Set(good())
						}
					}
					x := reflect.New(lt).Elem()
					x.Set(lv)
					fmt.Fprintf(w, "ber R %s\n", berItem(lt, "", x))
					if bi == 0 { // a nil pointer element
						pv := reflect.MakeSlice(pt, n, n)
						for i := 0; i < n; i++ {
							if i != pos {
								g := reflect.New(ch)
								g.Elem().Set(good())
								pv.Index(i).Set(g)
							}
						}
						y := reflect.New(pt).Elem()
						y.Set(pv)
						fmt.Fprintf(w, "ber R %s\n", berItem(pt, "", y))
					}
				}
			}
		}
	}
	genBerHistories(o, r, w)
	genBerConcurrent(o, r, w)
}

// ---- 2. histories of marshal calls ----

func randomItem(r *rng, optPct int) (reflect.Type, string, reflect.Value) {
	var t reflect.Type
	params := ""
	switch r.intn(10) {
	case 0, 1, 2, 3:
		t = cdrTypes[cdrTypeNames[r.intn(len(cdrTypeNames))]]
	case 4:
		t = cdrTypes["CHFRecord"]
		params = "explicit,choice"
	case 5, 6:
		t = genType(r, 0)
		for k := 0; k < 20 && untaggedChoiceMember(t, 0); k++ {
			t = genType(r, 0)
		}
		params = r.pickStr("", "", "set", "tagNum:3", "tagNum:40,explicit")
	case 7:
		t = r.pickType(asn.OctetStringType, asn.UTF8StringType, asn.BitStringType, reflect.TypeOf(int64(0)))
		params = r.pickStr("", "tagNum:7", "tagNum:31,explicit")
	default:
		t = r.pickType(cdrTypes["UsedUnitContainer"], cdrTypes["IPAddress"], cdrTypes["MultipleUnitUsage"], cdrTypes["SubscriptionID"],
			cdrTypes["ChargingRecord"], cdrTypes["PDUSessionChargingInformation"])
	}
	if t == nil {
		t = reflect.TypeOf(int64(0))
	}
	v := reflect.New(t).Elem()
	fillValue(r, v, 0, r.chance(15), optPct)
	return t, params, v
}

// untaggedChoiceMember: a SEQUENCE member without tagNum whose type is a CHOICE behind Value wrappers / pointers.  The
// decoder cannot match such a member (matchMember has no universal tag to look for), so those types marshal but do not
// unmarshal — whatever the history; section 3 of genBer meets them, the history and concurrency regions leave them out.
func untaggedChoiceMember(t reflect.Type, depth int) bool {
	if depth > 12 {
		return false
	}
	switch t.Kind() {
	case reflect.Ptr, reflect.Slice:
		return untaggedChoiceMember(t.Elem(), depth+1)
	case reflect.Struct:
		if t == asn.BitStringType || t.NumField() == 0 {
			return false
		}
		first := t.Field(0).Name
		for i := 0; i < t.NumField(); i++ {
			ft := t.Field(i).Type
			if first != "Value" && first != "List" && first != "Present" && !strings.Contains(t.Field(i).Tag.Get("ber"), "tagNum:") {
				u := ft
				for u.Kind() == reflect.Ptr || (u.Kind() == reflect.Struct && u.NumField() > 0 && (u.Field(0).Name == "Value" || u.Field(0).Name == "List")) {
					if u.Kind() == reflect.Ptr {
						u = u.Elem()
					} else {
						u = u.Field(0).Type
					}
				}
				if isChoiceStruct(u) {
					return true
				}
			}
			if untaggedChoiceMember(ft, depth+1) {
				return true
			}
		}
	}
	return false
}

// roundTripsAlone: marshalled and unmarshalled on its own, in a fresh call, the value comes back as itself (or does not
// marshal at all).  The histories are built from such items only: what a history may not do is change an answer; whether
// single calls round-trip is what the `R` operations are for (the generated types include some outside the decoder's
// domain, e.g. members of a SET that share a tag).
func roundTripsAlone(t reflect.Type, params string, v reflect.Value) (ok bool) {
	defer func() {
		if recover() != nil {
			ok = false
		}
	}()
	b, err := asn.BerMarshalWithParams(v.Addr().Interface(), params)
	if err != nil {
		return true
	}
	w := reflect.New(t)
	if asn.UnmarshalWithParams(b, w.Interface(), params) != nil {
		return false
	}
	return valStr(w.Elem()) == valStr(v)
}

func historyItem(r *rng) (reflect.Type, string, reflect.Value) {
	for k := 0; k < 12; k++ {
		t, p, v := randomItem(r, r.pick(20, 50, 90))
		if roundTripsAlone(t, p, v) {
			return t, p, v
		}
	}
	v := reflect.New(reflect.TypeOf(int64(0))).Elem()
	v.SetInt(int64(r.intn(70000)))
	return v.Type(), "", v
}

func genBerHistories(o genOpts, r *rng, w *bufio.Writer) {
	n := 40
	if o.tier == "thorough" {
		n = 400
	}
	for i := 0; i < n; i++ {
		mode := r.pickStr("s", "s", "p")
		k := 2 + r.intn(5)
		var items []string
		shape := r.intn(4)
		var t0 reflect.Type
		var p0 string
		var v0 reflect.Value
		for j := 0; j < k; j++ {
			t, p, v := historyItem(r)
			switch {
			case j == 0:
				t0, p0, v0 = t, p, v
			case shape == 0:
				// the same value again: marshalling twice gives the same octets twice
				t, p, v = t0, p0, v0
			case shape == 1:
				// the same type, another value (equally long encodings are likely)
				t, p = t0, p0
				v = reflect.New(t).Elem()
				fillValue(r, v, 0, false, 50)
				if !roundTripsAlone(t, p, v) {
					v = v0
				}
			}
			items = append(items, berItem(t, p, v))
		}
		fmt.Fprintf(w, "ber H %s %s\n", mode, strings.Join(items, " "))
	}
	// records of decreasing, increasing and equal length, the way dumpCdrFile collects them before writing
	for _, lens := range [][]int{{200, 100, 50, 10}, {10, 50, 100, 200}, {64, 64, 64}, {65, 64, 63}, {1000, 999, 1}, {0, 0}, {300, 3, 300}} {
		var items []string
		for i, n := range lens {
			v := reflect.New(asn.OctetStringType).Elem()
			v.SetBytes(bytes.Repeat([]byte{byte(0xa0 + i)}, n))
			items = append(items, berItem(asn.OctetStringType, "", v))
		}
		fmt.Fprintf(w, "ber H s %s\n", strings.Join(items, " "))
		fmt.Fprintf(w, "ber H p %s\n", strings.Join(items, " "))
	}
}

// scribble overwrites every byte buffer reachable from a value
func scribble(v reflect.Value, depth int) {
	if depth > 60 {
		return
	}
	switch v.Kind() {
	case reflect.Ptr, reflect.Interface:
		if !v.IsNil() {
			scribble(v.Elem(), depth+1)
		}
	case reflect.Slice:
		if v.Type().Elem().Kind() == reflect.Uint8 {
			b := v.Bytes()
			for i := range b {
				b[i] ^= 0x5a
			}
			return
		}
		for i := 0; i < v.Len(); i++ {
			scribble(v.Index(i), depth+1)
		}
	case reflect.Struct:
		for i := 0; i < v.NumField(); i++ {
			scribble(v.Field(i), depth+1)
		}
	}
}

type histItem struct {
	typ    reflect.Type
	params string
	val    reflect.Value // pointer to the value
	want   string
	got    [][]byte // slices as returned by BerMarshalWithParams
	snap   [][]byte // copies taken at the return
	res    string
}

func (it *histItem) marshal() {
	defer func() {
		if x := recover(); x != nil {
			it.res = "panic"
		}
	}()
	b, err := asn.BerMarshalWithParams(it.val.Interface(), it.params)
	if err != nil {
		it.res = "err"
		return
	}
	it.got = append(it.got, b)
	it.snap = append(it.snap, append([]byte(nil), b...))
}

func (it *histItem) verify() string {
	if it.res != "" {
		return it.res
	}
	out := ""
	for k, b := range it.got {
		moved := !bytes.Equal(b, it.snap[k])
		res := func() (s string) {
			defer func() {
				if x := recover(); x != nil {
					s = "ok " + hx(b) + " panic"
				}
			}()
			w := reflect.New(it.typ)
			if err := asn.UnmarshalWithParams(b, w.Interface(), it.params); err != nil {
				return "ok " + hx(b) + " err"
			}
			return "ok " + hx(b) + " ok " + valStr(w.Elem())
		}()
		if moved {
			res += " moved"
		}
		// every repetition must give the answer of the first; the first deviating one is reported
		if k == 0 {
			out = res
		} else if res != out {
			return res + " unstable"
		}
	}
	return out
}

func runBerHistory(t []string) string {
	if len(t) < 5 || (len(t)-2)%3 != 0 {
		return "bad-op"
	}
	mode := t[1]
	var items []*histItem
	for i := 2; i+2 < len(t); i += 3 {
		typ := (&tyParser{s: t[i]}).ty()
		v := reflect.New(typ)
		(&valParser{s: t[i+2]}).set(v.Elem())
		items = append(items, &histItem{typ: typ, params: paramOf(t[i+1]), val: v})
	}
	switch mode {
	case "s":
		for _, it := range items {
			it.marshal()
		}
	case "p":
		var wg sync.WaitGroup
		start := make(chan struct{})
		for _, it := range items {
			wg.Add(1)
			go func(it *histItem) {
				defer wg.Done()
				<-start
				for rep := 0; rep < 20 && it.res == ""; rep++ {
					it.marshal()
					runtime.Gosched()
				}
			}(it)
		}
		close(start)
		wg.Wait()
	default:
		return "bad-op"
	}
	// the arguments may be reused by the caller
	for _, it := range items {
		scribble(it.val, 0)
	}
	var out []string
	for _, it := range items {
		out = append(out, it.verify())
	}
	return strings.Join(out, " | ")
}

// ---- 3. concurrent unmarshalling into fresh types ----

func mutateOctets(r *rng, b []byte) []byte {
	b = append([]byte(nil), b...)
	if len(b) == 0 {
		return r.bytes(1 + r.intn(4))
	}
	switch r.intn(6) {
	case 0:
		return b[:r.intn(len(b)+1)]
	case 1:
		b[r.intn(len(b))] ^= byte(1 << uint(r.intn(8)))
	case 2:
		if len(b) > 1 {
			b[1] = byte(r.pick(0, 0x7f, 0x80, 0x81, 0x82, 0x84, 0xff))
		}
	case 3:
		b = append(b, r.bytes(1+r.intn(3))...)
	case 4:
		return r.bytes(1 + r.intn(8))
	}
	return b
}

func genBerConcurrent(o genOpts, r *rng, w *bufio.Writer) {
	n := 30
	if o.tier == "thorough" {
		n = 300
	}
	hexOrDash := func(b []byte) string {
		if len(b) == 0 {
			return "-"
		}
		return hx(b)
	}
	for i := 0; i < n; i++ {
		k := 2 + r.intn(10)
		var items []string
		for j := 0; j < k; j++ {
			t, p, v := randomItem(r, r.pick(30, 60, 100))
			var b []byte
			switch r.intn(5) {
			case 0:
				b = []byte{0x30, 0x00}
			default:
				b, _ = genMarshal(v.Addr().Interface(), p)
				if r.chance(35) {
					b = mutateOctets(r, b)
				}
			}
			items = append(items, tyStr(t, 0)+" "+paramStr(p)+" "+hexOrDash(b))
			if r.chance(25) { // the same octets and type once more in the same operation
				items = append(items, items[len(items)-1])
			}
		}
		fmt.Fprintf(w, "ber V %d %d %s\n", r.pick(2, 4, 8), r.pick(0, 0, 1), strings.Join(items, " "))
	}
	// all schema types at once from the empty SEQUENCE, in a few large operations
	per := 49
	for from := 0; from < len(cdrTypeNames); from += per {
		var items []string
		for _, n := range cdrTypeNames[from:min(from+per, len(cdrTypeNames))] {
			items = append(items, tyStr(cdrTypes[n], 0)+" "+paramStr("")+" 3000")
		}
		fmt.Fprintf(w, "ber V 4 0 %s\n", strings.Join(items, " "))
	}
}

var freshTypeCounter uint64

type concItem struct {
	typ    reflect.Type
	params string
	raw    []byte
}

func decodeOnce(it *concItem) (res string) {
	defer func() {
		if x := recover(); x != nil {
			res = "panic"
		}
	}()
	buf := make([]byte, len(it.raw), len(it.raw))
	copy(buf, it.raw)
	w := reflect.New(it.typ)
	if err := asn.UnmarshalWithParams(buf, w.Interface(), it.params); err != nil {
		return "err"
	}
	return "ok " + valStr(w.Elem())
}

func runBerConcurrent(t []string) string {
	if len(t) < 6 || (len(t)-3)%3 != 0 {
		return "bad-op"
	}
	var g, stride int
	if _, err := fmt.Sscanf(t[1]+" "+t[2], "%d %d", &g, &stride); err != nil || g < 1 || g > 64 {
		return "bad-op"
	}
	n := (len(t) - 3) / 3
	// the whole experiment is repeated with types that are fresh again, more often the smaller it is: what it looks for
	// (two goroutines meeting a type for the first time at the same moment) is a matter of timing
	size := 0 // building the fresh types is what a round costs
	for i := 3; i < len(t); i += 3 {
		size += len(t[i])
	}
	rounds := 240000 / (size + 50*n*g)
	if rounds < 2 {
		rounds = 2
	} else if rounds > 400 {
		rounds = 400
	}
	deadline := time.Now().Add(20 * time.Second)
	var first []string
	for round := 0; round < rounds; round++ {
		out, bad := runBerConcurrentOnce(t, g, stride, deadline)
		if bad != "" {
			return bad
		}
		if first == nil {
			first = out
			continue
		}
		for i := range out {
			if out[i] != first[i] {
				first[i] = "diverge"
			}
		}
	}
	return strings.Join(first, " | ")
}

func runBerConcurrentOnce(t []string, g, stride int, deadline time.Time) ([]string, string) {
	salt := fmt.Sprintf("x%d", atomic.AddUint64(&freshTypeCounter, 1))
	var items []*concItem
	for i := 3; i+2 < len(t); i += 3 {
		raw, ok := unhex(t[i+2])
		if !ok {
			return nil, "bad-op"
		}
		items = append(items, &concItem{typ: (&tyParser{s: t[i], salt: salt}).ty(), params: paramOf(t[i+1]), raw: raw})
	}
	n := len(items)
	results := make([][]string, g) // per goroutine: 2n answers
	var wg sync.WaitGroup
	var ready int32 // the goroutines leave the barrier within nanoseconds of each other
	for j := 0; j < g; j++ {
		wg.Add(1)
		go func(j int) {
			defer wg.Done()
			out := make([]string, 2*n)
			atomic.AddInt32(&ready, 1)
			for spin := 0; atomic.LoadInt32(&ready) < int32(g); spin++ {
				if spin > 200 {
					runtime.Gosched()
				}
			}
			for pass := 0; pass < 2; pass++ {
				for c := 0; c < n; c++ {
					i := (c + j*stride) % n
					out[pass*n+i] = decodeOnce(items[i])
				}
			}
			results[j] = out
		}(j)
	}
	done := make(chan struct{})
	go func() { wg.Wait(); close(done) }()
	select {
	case <-done:
	case <-time.After(time.Until(deadline)):
		return nil, "timeout"
	}
	var out []string
	for i := 0; i < n; i++ {
		first := results[0][i]
		same := true
		for j := 0; j < g; j++ {
			if results[j][i] != first || results[j][n+i] != first {
				same = false
			}
		}
		if !same {
			out = append(out, "diverge")
		} else {
			out = append(out, first)
		}
	}
	return out, ""
}

// withDeadline runs f in its own goroutine; a panic is the answer "panic", no answer in time is "timeout"
func withDeadline(f func() string, d time.Duration) string {
	done := make(chan string, 1)
	go func() {
		defer func() {
			if x := recover(); x != nil {
				done <- "panic"
			}
		}()
		done <- f()
	}()
	select {
	case r := <-done:
		return r
	case <-time.After(d):
		return "timeout"
	}
}
