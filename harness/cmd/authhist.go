//go:build verif

package main

// auth stream, second part: request HISTORIES and request CONTEXTS.
//
// C13 quantifies over requests; whether a request is rejected must not depend on what the service accepted
// before, nor on the state of the request's context.  This file adds
//   - a validly signed NRF token (one per process) and near misses derived from it (letter case of one letter of
//     the signature / the claims / the JOSE header changed, the whole header lower- or upper-cased, signature
//     truncated, one signature character replaced, signature dropped, lower-case scheme + changed signature):
//     none of them is signed by the NRF key;
//   - histories: on every route of every service list the valid token is presented first, then every near miss
//     on the same route (and, the contexts being shared, on all routes probed later), then once more on all routes;
//   - request contexts: live, cancelled before the request is served, deadline already exceeded;
//   - a digest of the whole charging state (subscribers, sessions, records, accounts, notifications) taken before
//     and after each probe: "performs no processing".

import (
	"bufio"
	"context"
	"crypto/sha1"
	"encoding/hex"
	"fmt"
	"net/http"
	"os"
	"strings"
	"time"
	"unicode"

	"github.com/golang-jwt/jwt/v5"
)

var validToken string

// nearMissKinds: derived from the valid token; every one of them fails signature verification
var nearMissKinds = []string{"v-sigcase", "v-paycase", "v-hdrcase", "v-lower", "v-upper", "v-sigtrunc", "v-sigchar", "v-nosig", "v-scheme-sigcase", "v-sigcase-last"}

// request-context kinds
var ctxKinds = []string{"cancelled", "expired"}

func flipCaseAt(s string, from int, backwards bool) string {
	r := []rune(s)
	step := 1
	if backwards {
		step = -1
	}
	for i := from; i >= 0 && i < len(r); i += step {
		if unicode.IsLetter(r[i]) && r[i] < 128 {
			if unicode.IsUpper(r[i]) {
				r[i] = unicode.ToLower(r[i])
			} else {
				r[i] = unicode.ToUpper(r[i])
			}
			return string(r)
		}
	}
	return s
}

func nearMissToken(kind string, claims jwt.MapClaims) string {
	if validToken == "" {
		t := jwt.NewWithClaims(jwt.SigningMethodRS512, claims)
		s, err := t.SignedString(nrfKey)
		if err != nil {
			panic(err)
		}
		validToken = s
	}
	seg := strings.Split(validToken, ".")
	if len(seg) != 3 {
		return ""
	}
	h, p, s := seg[0], seg[1], seg[2]
	out := ""
	switch kind {
	case "valid":
		return "Bearer " + validToken
	case "v-sigcase":
		out = "Bearer " + h + "." + p + "." + flipCaseAt(s, len(s)/2, false)
	case "v-sigcase-last":
		// the last character of a 256-octet signature carries 4 padding bits: skip it
		out = "Bearer " + h + "." + p + "." + flipCaseAt(s, len(s)-2, true)
	case "v-paycase":
		out = "Bearer " + h + "." + flipCaseAt(p, len(p)/2, false) + "." + s
	case "v-hdrcase":
		out = "Bearer " + flipCaseAt(h, len(h)/2, false) + "." + p + "." + s
	case "v-lower":
		out = strings.ToLower("Bearer " + validToken)
	case "v-upper":
		out = strings.ToUpper("Bearer " + validToken)
	case "v-sigtrunc":
		out = "Bearer " + h + "." + p + "." + s[:len(s)-4]
	case "v-sigchar":
		r := []byte(s)
		i := len(r) / 3
		if r[i] == 'A' {
			r[i] = 'B'
		} else {
			r[i] = 'A'
		}
		out = "Bearer " + h + "." + p + "." + string(r)
	case "v-nosig":
		out = "Bearer " + h + "." + p + "."
	case "v-scheme-sigcase":
		out = "bearer " + h + "." + p + "." + flipCaseAt(s, len(s)/4, false)
	}
	if out == "Bearer "+validToken {
		return ""
	}
	return out
}

func withRequestContext(req *http.Request, kind string) (*http.Request, func()) {
	switch kind {
	case "live":
		return req, func() {}
	case "cancelled":
		ctx, cancel := context.WithCancel(req.Context())
		cancel()
		return req.WithContext(ctx), func() {}
	case "expired":
		ctx, cancel := context.WithDeadline(req.Context(), time.Now().Add(-time.Second))
		return req.WithContext(ctx), cancel
	}
	return nil, nil
}

func authSupi() string {
	s := saltSupi("imsi-208930000000009")
	chfSupis[s] = true
	return s
}

// digest of everything a charging operation can change
func authStateDigest() string {
	sinkMu.Lock()
	n := len(sinkGot)
	sinkMu.Unlock()
	h := sha1.Sum([]byte(fmt.Sprintf("%s notified=%d", dumpState(), n)))
	return hex.EncodeToString(h[:8])
}

func authEnd() string {
	cleanupCdrFiles()
	os.Remove("/tmp/" + authSupi() + ".cdr")
	return "ok"
}

// genAuthHistories: for one service list (its routes as gin registered them)
func genAuthHistories(o genOpts, w *bufio.Writer, name string, facts []routeFact) {
	probe := func(f routeFact, kind, ctx string) {
		if ctx == "live" {
			fmt.Fprintf(w, "auth probe %s %s %s %s\n", name, f.Method, hexOf([]byte(f.Path)), kind)
		} else {
			fmt.Fprintf(w, "auth probe %s %s %s %s %s\n", name, f.Method, hexOf([]byte(f.Path)), kind, ctx)
		}
	}
	// (a) request contexts that are already over when the request reaches the router
	for _, f := range facts {
		for _, c := range ctxKinds {
			for _, k := range []string{"none", "garbage", "bearer-garbage", "wrong-key", "hs256"} {
				probe(f, k, c)
			}
		}
	}
	// (b) histories: a valid token, then its near misses (live and finished contexts), route by route
	r := &rng{s: o.seed*7919 + uint64(len(name))}
	for _, f := range facts {
		probe(f, "valid", "live")
		for _, k := range nearMissKinds {
			probe(f, k, "live")
		}
		probe(f, nearMissKinds[r.intn(len(nearMissKinds))], ctxKinds[r.intn(len(ctxKinds))])
		// the stateless kinds again, now that tokens have been accepted
		probe(f, tokenKinds[r.intn(len(tokenKinds))], "live")
	}
	// (c) every near miss on every route once more, after the whole list has seen the valid token
	for _, f := range facts {
		for _, k := range nearMissKinds {
			probe(f, k, "live")
		}
	}
	fmt.Fprintf(w, "auth end\n")
}
