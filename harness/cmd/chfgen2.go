//go:build verif

package main

import "strings"

// genTariffText produces stored unit-cost strings over the whole region in which the Value-Digits / Exponent
// representation is exercised: 1..20 significant digits (so Value-Digits crosses 2^32, 2^53, 2^63 and the int64
// range, where strconv.Atoi fails), a decimal point at any position (Exponent 0..19, so 10^Exponent crosses 2^32
// and 2^63), optional sign, leading zeros, digits near the powers of two.
func genTariffText(r *rng) string {
	var digits string
	switch r.intn(6) {
	case 0:
		// near a power of two
		digits = r.pickStr("4294967295", "4294967296", "4294967297", "9007199254740991", "9007199254740992", "9007199254740993",
			"9223372036854775807", "9223372036854775808", "18446744073709551615", "18446744073709551616", "2147483648", "65536",
			"99999999999999999999", "10000000000000000000", "1000000000000000000")
	default:
		n := 1 + r.intn(20)
		b := make([]byte, n)
		for i := range b {
			b[i] = byte('0' + r.intn(10))
		}
		if r.chance(70) && b[0] == '0' {
			b[0] = byte('1' + r.intn(9))
		}
		digits = string(b)
	}
	s := digits
	if r.chance(60) {
		// a decimal point somewhere (also first or last)
		p := r.intn(len(digits) + 1)
		s = digits[:p] + "." + digits[p:]
	}
	if r.chance(8) {
		s = r.pickStr("-", "+") + s
	}
	if r.chance(3) {
		s = strings.Replace(s, ".", "..", 1)
	}
	return s
}
