//go:build verif

package main

// Generator variants of the chf stream that live outside genChf's main loop.
//
//   -mode events     one-time events (`oneTimeEvent: true`, with and without usage) before, between, during and after
//                    the sessions of the same subscriber, followed by further creates / updates / releases / recharges;
//                    creates that OpenCDR refuses (malformed nFPLMNID, pDUSessionChargingInformation without S-NSSAI),
//                    session-based and one-time, between accepted ones; releases without FINAL that leave a reservation
//                    behind when the subscriber has no session left.
//                    Updates and releases addressed to the EMPTY reference after an event (the Location of an event
//                    create ends in an empty reference; it designates nothing: 404, no effect).  Refused creates with and
//                    without a notification address of their own, followed by a recharge (the notification must reach the
//                    address an ACCEPTED create registered).
//   -mode events-emptyref   (older name of the same)
//   -mode escapes    consumer names (hence references) with characters that are escaped in a URI: '%', "%25", "%2F",
//                    "%41", '+', ' ', '?', '#', ';' ... ; every returned reference is then updated and released, and
//                    references whose percent-DECODING would equal a live reference are sent as well (they designate nothing).
//
// The `one` token of a request is a flag word: bit 0 oneTimeEvent; bit 1 malformed nFPLMNID; bit 2
// pDUSessionChargingInformation without S-NSSAI (bits 1, 2: OpenCDR answers with an error).

import (
	"bufio"
	"fmt"
	"strconv"
	"strings"
	"unicode/utf8"

	"github.com/free5gc/openapi/models"
)

var chfGenModes = map[string]func(genOpts, *bufio.Writer){}

func init() {
	chfGenModes["events"] = genChfEvents
	chfGenModes["events-emptyref"] = genChfEvents
	chfGenModes["escapes"] = genChfEscapes
}

// contents of a create that the record validation of OpenCDR refuses; which shape is taken depends on the charging id
// only, so that an operation line always denotes the same request
var badPlmns = [][2]string{{"20", "93"}, {"2089", "93"}, {"", "93"}, {"208", "9"}, {"208", "9300"}, {"208", ""}, {"20", "9"}}

func applyCreateFlags(r *models.ChfConvergedChargingChargingDataRequest, f int64) {
	r.OneTimeEvent = f&1 != 0
	// bit 3: the consumer marks the request as a retransmission (the CHF at hand does nothing with the mark: the request is
	// handled like any other)
	r.RetransmissionIndicator = f&8 != 0
	k := int(r.ChargingId)
	if k < 0 {
		k = -k
	}
	if f&2 != 0 && r.NfConsumerIdentification != nil {
		p := badPlmns[k%len(badPlmns)]
		r.NfConsumerIdentification.NFPLMNID = &models.PlmnId{Mcc: p[0], Mnc: p[1]}
	}
	if f&4 != 0 {
		info := &models.ChfConvergedChargingPduSessionChargingInformation{ChargingId: r.ChargingId}
		switch k % 3 {
		case 1:
			info.PduSessionInformation = &models.ChfConvergedChargingPduSessionInformation{PduSessionID: 1}
		case 2:
			info.PduSessionInformation = &models.ChfConvergedChargingPduSessionInformation{PduSessionID: 1,
				NetworkSlicingInfo: &models.NetworkSlicingInfo{}}
		}
		r.PDUSessionChargingInformation = info
	}
}

type evGen struct {
	r       *rng
	w       *bufio.Writer
	lsn     int
	counter int // mirrors ChargingSessionSequence only to address requests (the check compares the real references)
	done    int
	sess    []*genSess
}

// one reported usage of rating group rg: requested volume, used volume around the last grant, 1-2 containers
func (g *evGen) usage(s *genSess, rg int, online bool) string {
	r := g.r
	req := r.pick(0, 1, 50, 100, 100, 101, 250)
	lg := 0
	if s != nil {
		lg = s.lastGrant[rg]
	} else {
		lg = r.pick(0, 5, 40, 100) // an event reports what it consumed
	}
	used := 0
	switch r.intn(5) {
	case 0:
		used = 0
	case 1:
		used = lg
	case 2:
		used = lg / 2
	case 3:
		used = lg + r.pick(0, 1, 7)
	default:
		used = r.intn(lg + 1)
	}
	qmi := 1
	if !online {
		qmi = r.pick(2, 2, 0, 3)
	}
	reqTok := strconv.Itoa(req)
	if r.chance(15) {
		reqTok = "~"
	}
	nc := 1
	if r.chance(20) {
		nc = 2
	}
	var conts []string
	left := used
	for c := 0; c < nc; c++ {
		part := left
		if c < nc-1 {
			part = left / 2
		}
		left -= part
		g.lsn++
		conts = append(conts, fmt.Sprintf("%d %d %d %d %d %d", qmi, part, part/2, part-part/2, r.intn(3), g.lsn))
	}
	if s != nil {
		s.lastGrant[rg] = req
	}
	return fmt.Sprintf("%d %s %s %d %s", rg, reqTok, hexOf([]byte("upf1")), nc, strings.Join(conts, " "))
}

func (g *evGen) event(supi, nf string, flags int) {
	r := g.r
	var usages, trigs []string
	switch r.intn(4) {
	case 0, 1: // an event without usage
	case 2:
		usages = append(usages, g.usage(nil, r.pick(1, 2), true))
	default:
		usages = append(usages, g.usage(nil, 1, r.chance(70)), g.usage(nil, 2, true))
	}
	if r.chance(25) {
		trigs = append(trigs, r.pickStr("F", "V", "Q", "X"))
	}
	fmt.Fprintf(g.w, "chf create %s\n", fmtReq(supi, nf, 200+g.done%50, 0, g.r.pick(1, 0), flags|1, trigs, usages))
	g.done++
}

func (g *evGen) session(supi, nf string) *genSess {
	var usages []string
	if g.r.chance(15) {
		usages = append(usages, g.usage(nil, g.r.pick(1, 2), true))
	}
	fmt.Fprintf(g.w, "chf create %s\n", fmtReq(supi, nf, 100+len(g.sess), 0, 1, 0, nil, usages))
	if strings.Contains(nf, "/") || strings.ContainsFunc(nf, func(r rune) bool { return r < 0x20 || r == 0x7f }) {
		// a name with a path separator or a control character opens no session (the reference could not be named / handed
		// to the consumer): refused, no number is used up
		g.done++
		return nil
	}
	s := &genSess{supi: supi, nf: nf, sid: supi + nf + "-" + strconv.Itoa(g.counter), lastGrant: map[int]int{}, live: true}
	g.counter++
	g.done++
	g.sess = append(g.sess, s)
	return s
}

// a create that OpenCDR refuses; a session-based one uses up a sequence number all the same.  It comes with or without a
// notification address of its own (which must not replace the registered one), and is sometimes followed by a recharge
func (g *evGen) refused(supi, nf string, oneTime bool) {
	flags := g.r.pick(2, 2, 4, 6)
	if oneTime {
		flags |= 1
	} else {
		g.counter++
	}
	fmt.Fprintf(g.w, "chf create %s\n", fmtReq(supi, nf, 300+g.r.intn(21), 0, g.r.pick(0, 1), flags, nil, nil))
	g.done++
	if g.r.chance(40) {
		fmt.Fprintf(g.w, "chf recharge %s\n", hexOf([]byte(supi+"_"+strconv.Itoa(g.r.pick(1, 2)))))
	}
}

func (g *evGen) update(s *genSess, seq int, rgs []int, trigs []string) {
	var usages []string
	for _, rg := range rgs {
		usages = append(usages, g.usage(s, rg, g.r.chance(90)))
	}
	fmt.Fprintf(g.w, "chf update %s %s\n", hexOf([]byte(s.sid)), fmtReq(s.supi, s.nf, 100, seq, 1, 0, trigs, usages))
	g.done++
}

func (g *evGen) release(s *genSess, seq int, rgs []int, final bool) {
	var usages, trigs []string
	for _, rg := range rgs {
		usages = append(usages, g.usage(s, rg, true))
	}
	if final {
		trigs = []string{"F"}
	}
	fmt.Fprintf(g.w, "chf release %s %s\n", hexOf([]byte(s.sid)), fmtReq(s.supi, s.nf, 100, seq, 1, 0, trigs, usages))
	s.live = false
	g.done++
}

func (g *evGen) liveOf(supi string) []*genSess {
	var out []*genSess
	for _, s := range g.sess {
		if s.live && s.supi == supi {
			out = append(out, s)
		}
	}
	return out
}

func genChfEvents(o genOpts, w *bufio.Writer) {
	g := &evGen{r: &rng{s: o.seed ^ 0x6576656e7473}, w: w}
	r := g.r
	emptyRef := true
	for g.done < o.n {
		fmt.Fprintf(w, "chf reset\n")
		g.counter, g.sess = 0, nil
		nsub := 1 + r.intn(2)
		var supis []string
		for s := 0; s < nsub; s++ {
			supi := fmt.Sprintf("imsi-20895%04d%06d", o.seed%10000, r.intn(1000000))
			supis = append(supis, supi)
			cost := r.pick(1, 2, 3, 7)
			for _, rg := range []int{1, 2} {
				bal := r.pick(0, 150, 200, 999, 5000, 100000) * r.pick(1, cost)
				fmt.Fprintf(w, "chf acct %s %d %s %s\n", hexOf([]byte(supi)), rg, hexOf([]byte(strconv.Itoa(bal))), hexOf([]byte(strconv.Itoa(cost))))
			}
		}
		supi := supis[0]
		nf := r.pickStr("smf", "smf1", "a")
		seq := 1
		// a skeleton that places the event relative to the subscriber's sessions, then random steps
		switch r.intn(6) {
		case 0: // event before anything else of the subscriber
			g.event(supi, nf, 0)
			s := g.session(supi, nf)
			g.update(s, seq, []int{1}, nil)
		case 1: // event between two sessions; the first one leaves a reservation behind (released without FINAL)
			s := g.session(supi, nf)
			g.update(s, seq, []int{r.pick(1, 2)}, nil)
			if r.chance(50) {
				g.update(s, seq+1, []int{1, 2}, nil)
			}
			g.release(s, seq+2, []int{r.pick(1, 2)}[:r.intn(2)], false)
			g.event(supi, nf, 0)
			s2 := g.session(supi, nf)
			g.update(s2, seq+3, []int{1, 2}, nil)
			g.release(s2, seq+4, []int{1, 2}, true)
		case 2: // event while a session is open
			s := g.session(supi, nf)
			g.update(s, seq, []int{1}, nil)
			g.event(supi, r.pickStr(nf, "nef"), 0)
			g.update(s, seq+1, []int{1}, nil)
		case 3: // a refused create first (the context exists, without any session), then an event
			g.refused(supi, nf, r.chance(30))
			g.event(supi, nf, 0)
			if r.chance(50) {
				fmt.Fprintf(w, "chf recharge %s\n", hexOf([]byte(supi+"_1")))
			}
		case 4: // two sessions, one released with FINAL, event, the other goes on
			s1 := g.session(supi, nf)
			s2 := g.session(supi, nf)
			g.update(s1, seq, []int{1}, nil)
			g.update(s2, seq, []int{2}, nil)
			g.release(s1, seq+1, []int{1}, true)
			g.event(supi, nf, 0)
			g.update(s2, seq+2, []int{1, 2}, nil)
		default:
		}
		steps := 5 + r.intn(9)
		for i := 0; i < steps && g.done < o.n; i++ {
			sp := supis[r.intn(len(supis))]
			live := g.liveOf(sp)
			switch k := r.intn(20); {
			case k < 4:
				g.event(sp, r.pickStr(nf, nf, "nef", ""), 0)
				if emptyRef && r.chance(60) {
					// the Location of an event ends in an empty reference: requests addressed to it
					op := r.pickStr("update", "update", "release")
					fmt.Fprintf(w, "chf %s - %s\n", op, fmtReq(sp, nf, 100, 50+i, 1, 0, nil, []string{g.usage(nil, 1, true)}))
					g.done++
				}
			case k < 6:
				g.refused(sp, nf, r.chance(30))
			case k < 9 && len(live) < 3:
				g.session(sp, r.pickStr(nf, nf, "a1"))
			case k < 15 && len(live) > 0:
				s := live[r.intn(len(live))]
				var trigs []string
				if r.chance(12) {
					trigs = []string{"F"}
				} else if r.chance(12) {
					trigs = []string{r.pickStr("V", "Q", "M", "I", "X")}
				}
				g.update(s, 10+i, [][]int{{1}, {2}, {1, 2}}[r.intn(3)], trigs)
			case k < 18 && len(live) > 0:
				s := live[r.intn(len(live))]
				g.release(s, 10+i, [][]int{{}, {1}, {2}, {1, 2}}[r.intn(4)], r.chance(40))
			default:
				if k < 18 && r.chance(70) {
					continue
				}
				rg := r.pick(1, 2)
				fmt.Fprintf(w, "chf credit %s %d %d\n", hexOf([]byte(sp)), rg, r.pick(100, 1000, 5000))
				fmt.Fprintf(w, "chf recharge %s\n", hexOf([]byte(sp+"_"+strconv.Itoa(rg))))
			}
		}
	}
	fmt.Fprintf(w, "chf end\n")
}

// consumer names with characters that are escaped in a URI; the generator's escapePath encodes them once, as a correct client does
var escapeNames = []string{"smf%41", "smfA", "smf%2541", "smf%", "%", "%%", "a%2Fb", "a%2fb", "a+b", "a b", "a%20b", "smf%25", "%41", "A",
	"smf?x", "smf#1", "smf;v=1", "smf%zz", "smf%4", "é", "smf%C3%A9", "a%00", "100%", "%2E%2E", "a=b&c",
	// a path separator in the name: a reference built from it could not be the last element of a resource URI
	"a/b", "/", "smf/1", "a//b", "smf/",
	// a control character in the name: the Location header could not carry the reference
	"smf\n1", "smf\x01", "smf\x7f", "\r", "a\tb"}

// every way of writing one octet of s as %XX (upper / lower case hex), at most n variants
func percentVariants(s string, r *rng, n int) []string {
	var out []string
	for i := 0; i < len(s) && len(out) < n; i++ {
		j := r.intn(len(s))
		if s[j] >= 0x80 {
			continue // (a JSON string cannot carry half a multi-octet character)
		}
		enc := fmt.Sprintf("%%%02X", s[j])
		if r.chance(30) {
			enc = strings.ToLower(enc)
		}
		out = append(out, s[:j]+enc+s[j+1:])
	}
	return out
}

// the once-decoded form of s, when it has one and it differs
func unescapeOnce(s string) (string, bool) {
	var sb strings.Builder
	changed := false
	for i := 0; i < len(s); i++ {
		if s[i] == '%' && i+2 < len(s) {
			if v, err := strconv.ParseUint(s[i+1:i+3], 16, 8); err == nil {
				sb.WriteByte(byte(v))
				i += 2
				changed = true
				continue
			}
		}
		sb.WriteByte(s[i])
	}
	return sb.String(), changed && utf8.ValidString(sb.String())
}

func genChfEscapes(o genOpts, w *bufio.Writer) {
	g := &evGen{r: &rng{s: o.seed ^ 0x657363}, w: w}
	r := g.r
	for g.done < o.n {
		fmt.Fprintf(w, "chf reset\n")
		g.counter, g.sess = 0, nil
		supi := fmt.Sprintf("imsi-20896%04d%06d", o.seed%10000, r.intn(1000000))
		cost := r.pick(1, 2, 3)
		for _, rg := range []int{1, 2} {
			fmt.Fprintf(w, "chf acct %s %d %s %s\n", hexOf([]byte(supi)), rg, hexOf([]byte(strconv.Itoa(100000*cost))), hexOf([]byte(strconv.Itoa(cost))))
		}
		// 2-4 sessions whose names are related by percent-decoding
		base := r.intn(len(escapeNames))
		ns := 2 + r.intn(3)
		for k := 0; k < ns; k++ {
			nf := escapeNames[(base+k*r.pick(1, 1, 2, 7))%len(escapeNames)]
			if r.chance(25) {
				// a name built from the previous session's name by escaping one of its octets (or by decoding it)
				if len(g.sess) > 0 {
					prev := g.sess[len(g.sess)-1].nf
					if d, ok := unescapeOnce(prev); ok && r.chance(50) && !strings.ContainsAny(d, "/\x00") {
						nf = d
					} else if v := percentVariants(prev, r, 1); len(v) > 0 {
						nf = v[0]
					}
				}
			}
			g.session(supi, nf)
		}
		steps := 6 + r.intn(8)
		for i := 0; i < steps && g.done < o.n; i++ {
			live := g.liveOf(supi)
			if len(live) == 0 {
				break
			}
			s := live[r.intn(len(live))]
			switch k := r.intn(10); {
			case k < 5:
				g.update(s, 10+i, []int{r.pick(1, 2)}, nil)
			case k < 6:
				g.release(s, 10+i, []int{1}, r.chance(50))
			default:
				// a reference nobody handed out whose percent-decoding is (or would be) a live reference, and the
				// decoded form of a live reference: both designate nothing
				ref := ""
				if d, ok := unescapeOnce(s.sid); ok && r.chance(50) {
					ref = d
				} else if v := percentVariants(s.sid, r, 1); len(v) > 0 {
					ref = v[0]
				}
				if ref == "" || strings.ContainsAny(ref, "/\x00") {
					continue
				}
				isLive := false
				for _, x := range live {
					if x.sid == ref {
						isLive = true
					}
				}
				if isLive {
					continue
				}
				op := r.pickStr("update", "update", "release")
				fmt.Fprintf(w, "chf %s %s %s\n", op, hexOf([]byte(ref)), fmtReq(supi, s.nf, 100, 10+i, 1, 0, nil, []string{g.usage(nil, 1, true)}))
				g.done++
			}
		}
	}
	fmt.Fprintf(w, "chf end\n")
}
