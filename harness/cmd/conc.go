//go:build verif

package main

// stream "conc" (C09): the chf stream's operations, some of them in flight together.
//
//   conc seq <chf operation>     run it alone (same observation as the chf stream)
//   conc par <chf operation>     queue it for the next batch (create / update / release / recharge only)
//   conc go                      release the queued requests together, wait (20 s deadline), then observe:
//                                  done=<0|1> n=<k> r=<response summary of each request, in queue order, ';'-separated> <state dump>
//   conc fu                      every session acknowledged (201) by the last batch is updated and released;
//                                  fu=<status/status,...> (each under a 10 s deadline; `hang` otherwise)
//
//   conc first <supiPrefixHex> <rounds>      first contact over and over: accepted and refused creates of a never-seen subscriber together (conc_first.go)
//   conc hammer <roles> <supiHex> <rounds>   loops of requests on one subscriber by several goroutines (conc_hammer.go)
//
// The requests of a batch are prepared (bodies marshalled) before the barrier opens; only the HTTP exchange
// itself runs concurrently.
//
// generator modes: "" (C09: everything), newsupi, stale, events (batches with one-time events), hammer-refs,
// hammer-lookup, hammer-events (only the hammer lines of that family)

import (
	"bufio"
	"encoding/json"
	"fmt"
	"net/http/httptest"
	"sort"
	"strconv"
	"strings"
	"sync"
	"time"

	chf_context "github.com/free5gc/chf/internal/context"
)

type concReq struct {
	method, path string
	body         []byte
	supi         string
}

var (
	concQueue []concReq
	concAcked []concReq // sessions created by the last batch: path = reference, supi
)

func init() {
	streams["conc"] = &stream{
		setup: func() { startChf([]string{"nchf-convergedcharging"}, false) },
		gen:   genConc,
		run:   runConc,
	}
}

func prepare(t []string) (concReq, bool) {
	p := &tk{t: t[1:], ok: true}
	switch t[0] {
	case "create":
		r := parseReq(p)
		if !p.ok || len(p.t) != 0 {
			return concReq{}, false
		}
		r.NotifyUri = ""
		chfSupis[r.SubscriberIdentifier] = true
		b, _ := json.Marshal(r)
		return concReq{"POST", ccPrefix + "/chargingdata", b, r.SubscriberIdentifier}, true
	case "update", "release":
		sid := p.hexs()
		r := parseReq(p)
		if !p.ok || len(p.t) != 0 {
			return concReq{}, false
		}
		r.NotifyUri = ""
		chfSupis[r.SubscriberIdentifier] = true
		b, _ := json.Marshal(r)
		return concReq{"POST", ccPrefix + "/chargingdata/" + escapePath(sid) + "/" + t[0], b, r.SubscriberIdentifier}, true
	case "recharge":
		info := p.hexs()
		if !p.ok {
			return concReq{}, false
		}
		return concReq{"PUT", ccPrefix + "/recharging/" + escapePath(info), nil, ""}, true
	}
	return concReq{}, false
}

func runConc(line string, t []string) string {
	if len(t) == 0 {
		return "bad-op"
	}
	if concWedged && !(t[0] == "seq" && len(t) > 1 && (t[1] == "reset" || t[1] == "acct" || t[1] == "end" || t[1] == "slowdb")) && t[0] != "cgf" {
		// a batch did not return (deadlock): whatever is sent now may block for ever (conc_cgf.go)
		return "skipped"
	}
	switch t[0] {
	case "cgf":
		return runCgf(t[1:]) // conc_cgf.go
	case "seq":
		if len(t) < 2 {
			return "bad-op"
		}
		if t[1] == "reset" {
			concQueue, concAcked = nil, nil
		}
		return runChf(line, t[1:])
	case "par":
		if len(t) < 2 {
			return "bad-op"
		}
		q, ok := prepare(t[1:])
		if !ok {
			return "bad-op"
		}
		concQueue = append(concQueue, q)
		return "queued"
	case "go":
		k := len(concQueue)
		rsp := make([]*httptest.ResponseRecorder, k)
		var wg sync.WaitGroup
		barrier := make(chan struct{})
		queue := concQueue // (a request that never returns must not be looking at the variable the next operation resets)
		for i := range queue {
			wg.Add(1)
			go func(i int) {
				defer wg.Done()
				<-barrier
				rsp[i] = doHTTP(queue[i].method, queue[i].path, queue[i].body)
			}(i)
		}
		close(barrier)
		fin := make(chan struct{})
		go func() { wg.Wait(); close(fin) }()
		select {
		case <-fin:
		case <-time.After(20 * time.Second):
			concQueue = nil
			concWedged = true
			return fmt.Sprintf("done=0 n=%d", k)
		}
		var rs []string
		concAcked = nil
		for i, w := range rsp {
			rs = append(rs, strings.ReplaceAll(respSummary(w), " ", ","))
			if w.Code == 201 {
				if l := w.Header().Get("Location"); l != "" {
					// (a one-time event acknowledges no session: the reference part of its Location is empty)
					if j := strings.LastIndex(l, "/chargingdata/"); j >= 0 && l[j+len("/chargingdata/"):] != "" {
						concAcked = append(concAcked, concReq{path: l[j+len("/chargingdata/"):], supi: concQueue[i].supi})
					}
				}
			}
		}
		concQueue = nil
		return fmt.Sprintf("done=1 n=%d r=%s %s", k, strings.Join(rs, ";"), dumpState())
	case "notify":
		// conc notify slow|reenter: a recharge notification to a consumer that is not passive (see notifyCase)
		if len(t) != 2 || (t[1] != "slow" && t[1] != "reenter") {
			return "bad-op"
		}
		concQueue, concAcked = nil, nil
		return notifyCase("notify" + t[1])
	case "burst":
		// conc burst <n> <supiPrefixHex> <rounds>: n goroutines, one new subscriber each, leave a barrier together and
		// send <rounds> creates each; observation (quiescent): the record numbers (LocalRecordSequenceNumber) of all
		// records: lsn=<count>:<min>:<max>:<numbers held by more than one record, at most 10>
		p := &tk{t: t[1:], ok: true}
		n, pre, rounds := int(p.i()), p.hexs(), int(p.i())
		if !p.ok || n < 1 || n > 256 || rounds < 1 || rounds > 1000 {
			return "bad-op"
		}
		runChf("chf reset", []string{"reset"})
		concQueue, concAcked = nil, nil
		bodies := make([][]byte, n)
		supis := make([]string, n)
		for i := range bodies {
			supis[i] = fmt.Sprintf("%s%03d", pre, i)
			r := onlineUpdate(supis[i], "", 0, 0)
			r.MultipleUnitUsage = nil
			bodies[i], _ = json.Marshal(r)
		}
		created := make([]int, n)
		var wg sync.WaitGroup
		barrier := make(chan struct{})
		for i := range bodies {
			wg.Add(1)
			go func(i int) {
				defer wg.Done()
				<-barrier
				for k := 0; k < rounds; k++ {
					if doHTTP("POST", ccPrefix+"/chargingdata", bodies[i]).Code == 201 {
						created[i]++
					}
				}
			}(i)
		}
		close(barrier)
		fin := make(chan struct{})
		go func() { wg.Wait(); close(fin) }()
		select {
		case <-fin:
		case <-time.After(60 * time.Second):
			return fmt.Sprintf("done=0 n=%d", n*rounds)
		}
		count := map[int]int{}
		ok, total, lo, hi := 0, 0, 0, 0
		for i, s := range supis {
			ok += created[i]
			if ue, found := chf_context.GetSelf().ChfUeFindBySupi(s); found {
				ue.CULock.Lock()
				for _, rec := range ue.Records {
					if rec != nil && rec.ChargingFunctionRecord != nil && rec.ChargingFunctionRecord.LocalRecordSequenceNumber != nil {
						v := int(rec.ChargingFunctionRecord.LocalRecordSequenceNumber.Value)
						count[v]++
						if total == 0 || v < lo {
							lo = v
						}
						if total == 0 || v > hi {
							hi = v
						}
						total++
					}
				}
				ue.CULock.Unlock()
			}
		}
		var dups []int
		for v, c := range count {
			if c > 1 {
				dups = append(dups, v)
			}
		}
		sort.Ints(dups)
		if len(dups) > 10 {
			dups = dups[:10]
		}
		ds := make([]string, len(dups))
		for i, v := range dups {
			ds[i] = strconv.Itoa(v)
		}
		cleanupCdrFiles()
		return fmt.Sprintf("done=1 n=%d created=%d lsn=%d:%d:%d:%s", n*rounds, ok, total, lo, hi, strings.Join(ds, ","))
	case "hammer":
		return runHammer(t[1:]) // conc_hammer.go
	case "first":
		return runConcFirst(t[1:]) // conc_first.go
	case "fu":
		var out []string
		for i, a := range concAcked {
			st := []string{}
			for j, kind := range []string{"update", "release"} {
				r := onlineUpdate(a.supi, a.path, 900+2*i+j, 0)
				r.MultipleUnitUsage = nil
				b, _ := json.Marshal(r)
				c, ok := post(ccPrefix+"/chargingdata/"+escapePath(a.path)+"/"+kind, b, 10*time.Second)
				if !ok {
					st = append(st, "hang")
					break
				}
				st = append(st, strconv.Itoa(c))
			}
			out = append(out, strings.Join(st, "/"))
		}
		if len(out) == 0 {
			return "fu=-"
		}
		return "fu=" + strings.Join(out, ",")
	}
	return "bad-op"
}

// the hammer lines of a family: which roles run together, how many rounds each foreground role makes
var hammerFamilies = map[string][]string{
	// references: creates refused by OpenCDR (of another / of the same subscriber) next to pairs of sessions
	"hammer-refs": {"XSS", "XXSS", "xSS", "XxSC"},
	// session-map lookups: requests naming unknown references next to creates / releases / updates of the same subscriber
	"hammer-lookup": {"UCC", "RCC", "URVC", "URSC"},
	// one-time events next to creates, updates and releases of the same subscriber
	"hammer-events": {"ECC", "EV", "EVS", "ExCS"},
}

func genHammers(o genOpts, w *bufio.Writer, families ...string) {
	r := &rng{s: o.seed ^ 0x68616d}
	rounds := 40
	if o.tier == "thorough" {
		rounds = 150
	}
	k := 0
	for _, f := range families {
		for _, roles := range hammerFamilies[f] {
			k++
			n := rounds
			if f == "hammer-refs" {
				n = rounds * 3 / 2 // (atomic counters: nothing for the race detector to see, the collision has to happen)
			}
			fmt.Fprintf(w, "conc hammer %s %s %d\n", roles, hexOf([]byte(fmt.Sprintf("imsi-20897%04d%03d%03d", o.seed%10000, k, r.intn(1000)))), n)
		}
		if f == "hammer-events" {
			// first contact over and over: an accepted, another accepted and a refused create for a never-seen subscriber together
			n := 600
			if o.tier == "thorough" {
				n = 3000
			}
			fmt.Fprintf(w, "conc first %s %d\n", hexOf([]byte(fmt.Sprintf("imsi-2%04d%02d", o.seed%10000, r.intn(100)))), n)
		}
	}
}

// CDR transfer to the billing domain (cgf enabled): requests while the FTP control connection is up, after the billing domain
// has dropped it, and while the billing domain is unreachable.  One request at a time (deadline of a batch: 20 s): what is
// looked for is a transfer that blocks its request, and with it every later one; then batches of requests of different
// subscribers in flight together (they share the one FTP control connection).  A stream of its own (-mode cgf), run last.
func genCgf(o genOpts, w *bufio.Writer) {
	r := &rng{s: o.seed ^ 0x636766}
	lsn := 100000
	one := func(k int, phase string) {
		supi := fmt.Sprintf("imsi-20898%04d%03d%03d", o.seed%10000, k, r.intn(1000))
		fmt.Fprintf(w, "conc seq reset\n")
		fmt.Fprintf(w, "conc seq acct %s 1 %s %s\n", hexOf([]byte(supi)), hexOf([]byte("100000")), hexOf([]byte("2")))
		fmt.Fprintf(w, "conc cgf %s\n", phase)
		fmt.Fprintf(w, "conc par create %s\n", fmtReq(supi, "smf", 100, 0, 0, 0, nil, nil))
		fmt.Fprintf(w, "conc go\n")
		fmt.Fprintf(w, "conc fu\n")
	}
	fmt.Fprintf(w, "conc cgf up\n")
	k := 0
	for _, phase := range []string{"up", "drop", "up", "down", "up", "drop"} {
		k++
		one(k, phase)
		_ = lsn
	}
	// requests in flight together while the connection is up, and right after the billing domain dropped it
	for b := 0; b < 4; b++ {
		fmt.Fprintf(w, "conc seq reset\n")
		n := r.pick(3, 4, 5)
		var sup []string
		for j := 0; j < n; j++ {
			sp := fmt.Sprintf("imsi-20899%04d%02d%d", o.seed%10000, b, j)
			sup = append(sup, sp)
			fmt.Fprintf(w, "conc seq acct %s 1 %s %s\n", hexOf([]byte(sp)), hexOf([]byte("100000")), hexOf([]byte("2")))
		}
		fmt.Fprintf(w, "conc cgf %s\n", []string{"up", "drop", "up", "drop"}[b])
		for _, sp := range sup {
			fmt.Fprintf(w, "conc par create %s\n", fmtReq(sp, "smf", 100, 0, 0, 0, nil, nil))
		}
		fmt.Fprintf(w, "conc go\n")
		fmt.Fprintf(w, "conc fu\n")
	}
	// what arrives in the billing domain is a whole CDR file: loops of creates / one-time events / pairs of sessions next to
	// the updates of a session that stays open (every update rewrites the subscriber's file, every request transfers it)
	fmt.Fprintf(w, "conc cgf up\n")
	rounds := 500
	if o.tier == "thorough" {
		rounds = 2000
	}
	for j, roles := range []string{"CV", "EV", "SV"} {
		fmt.Fprintf(w, "conc hammer %s %s %d\n", roles, hexOf([]byte(fmt.Sprintf("imsi-20896%04d%03d%03d", o.seed%10000, j, r.intn(1000)))), rounds)
	}
	fmt.Fprintf(w, "conc cgf off\n")
}

func genConc(o genOpts, w *bufio.Writer) {
	if o.mode == "cgf" {
		genCgf(o, w)
		fmt.Fprintf(w, "conc seq end\n")
		return
	}
	if _, ok := hammerFamilies[o.mode]; ok {
		genHammers(o, w, o.mode)
		fmt.Fprintf(w, "conc seq end\n")
		return
	}
	r := &rng{s: o.seed}
	lsn := 0
	acct := func(supi string, rg, bal, cost int) {
		fmt.Fprintf(w, "conc seq acct %s %d %s %s\n", hexOf([]byte(supi)), rg, hexOf([]byte(strconv.Itoa(bal))), hexOf([]byte(strconv.Itoa(cost))))
	}
	usage := func(rg, req, used int) string {
		lsn++
		return fmt.Sprintf("%d %d %s 1 1 %d %d %d 0 %d", rg, req, hexOf([]byte("upf1")), used, used/2, used-used/2, lsn)
	}
	sizes := []int{2, 2, 3, 3, 4}
	if o.tier == "thorough" {
		sizes = []int{2, 3, 4, 4, 5, 8, 16}
	}
	for i := 0; i < o.n; i++ {
		fmt.Fprintf(w, "conc seq reset\n")
		k := sizes[r.intn(len(sizes))]
		supi := fmt.Sprintf("imsi-20893%04d%06d", o.seed%10000, i)
		cost := r.pick(1, 2, 3)
		counter := 0
		scen := r.intn(6)
		if o.mode == "events" {
			scen = 5
			k = r.pick(3, 4, 5)
		}
		if o.mode == "newsupi" {
			scen = 2
			k = r.pick(4, 6, 8)
		}
		if o.mode == "stale" {
			scen = 4
			k = r.pick(3, 4, 5)
		}
		switch scen {
		case 4:
			// one session: updates and its release together (an update behind the release names a stale reference)
			acct(supi, 1, 100000, cost)
			fmt.Fprintf(w, "conc seq create %s\n", fmtReq(supi, "smf", 100, 0, 0, 0, nil, nil))
			sid := supi + "smf-0"
			fmt.Fprintf(w, "conc seq update %s %s\n", hexOf([]byte(sid)), fmtReq(supi, "smf", 100, 1, 0, 0, nil, []string{usage(1, 100, 0)}))
			rel := r.intn(k)
			// the consumer repeats the release (it got no answer yet): the copy served second names a stale reference
			rel2 := -1
			if r.chance(50) {
				rel2 = (rel + 1 + r.intn(k-1)) % k
			}
			// the account store answers slowly, so that requests queue behind the one in progress
			fmt.Fprintf(w, "conc seq slowdb %d\n", r.pick(5, 20, 40))
			for j := 0; j < k; j++ {
				if j == rel || j == rel2 {
					fmt.Fprintf(w, "conc par release %s %s\n", hexOf([]byte(sid)), fmtReq(supi, "smf", 100, 2+j, 0, 0, nil, []string{usage(1, 0, r.pick(5, 20))}))
				} else {
					fmt.Fprintf(w, "conc par update %s %s\n", hexOf([]byte(sid)), fmtReq(supi, "smf", 100, 2+j, 0, 0, nil, []string{usage(1, r.pick(0, 100), r.pick(5, 25))}))
				}
			}
		case 0:
			// one subscriber, one rating group, one session: k updates in flight together
			acct(supi, 1, r.pick(100000, 500, 50)*cost, cost)
			fmt.Fprintf(w, "conc seq create %s\n", fmtReq(supi, "smf", 100, 0, 0, 0, nil, nil))
			sid := supi + "smf-0"
			fmt.Fprintf(w, "conc seq update %s %s\n", hexOf([]byte(sid)), fmtReq(supi, "smf", 100, 1, 0, 0, nil, []string{usage(1, 100, 0)}))
			for j := 0; j < k; j++ {
				fmt.Fprintf(w, "conc par update %s %s\n", hexOf([]byte(sid)), fmtReq(supi, "smf", 100, 2+j, 0, 0, nil, []string{usage(1, r.pick(50, 100), r.pick(0, 10, 30))}))
			}
		case 1:
			// one subscriber: updates of two sessions, a release and a recharge notification together
			acct(supi, 1, 100000, cost)
			acct(supi, 2, 100000, cost)
			for s := 0; s < 2; s++ {
				fmt.Fprintf(w, "conc seq create %s\n", fmtReq(supi, "smf", 100+s, 0, 0, 0, nil, nil))
			}
			sids := []string{supi + "smf-0", supi + "smf-1"}
			for s := 0; s < 2; s++ {
				fmt.Fprintf(w, "conc seq update %s %s\n", hexOf([]byte(sids[s])), fmtReq(supi, "smf", 100, 1, 0, 0, nil, []string{usage(1+s, 100, 0)}))
			}
			for j := 0; j < k; j++ {
				switch {
				case j == 1:
					fmt.Fprintf(w, "conc par release %s %s\n", hexOf([]byte(sids[1])), fmtReq(supi, "smf", 100, 9, 0, 0, nil, []string{usage(2, 0, 20)}))
				case j == 2:
					fmt.Fprintf(w, "conc par recharge %s\n", hexOf([]byte(supi+"_1")))
				default:
					fmt.Fprintf(w, "conc par update %s %s\n", hexOf([]byte(sids[0])), fmtReq(supi, "smf", 100, 2+j, 0, 0, nil, []string{usage(1, 100, r.pick(5, 25))}))
				}
			}
		case 5:
			// one subscriber with an open session: one-time events (with and without usage), further session creates and
			// updates and the release of the open session together
			acct(supi, 1, 100000, cost)
			fmt.Fprintf(w, "conc seq create %s\n", fmtReq(supi, "smf", 100, 0, 0, 0, nil, nil))
			sid := supi + "smf-0"
			fmt.Fprintf(w, "conc seq update %s %s\n", hexOf([]byte(sid)), fmtReq(supi, "smf", 100, 1, 0, 0, nil, []string{usage(1, 100, 0)}))
			if r.chance(50) {
				fmt.Fprintf(w, "conc seq create %s\n", fmtReq(supi, "smf", 150, 0, 0, 1, nil, nil))
			}
			relAt := r.intn(k)
			for j := 0; j < k; j++ {
				switch {
				case j == relAt:
					fmt.Fprintf(w, "conc par release %s %s\n", hexOf([]byte(sid)), fmtReq(supi, "smf", 100, 9, 0, 0, nil, []string{usage(1, 0, r.pick(5, 20))}))
				case r.chance(55):
					var us []string
					if r.chance(50) {
						us = []string{usage(1, 0, r.pick(1, 7))}
					}
					fmt.Fprintf(w, "conc par create %s\n", fmtReq(supi, r.pickStr("smf", "nef"), 200+j, 0, 0, 1, nil, us))
				case r.chance(40):
					fmt.Fprintf(w, "conc par update %s %s\n", hexOf([]byte(sid)), fmtReq(supi, "smf", 100, 2+j, 0, 0, nil, []string{usage(1, 100, r.pick(5, 25))}))
				default:
					fmt.Fprintf(w, "conc par create %s\n", fmtReq(supi, "smf", 100+j, 0, 0, 0, nil, nil))
				}
			}
		case 2:
			// k creates for the same new subscriber together
			acct(supi, 1, 100000, cost)
			for j := 0; j < k; j++ {
				fmt.Fprintf(w, "conc par create %s\n", fmtReq(supi, r.pickStr("smf", "smf", "a"), 100+j, 0, 0, 0, nil, nil))
			}
		default:
			// different subscribers: creates and updates together
			var sids []string
			for j := 0; j < k; j++ {
				s2 := fmt.Sprintf("%s%d", supi[:len(supi)-1], j)
				acct(s2, 1, 100000, cost)
				if j%2 == 0 {
					fmt.Fprintf(w, "conc seq create %s\n", fmtReq(s2, "smf", 100, 0, 0, 0, nil, nil))
					sids = append(sids, s2+"smf-"+strconv.Itoa(counter))
					counter++
				} else {
					sids = append(sids, "")
				}
			}
			for j := 0; j < k; j++ {
				s2 := fmt.Sprintf("%s%d", supi[:len(supi)-1], j)
				if j%2 == 0 {
					fmt.Fprintf(w, "conc par update %s %s\n", hexOf([]byte(sids[j])), fmtReq(s2, "smf", 100, 1, 0, 0, nil, []string{usage(1, 100, 0)}))
				} else {
					fmt.Fprintf(w, "conc par create %s\n", fmtReq(s2, "smf", 100, 0, 0, 0, nil, nil))
				}
			}
		}
		fmt.Fprintf(w, "conc go\n")
		fmt.Fprintf(w, "conc fu\n")
	}
	if o.mode == "" {
		genHammers(o, w, "hammer-events", "hammer-lookup", "hammer-refs")
	}
	if o.mode == "" {
		// a consumer that is not passive during a recharge notification; bursts of creates for new subscribers
		fmt.Fprintf(w, "conc notify reenter\n")
		fmt.Fprintf(w, "conc notify slow\n")
		nb := 6
		if o.tier == "thorough" {
			nb = 40
		}
		for i := 0; i < nb; i++ {
			fmt.Fprintf(w, "conc burst %d %s %d\n", r.pick(8, 16, 16, 32), hexOf([]byte(fmt.Sprintf("imsi-20894%04d%03d", o.seed%10000, i))), r.pick(100, 250))
		}
	}
	fmt.Fprintf(w, "conc seq end\n")
}
