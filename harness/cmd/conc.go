//go:build verif

package main

// stream "conc" (C09): the chf stream's operations, some of them in flight together.
//
//   conc seq <chf operation>     run it alone (same observation as the chf stream)
//   conc par <chf operation>     queue it for the next batch (create / update / release / recharge only)
//   conc go                      release the queued requests together, wait (20 s deadline), then observe:
//                                  done=<0|1> n=<k> r=<response summary of each request, in queue order, ';'-separated> <state dump>
//   conc fu                      every session acknowledged (201) by the last batch is updated and released;
//                                  fu=<status/status,...> (each under a 10 s deadline; `hang` otherwise)
//
// The requests of a batch are prepared (bodies marshalled) before the barrier opens; only the HTTP exchange
// itself runs concurrently.

import (
	"bufio"
	"encoding/json"
	"fmt"
	"net/http/httptest"
	"strconv"
	"strings"
	"sync"
	"time"
)

type concReq struct {
	method, path string
	body         []byte
	supi         string
}

var (
	concQueue []concReq
	concAcked []concReq // sessions created by the last batch: path = reference, supi
)

func init() {
	streams["conc"] = &stream{
		setup: func() { startChf([]string{"nchf-convergedcharging"}, false) },
		gen:   genConc,
		run:   runConc,
	}
}

func prepare(t []string) (concReq, bool) {
	p := &tk{t: t[1:], ok: true}
	switch t[0] {
	case "create":
		r := parseReq(p)
		if !p.ok || len(p.t) != 0 {
			return concReq{}, false
		}
		r.NotifyUri = ""
		chfSupis[r.SubscriberIdentifier] = true
		b, _ := json.Marshal(r)
		return concReq{"POST", ccPrefix + "/chargingdata", b, r.SubscriberIdentifier}, true
	case "update", "release":
		sid := p.hexs()
		r := parseReq(p)
		if !p.ok || len(p.t) != 0 {
			return concReq{}, false
		}
		r.NotifyUri = ""
		chfSupis[r.SubscriberIdentifier] = true
		b, _ := json.Marshal(r)
		return concReq{"POST", ccPrefix + "/chargingdata/" + escapePath(sid) + "/" + t[0], b, r.SubscriberIdentifier}, true
	case "recharge":
		info := p.hexs()
		if !p.ok {
			return concReq{}, false
		}
		return concReq{"PUT", ccPrefix + "/recharging/" + escapePath(info), nil, ""}, true
	}
	return concReq{}, false
}

func runConc(line string, t []string) string {
	if len(t) == 0 {
		return "bad-op"
	}
	switch t[0] {
	case "seq":
		if len(t) < 2 {
			return "bad-op"
		}
		if t[1] == "reset" {
			concQueue, concAcked = nil, nil
		}
		return runChf(line, t[1:])
	case "par":
		if len(t) < 2 {
			return "bad-op"
		}
		q, ok := prepare(t[1:])
		if !ok {
			return "bad-op"
		}
		concQueue = append(concQueue, q)
		return "queued"
	case "go":
		k := len(concQueue)
		rsp := make([]*httptest.ResponseRecorder, k)
		var wg sync.WaitGroup
		barrier := make(chan struct{})
		for i := range concQueue {
			wg.Add(1)
			go func(i int) {
				defer wg.Done()
				<-barrier
				rsp[i] = doHTTP(concQueue[i].method, concQueue[i].path, concQueue[i].body)
			}(i)
		}
		close(barrier)
		fin := make(chan struct{})
		go func() { wg.Wait(); close(fin) }()
		select {
		case <-fin:
		case <-time.After(20 * time.Second):
			concQueue = nil
			return fmt.Sprintf("done=0 n=%d", k)
		}
		var rs []string
		concAcked = nil
		for i, w := range rsp {
			rs = append(rs, strings.ReplaceAll(respSummary(w), " ", ","))
			if w.Code == 201 {
				if l := w.Header().Get("Location"); l != "" {
					if j := strings.LastIndex(l, "/chargingdata/"); j >= 0 {
						concAcked = append(concAcked, concReq{path: l[j+len("/chargingdata/"):], supi: concQueue[i].supi})
					}
				}
			}
		}
		concQueue = nil
		return fmt.Sprintf("done=1 n=%d r=%s %s", k, strings.Join(rs, ";"), dumpState())
	case "fu":
		var out []string
		for i, a := range concAcked {
			st := []string{}
			for j, kind := range []string{"update", "release"} {
				r := onlineUpdate(a.supi, a.path, 900+2*i+j, 0)
				r.MultipleUnitUsage = nil
				b, _ := json.Marshal(r)
				c, ok := post(ccPrefix+"/chargingdata/"+escapePath(a.path)+"/"+kind, b, 10*time.Second)
				if !ok {
					st = append(st, "hang")
					break
				}
				st = append(st, strconv.Itoa(c))
			}
			out = append(out, strings.Join(st, "/"))
		}
		if len(out) == 0 {
			return "fu=-"
		}
		return "fu=" + strings.Join(out, ",")
	}
	return "bad-op"
}

func genConc(o genOpts, w *bufio.Writer) {
	r := &rng{s: o.seed}
	lsn := 0
	acct := func(supi string, rg, bal, cost int) {
		fmt.Fprintf(w, "conc seq acct %s %d %s %s\n", hexOf([]byte(supi)), rg, hexOf([]byte(strconv.Itoa(bal))), hexOf([]byte(strconv.Itoa(cost))))
	}
	usage := func(rg, req, used int) string {
		lsn++
		return fmt.Sprintf("%d %d %s 1 1 %d %d %d 0 %d", rg, req, hexOf([]byte("upf1")), used, used/2, used-used/2, lsn)
	}
	sizes := []int{2, 2, 3, 3, 4}
	if o.tier == "thorough" {
		sizes = []int{2, 3, 4, 4, 5, 8, 16}
	}
	for i := 0; i < o.n; i++ {
		fmt.Fprintf(w, "conc seq reset\n")
		k := sizes[r.intn(len(sizes))]
		supi := fmt.Sprintf("imsi-20893%04d%06d", o.seed%10000, i)
		cost := r.pick(1, 2, 3)
		counter := 0
		switch r.intn(4) {
		case 0:
			// one subscriber, one rating group, one session: k updates in flight together
			acct(supi, 1, r.pick(100000, 500, 50)*cost, cost)
			fmt.Fprintf(w, "conc seq create %s\n", fmtReq(supi, "smf", 100, 0, 0, 0, nil, nil))
			sid := supi + "smf-0"
			fmt.Fprintf(w, "conc seq update %s %s\n", hexOf([]byte(sid)), fmtReq(supi, "smf", 100, 1, 0, 0, nil, []string{usage(1, 100, 0)}))
			for j := 0; j < k; j++ {
				fmt.Fprintf(w, "conc par update %s %s\n", hexOf([]byte(sid)), fmtReq(supi, "smf", 100, 2+j, 0, 0, nil, []string{usage(1, r.pick(50, 100), r.pick(0, 10, 30))}))
			}
		case 1:
			// one subscriber: updates of two sessions, a release and a recharge notification together
			acct(supi, 1, 100000, cost)
			acct(supi, 2, 100000, cost)
			for s := 0; s < 2; s++ {
				fmt.Fprintf(w, "conc seq create %s\n", fmtReq(supi, "smf", 100+s, 0, 0, 0, nil, nil))
			}
			sids := []string{supi + "smf-0", supi + "smf-1"}
			for s := 0; s < 2; s++ {
				fmt.Fprintf(w, "conc seq update %s %s\n", hexOf([]byte(sids[s])), fmtReq(supi, "smf", 100, 1, 0, 0, nil, []string{usage(1+s, 100, 0)}))
			}
			for j := 0; j < k; j++ {
				switch {
				case j == 1:
					fmt.Fprintf(w, "conc par release %s %s\n", hexOf([]byte(sids[1])), fmtReq(supi, "smf", 100, 9, 0, 0, nil, []string{usage(2, 0, 20)}))
				case j == 2:
					fmt.Fprintf(w, "conc par recharge %s\n", hexOf([]byte(supi+"_1")))
				default:
					fmt.Fprintf(w, "conc par update %s %s\n", hexOf([]byte(sids[0])), fmtReq(supi, "smf", 100, 2+j, 0, 0, nil, []string{usage(1, 100, r.pick(5, 25))}))
				}
			}
		case 2:
			// k creates for the same new subscriber together
			acct(supi, 1, 100000, cost)
			for j := 0; j < k; j++ {
				fmt.Fprintf(w, "conc par create %s\n", fmtReq(supi, r.pickStr("smf", "smf", "a"), 100+j, 0, 0, 0, nil, nil))
			}
		default:
			// different subscribers: creates and updates together
			var sids []string
			for j := 0; j < k; j++ {
				s2 := fmt.Sprintf("%s%d", supi[:len(supi)-1], j)
				acct(s2, 1, 100000, cost)
				if j%2 == 0 {
					fmt.Fprintf(w, "conc seq create %s\n", fmtReq(s2, "smf", 100, 0, 0, 0, nil, nil))
					sids = append(sids, s2+"smf-"+strconv.Itoa(counter))
					counter++
				} else {
					sids = append(sids, "")
				}
			}
			for j := 0; j < k; j++ {
				s2 := fmt.Sprintf("%s%d", supi[:len(supi)-1], j)
				if j%2 == 0 {
					fmt.Fprintf(w, "conc par update %s %s\n", hexOf([]byte(sids[j])), fmtReq(s2, "smf", 100, 1, 0, 0, nil, []string{usage(1, 100, 0)}))
				} else {
					fmt.Fprintf(w, "conc par create %s\n", fmtReq(s2, "smf", 100, 0, 0, 0, nil, nil))
				}
			}
		}
		fmt.Fprintf(w, "conc go\n")
		fmt.Fprintf(w, "conc fu\n")
	}
	fmt.Fprintf(w, "conc seq end\n")
}
