//go:build verif

package main

// stream "peer" (C18, C19): one scenario per operation, against the real rating and account-balance servers
// whose answers are delayed by a script (the delay is a sleep inside the store look-up the real server
// makes while it handles the request), driven through the real router.
//
//   peer scen <supiHex> <step>*
//
// steps:  A<ms>  queue a delay for the next account-balance answer of this subscriber
//         R<ms>  queue a delay for the next rating answer
//         U<v>   online update asking for v units (rating group 1, nothing used), deadline 14 s
//         F<v>   final report of v used units (FINAL trigger: the rating group is settled in debit mode - one rating
//                request for the price, one account-balance request that refunds / debits the difference), deadline 14 s
//         W<ms>  wait
//         K<0|1> K1: the certificate and key files named in both Diameter sections are replaced by another valid pair while the
//                servers keep running with the pair they loaded (a certificate rotated on disk); K0: the first pair again
//         S<0|1> (first step, written by the generator) whether the account-balance server was measured to handle the requests
//                for one account one after the other (peerserial.go); the model's world lets requests wait accordingly
//         N<k>   k prompt online updates (for the connection count)
//         C      sample connections / goroutines
//         HA<ms> queue a connection set-up time for the next connection to the account-balance peer (peerproxy.go)
//         HR<ms> … to the rating peer
//         Q<k>   the stored account document becomes one the servers cannot digest (0: quota a number, 1: quota missing,
//                2: quota not numeric, 3: unitCost a number, 4: unitCost missing, 9: restored): the server handling the
//                request fails (a recovered panic or an early return) and does not answer
//
// observation: one token per step that observes something
//         U -> u=<status>:<grant|->:<cost>:<resDelta>:<ccr seq consumed|0|?>:<elapsed ms>:<done>
//              a trailing :<k> = k account-balance requests made during the update were still unanswered when it returned
//         F -> f=<status>:<elapsed ms>:<done>:<k>   (k as above)
//         C -> c=<established connections to the two peers>:<goroutines above baseline, bucketed>:<the same, raw>:<go-diameter watchdog goroutines alive>:<goroutines running (or started by) an answer handler HandleSUA/HandleCCA>:<goroutines inside a request handler of the rating / account-balance server, not counting those the script itself keeps asleep>:<sockets of the process on the Diameter ports in any state but LISTEN, above the baseline>
//         D<k> -> from now on every answer reaches the CHF k times (through a relay, see relay.go)
//
// Every account-balance request of the scenario tops the reservation up by an amount that is a sum of a run
// of distinct powers of two, so the amount identifies the request whose answer the CHF acted upon.

import (
	"bufio"
	"encoding/json"
	"fmt"
	"net/http/httptest"
	"os"
	"runtime"
	"strconv"
	"strings"
	"sync"
	"sync/atomic"
	"time"

	"go.mongodb.org/mongo-driver/bson"

	chf_context "github.com/free5gc/chf/internal/context"
	"github.com/free5gc/openapi/models"
	"github.com/free5gc/util/mongoapi"
)

type ccrLog struct {
	seq    int
	before int64
	after  int64
	done   bool
}

type peerScript struct {
	mu     sync.Mutex
	abmfQ  []int
	rfQ    []int
	ccrs   []*ccrLog
	byGoid map[uint64]*ccrLog
}

var (
	peerMu      sync.Mutex
	peerScripts = map[string]*peerScript{}
)

func goid() uint64 {
	var buf [64]byte
	n := runtime.Stack(buf[:], false)
	f := strings.Fields(string(buf[:n]))
	if len(f) < 2 {
		return 0
	}
	id, _ := strconv.ParseUint(f[1], 10, 64)
	return id
}

// which of the two servers is looking the account up
func callerServer() string {
	pcs := make([]uintptr, 24)
	n := runtime.Callers(2, pcs)
	frames := runtime.CallersFrames(pcs[:n])
	for {
		f, more := frames.Next()
		if strings.Contains(f.Function, "/pkg/abmf.") {
			return "abmf"
		}
		if strings.Contains(f.Function, "/pkg/rf.") {
			return "rf"
		}
		if !more {
			return ""
		}
	}
}

func quotaOf(d map[string]interface{}) int64 {
	if d == nil {
		return 0
	}
	if s, ok := d["quota"].(string); ok {
		v, _ := strconv.ParseInt(s, 10, 64)
		return v
	}
	if v, ok := numOf(d["quota"]); ok {
		return v
	}
	return 0
}

// scripted delays can be cut short: the last C step of a scenario wakes every answer still held back
var (
	wakeMu sync.Mutex
	wakeCh = make(chan struct{})
)

func scriptedSleep(d time.Duration) {
	wakeMu.Lock()
	ch := wakeCh
	wakeMu.Unlock()
	select {
	case <-time.After(d):
	case <-ch:
	}
}

func wakeScriptedSleepers() {
	wakeMu.Lock()
	close(wakeCh)
	wakeCh = make(chan struct{})
	wakeMu.Unlock()
}

func peerGetOne(coll string, filter bson.M) (map[string]interface{}, error) {
	k, ok := keyOf(filter)
	if ok {
		peerMu.Lock()
		sc := peerScripts[k.ue]
		peerMu.Unlock()
		if sc == nil {
			sweepDelay(k.ue, callerServer())
		}
		if sc != nil {
			srv := callerServer()
			delay := 0
			sc.mu.Lock()
			switch srv {
			case "abmf":
				if len(sc.abmfQ) > 0 {
					delay, sc.abmfQ = sc.abmfQ[0], sc.abmfQ[1:]
				}
				l := &ccrLog{seq: len(sc.ccrs) + 1}
				sc.ccrs = append(sc.ccrs, l)
				sc.byGoid[goid()] = l
			case "rf":
				if len(sc.rfQ) > 0 {
					delay, sc.rfQ = sc.rfQ[0], sc.rfQ[1:]
				}
			}
			sc.mu.Unlock()
			if delay > 0 {
				scriptedSleep(time.Duration(delay) * time.Millisecond)
			}
			d, err := store.getOne(coll, filter)
			if srv == "abmf" {
				sc.mu.Lock()
				if l := sc.byGoid[goid()]; l != nil {
					l.before = quotaOf(d)
				}
				sc.mu.Unlock()
			}
			return d, err
		}
	}
	return store.getOne(coll, filter)
}

func peerPutOne(coll string, filter bson.M, put map[string]interface{}) (bool, error) {
	k, ok := keyOf(filter)
	if ok {
		peerMu.Lock()
		sc := peerScripts[k.ue]
		peerMu.Unlock()
		if sc != nil && callerServer() == "abmf" {
			sc.mu.Lock()
			if l := sc.byGoid[goid()]; l != nil {
				l.after = quotaOf(put)
				l.done = true
			}
			sc.mu.Unlock()
		}
	}
	return store.putOne(coll, filter, put)
}

func init() {
	streams["peer"] = &stream{
		setup: func() {
			startChf([]string{"nchf-convergedcharging"}, false)
			mongoapi.HookGetOne = peerGetOne
			mongoapi.HookPutOne = peerPutOne
		},
		gen: genPeer,
		run: runPeer,
	}
}

// established TCP connections whose remote port is one of the two peers' ports (the client side of the
// CHF's Diameter connections; both ends live in this process, the server side has the port as local port)
// sockets of this process (inode numbers): /proc/self/net/tcp lists the whole network namespace, and another
// process's connection may by chance have one of our port numbers as its remote (ephemeral) port
func ownSockets() map[string]bool {
	own := map[string]bool{}
	ents, err := os.ReadDir("/proc/self/fd")
	if err != nil {
		return nil
	}
	for _, e := range ents {
		if l, err := os.Readlink("/proc/self/fd/" + e.Name()); err == nil && strings.HasPrefix(l, "socket:[") {
			own[strings.TrimSuffix(strings.TrimPrefix(l, "socket:["), "]")] = true
		}
	}
	return own
}

func peerConns() int {
	n := 0
	own := ownSockets()
	for _, f := range []string{"/proc/self/net/tcp"} {
		b, err := os.ReadFile(f)
		if err != nil {
			return -1
		}
		for i, l := range strings.Split(string(b), "\n") {
			fs := strings.Fields(l)
			if i == 0 || len(fs) < 10 || fs[3] != "01" {
				continue
			}
			if own != nil && !own[fs[9]] {
				continue
			}
			rp := strings.Split(fs[2], ":")
			if len(rp) != 2 {
				continue
			}
			port, _ := strconv.ParseInt(rp[1], 16, 32)
			if clientPeerPorts()[int(port)] {
				n++
			}
		}
	}
	return n
}

func onlineUpdate(supi, sid string, seq int, vol int) *models.ChfConvergedChargingChargingDataRequest {
	r := &models.ChfConvergedChargingChargingDataRequest{}
	r.SubscriberIdentifier = supi
	r.NfConsumerIdentification = &models.ChfConvergedChargingNfIdentification{NFName: "smf", NodeFunctionality: "SMF"}
	r.ChargingId = 1
	r.InvocationSequenceNumber = int32(seq)
	now := time.Now()
	r.InvocationTimeStamp = &now
	var u models.ChfConvergedChargingMultipleUnitUsage
	u.RatingGroup = 1
	u.RequestedUnit = &models.RequestedUnit{TotalVolume: int32(vol)}
	u.UPFID = "upf"
	u.UsedUnitContainer = []models.ChfConvergedChargingUsedUnitContainer{{QuotaManagementIndicator: models.QuotaManagementIndicator_ONLINE_CHARGING, LocalSequenceNumber: int32(seq)}}
	r.MultipleUnitUsage = append(r.MultipleUnitUsage, u)
	return r
}

func runPeer(line string, t []string) string {
	if len(t) >= 1 && t[0] == "sweep" {
		return runPeerSweep(t)
	}
	if len(t) < 2 || t[0] != "scen" {
		return "bad-op"
	}
	p := &tk{t: t[1:], ok: true}
	supi := p.hexs()
	if !p.ok {
		return "bad-op"
	}
	steps := p.t
	for _, s := range steps {
		if strings.HasPrefix(s, "D") {
			useRelay()
		}
	}
	for _, s := range steps {
		if strings.HasPrefix(s, "H") {
			useProxy()
		}
	}
	sc := &peerScript{byGoid: map[uint64]*ccrLog{}}
	peerMu.Lock()
	peerScripts[supi] = sc
	peerMu.Unlock()
	store.set(supi, 1, "1000000000000", "2")
	chfSupis[supi] = true
	// a fresh subscriber context and session
	self := chf_context.GetSelf()
	self.UePool.Delete(supi)
	cr := onlineUpdate(supi, "", 0, 0)
	cr.MultipleUnitUsage = nil
	b, _ := json.Marshal(cr)
	w := doHTTP("POST", ccPrefix+"/chargingdata", b)
	sid := ""
	if l := w.Header().Get("Location"); l != "" {
		if i := strings.LastIndex(l, "/chargingdata/"); i >= 0 {
			sid = l[i+len("/chargingdata/"):]
		}
	}
	if w.Code != 201 || sid == "" {
		return fmt.Sprintf("create-failed st=%d", w.Code)
	}
	time.Sleep(50 * time.Millisecond)
	baseGor := runtime.NumGoroutine()
	baseConns := peerConns()
	baseSocks := peerSocketsAnyState()
	var out []string
	seq := 1
	ue, _ := self.ChfUeFindBySupi(supi)
	// account-balance requests received by the server since request number nBefore that it has not answered yet
	pendingSince := func(nBefore int) int {
		sc.mu.Lock()
		defer sc.mu.Unlock()
		k := 0
		for _, l := range sc.ccrs {
			if l.seq > nBefore && !l.done {
				k++
			}
		}
		return k
	}
	finalReport := func(used int) string {
		sc.mu.Lock()
		nBefore := len(sc.ccrs)
		sc.mu.Unlock()
		r := onlineUpdate(supi, sid, seq, 0)
		r.MultipleUnitUsage[0].RequestedUnit = nil
		r.MultipleUnitUsage[0].UsedUnitContainer[0].TotalVolume = int32(used)
		r.Triggers = []models.ChfConvergedChargingTrigger{trigCodes["F"]}
		b, _ := json.Marshal(r)
		seq++
		t0 := time.Now()
		ch := make(chan *httptest.ResponseRecorder, 1)
		go func() { ch <- doHTTP("POST", ccPrefix+"/chargingdata/"+escapePath(sid)+"/update", b) }()
		select {
		case w := <-ch:
			el := time.Since(t0)
			return fmt.Sprintf("f=%d:%d:1:%d", w.Code, int(el/time.Millisecond), pendingSince(nBefore))
		case <-time.After(14 * time.Second):
			return "f=-:14000:0:0"
		}
	}
	update := func(vol int) string {
		resBefore := ue.ReservedQuota[1]
		sc.mu.Lock()
		nBefore := len(sc.ccrs)
		sc.mu.Unlock()
		b, _ := json.Marshal(onlineUpdate(supi, sid, seq, vol))
		seq++
		t0 := time.Now()
		ch := make(chan *httptest.ResponseRecorder, 1)
		go func() { ch <- doHTTP("POST", ccPrefix+"/chargingdata/"+escapePath(sid)+"/update", b) }()
		select {
		case w := <-ch:
			el := time.Since(t0)
			grant := "-"
			var rsp models.ChfConvergedChargingChargingDataResponse
			if w.Code/100 == 2 && json.Unmarshal(w.Body.Bytes(), &rsp) == nil {
				for _, m := range rsp.MultipleUnitInformation {
					if m.RatingGroup == 1 && m.GrantedUnit != nil {
						grant = strconv.Itoa(int(m.GrantedUnit.TotalVolume))
					}
				}
			}
			delta := ue.ReservedQuota[1] - resBefore
			// whose answer was it?  the request whose debit equals the reservation's change
			who := "0"
			if delta != 0 {
				who = "?"
				sc.mu.Lock()
				for _, l := range sc.ccrs {
					if l.done && l.before-l.after == delta {
						who = strconv.Itoa(l.seq)
						if l.seq > nBefore {
							who = "own"
						}
					}
				}
				sc.mu.Unlock()
			}
			return fmt.Sprintf("u=%d:%s:%d:%d:%s:%d:1:%d", w.Code, grant, ue.UnitCost[1], delta, who, int(el/time.Millisecond), pendingSince(nBefore))
		case <-time.After(14 * time.Second):
			return "u=-:-:-:-:-:14000:0"
		}
	}
	hung := false
	for stepIdx, s := range steps {
		if len(s) == 0 {
			return "bad-op"
		}
		arg := 0
		if s[0] == 'H' {
			// HA<ms> / HR<ms>
			if len(s) < 3 {
				return "bad-op"
			}
			v, err := strconv.Atoi(s[2:])
			if err != nil || v < 0 || v > 20000 {
				return "bad-op"
			}
			switch s[1] {
			case 'A':
				abmfSetupQ.push(v)
			case 'R':
				rfSetupQ.push(v)
			default:
				return "bad-op"
			}
			continue
		}
		if len(s) > 1 {
			v, err := strconv.Atoi(s[1:])
			if err != nil {
				return "bad-op"
			}
			arg = v
		}
		switch s[0] {
		case 'A':
			sc.mu.Lock()
			sc.abmfQ = append(sc.abmfQ, arg)
			sc.mu.Unlock()
		case 'R':
			sc.mu.Lock()
			sc.rfQ = append(sc.rfQ, arg)
			sc.mu.Unlock()
		case 'W':
			time.Sleep(time.Duration(arg) * time.Millisecond)
		case 'K':
			// K1: the key pair named in both Diameter sections is replaced by another valid pair (the servers keep running with the
			// pair they loaded when they started: a certificate rotated on disk); K0: back to the first pair
			rotateClientKeyPair(arg == 1)
		case 'S':
			// S1 / S0: what the generator measured about the account-balance server (for the model; nothing to do here)
		case 'Q':
			if !spoilDocument(supi, arg) {
				return "bad-op"
			}
		case 'D':
			if arg < 1 || arg > 8 {
				return "bad-op"
			}
			atomic.StoreInt32(&relayCopies, int32(arg))
		case 'U':
			if hung {
				out = append(out, "u=skipped")
				continue
			}
			r := update(arg)
			if strings.HasPrefix(r, "u=-:") {
				hung = true
			}
			out = append(out, r)
		case 'F':
			if hung {
				out = append(out, "f=skipped")
				continue
			}
			r := finalReport(arg)
			if strings.HasPrefix(r, "f=-:") {
				hung = true
			}
			out = append(out, r)
		case 'N':
			vol := 1 << 20
			for i := 0; i < arg && !hung; i++ {
				vol += 64
				if r := update(vol); strings.HasPrefix(r, "u=-:") {
					hung = true
				}
			}
			out = append(out, fmt.Sprintf("n=%d:%d", arg, btoi(!hung)))
		case 'C':
			// the scenario is over: answers the script still holds back are let go now (their handlers, the relay tasks and the
			// connections waiting for them belong to the script, not to the CHF)
			if stepIdx == len(steps)-1 {
				wakeScriptedSleepers()
			}
			// what is left behind stays behind: when a count is not zero the sample is repeated (up to twice, a second
			// apart), so that a teardown still in flight on a loaded machine is not taken for a leak
			var obs string
			for try := 0; try < 3; try++ {
				if try == 0 {
					time.Sleep(300 * time.Millisecond)
				} else {
					time.Sleep(time.Second)
				}
				g := runtime.NumGoroutine() - baseGor
				gb := "0"
				switch {
				case g > 200:
					gb = ">200"
				case g > 40:
					gb = ">40"
				case g > 12:
					gb = ">12"
				}
				buf := make([]byte, 4<<20)
				stacks := string(buf[:runtime.Stack(buf, true)])
				if os.Getenv("VERIF_GDUMP") != "" {
					fmt.Fprintf(os.Stderr, "%s\n", stacks)
				}
				// go-diameter's per-connection watchdog tasks still running (no connection is open by now)
				wd := strings.Count(stacks, "sm.(*Client).watchdog(")
				// answer handlers of the CHF's clients that have not returned
				hd := 0
				for _, g := range strings.Split(stacks, "\n\n") {
					if strings.Contains(g, "HandleSUA.func") || strings.Contains(g, "HandleCCA.func") {
						hd++
					}
				}
				// request handlers of the two servers still running; those asleep in the scripted delay do not count, nor do those
				// that wait for the account such a sleeper holds (the account-balance server handles one account's requests one
				// after the other)
				sh := 0
				asleep := strings.Contains(stacks, "main.peerGetOne")
				for _, g := range strings.Split(stacks, "\n\n") {
					if serverHandlerTasks(g) > 0 && !strings.Contains(g, "main.peerGetOne") &&
						!(asleep && strings.Contains(g, "sync.(*Mutex).Lock") && strings.Contains(g, "pkg/abmf.")) {
						sh++
					}
				}
				conns, socks := peerConns()-baseConns, peerSocketsAnyState()-baseSocks
				obs = fmt.Sprintf("c=%d:%s:%d:%d:%d:%d:%d", conns, gb, g, wd, hd, sh, socks)
				if conns <= 0 && gb == "0" && wd == 0 && hd == 0 && sh == 0 && socks <= 0 {
					break
				}
			}
			out = append(out, obs)
		default:
			return "bad-op"
		}
	}
	return strings.Join(out, " ")
}

func genPeer(o genOpts, w *bufio.Writer) {
	r := &rng{s: o.seed}
	n := 0
	// measured once per run: does the account-balance server handle one account's requests one after the other? (peerserial.go)
	serial := "S0"
	if abmfSerialises() {
		serial = "S1"
	}
	scen := func(steps string) {
		n++
		fmt.Fprintf(w, "peer scen %s %s %s\n", hexOf([]byte(fmt.Sprintf("imsi-20893%04d%06d", o.seed%10000, n))), serial, steps)
	}
	late, never := 6500, 40000
	// C18: connection / task count after 10, 100 (thorough: 1000) prompt updates
	scen("C N10 C N10 C")
	scen("N100 C")
	if o.tier == "thorough" {
		scen("N1000 C")
		scen("N300 C N300 C")
	}
	// C18: requests whose answer does not arrive in time complete as well: nothing may stay behind for them either
	scen(fmt.Sprintf("A%d U100 A%d U228 A%d U484 A%d U996 W2000 C", late, late, late, never))
	scen(fmt.Sprintf("R%d U100 R%d U228 R0 R0 R%d U484 W2000 C", late, late, late))
	if o.tier == "thorough" {
		var sb []string
		vol := 100
		for j := 0; j < 12; j++ {
			sb = append(sb, fmt.Sprintf("A%d U%d", late, vol))
			vol += 128 << uint(j)
		}
		scen(strings.Join(sb, " ") + " W2000 C")
	}
	// the key pair named in the configuration is replaced while the servers run: requests go on as before, nothing stays behind
	scen("K1 U100 U228 K0 U484 K1 N10 C")
	// a peer that repeats its answers (prompt and late ones)
	scen("D3 U100 U228 D2 U484 C")
	scen(fmt.Sprintf("D3 A%d U100 W3000 U228 U484 C", late))
	scen(fmt.Sprintf("D2 R0 R0 R%d U100 U228 W3000 U484 C", late))
	// C19: an account-balance answer later than the client's timeout, then a prompt peer
	scen(fmt.Sprintf("A%d U100 U228 C", late))                  // next request at once: the late answer arrives while it is over
	scen(fmt.Sprintf("A%d U100 W3000 U228 U484 C", late))       // late answer arrives while nothing is in progress
	scen(fmt.Sprintf("A%d A2500 U100 U228 U484 C", late))       // late answer of #1 arrives while #2 waits for its own
	scen(fmt.Sprintf("A%d U100 W500 U228 W3000 U484 C", never)) // lost answer
	// C19: the settlement of a final report (debit mode) is a request of the operation like any other: the operation waits
	// for its answer (slow, late, lost), and the next reservation of the subscriber acts on its own answer
	scen("U100 A1500 F10 C")
	scen("U100 A1500 A2500 F10 U228 C")                  // settlement answer slow, the next reservation's slower
	scen(fmt.Sprintf("U100 A%d F10 U228 W3000 C", late)) // settlement answer later than the timeout
	scen("U100 R1500 A800 F10 A1200 U228 F20 C")
	// the same for the rating peer (three rating requests per update)
	scen(fmt.Sprintf("R%d U100 U228 C", late))
	scen(fmt.Sprintf("R0 R0 R%d U100 W3000 U228 U484 C", late))
	scen(fmt.Sprintf("R%d R2500 U100 U228 U484 C", late))
	scen(fmt.Sprintf("R0 R%d R0 R0 R2500 U100 U228 U484 C", late))
	// final reports with random delays of the settlement answer and of the next reservation's answer (the first update is
	// prompt, so that a reservation exists and the settlement is a refund, and the price enquiry is answered in time: the rating
	// group is back in reserve mode afterwards, whatever becomes of the settlement request)
	for i := 0; i < 2+o.n/8; i++ {
		scen(fmt.Sprintf("U100 R%d A%d A%d F%d U228 W%d C", r.pick(0, 0, 800, 1500), r.pick(0, 800, 1500, 2500, late), r.pick(0, 800, 2500, late),
			r.pick(0, 1, 10, 99), r.pick(0, 2000)))
	}
	// a peer that accepts the connection and is slow to complete the set-up (TLS handshake), for either client:
	// C18: the slow dial is the last one of the update (nothing re-uses the client afterwards), the count is taken after
	// the set-up has had time to complete; several such requests in a row; the first dial of an update slow
	scen("HR0 HR0 HR2500 U100 W1500 C")
	scen("HR0 HR0 HR6500 U100 W5500 C")
	scen("HR3500 U100 W2500 C")
	scen("HA2500 U100 W1500 C")
	scen("HA6500 U100 W1000 C")
	scen("HR0 HR0 HR2500 U100 HR0 HR0 HR3000 U228 HR0 HR0 HR3500 U484 W2500 C")
	// C19: set-up time plus answer time beyond the client's 5 s although the answer itself is in time, then a request
	// whose connection is slow as well (the earlier answer arrives while it is being set up)
	scen("HA2500 HA2500 A3500 U100 U228 W1000 C")
	scen("HR2500 HR2500 R3500 U100 U228 W1000 C")
	if o.tier == "thorough" {
		scen("HA1500 HA1500 A4000 U100 U228 W1000 C")
		scen("HA3500 HA1500 A2500 U100 U228 U484 W1000 C")
		scen("HR1500 HR0 HR0 HR1500 R4000 U100 U228 W1000 C")
	}
	// stored account documents a server cannot digest: its handler fails without an answer (recovered panic or early
	// return); the requests time out and complete, and nothing of them may stay behind on either side
	scen("Q0 U100 U228 U484 W1000 C")
	scen("Q1 U100 U228 W1000 C")
	scen("Q2 U100 Q9 U228 W500 C")
	scen("Q3 U100 U228 W1000 C")
	if o.tier == "thorough" {
		scen("Q4 U100 Q0 U228 Q9 U484 W1000 C")
		scen("Q0 U100 U228 U484 U996 U2020 U4068 W1000 C")
	}
	// random patterns
	for i := 0; i < o.n; i++ {
		var sb []string
		vol := 100
		k := 2 + r.intn(3)
		if r.chance(30) {
			sb = append(sb, fmt.Sprintf("D%d", r.pick(2, 3, 4)))
		}
		spoilt := false
		for j := 0; j < k; j++ {
			// at most one slow connection set-up per update (an update must stay within its 14 s)
			if r.chance(35) {
				sb = append(sb, fmt.Sprintf("H%s%d", r.pickStr("A", "R", "R"), r.pick(300, 700, 1500, 2500)))
			}
			if r.chance(12) && !spoilt {
				sb = append(sb, fmt.Sprintf("Q%d", r.pick(0, 1, 2)))
				spoilt = true
			} else if spoilt && r.chance(50) {
				sb = append(sb, "Q9")
				spoilt = false
			}
			for q := 0; q < r.intn(3); q++ {
				d := r.pick(0, 0, 800, 2500, late, late, never)
				sb = append(sb, fmt.Sprintf("%s%d", r.pickStr("A", "R"), d))
			}
			if r.chance(40) {
				sb = append(sb, fmt.Sprintf("W%d", r.pick(500, 2000, 3000)))
			}
			sb = append(sb, fmt.Sprintf("U%d", vol))
			vol += 128 << uint(j)
		}
		sb = append(sb, "C")
		scen(strings.Join(sb, " "))
	}
}
