//go:build verif

package main

import (
	"context"
	"crypto/ecdsa"
	"crypto/elliptic"
	"crypto/rand"
	"crypto/x509"
	"crypto/x509/pkix"
	"encoding/pem"
	"fmt"
	"io"
	"math/big"
	"net"
	"os"
	"path/filepath"
	"reflect"
	"sort"
	"strconv"
	"strings"
	"sync"
	"syscall"
	"time"

	"github.com/fiorix/go-diameter/diam"
	"github.com/fiorix/go-diameter/diam/avp"
	"github.com/fiorix/go-diameter/diam/datatype"
	"github.com/fiorix/go-diameter/diam/dict"
	"github.com/fiorix/go-diameter/diam/sm"
	"go.mongodb.org/mongo-driver/bson"

	"github.com/free5gc/chf/internal/logger"
	"github.com/free5gc/chf/pkg/abmf"
	"github.com/free5gc/chf/pkg/factory"
	"github.com/free5gc/chf/pkg/rf"
	"github.com/free5gc/util/mongoapi"
)

// ---- in-memory policyData.ues.chargingData ----

type acctKey struct {
	ue string
	rg int64
}

type fakeStore struct {
	mu       sync.Mutex
	docs     map[acctKey]map[string]interface{}
	putDelay time.Duration // a slow database write (set by `chf slowdb`)
}

var store = &fakeStore{docs: map[acctKey]map[string]interface{}{}}

func numOf(v interface{}) (int64, bool) {
	rv := reflect.ValueOf(v)
	switch rv.Kind() {
	case reflect.Int, reflect.Int8, reflect.Int16, reflect.Int32, reflect.Int64:
		return rv.Int(), true
	case reflect.Uint, reflect.Uint8, reflect.Uint16, reflect.Uint32, reflect.Uint64:
		return int64(rv.Uint()), true
	}
	return 0, false
}

func keyOf(filter bson.M) (acctKey, bool) {
	ue, ok1 := filter["ueId"].(string)
	rg, ok2 := numOf(filter["ratingGroup"])
	return acctKey{ue, rg}, ok1 && ok2
}

func (s *fakeStore) getOne(coll string, filter bson.M) (map[string]interface{}, error) {
	s.mu.Lock()
	defer s.mu.Unlock()
	k, ok := keyOf(filter)
	if !ok {
		return nil, nil
	}
	d, ok := s.docs[k]
	if !ok {
		return nil, nil
	}
	out := map[string]interface{}{}
	for a, b := range d {
		out[a] = b
	}
	return out, nil
}

func (s *fakeStore) putOne(coll string, filter bson.M, put map[string]interface{}) (bool, error) {
	s.mu.Lock()
	slow := s.putDelay
	s.mu.Unlock()
	if slow > 0 {
		time.Sleep(slow)
	}
	s.mu.Lock()
	defer s.mu.Unlock()
	k, ok := keyOf(filter)
	if !ok {
		return false, fmt.Errorf("bad filter")
	}
	d, ok := s.docs[k]
	if !ok {
		// InsertOne(putData): a document without ueId/ratingGroup — unreachable through the key
		return false, nil
	}
	for a, b := range put {
		d[a] = b
	}
	return true, nil
}

func (s *fakeStore) set(ue string, rg int64, quota, unitCost string) {
	s.mu.Lock()
	defer s.mu.Unlock()
	s.docs[acctKey{ue, rg}] = map[string]interface{}{"ueId": ue, "ratingGroup": int32(rg), "quota": quota, "unitCost": unitCost}
}

func (s *fakeStore) reset() {
	s.mu.Lock()
	defer s.mu.Unlock()
	s.putDelay = 0
	s.docs = map[acctKey]map[string]interface{}{}
}

func (s *fakeStore) quota(ue string, rg int64) string {
	s.mu.Lock()
	defer s.mu.Unlock()
	if d, ok := s.docs[acctKey{ue, rg}]; ok {
		return d["quota"].(string)
	}
	return "?"
}

// dump returns "ue/rg=quota" sorted
func (s *fakeStore) dump() string {
	s.mu.Lock()
	defer s.mu.Unlock()
	var out []string
	for k, d := range s.docs {
		out = append(out, fmt.Sprintf("%s/%d=%v", k.ue, k.rg, d["quota"]))
	}
	sort.Strings(out)
	if len(out) == 0 {
		return "-"
	}
	return strings.Join(out, ",")
}

// ---- environment: config, certificate, servers ----

var (
	envDir   string
	envOnce  sync.Once
	rfPort   int
	abmfPort int
	certPem  string
	certKey  string
)

// freePort hands out a port for a server that is started later by number (the product's servers take their ports from the
// configuration).  Asking the kernel for an ephemeral port and closing it again leaves a window in which another harness process
// (a check runs up to 16 of them, several checks may run at once) or any outgoing connection of the machine can take the very
// port: the CHF of this process then talks to another process's server.  So: ports below the ephemeral range (no outgoing
// connection ever gets one), and a lock file per port held until this process exits (no two harness processes get the same).
var portLocks []*os.File

func freePort() int {
	dir := filepath.Join(os.TempDir(), "verif-ports")
	_ = os.MkdirAll(dir, 0o777)
	const lo, n = 12000, 20000
	start := (os.Getpid()*131 + int(time.Now().UnixNano()%9973)) % n
	for i := 0; i < n; i++ {
		p := lo + (start+i)%n
		f, err := os.OpenFile(filepath.Join(dir, strconv.Itoa(p)), os.O_CREATE|os.O_RDWR, 0o666)
		if err != nil {
			continue
		}
		if syscall.Flock(int(f.Fd()), syscall.LOCK_EX|syscall.LOCK_NB) != nil {
			f.Close()
			continue
		}
		l, err := net.Listen("tcp", fmt.Sprintf("127.0.0.1:%d", p))
		if err != nil {
			f.Close()
			continue
		}
		l.Close()
		portLocks = append(portLocks, f)
		return p
	}
	panic("no free port")
}

// cgf.OpenServer writes the FTP server's settings to the fixed path /tmp/config.json and reads them back at once: two harness
// processes (a configuration child of C20, the CDR-transfer phase of C09) doing that at the same moment would read each other's
// half-written file.  The call is made under an inter-process lock.
func lockCgfConfig() func() {
	dir := filepath.Join(os.TempDir(), "verif-ports")
	_ = os.MkdirAll(dir, 0o777)
	f, err := os.OpenFile(filepath.Join(dir, "cgf-config.lock"), os.O_CREATE|os.O_RDWR, 0o666)
	if err != nil {
		return func() {}
	}
	_ = syscall.Flock(int(f.Fd()), syscall.LOCK_EX)
	return func() { f.Close() }
}

// releasePortsFrom gives back the ports handed out since mark (= len(portLocks) before): their servers are gone
func releasePortsFrom(mark int) {
	for _, f := range portLocks[mark:] {
		f.Close()
	}
	portLocks = portLocks[:mark]
}

func writeCert(dir string) (string, string) {
	key, err := ecdsa.GenerateKey(elliptic.P256(), rand.Reader)
	if err != nil {
		panic(err)
	}
	tmpl := x509.Certificate{
		SerialNumber: big.NewInt(1),
		Subject:      pkix.Name{CommonName: "localhost"},
		NotBefore:    time.Now().Add(-time.Hour),
		NotAfter:     time.Now().Add(240 * time.Hour),
		KeyUsage:     x509.KeyUsageDigitalSignature,
		ExtKeyUsage:  []x509.ExtKeyUsage{x509.ExtKeyUsageServerAuth, x509.ExtKeyUsageClientAuth},
		DNSNames:     []string{"localhost"},
		IPAddresses:  []net.IP{net.ParseIP("127.0.0.1")},
	}
	der, err := x509.CreateCertificate(rand.Reader, &tmpl, &tmpl, &key.PublicKey, key)
	if err != nil {
		panic(err)
	}
	kb, err := x509.MarshalECPrivateKey(key)
	if err != nil {
		panic(err)
	}
	p := filepath.Join(dir, "c.pem")
	k := filepath.Join(dir, "c.key")
	_ = os.WriteFile(p, pem.EncodeToMemory(&pem.Block{Type: "CERTIFICATE", Bytes: der}), 0o600)
	_ = os.WriteFile(k, pem.EncodeToMemory(&pem.Block{Type: "EC PRIVATE KEY", Bytes: kb}), 0o600)
	return p, k
}

func baseConfig() *factory.Config {
	return &factory.Config{
		Info: &factory.Info{Version: "1.0.3"},
		Configuration: &factory.Configuration{
			ChfName:             "CHF",
			Sbi:                 &factory.Sbi{Scheme: "http", RegisterIPv4: "127.0.0.1", BindingIPv4: "127.0.0.1", Port: 8000},
			ServiceNameList:     []string{"nchf-convergedcharging"},
			NrfUri:              "http://127.0.0.10:8000",
			Mongodb:             &factory.Mongodb{Name: "free5gc", Url: "mongodb://localhost:27017"},
			VolumeThresholdRate: 0.8,
			RfDiameter:          &factory.Diameter{Protocol: "tcp", HostIPv4: "127.0.0.1", Port: rfPort, Tls: &factory.Tls{Pem: certPem, Key: certKey}},
			AbmfDiameter:        &factory.Diameter{Protocol: "tcp", HostIPv4: "127.0.0.1", Port: abmfPort, Tls: &factory.Tls{Pem: certPem, Key: certKey}},
			Cgf:                 &factory.Cgf{Enable: false, HostIPv4: "127.0.0.1", Port: 2121, ListenPort: 2122},
		},
		Logger: &factory.Logger{Enable: os.Getenv("VERIF_LOG") != "", Level: "error"},
	}
}

func waitPort(p int) {
	for i := 0; i < 200; i++ {
		c, err := net.DialTimeout("tcp", fmt.Sprintf("127.0.0.1:%d", p), 100*time.Millisecond)
		if err == nil {
			c.Close()
			return
		}
		time.Sleep(10 * time.Millisecond)
	}
	panic("server did not come up")
}

// startEnv sets the configuration, installs the fake store and starts the real rating and
// account-balance servers (pkg/rf, pkg/abmf OpenServer) on loopback TLS.
func startEnv() {
	envOnce.Do(func() {
		if os.Getenv("VERIF_LOG") == "" {
			logger.Log.SetOutput(io.Discard)
		} else {
			logger.Log.SetOutput(os.Stderr)
		}
		d, err := os.MkdirTemp("", "verif-env-")
		if err != nil {
			panic(err)
		}
		envDir = d
		certPem, certKey = writeCert(d)
		rfPort, abmfPort = freePort(), freePort()
		mongoapi.HookGetOne = store.getOne
		mongoapi.HookPutOne = store.putOne
		factory.ChfConfig = baseConfig()
		var wg sync.WaitGroup
		ctx := context.Background()
		wg.Add(2)
		rf.OpenServer(ctx, &wg)
		abmf.OpenServer(ctx, &wg)
		waitPort(rfPort)
		waitPort(abmfPort)
	})
}

func stopEnv() {
	if envDir != "" {
		os.RemoveAll(envDir)
	}
}

// cleanupTemp removes what this process left in the temporary directory (certificates of the in-process servers, the scratch
// directory of the cdrfile stream, the second key pair of the peer stream); called when a stream has been generated or run
func cleanupTemp() {
	stopEnv()
	// the CDR files the product wrote for this process's subscribers (/tmp/<supi>.cdr)
	cleanupCdrFiles()
	if cdrTmp != "" {
		os.RemoveAll(cdrTmp)
	}
	if secondPem != "" {
		os.RemoveAll(filepath.Dir(secondPem))
	}
}

// ---- a persistent Diameter client connection ----

type diamPeer struct {
	conn diam.Conn
	ch   chan *diam.Message
	dwa  chan struct{}
	mux  *sm.StateMachine
	cli  *sm.Client
	addr string
	// consecutive requests that got neither an answer nor the watchdog's answer within the deadline: a server whose
	// handlers have stopped returning is not waited for at full length again and again (each such request is still
	// reported as unanswered)
	stalls int
}

func newPeer(addr, answerCmd string) *diamPeer {
	p := &diamPeer{ch: make(chan *diam.Message, 64), dwa: make(chan struct{}, 64), addr: addr}
	settings := &sm.Settings{
		OriginHost:       datatype.DiameterIdentity("client"),
		OriginRealm:      datatype.DiameterIdentity("go-diameter"),
		VendorID:         13,
		ProductName:      "go-diameter",
		OriginStateID:    datatype.Unsigned32(1),
		FirmwareRevision: 1,
		HostIPAddresses:  []datatype.Address{datatype.Address(net.ParseIP("127.0.0.1"))},
	}
	p.mux = sm.New(settings)
	p.mux.HandleFunc(answerCmd, func(c diam.Conn, m *diam.Message) { p.ch <- m })
	p.mux.HandleFunc("DWA", func(c diam.Conn, m *diam.Message) { p.dwa <- struct{}{} })
	p.mux.HandleFunc("ALL", func(c diam.Conn, m *diam.Message) {})
	go func() {
		for range p.mux.ErrorReports() {
		}
	}()
	p.cli = &sm.Client{
		Dict:               dict.Default,
		Handler:            p.mux,
		MaxRetransmits:     1,
		RetransmitInterval: 2 * time.Second,
		EnableWatchdog:     false,
		AuthApplicationID:  []*diam.AVP{diam.NewAVP(avp.AuthApplicationID, avp.Mbit, 0, datatype.Unsigned32(4))},
	}
	p.dial()
	return p
}

func (p *diamPeer) dial() {
	var err error
	for i := 0; i < 5; i++ {
		var c diam.Conn
		c, err = p.cli.DialNetworkTLS("tcp", p.addr, certPem, certKey)
		if err == nil {
			p.conn = c
			return
		}
		time.Sleep(50 * time.Millisecond)
	}
	panic(err)
}

const (
	rtOK = iota
	rtNoAnswer
	rtClosed
)

// roundTrip sends m followed by a Device-Watchdog-Request.  The server handles the messages of
// one connection sequentially, so the watchdog answer arriving without a preceding answer to m
// means the handler returned without answering (deterministic, no timeout involved); the
// connection being closed instead means the handler panicked (go-diameter recovers and closes).
func (p *diamPeer) roundTrip(m *diam.Message) (*diam.Message, int) {
	for len(p.ch) > 0 {
		<-p.ch
	}
	for len(p.dwa) > 0 {
		<-p.dwa
	}
	closed := p.conn.(diam.CloseNotifier).CloseNotify()
	if _, err := m.WriteTo(p.conn); err != nil {
		p.conn.Close()
		p.dial()
		return nil, rtClosed
	}
	w := diam.NewRequest(diam.DeviceWatchdog, 0, dict.Default)
	w.NewAVP(avp.OriginHost, avp.Mbit, 0, datatype.DiameterIdentity("client"))
	w.NewAVP(avp.OriginRealm, avp.Mbit, 0, datatype.DiameterIdentity("go-diameter"))
	w.NewAVP(avp.OriginStateID, avp.Mbit, 0, datatype.Unsigned32(1))
	_, _ = w.WriteTo(p.conn)
	wait := 3 * time.Second
	if p.stalls >= 4 {
		wait = 150 * time.Millisecond
	}
	deadline := time.After(wait)
	var ans *diam.Message
	for {
		select {
		case a := <-p.ch:
			ans = a
			p.stalls = 0
		case <-p.dwa:
			p.stalls = 0
			select {
			case a := <-p.ch:
				ans = a
			default:
			}
			if ans != nil {
				return ans, rtOK
			}
			return nil, rtNoAnswer
		case <-closed:
			select {
			case a := <-p.ch:
				ans = a
			default:
			}
			p.dial()
			if ans != nil {
				return ans, rtOK
			}
			return nil, rtClosed
		case <-deadline:
			p.stalls++
			p.conn.Close()
			p.dial()
			return nil, rtClosed
		}
	}
}
