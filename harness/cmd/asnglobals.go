//go:build verif

package main

// dump-tables asnglobals → ChfVerif/Gen/AsnGlobals.lean: the package-level variables of cdr/asn and what the
// source (go/ast; non-test files) does with them outside `init`:
//
//	kind         0  a reflect.Type handle (`reflect.TypeOf(…)` / declared reflect.Type): immutable by construction
//	             1  a scalar or string
//	             2  a reference: map, slice, channel, function, pointer, make(…), new(…), &T{…}
//	             3  anything else (a struct value such as sync.Pool, sync.Mutex, bytes.Buffer; unknown)
//	assigns      assignment, op-assignment, ++/--, range-assignment whose target is the variable or a part of it
//	             (v = …, v[k] = …, v.f = …, *v = …)
//	addrTaken    &v, &v.f, &v[i]
//	methodCalls  v.M(…), v.f.M(…), v[i].M(…)
//	escapes      the bare variable (or a slice v[a:b] of it) handed on: call argument (other than len/cap), right-hand
//	             side of an assignment or definition, returned, sent, stored in a composite literal
//	foreign      writes from other packages of the repository: asn.V = …, &asn.V, asn.V.M(…)
//
// Model/CodecState.lean says what follows when every variable is frozen (no call of the codec can change a
// package-level variable, so the codec is a function of its arguments, call after call and goroutine by goroutine).

import (
	"fmt"
	"go/ast"
	"go/parser"
	"go/token"
	"os"
	"path/filepath"
	"sort"
	"strconv"
	"strings"
)

type asnGlobal struct {
	name                                              string
	file                                              string
	kind                                              int
	assigns, addrTaken, methodCalls, escapes, foreign int
}

func init() { tableDumpers["asnglobals"] = dumpAsnGlobals }

func asnKindOf(typ ast.Expr, val ast.Expr) int {
	basic := map[string]bool{"int": true, "int8": true, "int16": true, "int32": true, "int64": true, "uint": true, "uint8": true,
		"uint16": true, "uint32": true, "uint64": true, "uintptr": true, "string": true, "bool": true, "float32": true,
		"float64": true, "byte": true, "rune": true, "complex64": true, "complex128": true}
	if typ != nil {
		switch t := typ.(type) {
		case *ast.Ident:
			if basic[t.Name] {
				return 1
			}
			return 3
		case *ast.SelectorExpr:
			if exprStr(t) == "reflect.Type" {
				return 0
			}
			return 3
		case *ast.MapType, *ast.ArrayType, *ast.ChanType, *ast.FuncType, *ast.StarExpr, *ast.InterfaceType:
			return 2
		}
		return 3
	}
	switch v := val.(type) {
	case *ast.BasicLit:
		return 1
	case *ast.Ident:
		if v.Name == "true" || v.Name == "false" {
			return 1
		}
		return 3
	case *ast.CallExpr:
		switch exprStr(v.Fun) {
		case "reflect.TypeOf":
			return 0
		case "make", "new":
			return 2
		}
		if id, ok := v.Fun.(*ast.Ident); ok && basic[id.Name] && len(v.Args) == 1 { // conversion int64(3)
			return 1
		}
		return 3
	case *ast.UnaryExpr:
		if v.Op == token.AND {
			return 2
		}
		return asnKindOf(nil, v.X)
	case *ast.BinaryExpr:
		a, b := asnKindOf(nil, v.X), asnKindOf(nil, v.Y)
		if a == 1 && b == 1 {
			return 1
		}
		return 3
	case *ast.CompositeLit:
		switch v.Type.(type) {
		case *ast.MapType, *ast.ArrayType:
			return 2
		}
		return 3
	case *ast.FuncLit:
		return 2
	}
	return 3
}

// rootIdent follows v[k], v.f, *v, (v), v[a:b] down to the identifier the expression starts from
func rootIdent(e ast.Expr) *ast.Ident {
	for {
		switch x := e.(type) {
		case *ast.Ident:
			return x
		case *ast.IndexExpr:
			e = x.X
		case *ast.SelectorExpr:
			e = x.X
		case *ast.StarExpr:
			e = x.X
		case *ast.ParenExpr:
			e = x.X
		case *ast.SliceExpr:
			e = x.X
		default:
			return nil
		}
	}
}

func dumpAsnGlobals() {
	var sb strings.Builder
	sb.WriteString("/- GENERATED from the repository's working tree by `verifharness dump-tables asnglobals` — do not edit. -/\n")
	sb.WriteString("import ChfVerif.Model.CodecState\nnamespace Chf.Gen\nopen Chf.CodecState\n\n")
	sb.WriteString(packageGlobalsLean(filepath.Join("cdr", "asn"), "asn", "asnGlobals"))
	sb.WriteString("\n")
	sb.WriteString(packageGlobalsLean(filepath.Join("cdr", "cdrFile"), "cdrFile", "cdrFileGlobals"))
	sb.WriteString("\nend Chf.Gen\n")
	fmt.Print(sb.String())
}

// packageGlobalsLean: the table for one package of the repository (directory relative to the root, default import name, Lean name)
func packageGlobalsLean(rel, pkgName, leanName string) string {
	dir := filepath.Join(repoRoot(), rel)
	ents, err := os.ReadDir(dir)
	if err != nil {
		fmt.Fprintln(os.Stderr, err)
		os.Exit(1)
	}
	fset := token.NewFileSet()
	var files []*ast.File
	var names []string
	for _, e := range ents {
		if e.IsDir() || !strings.HasSuffix(e.Name(), ".go") || strings.HasSuffix(e.Name(), "_test.go") {
			continue
		}
		f, err := parser.ParseFile(fset, filepath.Join(dir, e.Name()), nil, 0)
		if err != nil {
			fmt.Fprintln(os.Stderr, err)
			os.Exit(1)
		}
		files = append(files, f)
		names = append(names, e.Name())
	}
	globals := map[string]*asnGlobal{}
	topSpecs := map[interface{}]bool{}
	for k, f := range files {
		for _, d := range f.Decls {
			gd, ok := d.(*ast.GenDecl)
			if !ok || gd.Tok != token.VAR {
				continue
			}
			for _, sp := range gd.Specs {
				vs := sp.(*ast.ValueSpec)
				topSpecs[vs] = true
				for i, n := range vs.Names {
					if n.Name == "_" {
						continue
					}
					var val ast.Expr
					if i < len(vs.Values) {
						val = vs.Values[i]
					} else if len(vs.Values) == 1 && len(vs.Names) > 1 {
						val = &ast.BadExpr{} // v, w = f(): unknown
					}
					kind := 3
					if vs.Type != nil || val != nil {
						kind = asnKindOf(vs.Type, val)
					}
					globals[n.Name] = &asnGlobal{name: n.Name, file: names[k], kind: kind}
				}
			}
		}
	}
	isGlobal := func(id *ast.Ident) *asnGlobal {
		if id == nil {
			return nil
		}
		g := globals[id.Name]
		if g == nil {
			return nil
		}
		if id.Obj == nil || topSpecs[id.Obj.Decl] {
			return g
		}
		return nil // shadowed by a local declaration
	}
	bare := func(e ast.Expr) *asnGlobal { // the variable itself, (v), or a slice of it
		for {
			switch x := e.(type) {
			case *ast.Ident:
				return isGlobal(x)
			case *ast.ParenExpr:
				e = x.X
			case *ast.SliceExpr:
				e = x.X
			default:
				return nil
			}
		}
	}
	for _, f := range files {
		for _, d := range f.Decls {
			fd, ok := d.(*ast.FuncDecl)
			if !ok || fd.Body == nil || (fd.Recv == nil && fd.Name.Name == "init") {
				continue
			}
			ast.Inspect(fd.Body, func(n ast.Node) bool {
				switch x := n.(type) {
				case *ast.AssignStmt:
					for _, l := range x.Lhs {
						if x.Tok == token.DEFINE {
							continue
						}
						if g := isGlobal(rootIdent(l)); g != nil {
							g.assigns++
						}
					}
					for _, r := range x.Rhs {
						if g := bare(r); g != nil {
							g.escapes++
						}
					}
				case *ast.IncDecStmt:
					if g := isGlobal(rootIdent(x.X)); g != nil {
						g.assigns++
					}
				case *ast.RangeStmt:
					if x.Tok == token.ASSIGN {
						for _, l := range []ast.Expr{x.Key, x.Value} {
							if l != nil {
								if g := isGlobal(rootIdent(l)); g != nil {
									g.assigns++
								}
							}
						}
					}
				case *ast.UnaryExpr:
					if x.Op == token.AND {
						if g := isGlobal(rootIdent(x.X)); g != nil {
							g.addrTaken++
						}
					}
				case *ast.CallExpr:
					if sel, ok := x.Fun.(*ast.SelectorExpr); ok {
						if g := isGlobal(rootIdent(sel.X)); g != nil {
							g.methodCalls++
						}
					}
					fn := exprStr(x.Fun)
					if fn != "len" && fn != "cap" {
						for _, a := range x.Args {
							if g := bare(a); g != nil {
								g.escapes++
							}
						}
					}
				case *ast.ReturnStmt:
					for _, r := range x.Results {
						if g := bare(r); g != nil {
							g.escapes++
						}
					}
				case *ast.SendStmt:
					if g := bare(x.Value); g != nil {
						g.escapes++
					}
				case *ast.CompositeLit:
					for _, el := range x.Elts {
						if kv, ok := el.(*ast.KeyValueExpr); ok {
							el = kv.Value
						}
						if g := bare(el); g != nil {
							g.escapes++
						}
					}
				case *ast.ValueSpec: // var x = v
					for _, r := range x.Values {
						if g := bare(r); g != nil {
							g.escapes++
						}
					}
				}
				return true
			})
		}
	}
	// writes from the other packages of the repository
	_ = filepath.Walk(repoRoot(), func(path string, info os.FileInfo, err error) error {
		if err != nil {
			return nil
		}
		if info.IsDir() {
			if b := info.Name(); (strings.HasPrefix(b, ".") && path != repoRoot()) || b == "vendor" || b == "testdata" {
				return filepath.SkipDir
			}
			return nil
		}
		if !strings.HasSuffix(path, ".go") || strings.HasSuffix(path, "_test.go") || filepath.Dir(path) == dir {
			return nil
		}
		f, err := parser.ParseFile(token.NewFileSet(), path, nil, 0)
		if err != nil {
			return nil
		}
		alias := ""
		for _, im := range f.Imports {
			p, _ := strconv.Unquote(im.Path.Value)
			if strings.HasSuffix(p, "/"+filepath.ToSlash(rel)) {
				alias = pkgName
				if im.Name != nil {
					alias = im.Name.Name
				}
			}
		}
		if alias == "" || alias == "_" {
			return nil
		}
		foreign := func(e ast.Expr) *asnGlobal {
			for {
				switch x := e.(type) {
				case *ast.SelectorExpr:
					if id, ok := x.X.(*ast.Ident); ok && (id.Name == alias || alias == ".") && id.Obj == nil {
						return globals[x.Sel.Name]
					}
					e = x.X
				case *ast.IndexExpr:
					e = x.X
				case *ast.StarExpr:
					e = x.X
				case *ast.ParenExpr:
					e = x.X
				case *ast.SliceExpr:
					e = x.X
				default:
					return nil
				}
			}
		}
		ast.Inspect(f, func(n ast.Node) bool {
			switch x := n.(type) {
			case *ast.AssignStmt:
				if x.Tok != token.DEFINE {
					for _, l := range x.Lhs {
						if g := foreign(l); g != nil {
							g.foreign++
						}
					}
				}
			case *ast.IncDecStmt:
				if g := foreign(x.X); g != nil {
					g.foreign++
				}
			case *ast.UnaryExpr:
				if x.Op == token.AND {
					if g := foreign(x.X); g != nil {
						g.foreign++
					}
				}
			case *ast.CallExpr:
				if sel, ok := x.Fun.(*ast.SelectorExpr); ok {
					if _, direct := sel.X.(*ast.Ident); !direct { // asn.V.M(…), not asn.F(…)
						if g := foreign(sel.X); g != nil && g.kind != 0 {
							g.foreign++
						}
					}
				}
			}
			return true
		})
		return nil
	})
	var order []string
	for n := range globals {
		order = append(order, n)
	}
	sort.Strings(order)
	var sb strings.Builder
	fmt.Fprintf(&sb, "/-- every package-level variable of %s: name, kind (0 reflect.Type handle, 1 scalar, 2 reference, 3 other),\n", filepath.ToSlash(rel))
	sb.WriteString("    assignments, address-of, method calls, hand-ons of the bare variable (all outside init), writes from other packages -/\n")
	fmt.Fprintf(&sb, "def %s : List GlobalVar := [\n", leanName)
	var rows []string
	for _, n := range order {
		g := globals[n]
		rows = append(rows, fmt.Sprintf("  ⟨%q, %d, %d, %d, %d, %d, %d⟩", g.file+":"+g.name, g.kind, g.assigns, g.addrTaken, g.methodCalls, g.escapes, g.foreign))
	}
	sb.WriteString(strings.Join(rows, ",\n"))
	sb.WriteString("\n]\n")
	return sb.String()
}
