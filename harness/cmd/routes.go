//go:build verif

package main

import (
	"bufio"
	"bytes"
	"context"
	"crypto/ecdsa"
	"crypto/elliptic"
	"crypto/rand"
	"crypto/rsa"
	"crypto/x509"
	"crypto/x509/pkix"
	"encoding/json"
	"encoding/pem"
	"fmt"
	"go/ast"
	"go/parser"
	"go/token"
	"io"
	"math/big"
	"net/http/httptest"
	"os"
	"path/filepath"
	"sort"
	"strconv"
	"strings"
	"sync"
	"time"

	"github.com/gin-gonic/gin"
	"github.com/golang-jwt/jwt/v5"

	chf_context "github.com/free5gc/chf/internal/context"
	"github.com/free5gc/chf/pkg/factory"
	"github.com/free5gc/chf/pkg/service"
)

type routeFact struct {
	Method, Path string
	Chain        int
}

// buildRouter builds the real application (service.NewApp -> sbi.NewServer -> newRouter) for a service
// list and returns the engine plus the handler-chain length gin reported for every route.
func buildRouter(services []string) (*gin.Engine, []routeFact) {
	startEnv()
	var facts []routeFact
	gin.SetMode(gin.DebugMode)
	gin.DefaultWriter = devNull{}
	gin.DebugPrintRouteFunc = func(m, p, h string, n int) { facts = append(facts, routeFact{m, p, n}) }
	cfg := baseConfig()
	cfg.Configuration.ServiceNameList = services
	factory.ChfConfig = cfg
	app, err := service.NewApp(context.Background(), cfg, "")
	gin.SetMode(gin.ReleaseMode)
	if err != nil {
		panic(err)
	}
	return app.VerifSbi().VerifRouter(), facts
}

type devNull struct{}

func (devNull) Write(p []byte) (int, error) { return len(p), nil }

var allServices = []string{"nchf-convergedcharging", "nchf-offlineonlycharging", "nchf-spendinglimitcontrol"}

// serviceLists: every ordered list of distinct service names (16 lists)
func serviceLists() [][]string {
	var out [][]string
	var rec func(cur []string, used int)
	rec = func(cur []string, used int) {
		out = append(out, append([]string{}, cur...))
		for i, s := range allServices {
			if used&(1<<uint(i)) == 0 {
				rec(append(cur, s), used|1<<uint(i))
			}
		}
	}
	rec(nil, 0)
	return out
}

func leanStr(s string) string { return fmt.Sprintf("%q", s) }

func init() {
	tableDumpers["routes"] = dumpRoutes
	streams["auth"] = &stream{gen: genAuth, run: runAuth, setup: func() { startEnv() }}
}

// dumpRoutes emits ChfVerif/Gen/Routes.lean: run-time route tables for every service list, and the
// syntactic facts of newRouter (per case: prefix constant, Use before applyRoutes; routes on the bare engine).
func dumpRoutes() {
	var sb strings.Builder
	sb.WriteString("/- GENERATED from the repository's working tree by `verifharness dump-tables routes` — do not edit. -/\n")
	sb.WriteString("import ChfVerif.Model.Router\nnamespace Chf.Gen\nopen Chf.Router\n\n")
	// run-time tables
	sb.WriteString("/-- (service list, routes as registered: method, path, handler-chain length reported by gin) -/\n")
	sb.WriteString("def runtimeRoutes : List (List String × List RouteInfo) := [\n")
	for i, l := range serviceLists() {
		_, facts := buildRouter(l)
		var names []string
		for _, s := range l {
			names = append(names, leanStr(s))
		}
		var rs []string
		for _, f := range facts {
			// the group the route lies under: the service prefix constant its path starts with ("" if none)
			group := ""
			for _, p := range []string{factory.ConvergedChargingResUriPrefix, factory.OfflineOnlyChargingResUriPrefix, factory.SpendingLimitControlResUriPrefix} {
				if strings.HasPrefix(f.Path, p+"/") || f.Path == p {
					group = p
				}
			}
			rs = append(rs, fmt.Sprintf("⟨%s, %s, %s, %d⟩", leanStr(f.Method), leanStr(f.Path), leanStr(group), f.Chain))
		}
		sep := ","
		if i == len(serviceLists())-1 {
			sep = ""
		}
		fmt.Fprintf(&sb, "  ([%s], [%s])%s\n", strings.Join(names, ", "), strings.Join(rs, ", "), sep)
	}
	sb.WriteString("]\n\n")
	// engine-level middleware count: a router with no service has no route; measure with a probe group
	base := baseChainLen()
	fmt.Fprintf(&sb, "/-- handlers gin runs before any group middleware (logger, recovery …) -/\ndef baseChain : Nat := %d\n\n", base)
	// syntactic facts
	facts, bare, err := astRouterFacts(filepath.Join(repoRoot(), "internal", "sbi"))
	if err != nil {
		fmt.Fprintln(os.Stderr, "ast:", err)
		os.Exit(1)
	}
	factsFrom := "go/ast: per `case` of the switch in newRouter"
	if len(facts) == 0 {
		// newRouter is not written as a switch over the service names (a table, a helper per service, …): the same facts
		// are taken from the compiled router instead - per service, alone on the engine: the prefix its routes lie under,
		// that every one of its routes got the group's middleware (gin fixes a route's handler chain when the route is
		// registered: a route registered before Use() has a chain one handler shorter), and that this middleware is the
		// authorization check (a request without token, OAuth2 mandatory, is answered 401 on every route)
		factsFrom = "compiled router (newRouter is not a switch over the service names): per service alone on the engine"
		facts, bare = runtimeRouterFacts(base)
	}
	fmt.Fprintf(&sb, "/-- %s: service name, group prefix, whether the group's\n    middleware is installed before its routes are registered, and whether that middleware is the authorization check -/\n", factsFrom)
	sb.WriteString("def caseFacts : List CaseFact := [\n")
	for i, f := range facts {
		sep := ","
		if i == len(facts)-1 {
			sep = ""
		}
		fmt.Fprintf(&sb, "  ⟨%s, %s, %v, %v⟩%s\n", leanStr(f.name), leanStr(f.prefix), f.useBefore, f.authInUse, sep)
	}
	sb.WriteString("]\n\n")
	fmt.Fprintf(&sb, "/-- route registrations made directly on the engine inside newRouter -/\ndef bareRegistrations : Nat := %d\n\n", bare)
	// control-flow paths of the middleware and of the decision function
	cps, err := checkPathsOf(filepath.Join(repoRoot(), "internal", "util", "router_auth_check.go"))
	if err != nil {
		fmt.Fprintln(os.Stderr, "ast:", err)
		os.Exit(1)
	}
	sb.WriteString("/-- every control-flow path of util.RouterAuthorizationCheck.Check (go/ast), in source order -/\n")
	sb.WriteString("def checkPaths : List (List Ev) := [\n")
	for i, p := range cps {
		sep := ","
		if i == len(cps)-1 {
			sep = ""
		}
		fmt.Fprintf(&sb, "  %s%s\n", leanList(p.evs), sep)
	}
	sb.WriteString("]\n\n")
	aps, err := authPathsOf(filepath.Join(repoRoot(), "internal", "context", "context.go"))
	if err != nil {
		fmt.Fprintln(os.Stderr, "ast:", err)
		os.Exit(1)
	}
	sb.WriteString("/-- every control-flow path of CHFContext.AuthorizationCheck (go/ast) with what it returns -/\n")
	sb.WriteString("def authPaths : List APath := [\n")
	for i, p := range aps {
		sep := ","
		if i == len(aps)-1 {
			sep = ""
		}
		fmt.Fprintf(&sb, "  ⟨%s, %s⟩%s\n", leanList(p.evs), p.ret, sep)
	}
	sb.WriteString("]\n\nend Chf.Gen\n")
	fmt.Print(sb.String())
}

func repoRoot() string {
	if r := os.Getenv("VERIF_REPO"); r != "" {
		return r
	}
	return "/repo"
}

func baseChainLen() int {
	// the engine-level middleware newRouter's engine starts with (logger, recovery …): gin exposes the chain
	eng, _ := buildRouter(nil)
	return len(eng.Handlers)
}

type caseFact struct {
	name, prefix         string
	useBefore, authInUse bool
}

// runtimeRouterFacts: the facts of astRouterFacts read off the compiled router (see dumpRoutes)
func runtimeRouterFacts(base int) ([]caseFact, int) {
	var out []caseFact
	bare := 0
	prefixes := []string{factory.ConvergedChargingResUriPrefix, factory.OfflineOnlyChargingResUriPrefix, factory.SpendingLimitControlResUriPrefix}
	setupNrfCert()
	for _, svc := range allServices {
		chf_context.GetSelf().OAuth2Required = false
		eng, routes := buildRouter([]string{svc})
		cf := caseFact{name: svc, useBefore: len(routes) > 0, authInUse: len(routes) > 0}
		for _, r := range routes {
			group := ""
			for _, p := range prefixes {
				if strings.HasPrefix(r.Path, p+"/") || r.Path == p {
					group = p
				}
			}
			if group == "" {
				bare++
				continue
			}
			if cf.prefix == "" {
				cf.prefix = group
			} else if cf.prefix != group {
				cf.useBefore = false
			}
			if r.Chain != base+2 {
				cf.useBefore = false
			}
			// the middleware is the authorization check: no token, OAuth2 mandatory -> 401
			self := chf_context.GetSelf()
			self.OAuth2Required = true
			self.NrfCertPem = nrfCertPem
			path := r.Path
			parts := strings.Split(path, "/")
			for i, p := range parts {
				if strings.HasPrefix(p, ":") {
					parts[i] = "x"
				}
			}
			req := httptest.NewRequest(r.Method, strings.Join(parts, "/"), strings.NewReader("{}"))
			req.Header.Set("Content-Type", "application/json")
			w := httptest.NewRecorder()
			func() {
				defer func() { _ = recover() }()
				eng.ServeHTTP(w, req)
			}()
			if w.Code != 401 {
				cf.authInUse = false
			}
			self.OAuth2Required = false
		}
		out = append(out, cf)
	}
	return out, bare
}

// astRouterFacts reads newRouter syntactically.  The function is found by what it is, not by its name: the function of
// package internal/sbi that returns a *gin.Engine (in whichever file of the package it lives); the route-registering helper
// (applyRoutes) likewise: any function of the package whose first parameter is a *gin.RouterGroup.  When there is no such
// function the facts are empty and the caller reads them off the compiled router.
func astRouterFacts(dir string) ([]caseFact, int, error) {
	fset := token.NewFileSet()
	pkgs, err := parser.ParseDir(fset, dir, func(fi os.FileInfo) bool { return !strings.HasSuffix(fi.Name(), "_test.go") }, 0)
	if err != nil {
		return nil, 0, err
	}
	isPtrTo := func(e ast.Expr, pkg, name string) bool {
		st, ok := e.(*ast.StarExpr)
		if !ok {
			return false
		}
		se, ok := st.X.(*ast.SelectorExpr)
		if !ok {
			return false
		}
		id, ok := se.X.(*ast.Ident)
		return ok && id.Name == pkg && se.Sel.Name == name
	}
	var fn *ast.FuncDecl
	appliers := map[string]bool{}
	for _, p := range pkgs {
		for _, f := range p.Files {
			for _, d := range f.Decls {
				x, ok := d.(*ast.FuncDecl)
				if !ok || x.Body == nil {
					continue
				}
				if x.Type.Results != nil && len(x.Type.Results.List) == 1 && isPtrTo(x.Type.Results.List[0].Type, "gin", "Engine") &&
					(fn == nil || x.Name.Name == "newRouter") {
					fn = x
				}
				if x.Recv == nil && x.Type.Params != nil && len(x.Type.Params.List) > 0 && isPtrTo(x.Type.Params.List[0].Type, "gin", "RouterGroup") {
					appliers[x.Name.Name] = true
				}
			}
		}
	}
	if fn == nil {
		return nil, 0, nil
	}
	// the engine variable: first assignment `router := …`
	engine := ""
	ast.Inspect(fn.Body, func(n ast.Node) bool {
		if a, ok := n.(*ast.AssignStmt); ok && engine == "" && len(a.Lhs) == 1 {
			if id, ok := a.Lhs[0].(*ast.Ident); ok {
				engine = id.Name
			}
		}
		return true
	})
	sel := func(e ast.Expr) (string, string) {
		if c, ok := e.(*ast.CallExpr); ok {
			if s, ok := c.Fun.(*ast.SelectorExpr); ok {
				if id, ok := s.X.(*ast.Ident); ok {
					return id.Name, s.Sel.Name
				}
			}
			if id, ok := c.Fun.(*ast.Ident); ok {
				return "", id.Name
			}
		}
		return "", ""
	}
	exprStr := func(e ast.Expr) string {
		switch x := e.(type) {
		case *ast.SelectorExpr:
			return x.Sel.Name
		case *ast.Ident:
			return x.Name
		case *ast.BasicLit:
			return x.Value
		}
		return "?"
	}
	var facts []caseFact
	bare := 0
	regs := map[string]bool{"GET": true, "POST": true, "PUT": true, "PATCH": true, "DELETE": true, "Any": true, "Handle": true, "HEAD": true, "OPTIONS": true}
	ast.Inspect(fn.Body, func(n ast.Node) bool {
		if c, ok := n.(*ast.CallExpr); ok {
			x, m := sel(c)
			if x == engine && regs[m] {
				bare++
			}
			if appliers[m] && x == "" && len(c.Args) > 0 {
				if id, ok := c.Args[0].(*ast.Ident); ok && id.Name == engine {
					bare++
				}
			}
		}
		cc, ok := n.(*ast.CaseClause)
		if !ok || len(cc.List) == 0 {
			return true
		}
		var cf caseFact
		cf.name = exprStr(cc.List[0])
		group := ""
		usePos, applyPos := -1, -1
		for i, st := range cc.Body {
			switch s := st.(type) {
			case *ast.AssignStmt:
				if len(s.Rhs) == 1 {
					if x, m := sel(s.Rhs[0]); x == engine && m == "Group" {
						group = s.Lhs[0].(*ast.Ident).Name
						cf.prefix = exprStr(s.Rhs[0].(*ast.CallExpr).Args[0])
					}
				}
			case *ast.ExprStmt:
				x, m := sel(s.X)
				if x == group && m == "Use" && usePos < 0 {
					usePos = i
					// does the middleware call the authorization check?
					ast.Inspect(s.X, func(k ast.Node) bool {
						if se, ok := k.(*ast.SelectorExpr); ok && (se.Sel.Name == "Check" || se.Sel.Name == "NewRouterAuthorizationCheck") {
							cf.authInUse = true
						}
						return true
					})
				}
				if appliers[m] && x == "" && applyPos < 0 {
					if c := s.X.(*ast.CallExpr); len(c.Args) > 0 {
						if id, ok := c.Args[0].(*ast.Ident); ok && id.Name == group {
							applyPos = i
						}
					}
				}
			}
		}
		cf.useBefore = usePos >= 0 && applyPos >= 0 && usePos < applyPos
		facts = append(facts, cf)
		return true
	})
	// resolve the constants to their string values through the compiled packages
	consts := map[string]string{
		"ServiceName_NCHF_CONVERGEDCHARGING":    "nchf-convergedcharging",
		"ServiceName_NCHF_OFFLINEONLYCHARGING":  "nchf-offlineonlycharging",
		"ServiceName_NCHF_SPENDINGLIMITCONTROL": "nchf-spendinglimitcontrol",
		"ConvergedChargingResUriPrefix":         factory.ConvergedChargingResUriPrefix,
		"OfflineOnlyChargingResUriPrefix":       factory.OfflineOnlyChargingResUriPrefix,
		"SpendingLimitControlResUriPrefix":      factory.SpendingLimitControlResUriPrefix,
	}
	for i := range facts {
		if v, ok := consts[facts[i].name]; ok {
			facts[i].name = v
		}
		if v, ok := consts[facts[i].prefix]; ok {
			facts[i].prefix = v
		} else {
			facts[i].prefix = strings.Trim(facts[i].prefix, "\"")
		}
	}
	sort.SliceStable(facts, func(i, j int) bool { return facts[i].name < facts[j].name })
	return facts, bare, nil
}

// ---- auth stream: every route x token kind, OAuth2 required ----

var (
	nrfKey     *rsa.PrivateKey
	nrfCertPem string
	otherKey   *rsa.PrivateKey
)

func setupNrfCert() {
	if nrfKey != nil {
		return
	}
	nrfKey, _ = rsa.GenerateKey(rand.Reader, 2048)
	otherKey, _ = rsa.GenerateKey(rand.Reader, 2048)
	tmpl := x509.Certificate{SerialNumber: big.NewInt(2), Subject: pkix.Name{CommonName: "nrf"},
		NotBefore: time.Now().Add(-time.Hour), NotAfter: time.Now().Add(240 * time.Hour)}
	der, err := x509.CreateCertificate(rand.Reader, &tmpl, &tmpl, &nrfKey.PublicKey, nrfKey)
	if err != nil {
		panic(err)
	}
	nrfCertPem = filepath.Join(envDir, "nrf.pem")
	_ = os.WriteFile(nrfCertPem, pem.EncodeToMemory(&pem.Block{Type: "CERTIFICATE", Bytes: der}), 0o600)
	_ = ecdsa.PrivateKey{}
	_ = elliptic.P256
}

func mkToken(kind string) string {
	claims := jwt.MapClaims{"iss": "nrf", "sub": "smf", "aud": "CHF", "scope": "nchf-convergedcharging nchf-offlineonlycharging nchf-spendinglimitcontrol",
		"exp": time.Now().Add(time.Hour).Unix()}
	kind = strings.TrimSuffix(kind, "+nocert")
	if kind == "valid" || strings.HasPrefix(kind, "v-") {
		return nearMissToken(kind, claims)
	}
	switch kind {
	case "none":
		return ""
	case "garbage":
		return "garbage"
	case "basic":
		return "Basic dXNlcjpwYXNz"
	case "token-scheme":
		return "Token abc"
	case "bearer-lower":
		return "bearer abc.def.ghi"
	case "three-words":
		return "Bearer abc def"
	case "bearer-garbage":
		return "Bearer abc.def.ghi"
	case "alg-none":
		t := jwt.NewWithClaims(jwt.SigningMethodNone, claims)
		s, _ := t.SignedString(jwt.UnsafeAllowNoneSignatureType)
		return "Bearer " + s
	case "hs256":
		t := jwt.NewWithClaims(jwt.SigningMethodHS256, claims)
		s, _ := t.SignedString([]byte("secret"))
		return "Bearer " + s
	case "wrong-key":
		t := jwt.NewWithClaims(jwt.SigningMethodRS512, claims)
		s, _ := t.SignedString(otherKey)
		return "Bearer " + s
	}
	return ""
}

// "+nocert": the NRF made OAuth2 mandatory but no NRF certificate is configured (nrfCertPem unset): still 401
var tokenKinds = []string{"none", "garbage", "bearer-garbage", "alg-none", "hs256", "wrong-key", "basic", "token-scheme", "bearer-lower", "three-words",
	"none+nocert", "hs256+nocert", "wrong-key+nocert"}

func genAuth(o genOpts, w *bufio.Writer) {
	startEnv()
	for _, l := range serviceLists() {
		_, facts := buildRouter(l)
		name := strings.Join(l, ",")
		if name == "" {
			name = "-"
		}
		for _, f := range facts {
			for _, k := range tokenKinds {
				fmt.Fprintf(w, "auth probe %s %s %s %s\n", name, f.Method, hexOf([]byte(f.Path)), k)
			}
		}
		// the same routes under another spelling of their path: one character of the service prefix / of the version segment
		// percent-encoded (net/http decodes it, the router matches the decoded path: it is the same route)
		for _, f := range facts {
			for _, sp := range escapedSpellings(f.Path) {
				for _, k := range []string{"none", "garbage", "wrong-key"} {
					fmt.Fprintf(w, "auth probe %s %s %s %s\n", name, f.Method, hexOf([]byte(sp)), k)
				}
			}
		}
		// paths that are not registered at all must not reach a handler either
		fmt.Fprintf(w, "auth probe %s GET %s none\n", name, hexOf([]byte("/")))
		fmt.Fprintf(w, "auth probe %s POST %s none\n", name, hexOf([]byte("/chargingdata")))
		genAuthHistories(o, w, name, facts)
	}
	// requests at the same moment (the SBI server runs one goroutine per request): tokens signed by the NRF key and tokens that
	// are not, on one route, all at once; then the bad tokens again one by one
	rounds := 150
	if o.tier == "thorough" {
		rounds = 3000
	}
	for _, l := range serviceLists() {
		if len(l) != 1 {
			continue
		}
		_, facts := buildRouter(l)
		if len(facts) == 0 {
			continue
		}
		f := facts[len(facts)-1]
		fmt.Fprintf(w, "auth conc %s %s %s %d\n", l[0], f.Method, hexOf([]byte(f.Path)), rounds)
	}
	// how the NRF's declaration reaches the CHF: the registration answered 201 (new profile) or 200 (profile replaced), declaring
	// OAuth2 mandatory or not
	for _, code := range []string{"201", "200"} {
		for _, d := range []string{"1", "0"} {
			fmt.Fprintf(w, "auth nrf %s %s\n", code, d)
		}
	}
	fmt.Fprintf(w, "auth end\n")
}

// auth conc <service> <method> <hexpath> <rounds>: per round 4 requests with a valid token and 4 with a token that is not
// signed by the NRF key (2 kinds) are served at the same moment, then each bad token once more on its own.
// observation: conc bad=<requests with a bad token> accepted=<those not answered 401> [first=<kind>:<status>:<when>]
func runAuthConc(t []string) string {
	if len(t) != 5 {
		return "bad-op"
	}
	rounds, err := strconv.Atoi(t[4])
	if err != nil || rounds < 1 || rounds > 100000 {
		return "bad-op"
	}
	setupNrfCert()
	eng, ok := authRouters[t[1]]
	if !ok {
		chf_context.GetSelf().OAuth2Required = false
		eng, _ = buildRouter(strings.Split(t[1], ","))
		authRouters[t[1]] = eng
	}
	self := chf_context.GetSelf()
	self.OAuth2Required = true
	self.NrfCertPem = nrfCertPem
	pb, _ := unhex(t[3])
	supi := authSupi()
	parts := strings.Split(string(pb), "/")
	for i, p := range parts {
		if strings.HasPrefix(p, ":") {
			parts[i] = supi + "_1"
		}
	}
	path := strings.Join(parts, "/")
	body, _ := json.Marshal(map[string]interface{}{
		"subscriberIdentifier":     supi,
		"nfConsumerIdentification": map[string]interface{}{"nFName": "smf", "nodeFunctionality": "SMF"},
		"invocationSequenceNumber": 1, "invocationTimeStamp": time.Now().Format(time.RFC3339),
	})
	good := mkToken("valid")
	bads := []string{"wrong-key", "v-sigchar"}
	badTok := []string{mkToken(bads[0]), mkToken(bads[1])}
	serve := func(tok string) int {
		req := httptest.NewRequest(t[2], path, bytes.NewReader(body))
		req.Header.Set("Content-Type", "application/json")
		req.Header.Set("Authorization", tok)
		w := httptest.NewRecorder()
		eng.ServeHTTP(w, req)
		return w.Code
	}
	var mu sync.Mutex
	nBad, accepted, first := 0, 0, ""
	note := func(kind string, code int, when string) {
		mu.Lock()
		nBad++
		if code != 401 {
			accepted++
			if first == "" {
				first = fmt.Sprintf("%s:%d:%s", kind, code, when)
			}
		}
		mu.Unlock()
	}
	for r := 0; r < rounds; r++ {
		var wg sync.WaitGroup
		start := make(chan struct{})
		for g := 0; g < 8; g++ {
			wg.Add(1)
			go func(g int) {
				defer wg.Done()
				<-start
				if g%2 == 0 {
					serve(good)
				} else {
					k := (g / 2) % 2
					note(bads[k], serve(badTok[k]), "with-others")
				}
			}(g)
		}
		close(start)
		wg.Wait()
		for k := range bads {
			note(bads[k], serve(badTok[k]), "afterwards")
		}
	}
	s := fmt.Sprintf("conc bad=%d accepted=%d", nBad, accepted)
	if first != "" {
		s += " first=" + first
	}
	return s
}

// escapedSpellings: the path with its 2nd character, its first '-' and the first character of its second segment written as %XX
func escapedSpellings(path string) []string {
	var out []string
	enc := func(i int) {
		if i > 0 && i < len(path) && path[i] != '/' && path[i] != ':' {
			out = append(out, fmt.Sprintf("%s%%%02X%s", path[:i], path[i], path[i+1:]))
		}
	}
	enc(1)
	enc(strings.Index(path, "-"))
	if j := strings.Index(path[1:], "/"); j >= 0 {
		enc(j + 2)
	}
	return out
}

var authRouters = map[string]*gin.Engine{}

func runAuth(line string, t []string) string {
	if len(t) == 1 && t[0] == "end" {
		return authEnd()
	}
	if len(t) > 0 && t[0] == "conc" {
		return runAuthConc(t)
	}
	if len(t) > 0 && t[0] == "nrf" {
		return runAuthNrf(t) // authnrf.go
	}
	if (len(t) != 5 && len(t) != 6) || t[0] != "probe" {
		return "bad-op"
	}
	reqCtx := "live"
	if len(t) == 6 {
		reqCtx = t[5]
	}
	setupNrfCert()
	eng, ok := authRouters[t[1]]
	if !ok {
		var l []string
		if t[1] != "-" {
			l = strings.Split(t[1], ",")
		}
		// the service's own start-up order: the router is built (NewServer) before the NRF registration
		// answers and OAuth2Required is set
		chf_context.GetSelf().OAuth2Required = false
		eng, _ = buildRouter(l)
		authRouters[t[1]] = eng
	}
	self := chf_context.GetSelf()
	self.OAuth2Required = true
	self.NrfCertPem = nrfCertPem
	if strings.HasSuffix(t[4], "+nocert") {
		self.NrfCertPem = ""
	}
	pb, _ := unhex(t[3])
	path := string(pb)
	supi := authSupi()
	// instantiate path parameters
	parts := strings.Split(path, "/")
	for i, p := range parts {
		if strings.HasPrefix(p, ":") {
			parts[i] = supi + "_1"
		}
	}
	path = strings.Join(parts, "/")
	body, _ := json.Marshal(map[string]interface{}{
		"subscriberIdentifier":     supi,
		"nfConsumerIdentification": map[string]interface{}{"nFName": "smf", "nodeFunctionality": "SMF"},
		"invocationSequenceNumber": 1, "invocationTimeStamp": time.Now().Format(time.RFC3339),
	})
	tok := mkToken(t[4])
	if tok == "" && t[4] != "none" && t[4] != "none+nocert" {
		return "n/a" // this near-miss does not exist for the token at hand (or an unknown kind)
	}
	before, stBefore := poolSize(), authStateDigest()
	req := httptest.NewRequest(t[2], path, bytes.NewReader(body))
	req.Header.Set("Content-Type", "application/json")
	if tok != "" {
		req.Header.Set("Authorization", tok)
	}
	req, done := withRequestContext(req, reqCtx)
	if req == nil {
		return "bad-op"
	}
	w := httptest.NewRecorder()
	eng.ServeHTTP(w, req)
	done()
	after, stAfter := poolSize(), authStateDigest()
	// the answer is exactly one JSON value (a handler running after the rejection appends its own output)
	one := 0
	dec := json.NewDecoder(bytes.NewReader(w.Body.Bytes()))
	var v interface{}
	if dec.Decode(&v) == nil {
		var extra interface{}
		if err := dec.Decode(&extra); err == io.EOF {
			one = 1
		}
	}
	same := 1
	if stBefore != stAfter {
		same = 0
	}
	return fmt.Sprintf("status=%d pool=%d>%d one=%d state-same=%d", w.Code, before, after, one, same)
}

func poolSize() int {
	n := 0
	chf_context.GetSelf().UePool.Range(func(k, v interface{}) bool { n++; return true })
	return n
}
