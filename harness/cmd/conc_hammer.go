//go:build verif

package main

// conc hammer <roles> <supiHex> <rounds>
//
// One goroutine per letter of <roles>, all working on subscriber S = <supi> at the same time, through the real router:
//
//	foreground roles (each runs <rounds> rounds)
//	  E   one-time event of S (create with oneTimeEvent, one usage container)                      expects 201
//	  S   two sessions of S via the same consumer, alive together: create a, create b, update a, update b,
//	      release a, release b                                                                  expects 201 201 200 200 204 204
//	  C   one session of S: create, release                                                       expects 201 204
//	  V   update of a session of S that stays open during the whole run                           expects 200
//	background roles (loop until every foreground role has finished; <rounds> rounds if there is none)
//	  X   create of ANOTHER subscriber that OpenCDR refuses (malformed PLMN id)                    expects 400
//	  x   the same for S itself                                                                   expects 400
//	  U   update naming a reference of S that designates nothing                                  expects 404 (400 while S is unknown)
//	  R   release naming a reference of S that designates nothing                                 expects 404 (400 while S is unknown)
//
// Bookkeeping while it runs: every reference returned by a 201 is entered in a set when the answer arrives and taken out
// just BEFORE its release is sent; a 201 that returns a reference still in the set has handed out the reference of a
// session that is not released (dup).
//
// observation (quiescent): done=<0|1> n=<requests> bad=<answers other than expected>[:<first, hex>] dup=<count>[:<first reference, hex>]
//	left=<session references of S still in its session map, other than the one V works on and the events' empty one>
//
// Data races and fatal errors (concurrent map access) are reported by the run time on stderr / by the death of the
// process; the check reads both.

import (
	"encoding/json"
	"fmt"
	"net/http/httptest"
	"strings"
	"sync"
	"sync/atomic"
	"time"

	chf_context "github.com/free5gc/chf/internal/context"
	"github.com/free5gc/openapi/models"
)

func locOf(w *httptest.ResponseRecorder) string {
	if l := w.Header().Get("Location"); l != "" {
		if j := strings.LastIndex(l, "/chargingdata/"); j >= 0 {
			return l[j+len("/chargingdata/"):]
		}
	}
	return ""
}

func runHammer(t []string) string {
	p := &tk{t: t, ok: true}
	roles, supi, rounds := p.next(), p.hexs(), int(p.i())
	if !p.ok || len(p.t) != 0 || roles == "" || len(roles) > 16 || rounds < 1 || rounds > 100000 || strings.Trim(roles, "ESCVXxUR") != "" {
		return "bad-op"
	}
	runChf("chf reset", []string{"reset"})
	concQueue, concAcked = nil, nil
	// the CHF keeps a subscriber's CDR file at a fixed place (/tmp/<supi>.cdr): another check running the same operations at
	// the same time must not write the file this one transfers - five digits of the identifier come from the process id
	supi = saltSupi(supi)
	other := supi + "9"
	chfSupis[supi], chfSupis[other] = true, true
	store.set(supi, 1, "100000000", "1")

	body := func(one bool, badPlmn bool, who string, seq int) []byte {
		r := onlineUpdate(who, "", seq, 0)
		r.MultipleUnitUsage = nil // no credit control: the requests are short, the schedule dense
		r.OneTimeEvent = one
		if one {
			r.MultipleUnitUsage = []models.ChfConvergedChargingMultipleUnitUsage{{RatingGroup: 1, UPFID: "upf",
				UsedUnitContainer: []models.ChfConvergedChargingUsedUnitContainer{{QuotaManagementIndicator: models.QuotaManagementIndicator_OFFLINE_CHARGING, TotalVolume: 1, LocalSequenceNumber: int32(seq)}}}}
		}
		if badPlmn {
			r.NfConsumerIdentification.NFPLMNID = &models.PlmnId{Mcc: "20", Mnc: "93"}
		}
		b, _ := json.Marshal(r)
		return b
	}
	plain := body(false, false, supi, 1)
	event := body(true, false, supi, 1)
	refusedOther := body(false, true, other, 1)
	refusedSelf := body(false, true, supi, 1)

	// the session V works on
	stable := ""
	if strings.Contains(roles, "V") {
		w := doHTTP("POST", ccPrefix+"/chargingdata", plain)
		stable = locOf(w)
		if w.Code != 201 || stable == "" {
			return "setup-failed"
		}
	}

	var (
		mu       sync.Mutex
		live     = map[string]bool{}
		dups     int
		firstDup string
		bad      int
		firstBad string
		nreq     int64
		fgLeft   int32
	)
	note := func(what string, code, want int) {
		atomic.AddInt64(&nreq, 1)
		if code != want && !(want == 404 && code == 400) {
			mu.Lock()
			bad++
			if firstBad == "" {
				firstBad = fmt.Sprintf("%s answered %d, expected %d", what, code, want)
			}
			mu.Unlock()
		}
	}
	create := func() string {
		w := doHTTP("POST", ccPrefix+"/chargingdata", plain)
		note("create", w.Code, 201)
		if w.Code != 201 {
			return ""
		}
		ref := locOf(w)
		mu.Lock()
		if live[ref] {
			dups++
			if firstDup == "" {
				firstDup = ref
			}
		}
		live[ref] = true
		mu.Unlock()
		return ref
	}
	update := func(ref string) {
		if ref != "" {
			note("update of a live session", doHTTP("POST", ccPrefix+"/chargingdata/"+escapePath(ref)+"/update", plain).Code, 200)
		}
	}
	release := func(ref string) {
		if ref == "" {
			return
		}
		mu.Lock()
		delete(live, ref)
		mu.Unlock()
		note("release of a live session", doHTTP("POST", ccPrefix+"/chargingdata/"+escapePath(ref)+"/release", plain).Code, 204)
	}
	for _, c := range roles {
		if strings.ContainsRune("ESCV", c) {
			fgLeft++
		}
	}
	anyFg := fgLeft > 0
	var wg sync.WaitGroup
	barrier := make(chan struct{})
	for i, c := range roles {
		wg.Add(1)
		go func(i int, c rune) {
			defer wg.Done()
			fg := strings.ContainsRune("ESCV", c)
			if fg {
				defer atomic.AddInt32(&fgLeft, -1)
			}
			<-barrier
			for k := 0; ; k++ {
				if fg || !anyFg {
					if k >= rounds {
						return
					}
				} else if atomic.LoadInt32(&fgLeft) == 0 || k >= 200*rounds {
					return
				}
				switch c {
				case 'E':
					note("one-time event", doHTTP("POST", ccPrefix+"/chargingdata", event).Code, 201)
				case 'S':
					a := create()
					b := create()
					update(a)
					update(b)
					release(a)
					release(b)
				case 'C':
					release(create())
				case 'V':
					note("update of the open session", doHTTP("POST", ccPrefix+"/chargingdata/"+escapePath(stable)+"/update", plain).Code, 200)
				case 'X':
					note("create refused by OpenCDR (other subscriber)", doHTTP("POST", ccPrefix+"/chargingdata", refusedOther).Code, 400)
				case 'x':
					note("create refused by OpenCDR", doHTTP("POST", ccPrefix+"/chargingdata", refusedSelf).Code, 400)
				case 'U':
					note("update naming an unknown reference", doHTTP("POST", ccPrefix+"/chargingdata/"+escapePath(fmt.Sprintf("%ssmf-%d", supi, 1000000+k))+"/update", plain).Code, 404)
				case 'R':
					note("release naming an unknown reference", doHTTP("POST", ccPrefix+"/chargingdata/nosuch-"+fmt.Sprint(i)+"/release", plain).Code, 404)
				}
			}
		}(i, c)
	}
	close(barrier)
	fin := make(chan struct{})
	go func() { wg.Wait(); close(fin) }()
	// a deadlock is what makes no progress: no request answered for 60 s (the whole run may take long - thousands of rounds with
	// CDR transfer on the race build)
	lastN, lastMove := int64(-1), time.Now()
wait:
	for {
		select {
		case <-fin:
			break wait
		case <-time.After(2 * time.Second):
			if n := atomic.LoadInt64(&nreq); n != lastN {
				lastN, lastMove = n, time.Now()
			} else if time.Since(lastMove) > 60*time.Second {
				return fmt.Sprintf("done=0 n=%d", n)
			}
		}
	}
	left := 0
	if ue, ok := chf_context.GetSelf().ChfUeFindBySupi(supi); ok {
		ue.CULock.Lock()
		for k := range ue.Cdr {
			if k != "" && k != stable {
				left++
			}
		}
		ue.CULock.Unlock()
	}
	cleanupCdrFiles()
	bs, ds := fmt.Sprint(bad), fmt.Sprint(dups)
	if bad > 0 {
		bs += ":" + hexOf([]byte(firstBad))
	}
	if dups > 0 {
		ds += ":" + hexOf([]byte(firstDup))
	}
	return fmt.Sprintf("done=1 n=%d bad=%s dup=%s left=%d", atomic.LoadInt64(&nreq), bs, ds, left)
}
