//go:build verif

package main

import (
	"bufio"
	"context"
	"fmt"
	"io"
	"os"
	"os/exec"
	"path/filepath"
	"reflect"
	"strings"
	"sync"
	"time"

	"github.com/free5gc/chf/internal/cgf"
	"github.com/free5gc/chf/internal/logger"
	"github.com/free5gc/chf/pkg/abmf"
	"github.com/free5gc/chf/pkg/factory"
	"github.com/free5gc/chf/pkg/rf"
	"github.com/free5gc/chf/pkg/service"
	"github.com/free5gc/util/mongoapi"
)

// configuration items that a variant may remove (bit i of the mask set = item i removed)
const (
	ciInfo = iota
	ciVersion
	ciConfiguration
	ciChfName
	ciSbi
	ciSbiRegister
	ciSbiBinding
	ciSbiPort
	ciSbiTls
	ciNrfUri
	ciMongodb
	ciRf
	ciRfTls
	ciAbmf
	ciAbmfTls
	ciCgf
	ciCgfPortRange
	ciLogger
	ciServiceList
	ciRfTlsPem
	ciCount
)

// cfgOpts: values (not presence) a variant may alter: the protocol of either Diameter section ("none": key absent)
// and whether the CGF (FTP transfer of CDR files) is enabled
type cfgOpts struct {
	rfProto, abmfProto string
	cgfOn              bool
	keyLog             bool // the CHF is started with a TLS key log file (cmd/main.go: --log <path> gives <dir>/key/chfsslkey.log)
}

func parseCfgOpts(toks []string) (cfgOpts, bool) {
	o := cfgOpts{rfProto: "tcp", abmfProto: "tcp"}
	for _, t := range toks {
		kv := strings.SplitN(t, "=", 2)
		if len(kv) != 2 {
			return o, false
		}
		switch kv[0] {
		case "rfp":
			o.rfProto = kv[1]
		case "abp":
			o.abmfProto = kv[1]
		case "cgf":
			o.cgfOn = kv[1] == "on"
			if kv[1] != "on" && kv[1] != "off" {
				return o, false
			}
		case "klog":
			o.keyLog = kv[1] == "on"
			if kv[1] != "on" && kv[1] != "off" {
				return o, false
			}
		default:
			return o, false
		}
	}
	return o, true
}

func yamlFor(mask uint64, scheme, svc string, pem, key string, ports [5]int, opt cfgOpts) string {
	has := func(i int) bool { return mask&(1<<uint(i)) == 0 }
	var sb strings.Builder
	w := func(f string, a ...interface{}) { fmt.Fprintf(&sb, f, a...) }
	if has(ciInfo) {
		w("info:\n")
		if has(ciVersion) {
			w("  version: 1.0.3\n")
		}
		w("  description: CHF configuration variant\n")
	}
	if has(ciConfiguration) {
		w("configuration:\n")
		if has(ciChfName) {
			w("  chfName: CHF\n")
		}
		if has(ciSbi) {
			w("  sbi:\n")
			if scheme != "none" {
				w("    scheme: %s\n", scheme)
			}
			if has(ciSbiRegister) {
				w("    registerIPv4: 127.0.0.1\n")
			}
			if has(ciSbiBinding) {
				w("    bindingIPv4: 127.0.0.1\n")
			}
			if has(ciSbiPort) {
				w("    port: %d\n", ports[0])
			}
			if has(ciSbiTls) {
				w("    tls:\n      pem: %s\n      key: %s\n", pem, key)
			}
		}
		if has(ciServiceList) {
			switch svc {
			case "ok":
				w("  serviceNameList:\n    - nchf-convergedcharging\n    - nchf-spendinglimitcontrol\n")
			case "ok-one":
				w("  serviceNameList:\n    - nchf-spendinglimitcontrol\n")
			case "ok-all":
				w("  serviceNameList:\n    - nchf-offlineonlycharging\n    - nchf-convergedcharging\n    - nchf-spendinglimitcontrol\n")
			case "dup":
				w("  serviceNameList:\n    - nchf-convergedcharging\n    - nchf-convergedcharging\n")
			case "dup-far":
				w("  serviceNameList:\n    - nchf-spendinglimitcontrol\n    - nchf-convergedcharging\n    - nchf-spendinglimitcontrol\n")
			case "unknown":
				w("  serviceNameList:\n    - nchf-convergedcharging\n    - nchf-foo\n")
			case "unknown-sub":
				w("  serviceNameList:\n    - nchf-convergedcharging\n    - nchf-offlineonly\n")
			case "unknown-pre":
				w("  serviceNameList:\n    - nchf-converged\n")
			case "unknown-mid":
				w("  serviceNameList:\n    - nchf-convergedcharging\n    - charging\n")
			case "unknown-blank":
				w("  serviceNameList:\n    - nchf-convergedcharging\n    - \"\"\n")
			case "unknown-case":
				w("  serviceNameList:\n    - NCHF-ConvergedCharging\n")
			case "unknown-comma":
				w("  serviceNameList:\n    - \"nchf-convergedcharging,nchf-spendinglimitcontrol\"\n")
			case "empty":
				w("  serviceNameList: []\n")
			}
		}
		if has(ciNrfUri) {
			w("  nrfUri: http://127.0.0.10:8000\n")
		}
		if has(ciMongodb) {
			w("  mongodb:\n    name: free5gc\n    url: mongodb://localhost:27017\n")
		}
		w("  volumeLimit: 50000\n  volumeLimitPDU: 10000\n  volumeThresholdRate: 0.8\n")
		dia := func(name string, item, tlsItem int, port int, proto string) {
			if has(item) {
				w("  %s:\n", name)
				if proto != "none" {
					w("    protocol: %s\n", proto)
				}
				w("    hostIPv4: 127.0.0.1\n    port: %d\n", port)
				if has(tlsItem) {
					if name == "rfDiameter" && !has(ciRfTlsPem) {
						w("    tls:\n      pem: \"\"\n      key: %s\n", key)
					} else {
						w("    tls:\n      pem: %s\n      key: %s\n", pem, key)
					}
				}
			}
		}
		dia("rfDiameter", ciRf, ciRfTls, ports[1], opt.rfProto)
		dia("abmfDiameter", ciAbmf, ciAbmfTls, ports[2], opt.abmfProto)
		if has(ciCgf) {
			if opt.cgfOn {
				// the FTP server really starts: ports of its own
				w("  cgf:\n    enable: true\n    hostIPv4: 127.0.0.1\n    port: %d\n    listenPort: %d\n", ports[3], ports[4])
			} else {
				w("  cgf:\n    enable: false\n    hostIPv4: 127.0.0.1\n    port: 2121\n    listenPort: 2122\n")
			}
			if has(ciCgfPortRange) {
				w("    passiveTransferPortRange:\n      start: 2123\n      end: 2130\n")
			}
		}
	}
	if has(ciLogger) {
		w("logger:\n  enable: false\n  level: error\n  reportCaller: false\n")
	}
	return sb.String()
}

func init() {
	streams["config"] = &stream{gen: genConfig, run: runConfig}
}

func genConfig(o genOpts, w *bufio.Writer) {
	emit := func(mask uint64, scheme, svc string) { fmt.Fprintf(w, "config run %d %s %s\n", mask, scheme, svc) }
	for _, sc := range []string{"http", "https"} {
		emit(0, sc, "ok")
		for i := 0; i < ciCount; i++ {
			emit(1<<uint(i), sc, "ok")
		}
		for i := 0; i < ciCount; i++ {
			for j := i + 1; j < ciCount; j++ {
				emit(1<<uint(i)|1<<uint(j), sc, "ok")
			}
		}
	}
	for _, sc := range []string{"ftp", "none", "HTTP", "HTTPS", "Https"} {
		emit(0, sc, "ok")
		emit(1<<ciSbiTls, sc, "ok")
	}
	for _, sv := range []string{"ok-one", "ok-all", "dup", "dup-far", "unknown", "empty", "unknown-sub", "unknown-pre", "unknown-mid", "unknown-blank", "unknown-case", "unknown-comma"} {
		emit(0, "http", sv)
		emit(0, "https", sv)
	}
	// values other than the baseline's: the protocol of either Diameter section (the runtime reads the tls block whatever
	// the protocol says) and an enabled CGF (its start-up reads cgf.* ): baseline, every single removal, and every pair
	// of removals for the combination (thorough: for each)
	optSets := []string{"rfp=sctp", "abp=sctp", "rfp=udp abp=udp", "rfp=none", "abp=none", "cgf=on", "rfp=sctp abp=sctp cgf=on"}
	for k, oset := range optSets {
		for _, sc := range []string{"http", "https"} {
			if sc == "https" && k != len(optSets)-1 {
				continue
			}
			fmt.Fprintf(w, "config run 0 %s ok %s\n", sc, oset)
			for i := 0; i < ciCount; i++ {
				fmt.Fprintf(w, "config run %d %s ok %s\n", 1<<uint(i), sc, oset)
			}
		}
		if k == len(optSets)-1 || o.tier == "thorough" {
			for i := 0; i < ciCount; i++ {
				for j := i + 1; j < ciCount; j++ {
					fmt.Fprintf(w, "config run %d http ok %s\n", 1<<uint(i)|1<<uint(j), oset)
				}
			}
		}
	}
	// started with a TLS key log file (a log file named on the command line): baseline and every single removal, both schemes
	for _, sc := range []string{"http", "https"} {
		fmt.Fprintf(w, "config run 0 %s ok klog=on\n", sc)
		for i := 0; i < ciCount; i++ {
			fmt.Fprintf(w, "config run %d %s ok klog=on\n", 1<<uint(i), sc)
		}
	}
	r := &rng{s: o.seed}
	extra := o.n
	if o.tier == "thorough" {
		// all triples
		for i := 0; i < ciCount; i++ {
			for j := i + 1; j < ciCount; j++ {
				for k := j + 1; k < ciCount; k++ {
					emit(1<<uint(i)|1<<uint(j)|1<<uint(k), r.pickStr("http", "https"), "ok")
				}
			}
		}
	}
	for i := 0; i < extra; i++ {
		emit(r.next()&(1<<ciCount-1)&r.next(), r.pickStr("http", "https", "https", "ftp", "none"), r.pickStr("ok", "ok", "ok", "unknown", "empty"))
	}
	for i := 0; i < extra; i++ {
		fmt.Fprintf(w, "config run %d %s %s rfp=%s abp=%s cgf=%s klog=%s\n", r.next()&(1<<ciCount-1)&r.next()&r.next(), r.pickStr("http", "https"),
			r.pickStr("ok", "ok", "ok", "ok-all", "unknown"), r.pickStr("tcp", "sctp", "udp", "none"), r.pickStr("tcp", "sctp", "sctp", "none"), r.pickStr("on", "off"), r.pickStr("on", "off"))
	}
}

func runConfig(line string, t []string) string {
	if len(t) < 4 || t[0] != "run" {
		return "bad-op"
	}
	opt, ok := parseCfgOpts(t[4:])
	if !ok {
		return "bad-op"
	}
	dir, err := os.MkdirTemp("", "verif-cfg-")
	if err != nil {
		panic(err)
	}
	defer os.RemoveAll(dir)
	pem, key := writeCert(dir)
	mark := len(portLocks)
	defer releasePortsFrom(mark) // the child process is over when this returns
	ports := [5]int{freePort(), freePort(), freePort(), freePort(), freePort()}
	y := yamlFor(u(t[1]), t[2], t[3], pem, key, ports, opt)
	f := filepath.Join(dir, "chfcfg.yaml")
	if err := os.WriteFile(f, []byte(y), 0o600); err != nil {
		panic(err)
	}
	if opt.cgfOn {
		// cgf.OpenServer writes the FTP server's settings to this fixed path
		defer os.Remove("/tmp/config.json")
	}
	klog := ""
	if opt.keyLog {
		// what cmd/main.go initLogFile hands to service.NewApp when a log file is given on the command line
		if err := os.MkdirAll(filepath.Join(dir, "key"), 0o775); err != nil {
			panic(err)
		}
		klog = filepath.Join(dir, "key", "chfsslkey.log")
	}
	cmd := exec.Command(os.Args[0], "config-child", f, klog)
	cmd.Env = append(os.Environ(), "GOTRACEBACK=none")
	out, _ := cmd.Output()
	s := strings.TrimSpace(string(out))
	switch {
	case strings.HasSuffix(s, "rejected"):
		return "rejected"
	case strings.HasSuffix(s, "started"):
		return "started"
	}
	return "crash"
}

// configChild: ReadConfig, then initialise the CHF the way cmd/main.go + service.Start do (without NRF
// registration): context, rating server, account server, application with SBI server, SBI listener.
func configChild(path, tlsKeyLogPath string) {
	logger.Log.SetOutput(io.Discard)
	cfg, err := factory.ReadConfig(path)
	if err != nil {
		fmt.Println("rejected")
		return
	}
	factory.ChfConfig = cfg
	mongoapi.HookGetOne = store.getOne
	mongoapi.HookPutOne = store.putOne
	var wg sync.WaitGroup
	ctx := context.Background()
	app, err := service.NewApp(ctx, cfg, tlsKeyLogPath)
	if err != nil {
		// a configuration that validates but cannot be used is a start-up failure, not a rejection
		fmt.Println("crash: NewApp:", err)
		os.Exit(3)
	}
	// pkg/service (*ChfApp).Start: the CGF first, when enabled
	if cfg.Configuration.Cgf.Enable {
		cgf.CGFEnable = true
		wg.Add(1)
		unlockCfg := lockCgfConfig()
		cgf.OpenServer(ctx, &wg)
		unlockCfg()
	}
	wg.Add(2)
	rf.OpenServer(ctx, &wg)
	abmf.OpenServer(ctx, &wg)
	app.VerifSbi().VerifStart(&wg)
	// goroutines of the servers dereference their TLS blocks: give them time to run (an unrecovered
	// panic there kills this process)
	time.Sleep(250 * time.Millisecond)
	fmt.Println("started")
	os.Exit(0)
}

func init() { tableDumpers["config"] = dumpConfigTags }

// dumpConfigTags emits the `valid:` / `yaml:` tags of the configuration types as the compiled code has them.
func dumpConfigTags() {
	var sb strings.Builder
	sb.WriteString("/- GENERATED from the repository's working tree by `verifharness dump-tables config` — do not edit. -/\n")
	sb.WriteString("namespace Chf.Gen\n\n/-- (struct.field, kind, yaml name, valid tag) for every field of the pkg/factory configuration types -/\n")
	sb.WriteString("def validTags : List (String × String × String × String) := [\n")
	var rows []string
	seen := map[reflect.Type]bool{}
	var walk func(t reflect.Type)
	walk = func(t reflect.Type) {
		if t.Kind() == reflect.Ptr {
			t = t.Elem()
		}
		if t.Kind() != reflect.Struct || seen[t] || t.PkgPath() != reflect.TypeOf(factory.Config{}).PkgPath() && t.Name() != "" {
			return
		}
		seen[t] = true
		name := t.Name()
		if name == "" {
			name = "<anonymous>"
		}
		for i := 0; i < t.NumField(); i++ {
			f := t.Field(i)
			if f.PkgPath != "" || f.Anonymous {
				continue
			}
			kind := f.Type.Kind().String()
			if f.Type.Kind() == reflect.Ptr {
				kind = "ptr"
			}
			y := f.Tag.Get("yaml")
			if j := strings.Index(y, ","); j >= 0 {
				y = y[:j]
			}
			rows = append(rows, fmt.Sprintf("  (%q, %q, %q, %q)", name+"."+f.Name, kind, y, f.Tag.Get("valid")))
			walk(f.Type)
		}
	}
	walk(reflect.TypeOf(factory.Config{}))
	sb.WriteString(strings.Join(rows, ",\n"))
	sb.WriteString("\n]\n\nend Chf.Gen\n")
	fmt.Print(sb.String())
}
