//go:build verif

package main

import (
	"bufio"
	"fmt"
	"os"
	"reflect"
	"runtime/debug"
	"strconv"
	"strings"
	"time"

	"github.com/free5gc/chf/cdr/asn"
)

// ---- types as the codec sees them (same notation as lean/Driver/BerIO.lean) ----
//   b bool | i64 i32 int | e enum | o octets | B bits | n null | O oid | s12 s22 s25 string kinds
//   P<t> ptr | L<t> slice | W<t> Value/List wrapper | C[f;f] choice | S[f;f] struct | U unsupported
//   field f = {optional,tag|-,explicit,set,open,stringType}type

func paramStr(tag string) string {
	opt, tn, ex, set, open, st := 0, "-", 0, 0, 0, 0
	for _, part := range strings.Split(tag, ",") {
		switch {
		case part == "optional":
			opt = 1
		case strings.HasPrefix(part, "tagNum:"):
			if i, err := strconv.ParseInt(part[7:], 10, 64); err == nil {
				tn = strconv.FormatUint(uint64(i), 10)
			}
		case part == "explicit":
			ex = 1
			if tn == "-" && strings.Contains(tag, "tagNum:") {
				ex = 2 // written before tagNum: the order is part of the notation
			}
		case part == "set":
			set = 1
		case part == "openType":
			open = 1
		case part == "utf8":
			st = 12
		case part == "ia5":
			st = 22
		case part == "graphic":
			st = 25
		}
	}
	return fmt.Sprintf("{%d,%s,%d,%d,%d,%d}", opt, tn, ex, set, open, st)
}

func tyStr(t reflect.Type, depth int) string {
	if depth > 40 {
		return "U"
	}
	switch t {
	case asn.BitStringType:
		return "B"
	case asn.ObjectIdentifierType:
		return "O"
	case asn.OctetStringType:
		return "o"
	case asn.EnumeratedType:
		return "e"
	case asn.NullType:
		return "n"
	case asn.IA5StringType:
		return "s22"
	case asn.GraphicStringType:
		return "s25"
	}
	switch t.Kind() {
	case reflect.Bool:
		return "b"
	case reflect.Int, reflect.Int64:
		return "i64"
	case reflect.Int32:
		return "i32"
	case reflect.String:
		return "s12"
	case reflect.Ptr:
		return "P" + tyStr(t.Elem(), depth+1)
	case reflect.Slice:
		return "L" + tyStr(t.Elem(), depth+1)
	case reflect.Struct:
		if t.NumField() == 0 {
			return "S[]"
		}
		switch t.Field(0).Name {
		case "Value", "List":
			return "W" + tyStr(t.Field(0).Type, depth+1)
		case "Present":
			var fs []string
			for i := 1; i < t.NumField(); i++ {
				fs = append(fs, paramStr(t.Field(i).Tag.Get("ber"))+tyStr(t.Field(i).Type, depth+1))
			}
			return "C[" + strings.Join(fs, ";") + "]"
		}
		var fs []string
		for i := 0; i < t.NumField(); i++ {
			fs = append(fs, paramStr(t.Field(i).Tag.Get("ber"))+tyStr(t.Field(i).Type, depth+1))
		}
		return "S[" + strings.Join(fs, ";") + "]"
	}
	return "U"
}

// ---- values ----
//   b0 b1 | i<n> | x<hex> | t<hex>:<bits> | s<hex> | n0 n1 | N nil | l[v;v] | c<present>[v;v] | S[v;v]

func hx(b []byte) string { return fmt.Sprintf("%x", b) }

func valStr(v reflect.Value) string {
	t := v.Type()
	switch t {
	case asn.BitStringType:
		bs := v.Interface().(asn.BitString)
		return "t" + hx(bs.Bytes) + ":" + strconv.FormatUint(bs.BitLength, 10)
	case asn.ObjectIdentifierType, asn.OctetStringType:
		if v.IsNil() {
			return "N"
		}
		return "x" + hx(v.Bytes())
	case asn.EnumeratedType:
		return "i" + strconv.FormatInt(v.Int(), 10)
	case asn.NullType:
		if v.Bool() {
			return "n1"
		}
		return "n0"
	}
	switch t.Kind() {
	case reflect.Bool:
		if v.Bool() {
			return "b1"
		}
		return "b0"
	case reflect.Int, reflect.Int64, reflect.Int32:
		return "i" + strconv.FormatInt(v.Int(), 10)
	case reflect.String:
		return "s" + hx([]byte(v.String()))
	case reflect.Ptr:
		if v.IsNil() {
			return "N"
		}
		return valStr(v.Elem())
	case reflect.Slice:
		if v.IsNil() {
			return "N"
		}
		var es []string
		for i := 0; i < v.Len(); i++ {
			es = append(es, valStr(v.Index(i)))
		}
		return "l[" + strings.Join(es, ";") + "]"
	case reflect.Struct:
		if t.NumField() == 0 {
			return "S[]"
		}
		switch t.Field(0).Name {
		case "Value", "List":
			return valStr(v.Field(0))
		case "Present":
			var fs []string
			for i := 1; i < t.NumField(); i++ {
				fs = append(fs, valStr(v.Field(i)))
			}
			return "c" + strconv.FormatInt(v.Field(0).Int(), 10) + "[" + strings.Join(fs, ";") + "]"
		}
		var fs []string
		for i := 0; i < t.NumField(); i++ {
			fs = append(fs, valStr(v.Field(i)))
		}
		return "S[" + strings.Join(fs, ";") + "]"
	}
	return "N"
}

// ---- random values ----

var intPool = []int64{0, 1, -1, 127, 128, -128, -129, 255, 256, 32767, 32768, -32768, -32769, 65535, 8388607, 8388608, -8388608,
	-8388609, 2147483647, -2147483648, 2147483648, 4294967295, 1 << 40, -(1 << 40), 9223372036854775807, -9223372036854775808}

func randLen(r *rng, big bool) int {
	if big && r.chance(20) {
		return r.pick(126, 127, 128, 129, 254, 255, 256, 257, 1000)
	}
	return r.pick(0, 0, 1, 2, 3, 5, 9)
}

func fillValue(r *rng, v reflect.Value, depth int, big bool, optPct int) {
	t := v.Type()
	switch t {
	case asn.BitStringType:
		n := randLen(r, big)
		b := r.bytes(n)
		bits := uint64(n * 8)
		if n > 0 {
			bits -= uint64(r.pick(0, 0, 1, 4, 7))
		}
		v.Set(reflect.ValueOf(asn.BitString{Bytes: b, BitLength: bits}))
		return
	case asn.OctetStringType:
		v.SetBytes(r.bytes(randLen(r, big)))
		return
	case asn.ObjectIdentifierType:
		v.SetBytes(r.bytes(2))
		return
	case asn.EnumeratedType:
		v.SetInt(intPool[r.intn(len(intPool))])
		return
	case asn.NullType:
		v.SetBool(true)
		return
	}
	switch t.Kind() {
	case reflect.Bool:
		v.SetBool(r.chance(50))
	case reflect.Int, reflect.Int64:
		if r.chance(70) {
			v.SetInt(intPool[r.intn(len(intPool))])
		} else {
			v.SetInt(int64(r.next()) >> uint(r.intn(64)))
		}
	case reflect.Int32:
		v.SetInt(int64(int32(intPool[r.intn(len(intPool))])))
	case reflect.String:
		n := randLen(r, big)
		b := make([]byte, n)
		for i := range b {
			b[i] = byte('a' + r.intn(26))
		}
		v.SetString(string(b))
	case reflect.Ptr:
		p := reflect.New(t.Elem())
		fillValue(r, p.Elem(), depth+1, big, optPct)
		v.Set(p)
	case reflect.Slice:
		n := r.pick(0, 1, 1, 2, 3)
		if depth > 6 {
			n = r.pick(0, 1)
		}
		s := reflect.MakeSlice(t, n, n)
		for i := 0; i < n; i++ {
			fillValue(r, s.Index(i), depth+1, big, optPct)
		}
		v.Set(s)
	case reflect.Struct:
		if t.NumField() == 0 {
			return
		}
		switch t.Field(0).Name {
		case "Value", "List":
			fillValue(r, v.Field(0), depth+1, big, optPct)
			return
		case "Present":
			if t.NumField() == 1 {
				return
			}
			k := 1 + r.intn(t.NumField()-1)
			v.Field(0).SetInt(int64(k))
			fillValue(r, v.Field(k), depth+1, big, optPct)
			return
		}
		for i := 0; i < t.NumField(); i++ {
			f := v.Field(i)
			opt := strings.Contains(t.Field(i).Tag.Get("ber"), "optional")
			nilableKind := f.Kind() == reflect.Ptr || f.Kind() == reflect.Slice
			pct := optPct
			if depth > 4 {
				pct = optPct / 3
			}
			nums0 := tagNumbers(t.Field(i).Tag.Get("ber"))
			untried := len(nums0) > 0 && tagNumbersTried[t.String()+"."+t.Field(i).Name] < len(nums0)
			if opt && nilableKind && !untried && !r.chance(pct) {
				continue // absent
			}
			fillValue(r, f, depth+1, big, optPct)
			// numbers the member's tag names (default:N, valueLB:N, valueUB:N, sizeLB:N, sizeUB:N) are values to try: a codec
			// that treats "the default" or "the bound" specially shows it only on exactly these
			if nums := tagNumbers(t.Field(i).Tag.Get("ber")); len(nums) > 0 {
				key := t.String() + "." + t.Field(i).Name
				if k := tagNumbersTried[key]; k < len(nums) {
					// the first values this member ever gets are exactly the numbers its tag names, one after the other
					tagNumbersTried[key] = k + 1
					setIntLeaf(f, nums[k])
				} else if r.chance(45) {
					setIntLeaf(f, nums[r.intn(len(nums))]+int64(r.pick(0, 0, 0, 1, -1)))
				}
			}
		}
	}
}

var tagNumbersTried = map[string]int{}

// the numeric parameters of a `ber:` tag
func tagNumbers(tag string) []int64 {
	var out []int64
	for _, part := range strings.Split(tag, ",") {
		for _, k := range []string{"default:", "valueLB:", "valueUB:", "sizeLB:", "sizeUB:"} {
			if strings.HasPrefix(part, k) {
				if n, err := strconv.ParseInt(part[len(k):], 10, 64); err == nil {
					out = append(out, n)
				}
			}
		}
	}
	return out
}

// setIntLeaf stores n in the integer the value holds (directly, behind a non-nil pointer or in a Value wrapper)
func setIntLeaf(v reflect.Value, n int64) {
	switch v.Kind() {
	case reflect.Int, reflect.Int64:
		if v.Type() != asn.EnumeratedType {
			v.SetInt(n)
		}
	case reflect.Int32:
		v.SetInt(int64(int32(n)))
	case reflect.Ptr:
		if !v.IsNil() {
			setIntLeaf(v.Elem(), n)
		}
	case reflect.Struct:
		if v.NumField() > 0 && v.Type().Field(0).Name == "Value" {
			setIntLeaf(v.Field(0), n)
		}
	}
}

// ---- generated struct types in the same tag language ----

func genType(r *rng, depth int) reflect.Type {
	prims := []reflect.Type{reflect.TypeOf(int64(0)), reflect.TypeOf(int(0)), reflect.TypeOf(int32(0)), reflect.TypeOf(true),
		asn.OctetStringType, asn.BitStringType, asn.EnumeratedType, asn.NullType, asn.UTF8StringType, asn.IA5StringType,
		asn.GraphicStringType, reflect.TypeOf("")}
	if depth > 2 || r.chance(45) {
		return prims[r.intn(len(prims))]
	}
	switch r.intn(5) {
	case 0:
		return reflect.SliceOf(genType(r, depth+1))
	case 1: // Value wrapper
		return reflect.StructOf([]reflect.StructField{{Name: "Value", Type: genType(r, depth+1)}})
	case 2: // choice
		n := 1 + r.intn(3)
		base := genTagBase(r)
		fs := []reflect.StructField{{Name: "Present", Type: reflect.TypeOf(int(0))}}
		for i := 0; i < n; i++ {
			fs = append(fs, reflect.StructField{Name: fmt.Sprintf("A%d", i), Type: reflect.PtrTo(genType(r, depth+1)),
				Tag: reflect.StructTag(fmt.Sprintf(`ber:"tagNum:%d"`, base+i))})
		}
		return reflect.StructOf(fs)
	default: // sequence / set members
		n := 1 + r.intn(4)
		base := genTagBase(r)
		var fs []reflect.StructField
		for i := 0; i < n; i++ {
			ft := genType(r, depth+1)
			tag := fmt.Sprintf("tagNum:%d", base+i)
			if r.chance(12) && ft.Kind() != reflect.Ptr && !isChoiceStruct(ft) {
				fs = append(fs, reflect.StructField{Name: fmt.Sprintf("F%d", i), Type: ft})
				continue
			}
			if r.chance(40) {
				ft = reflect.PtrTo(ft)
				tag += ",optional"
			}
			if r.chance(15) {
				if r.chance(50) {
					tag = "explicit," + tag
				} else {
					tag += ",explicit"
				}
			}
			if r.chance(10) {
				tag += ",set"
			}
			// the string type named for a member also holds for the elements of a list of strings (and of lists of lists, through
			// pointers): they are the member's strings
			inner := ft
			for inner.Kind() == reflect.Slice || inner.Kind() == reflect.Ptr {
				inner = inner.Elem()
			}
			if (ft.Kind() == reflect.String && r.chance(30)) || (ft.Kind() != reflect.String && inner.Kind() == reflect.String && r.chance(60)) {
				tag += r.pickStr(",utf8", ",ia5", ",graphic")
			}
			fs = append(fs, reflect.StructField{Name: fmt.Sprintf("F%d", i), Type: ft, Tag: reflect.StructTag(`ber:"` + tag + `"`)})
		}
		return reflect.StructOf(fs)
	}
}

// a struct following the CHOICE convention (first field `Present int`)
func isChoiceStruct(t reflect.Type) bool {
	return t.Kind() == reflect.Struct && t.NumField() > 0 && t.Field(0).Name == "Present"
}

// genTagBase: the members of one struct get distinct, consecutive tag numbers from a base that exercises the
// one-octet / high-tag-number boundary (30/31), the 7-bit boundaries (127/128, 16383/16384) and 2^21
func genTagBase(r *rng) int {
	return []int{0, 0, 0, 26, 29, 31, 120, 126, 16380, 2097140}[r.intn(10)]
}

var berTypes = map[string]reflect.Type{}

func init() {
	streams["ber"] = &stream{gen: genBer, run: runBer}
	tableDumpers["schema"] = dumpSchema
}

func leanParams(tag string) string {
	ps := paramStr(tag) // {opt,tag,explicit,set,open,str}
	parts := strings.Split(ps[1:len(ps)-1], ",")
	tn := "none"
	if parts[1] != "-" {
		tn = "some " + parts[1]
	}
	b := func(x string) string {
		if x == "1" || x == "2" {
			return "true"
		}
		return "false"
	}
	return fmt.Sprintf("⟨%s, %s, %s, %s, %s, %s⟩", b(parts[0]), tn, b(parts[2]), b(parts[3]), b(parts[4]), parts[5])
}

// leanTy renders a type as a Lean term of Chf.Ber.Ty; named cdrType structs are referred to by definition name
func leanTy(t reflect.Type, top bool, deps *[]string) string {
	switch t {
	case asn.BitStringType:
		return ".bits"
	case asn.ObjectIdentifierType:
		return ".oid"
	case asn.OctetStringType:
		return ".octets"
	case asn.EnumeratedType:
		return ".enum"
	case asn.NullType:
		return ".null"
	case asn.IA5StringType:
		return "(.str 22)"
	case asn.GraphicStringType:
		return "(.str 25)"
	}
	switch t.Kind() {
	case reflect.Bool:
		return ".bool"
	case reflect.Int, reflect.Int64:
		return "(.int 64)"
	case reflect.Int32:
		return "(.int 32)"
	case reflect.String:
		return "(.str 12)"
	case reflect.Ptr:
		return "(.ptr " + leanTy(t.Elem(), false, deps) + ")"
	case reflect.Slice:
		return "(.slice " + leanTy(t.Elem(), false, deps) + ")"
	case reflect.Struct:
		if !top && t.Name() != "" {
			if _, ok := cdrTypes[t.Name()]; ok && cdrTypes[t.Name()] == t {
				*deps = append(*deps, t.Name())
				return "T_" + t.Name()
			}
		}
		if t.NumField() == 0 {
			return "(.struct .nil)"
		}
		fields := func(from int) string {
			out := ".nil"
			for i := t.NumField() - 1; i >= from; i-- {
				out = fmt.Sprintf("(.cons %s %s %s)", leanParams(t.Field(i).Tag.Get("ber")), leanTy(t.Field(i).Type, false, deps), out)
			}
			return out
		}
		switch t.Field(0).Name {
		case "Value", "List":
			return "(.wrap " + leanTy(t.Field(0).Type, false, deps) + ")"
		case "Present":
			return "(.choice " + fields(1) + ")"
		}
		return "(.struct " + fields(0) + ")"
	}
	return ".unsupported"
}

func dumpSchema() {
	var sb strings.Builder
	sb.WriteString("/- GENERATED from the repository's working tree by `verifharness dump-tables schema` — do not edit. -/\n")
	sb.WriteString("import ChfVerif.Model.Ber\nnamespace Chf.Gen\nopen Chf.Ber\n\n")
	// definitions in dependency order
	done := map[string]bool{}
	var emit func(n string, stack map[string]bool)
	emit = func(n string, stack map[string]bool) {
		if done[n] {
			return
		}
		if stack[n] {
			return // recursive type: the inner reference stays undefined and the build fails visibly
		}
		stack[n] = true
		var deps []string
		term := leanTy(cdrTypes[n], true, &deps)
		for _, d := range deps {
			emit(d, stack)
		}
		done[n] = true
		fmt.Fprintf(&sb, "def T_%s : Ty := %s\n", n, term)
	}
	for _, n := range cdrTypeNames {
		emit(n, map[string]bool{})
	}
	sb.WriteString("\n/-- every type declared in cdr/cdrType, as reflect and the codec's naming conventions see it -/\n")
	sb.WriteString("def schema : List (String × Ty) := [\n")
	var rows []string
	for _, n := range cdrTypeNames {
		rows = append(rows, fmt.Sprintf("  (%q, T_%s)", n, n))
	}
	sb.WriteString(strings.Join(rows, ",\n"))
	sb.WriteString("\n]\n\nend Chf.Gen\n")
	fmt.Print(sb.String())
}

// genBer: ops
//
//	ber M <ty> <params> <val>          marshal
//	ber R <ty> <params> <val>          marshal, then unmarshal into a fresh variable (round trip)
//	ber U <ty> <params> <hex>          unmarshal arbitrary octets
func genBer(o genOpts, w *bufio.Writer) {
	r := &rng{s: o.seed}
	big := o.tier == "thorough"
	perType := 2
	if big {
		perType = 12
	}
	emit := func(t reflect.Type, params string, v reflect.Value) {
		fmt.Fprintf(w, "ber R %s %s %s\n", tyStr(t, 0), paramStr(params), valStr(v))
	}
	// 1. every schema type, by name: the harness decodes into / encodes from cdrType.<name> itself, the Lean side looks the
	//    name up in the regenerated schema (Gen.schema)
	emitNamed := func(n string, params string, v reflect.Value) {
		fmt.Fprintf(w, "ber R T:%s %s %s\n", n, paramStr(params), valStr(v))
	}
	for _, n := range cdrTypeNames {
		t := cdrTypes[n]
		for k := 0; k < perType; k++ {
			v := reflect.New(t).Elem()
			fillValue(r, v, 0, big || k == 1, []int{30, 70, 100, 0}[k%4])
			emitNamed(n, "", v)
		}
	}
	// the record as the CHF marshals it
	for k := 0; k < 6; k++ {
		t := cdrTypes["CHFRecord"]
		v := reflect.New(t).Elem()
		fillValue(r, v, 0, big, []int{20, 50, 90}[k%3])
		emitNamed("CHFRecord", "explicit,choice", v)
	}
	// 2. primitives with top-level parameters
	prim := []reflect.Type{reflect.TypeOf(int64(0)), reflect.TypeOf(int32(0)), reflect.TypeOf(true), asn.OctetStringType, asn.BitStringType,
		asn.EnumeratedType, asn.NullType, asn.UTF8StringType, asn.IA5StringType, asn.GraphicStringType, reflect.TypeOf("")}
	for i := 0; i < o.n; i++ {
		t := prim[r.intn(len(prim))]
		v := reflect.New(t).Elem()
		fillValue(r, v, 0, true, 50)
		params := r.pickStr("", "", "tagNum:0", "tagNum:30", "tagNum:31", "tagNum:128,explicit", "tagNum:5,explicit", "utf8", "ia5", "tagNum:2097151",
			"explicit,tagNum:5", "explicit,tagNum:31", "tagNum:2097152", "explicit,tagNum:268435456", "tagNum:4294967296")
		emit(t, params, v)
	}
	// octet strings and character strings at the length-octet boundaries
	for _, n := range []int{0, 1, 126, 127, 128, 129, 254, 255, 256, 257, 65534, 65535, 65536} {
		v := reflect.New(asn.OctetStringType).Elem()
		v.SetBytes(make([]byte, n))
		emit(v.Type(), r.pickStr("", "tagNum:7", "tagNum:31,explicit"), v)
		sv := reflect.New(asn.UTF8StringType).Elem()
		sv.SetString(strings.Repeat("a", n))
		emit(sv.Type(), "", sv)
	}
	// the identifier and length octets together outgrow eight octets: tag numbers from 2^21 with contents from 2^16
	for _, tn := range []string{"tagNum:2097151", "tagNum:2097152", "tagNum:268435455", "tagNum:268435456,explicit", "explicit,tagNum:34359738368"} {
		for _, n := range []int{255, 65535, 65536} {
			v := reflect.New(asn.OctetStringType).Elem()
			v.SetBytes(make([]byte, n))
			emit(v.Type(), tn, v)
		}
	}
	// members and elements whose own contents are exactly at a length-octet boundary
	for _, n := range []int{127, 128, 255, 256, 257} {
		lt := reflect.TypeOf([]asn.OctetString{})
		lv := reflect.New(lt).Elem()
		lv.Set(reflect.ValueOf([]asn.OctetString{make([]byte, n), {1}}))
		emit(lt, "", lv)
		st := reflect.StructOf([]reflect.StructField{
			{Name: "A", Type: asn.OctetStringType, Tag: `ber:"tagNum:0"`},
			{Name: "B", Type: reflect.TypeOf(int64(0)), Tag: `ber:"tagNum:1"`}})
		sv := reflect.New(st).Elem()
		sv.Field(0).SetBytes(make([]byte, n))
		sv.Field(1).SetInt(int64(n))
		emit(st, "", sv)
	}
	// members without tagNum that share a universal tag (decoded by position)
	{
		st := reflect.StructOf([]reflect.StructField{
			{Name: "From", Type: reflect.TypeOf(int64(0))}, {Name: "To", Type: reflect.TypeOf(int64(0))},
			{Name: "A", Type: asn.OctetStringType}, {Name: "B", Type: asn.OctetStringType}})
		sv := reflect.New(st).Elem()
		sv.Field(0).SetInt(10)
		sv.Field(1).SetInt(20)
		sv.Field(2).SetBytes([]byte{1})
		sv.Field(3).SetBytes([]byte{2, 3})
		emit(st, "", sv)
	}
	// all integers with boundary magnitudes
	for _, x := range intPool {
		v := reflect.New(reflect.TypeOf(int64(0))).Elem()
		v.SetInt(x)
		emit(v.Type(), "", v)
	}
	// 3. generated struct types
	for i := 0; i < o.n; i++ {
		t := genType(r, 0)
		v := reflect.New(t).Elem()
		fillValue(r, v, 0, r.chance(20), 60)
		emit(t, r.pickStr("", "", "set", "tagNum:3", "tagNum:40,explicit"), v)
	}
	// 4. decoding of arbitrary / damaged octets
	targets := []reflect.Type{reflect.TypeOf(int64(0)), reflect.TypeOf(true), asn.OctetStringType, asn.BitStringType, asn.EnumeratedType,
		asn.NullType, asn.UTF8StringType, cdrTypes["CHFRecord"], cdrTypes["UsedUnitContainer"], cdrTypes["IPAddress"], cdrTypes["MultipleUnitUsage"],
		cdrTypes["SubscriptionID"], cdrTypes["ManagementExtension"], cdrTypes["IPBinV6AddressWithPrefixLength"]}
	// every octet string of length <= 2 into the primitive targets (exhaustive sub-space), a slice in quick
	step := 1
	if !big {
		step = 7
	}
	for _, t := range targets[:7] {
		fmt.Fprintf(w, "ber U %s %s %s\n", tyStr(t, 0), paramStr(""), "")
		for a := 0; a < 256; a += step {
			fmt.Fprintf(w, "ber U %s %s %02x\n", tyStr(t, 0), paramStr(""), a)
		}
		for a := 0; a < 256; a += step * 3 {
			for b := 0; b < 256; b += step * 5 {
				fmt.Fprintf(w, "ber U %s %s %02x%02x\n", tyStr(t, 0), paramStr(""), a, b)
			}
		}
	}
	// lengths that are negative as int64 (eight length octets, top bit set), behind an EXPLICIT tag, inside a
	// SEQUENCE OF and inside the CHF record
	for _, probe := range []struct {
		t      reflect.Type
		params string
		hex    string
	}{
		{reflect.TypeOf(int64(0)), "explicit,tagNum:0", "a088ffffffffffffffff"},
		{reflect.TypeOf(int64(0)), "explicit,tagNum:0", "a00a0288fffffffffffffff5"},
		{reflect.TypeOf([]int64{}), "", "300a0288fffffffffffffff5"},
		{reflect.TypeOf([]int64{}), "", "300a0288fffffffffffffff6"},
		{reflect.TypeOf([]int64{}), "", "3088fffffffffffffff6"},
		{reflect.TypeOf([]int64{}), "", "300a02887fffffffffffffff"},
		{reflect.TypeOf([]int64{}), "", "300a02887ffffffffffffff0"},
		{reflect.TypeOf(int64(0)), "explicit,tagNum:0", "a00a02887fffffffffffffff"},
		{reflect.TypeOf(int64(0)), "", "02887fffffffffffffff"},
		{cdrTypes["IPAddress"], "", "bfffffffffffffffff7f00"},
		{cdrTypes["IPAddress"], "", "bfffffffffffffffff7e00"},
		{cdrTypes["CHFRecord"], "explicit,choice", "bfffffffffffffffff7f00"},
		{cdrTypes["SubscriptionID"], "", "30820000"},
		{cdrTypes["CHFRecord"], "explicit,choice", "bf81480ca40a3088fffffffffffffff5"},
		{cdrTypes["CHFRecord"], "", "bf81480ca40a3088fffffffffffffff5"},
	} {
		fmt.Fprintf(w, "ber U %s %s %s\n", tyStr(probe.t, 0), paramStr(probe.params), probe.hex)
	}
	// long-form lengths of 1..9 octets around a two-octet OCTET STRING
	for k := 1; k <= 9; k++ {
		lo := make([]byte, k)
		lo[k-1] = 2
		fmt.Fprintf(w, "ber U %s %s 04%02x%sabcd\n", tyStr(asn.OctetStringType, 0), paramStr(""), 0x80|k, hx(lo))
		lo[0] |= 0x80
		fmt.Fprintf(w, "ber U %s %s 04%02x%sabcd\n", tyStr(asn.OctetStringType, 0), paramStr(""), 0x80|k, hx(lo))
	}
	for i := 0; i < o.n*2; i++ {
		t := targets[r.intn(len(targets))]
		if r.chance(30) {
			t = cdrTypes[cdrTypeNames[r.intn(len(cdrTypeNames))]]
		}
		v := reflect.New(t).Elem()
		fillValue(r, v, 0, false, 50)
		b, err := genMarshal(v.Addr().Interface(), "")
		if err != nil || len(b) == 0 {
			b = r.bytes(1 + r.intn(6))
		}
		switch r.intn(8) {
		case 7:
			// a member's declared length bumped by 1 or 2 while the enclosing lengths stay as they are:
			// walk into the first constructed levels and patch the length octet of the last child found
			off := 0
			for depth := 0; depth < 1+r.intn(3); depth++ {
				if off+2 > len(b) || b[off]&0x20 == 0 || b[off]&0x1f == 0x1f || b[off+1] >= 0x80 {
					break
				}
				end := off + 2 + int(b[off+1])
				if end > len(b) {
					break
				}
				// children of this element
				c, last := off+2, -1
				for c+2 <= end && b[c]&0x1f != 0x1f && b[c+1] < 0x80 {
					last = c
					c += 2 + int(b[c+1])
				}
				if last < 0 {
					break
				}
				off = last
			}
			if off > 0 && off+1 < len(b) && b[off+1] < 0x7e {
				b[off+1] += byte(1 + r.intn(2))
			}
		case 6:
			// the outer length rewritten in (non-minimal) long form with k length octets, k = 1..9
			if len(b) >= 2 && b[0]&0x1f != 0x1f && b[1] < 0x80 {
				k := 1 + r.intn(9)
				lo := make([]byte, k)
				lo[k-1] = b[1]
				if r.chance(15) {
					lo[0] |= 0x80
				}
				nb := append([]byte{b[0], byte(0x80 | k)}, lo...)
				b = append(nb, b[2:]...)
			}
		case 0:
			b = b[:r.intn(len(b)+1)]
		case 1:
			b[r.intn(len(b))] ^= byte(1 << uint(r.intn(8)))
		case 2:
			if len(b) > 1 {
				b[1] = byte(r.pick(0, 0x7f, 0x80, 0x81, 0x82, 0x83, 0x84, 0xff))
			}
		case 3:
			b = append(b, r.bytes(1+r.intn(3))...)
		case 4:
			b = r.bytes(1 + r.intn(8))
		default:
			i := r.intn(len(b))
			b = append(b[:i], b[i+1:]...)
		}
		fmt.Fprintf(w, "ber U %s %s %s\n", tyStr(t, 0), paramStr(""), hx(b))
	}
	// 4b. every schema type BY NAME (the real cdrType struct, with every parameter its tags carry - `default:` among them)
	// against octets that are well-formed BER but not what the type expects: an empty SEQUENCE, members of the wrong universal
	// type, context tags 0..6 primitive and constructed with a NULL / an INTEGER / junk inside
	probes := []string{"3000", "30020500", "3003020105", "300401020304", "3100", "0500", "020105", "a0020500", "a003020105"}
	for k := 0; k <= 6; k++ {
		probes = append(probes,
			fmt.Sprintf("3003%02x01ff", 0x80|k), fmt.Sprintf("3004%02x020500", 0xa0|k), fmt.Sprintf("3005%02x03020105", 0xa0|k),
			fmt.Sprintf("3002%02x00", 0x80|k), fmt.Sprintf("%02x020500", 0xa0|k), fmt.Sprintf("3006%02x04%02x020500", 0xa0|k, 0xa0|(k+1)%7))
	}
	for ni, name := range cdrTypeNames {
		for pi, pr := range probes {
			// quick: a third of the probes per type (rotating), thorough: all
			if o.tier != "thorough" && (pi+ni)%3 != int(o.seed%3) {
				continue
			}
			fmt.Fprintf(w, "ber U T:%s %s %s\n", name, paramStr(""), pr)
		}
	}
	// 5.-7. un-encodable values, histories of marshal calls, concurrent decoding (ber_hostile.go)
	genBerHostile(o, w)
}

// typeOf rebuilds a reflect.Type from the notation (used so that run mode needs no state from gen mode)
type tyParser struct {
	s string
	i int
	// appended to the generated member names: a different salt gives struct types that are new to reflect (and to
	// anything keyed by reflect.Type) and the same to the codec, which looks at first-field names, tags and kinds only
	salt string
}

func (p *tyParser) peek() byte {
	if p.i < len(p.s) {
		return p.s[p.i]
	}
	return 0
}

func (p *tyParser) params() (tag string) {
	// {opt,tag,explicit,set,open,str}
	j := strings.IndexByte(p.s[p.i:], '}')
	parts := strings.Split(p.s[p.i+1:p.i+j], ",")
	p.i += j + 1
	var out []string
	if parts[2] == "2" {
		// "explicit" written before "tagNum" in the tag string
		out = append(out, "explicit")
	}
	if parts[1] != "-" {
		out = append(out, "tagNum:"+parts[1])
	}
	if parts[0] == "1" {
		out = append(out, "optional")
	}
	if parts[2] == "1" {
		out = append(out, "explicit")
	}
	if parts[3] == "1" {
		out = append(out, "set")
	}
	if parts[4] == "1" {
		out = append(out, "openType")
	}
	switch parts[5] {
	case "12":
		out = append(out, "utf8")
	case "22":
		out = append(out, "ia5")
	case "25":
		out = append(out, "graphic")
	}
	return strings.Join(out, ",")
}

func (p *tyParser) ty() reflect.Type {
	// T:<name> = the schema type cdrType.<name> itself (with every parameter its `ber:` tags carry, also those the
	// notation has no place for: default:, valueLB:, sizeUB: …)
	if p.i == 0 && strings.HasPrefix(p.s, "T:") {
		if t, ok := cdrTypes[p.s[2:]]; ok {
			p.i = len(p.s)
			return t
		}
	}
	c := p.peek()
	p.i++
	switch c {
	case 'b':
		return reflect.TypeOf(true)
	case 'i':
		if strings.HasPrefix(p.s[p.i:], "64") {
			p.i += 2
			return reflect.TypeOf(int64(0))
		}
		p.i += 2
		return reflect.TypeOf(int32(0))
	case 'e':
		return asn.EnumeratedType
	case 'o':
		return asn.OctetStringType
	case 'B':
		return asn.BitStringType
	case 'n':
		return asn.NullType
	case 'O':
		return asn.ObjectIdentifierType
	case 's':
		k := p.s[p.i : p.i+2]
		p.i += 2
		switch k {
		case "22":
			return asn.IA5StringType
		case "25":
			return asn.GraphicStringType
		}
		return asn.UTF8StringType
	case 'P':
		return reflect.PtrTo(p.ty())
	case 'L':
		return reflect.SliceOf(p.ty())
	case 'W':
		return reflect.StructOf([]reflect.StructField{{Name: "Value", Type: p.ty()}})
	case 'C', 'S':
		p.i++ // [
		var fs []reflect.StructField
		if c == 'C' {
			fs = append(fs, reflect.StructField{Name: "Present", Type: reflect.TypeOf(int(0))})
		}
		k := 0
		for p.peek() != ']' {
			tag := p.params()
			ft := p.ty()
			fs = append(fs, reflect.StructField{Name: fmt.Sprintf("F%d%s", k, p.salt), Type: ft, Tag: reflect.StructTag(`ber:"` + tag + `"`)})
			k++
			if p.peek() == ';' {
				p.i++
			}
		}
		p.i++
		return reflect.StructOf(fs)
	}
	return reflect.TypeOf(uint8(0)) // unsupported
}

// setVal fills v from the value notation
type valParser struct {
	s string
	i int
}

func (p *valParser) until(stop string) string {
	j := p.i
	for j < len(p.s) && !strings.ContainsRune(stop, rune(p.s[j])) {
		j++
	}
	r := p.s[p.i:j]
	p.i = j
	return r
}

func unhx(s string) []byte {
	b := make([]byte, len(s)/2)
	for i := range b {
		x, _ := strconv.ParseUint(s[2*i:2*i+2], 16, 8)
		b[i] = byte(x)
	}
	return b
}

func (p *valParser) set(v reflect.Value) {
	t := v.Type()
	if t.Kind() == reflect.Ptr {
		if p.s[p.i] == 'N' {
			p.i++
			return
		}
		n := reflect.New(t.Elem())
		p.set(n.Elem())
		v.Set(n)
		return
	}
	if t.Kind() == reflect.Struct && t != asn.BitStringType && t.NumField() > 0 {
		switch t.Field(0).Name {
		case "Value", "List":
			p.set(v.Field(0))
			return
		case "Present":
			p.i++ // c
			n, _ := strconv.ParseInt(p.until("["), 10, 64)
			v.Field(0).SetInt(n)
			p.i++
			for k := 1; k < t.NumField(); k++ {
				p.set(v.Field(k))
				if p.s[p.i] == ';' {
					p.i++
				}
			}
			p.i++
			return
		}
		p.i += 2 // S[
		for k := 0; k < t.NumField(); k++ {
			p.set(v.Field(k))
			if p.s[p.i] == ';' {
				p.i++
			}
		}
		p.i++
		return
	}
	c := p.s[p.i]
	p.i++
	switch c {
	case 'N':
	case 'b', 'n':
		v.SetBool(p.s[p.i] == '1')
		p.i++
	case 'i':
		n, _ := strconv.ParseInt(p.until(";]"), 10, 64)
		v.SetInt(n)
	case 'x':
		v.SetBytes(unhx(p.until(";]")))
	case 's':
		v.SetString(string(unhx(p.until(";]"))))
	case 't':
		b := unhx(p.until(":"))
		p.i++
		n, _ := strconv.ParseUint(p.until(";]"), 10, 64)
		v.Set(reflect.ValueOf(asn.BitString{Bytes: b, BitLength: n}))
	case 'l':
		p.i++ // [
		var elems []reflect.Value
		for p.s[p.i] != ']' {
			e := reflect.New(t.Elem()).Elem()
			p.set(e)
			elems = append(elems, e)
			if p.s[p.i] == ';' {
				p.i++
			}
		}
		p.i++
		s := reflect.MakeSlice(t, len(elems), len(elems))
		for i, e := range elems {
			s.Index(i).Set(e)
		}
		v.Set(s)
	}
}

func paramOf(s string) string {
	p := &tyParser{s: s}
	return p.params()
}

func runBer(line string, t []string) string {
	if len(t) < 3 {
		return "bad-op"
	}
	switch t[0] {
	case "H":
		return withDeadline(func() string { return runBerHistory(t) }, 30*time.Second)
	case "V":
		return withDeadline(func() string { return runBerConcurrent(t) }, 30*time.Second)
	}
	tp := &tyParser{s: t[1]}
	typ := tp.ty()
	params := paramOf(t[2])
	arg := ""
	if len(t) > 3 {
		arg = t[3]
	}
	done := make(chan string, 1)
	go func() {
		defer func() {
			if x := recover(); x != nil {
				if os.Getenv("VERIF_DEBUG") != "" {
					fmt.Fprintf(os.Stderr, "panic: %v\n%s\n", x, debug.Stack())
				}
				done <- "panic"
			}
		}()
		switch t[0] {
		case "M", "R":
			v := reflect.New(typ)
			(&valParser{s: arg}).set(v.Elem())
			b, err := asn.BerMarshalWithParams(v.Interface(), params)
			if err != nil {
				done <- "err"
				return
			}
			if t[0] == "M" {
				done <- "ok " + hx(b)
				return
			}
			w := reflect.New(typ)
			if err := asn.UnmarshalWithParams(b, w.Interface(), params); err != nil {
				done <- "ok " + hx(b) + " err"
				return
			}
			done <- "ok " + hx(b) + " ok " + valStr(w.Elem())
		case "U":
			// decode from a sub-slice of a canary-filled buffer so that reading past the end is visible
			raw := unhx(arg)
			buf := make([]byte, len(raw), len(raw))
			copy(buf, raw)
			w := reflect.New(typ)
			if err := asn.UnmarshalWithParams(buf, w.Interface(), params); err != nil {
				done <- "err"
				return
			}
			done <- "ok " + valStr(w.Elem())
		default:
			done <- "bad-op"
		}
	}()
	select {
	case r := <-done:
		return r
	case <-time.After(10 * time.Second):
		return "timeout"
	}
}

// genMarshal: marshalling on behalf of a generator (octets to mutate, to decode again …).  A panic of the encoder must not end
// the generation - the operations that marshal the same value under the check's eyes report it -, it yields no octets.
func genMarshal(v interface{}, params string) (b []byte, err error) {
	defer func() {
		if x := recover(); x != nil {
			b, err = nil, fmt.Errorf("panic: %v", x)
		}
	}()
	if params == "" {
		return asn.BerMarshal(v)
	}
	return asn.BerMarshalWithParams(v, params)
}
