//go:build verif

package main

// dump-tables locksites → ChfVerif/Gen/LockSites.lean: for every `<x>.Lock()` statement in the request path
// (internal/sbi, internal/sbi/processor, internal/context) the shape of its unlocking:
//
//   kind 0  deferNext     the next statement is `defer <x>.Unlock()`
//   kind 1  deferGuarded  Lock; flag := true; f := func(){ if flag { flag = false; <x>.Unlock() } }; defer f()
//   kind 2  straight      Lock; <simple statements>; <x>.Unlock() in the same block
//   kind 3  other
//
//   calls       function calls (other than conversions to basic types and composite literals) in the statements
//               between Lock and the point where the unlock is guaranteed (kind 0/1: the defer; kind 2: Unlock)
//   rawUnlocks  for kind 0/1: unguarded `<x>.Unlock()` statements elsewhere in the function (a second unlock
//               of a sync.Mutex is a fatal error); for kind 2: further Unlocks beyond the matching one
//   relocks     further `<x>.Lock()` statements in the same function
//   peerWaits   calls that wait for the NF consumer (SendChargingNotification, anything reached through
//               `.Consumer()`) while the mutex is held: between Lock and Unlock (kind 2), or anywhere after the Lock
//               in the function when the unlock is deferred (kind 0/1) or not found (kind 3)

import (
	"fmt"
	"go/ast"
	"go/parser"
	"go/token"
	"os"
	"path/filepath"
	"sort"
	"strings"
)

type lockSite struct {
	where                            string
	kind, calls, rawUnlocks, relocks int
	peerWaits                        int
}

// calls that wait for the consumer's answer, at positions in (from, to)
func countPeerWaits(n ast.Node, from, to token.Pos) int {
	c := 0
	ast.Inspect(n, func(x ast.Node) bool {
		ce, ok := x.(*ast.CallExpr)
		if !ok || ce.Pos() <= from || (to != token.NoPos && ce.Pos() >= to) {
			return true
		}
		name := ""
		switch f := ce.Fun.(type) {
		case *ast.SelectorExpr:
			name = f.Sel.Name
			if inner, ok := f.X.(*ast.CallExpr); ok {
				if se, ok := inner.Fun.(*ast.SelectorExpr); ok && se.Sel.Name == "Consumer" {
					c++
					return true
				}
			}
		case *ast.Ident:
			name = f.Name
		}
		if name == "SendChargingNotification" {
			c++
		}
		return true
	})
	return c
}

var basicConv = map[string]bool{"int": true, "int8": true, "int16": true, "int32": true, "int64": true, "uint": true, "uint8": true,
	"uint16": true, "uint32": true, "uint64": true, "string": true, "float32": true, "float64": true, "byte": true, "bool": true}

func countCalls(n ast.Node) int {
	c := 0
	ast.Inspect(n, func(x ast.Node) bool {
		if _, ok := x.(*ast.FuncLit); ok {
			return false // defining a closure calls nothing
		}
		if ce, ok := x.(*ast.CallExpr); ok {
			if id, ok := ce.Fun.(*ast.Ident); ok && basicConv[id.Name] {
				return true
			}
			c++
		}
		return true
	})
	return c
}

func isCallTo(s ast.Stmt, recv, method string) bool {
	es, ok := s.(*ast.ExprStmt)
	if !ok {
		return false
	}
	ce, ok := es.X.(*ast.CallExpr)
	return ok && exprStr(ce.Fun) == recv+"."+method
}

func fullSel(e ast.Expr) string {
	switch x := e.(type) {
	case *ast.Ident:
		return x.Name
	case *ast.SelectorExpr:
		return fullSel(x.X) + "." + x.Sel.Name
	}
	return "?"
}

func lockSitesOf(file string) ([]lockSite, error) {
	fset := token.NewFileSet()
	f, err := parser.ParseFile(fset, file, nil, 0)
	if err != nil {
		return nil, err
	}
	var out []lockSite
	for _, d := range f.Decls {
		fd, ok := d.(*ast.FuncDecl)
		if !ok || fd.Body == nil {
			continue
		}
		// all Lock / Unlock statements of the function, by receiver
		type occ struct{ lock, unlock, deferUnlock int }
		occs := map[string]*occ{}
		get := func(r string) *occ {
			if occs[r] == nil {
				occs[r] = &occ{}
			}
			return occs[r]
		}
		guardedClosures := map[string]string{} // closure name -> receiver it unlocks under a flag
		ast.Inspect(fd.Body, func(n ast.Node) bool {
			switch x := n.(type) {
			case *ast.ExprStmt:
				if ce, ok := x.X.(*ast.CallExpr); ok {
					if se, ok := ce.Fun.(*ast.SelectorExpr); ok {
						switch se.Sel.Name {
						case "Lock":
							get(fullSel(se.X)).lock++
						case "Unlock":
							get(fullSel(se.X)).unlock++
						}
					}
				}
			case *ast.DeferStmt:
				if se, ok := x.Call.Fun.(*ast.SelectorExpr); ok && se.Sel.Name == "Unlock" {
					get(fullSel(se.X)).deferUnlock++
				}
			case *ast.AssignStmt:
				// f := func() { if flag { flag = false; <x>.Unlock() } }
				if len(x.Lhs) == 1 && len(x.Rhs) == 1 {
					if fl, ok := x.Rhs[0].(*ast.FuncLit); ok && len(fl.Body.List) == 1 {
						if is, ok := fl.Body.List[0].(*ast.IfStmt); ok && is.Else == nil && len(is.Body.List) == 2 {
							flag := exprStr(is.Cond)
							as, ok1 := is.Body.List[0].(*ast.AssignStmt)
							if ok1 && len(as.Lhs) == 1 && exprStr(as.Lhs[0]) == flag && exprStr(as.Rhs[0]) == "false" {
								if es, ok := is.Body.List[1].(*ast.ExprStmt); ok {
									if ce, ok := es.X.(*ast.CallExpr); ok {
										if se, ok := ce.Fun.(*ast.SelectorExpr); ok && se.Sel.Name == "Unlock" {
											guardedClosures[exprStr(x.Lhs[0])] = fullSel(se.X)
										}
									}
								}
							}
						}
					}
				}
			}
			return true
		})
		// classify every Lock statement by what follows it in its block
		ast.Inspect(fd.Body, func(n ast.Node) bool {
			bs, ok := n.(*ast.BlockStmt)
			if !ok {
				return true
			}
			for i, s := range bs.List {
				es, ok := s.(*ast.ExprStmt)
				if !ok {
					continue
				}
				ce, ok := es.X.(*ast.CallExpr)
				if !ok {
					continue
				}
				se, ok := ce.Fun.(*ast.SelectorExpr)
				if !ok || se.Sel.Name != "Lock" {
					continue
				}
				recv := fullSel(se.X)
				o := get(recv)
				site := lockSite{where: fmt.Sprintf("%s:%s:%s", filepath.Base(file), fd.Name.Name, recv), kind: 3, relocks: o.lock - 1}
				rest := bs.List[i+1:]
				site.peerWaits = countPeerWaits(fd.Body, es.Pos(), token.NoPos)
				switch {
				case len(rest) > 0 && func() bool {
					ds, ok := rest[0].(*ast.DeferStmt)
					return ok && fullSel(ds.Call.Fun) == recv+".Unlock"
				}():
					site.kind, site.calls, site.rawUnlocks = 0, 0, o.unlock
				default:
					// look for `defer f()` with f a guarded closure, or the matching Unlock in this block
					found := false
					for j, r := range rest {
						if ds, ok := r.(*ast.DeferStmt); ok {
							if g, ok := guardedClosures[exprStr(ds.Call.Fun)]; ok && g == recv {
								site.kind = 1
								for _, b := range rest[:j] {
									site.calls += countCalls(b)
								}
								// the Unlock inside the closure is the guarded one
								site.rawUnlocks = o.unlock - 1
								found = true
								break
							}
						}
						if isCallTo(r, recv, "Unlock") {
							site.kind = 2
							for _, b := range rest[:j] {
								site.calls += countCalls(b)
								switch b.(type) {
								case *ast.AssignStmt, *ast.IncDecStmt:
								default:
									site.calls += 100 // not a simple statement
								}
							}
							site.rawUnlocks = o.unlock - 1
							site.peerWaits = countPeerWaits(fd.Body, es.Pos(), r.Pos())
							found = true
							break
						}
					}
					_ = found
				}
				out = append(out, site)
			}
			return true
		})
	}
	return out, nil
}

func init() {
	tableDumpers["locksites"] = func() {
		var sites []lockSite
		for _, dir := range []string{"internal/sbi", "internal/sbi/processor", "internal/context"} {
			ents, err := os.ReadDir(filepath.Join(repoRoot(), dir))
			if err != nil {
				fmt.Fprintln(os.Stderr, err)
				os.Exit(1)
			}
			for _, e := range ents {
				if e.IsDir() || !strings.HasSuffix(e.Name(), ".go") || strings.HasSuffix(e.Name(), "_test.go") {
					continue
				}
				s, err := lockSitesOf(filepath.Join(repoRoot(), dir, e.Name()))
				if err != nil {
					fmt.Fprintln(os.Stderr, "ast:", err)
					os.Exit(1)
				}
				sites = append(sites, s...)
			}
		}
		sort.Slice(sites, func(i, j int) bool { return sites[i].where < sites[j].where })
		var sb strings.Builder
		sb.WriteString("/- GENERATED from the repository's working tree by `verifharness dump-tables locksites` — do not edit. -/\n")
		sb.WriteString("import ChfVerif.Model.LockDiscipline\nnamespace Chf.Gen\nopen Chf.LockDiscipline\n\n")
		sb.WriteString("/-- every `Lock()` statement of the request path: where, kind, calls before the unlock is guaranteed,\n    unguarded Unlocks elsewhere, further Locks of the same mutex in the function, calls that wait for the consumer\n    while the mutex is held -/\n")
		sb.WriteString("def lockSites : List LockSite := [\n")
		for i, s := range sites {
			sep := ","
			if i == len(sites)-1 {
				sep = ""
			}
			fmt.Fprintf(&sb, "  ⟨%s, %d, %d, %d, %d, %d⟩%s\n", leanStr(s.where), s.kind, s.calls, s.rawUnlocks, s.relocks, s.peerWaits, sep)
		}
		sb.WriteString("]\n\n")
		sb.WriteString(stateAccessTables()) // stateaccess.go: accesses to subscriber state, call edges, counter updates
		sb.WriteString("end Chf.Gen\n")
		fmt.Print(sb.String())
	}
}
