//go:build verif

package main

// Does the account-balance server handle the requests for ONE account one after the other?  Measured, not read off the source:
// two connections, the first request's store read is held back 600 ms (the script of the peer stream), the second request
// for the same account follows 100 ms later and is not held back.  A server that serialises per account answers the second
// only after the first (≈ 500 ms); one that does not answers it at once.  Twice; the smaller latency decides.
//
// The peer stream's generator writes the result into every scenario as step S1 / S0: the Lean side's world then lets a request
// wait for the handler before it (or not), whatever the shape of the locking code.

import (
	"fmt"
	"time"

	"github.com/fiorix/go-diameter/diam"
	"github.com/fiorix/go-diameter/diam/datatype"
	"github.com/fiorix/go-diameter/diam/dict"
	"github.com/free5gc/util/mongoapi"

	charging_code "github.com/free5gc/chf/ccs_diameter/code"
	cd "github.com/free5gc/chf/ccs_diameter/datatype"
)

func abmfSerialises() bool {
	startEnv()
	mongoapi.HookGetOne = peerGetOne
	mongoapi.HookPutOne = peerPutOne
	supi := "imsi-208939999000001"
	store.set(supi, 1, "1000000", "1")
	send := func(p *diamPeer, k int) time.Duration {
		ccr := &cd.AccountDebitRequest{
			SessionId:       datatype.UTF8String(fmt.Sprintf("serial%d", k)),
			OriginHost:      "client",
			OriginRealm:     "go-diameter",
			DestinationHost: "server", DestinationRealm: "go-diameter",
			EventTimestamp:  datatype.Time(time.Unix(1700000000, 0)),
			UserName:        datatype.OctetString("CHF"),
			CcRequestType:   cd.UPDATE_REQUEST,
			CcRequestNumber: datatype.Unsigned32(k),
			RequestedAction: cd.DIRECT_DEBITING,
			SubscriptionId: &cd.SubscriptionId{
				SubscriptionIdType: cd.END_USER_IMSI,
				SubscriptionIdData: datatype.UTF8String(supi[5:]),
			},
			MultipleServicesCreditControl: &cd.MultipleServicesCreditControl{
				RatingGroup:          1,
				RequestedServiceUnit: &cd.RequestedServiceUnit{CCTotalOctets: 1},
				UsedServiceUnit:      &cd.UsedServiceUnit{CCTotalOctets: 0},
			},
		}
		msg := diam.NewRequest(charging_code.ABMF_CreditControl, charging_code.Re_interface, dict.Default)
		if err := msg.Marshal(ccr); err != nil {
			return 0
		}
		t0 := time.Now()
		if _, err := msg.WriteTo(p.conn); err != nil {
			return 0
		}
		select {
		case <-p.ch:
		case <-time.After(3 * time.Second):
		}
		return time.Since(t0)
	}
	best := time.Hour
	for trial := 0; trial < 2; trial++ {
		sc := &peerScript{abmfQ: []int{600}, byGoid: map[uint64]*ccrLog{}}
		peerMu.Lock()
		peerScripts[supi] = sc
		peerMu.Unlock()
		p1 := newPeer(fmt.Sprintf("127.0.0.1:%d", abmfPort), "CCA")
		p2 := newPeer(fmt.Sprintf("127.0.0.1:%d", abmfPort), "CCA")
		done := make(chan struct{})
		go func() { send(p1, 2*trial); close(done) }()
		time.Sleep(100 * time.Millisecond)
		if d := send(p2, 2*trial+1); d < best {
			best = d
		}
		<-done
		p1.conn.Close()
		p2.conn.Close()
		peerMu.Lock()
		delete(peerScripts, supi)
		peerMu.Unlock()
	}
	return best > 250*time.Millisecond
}
