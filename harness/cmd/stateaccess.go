//go:build verif

package main

// Part of `dump-tables locksites` (→ ChfVerif/Gen/LockSites.lean): where the request path touches the state a subscriber's
// requests share, and whether the subscriber's mutex is held there.
//
// fnFacts — one row per function of internal/{sbi,sbi/processor,context,rating,abmf}:
//
//	id, "file.go:Func", ownLock, held, unheld, exception, root
//
//	  held / unheld   selector expressions <ue>.<Field> (Field: every field of struct ChfUe except the mutex itself and Supi, which
//	                  is written once before the context is published; <ue>: an identifier of type *ChfUe - parameter, receiver, or
//	                  assigned from ChfUeFindBySupi / NewCHFUe / a type assertion) at a point where <ue>.CULock is held by the
//	                  function itself / is not.  "Held" is decided by walking the statements: after `<ue>.CULock.Lock()`, until an
//	                  explicit `<ue>.CULock.Unlock()` or a call of the guarded-unlock closure; a branch counts only if it can fall
//	                  through; anything inside a function literal counts as not held.
//	                  Uses of a parameter of type *cdrType.CHFRecord / []*cdrType.CHFRecord count as unheld accesses too: a record
//	                  handed in is an element of the subscriber's ue.Records, the function has no mutex of its own for it.
//	  ownLock         the function locks <ue>.CULock itself
//	                  A call of cgf.SendCDR counts as an access where it is made: it reads the subscriber's CDR file, which the
//	                  requests of the subscriber rewrite.
//	  exception       a named reason why the unheld accesses of this function are safe (see `accessExceptions`); "" = none
//	  root            the function is an HTTP handler of package sbi (it is entered without any lock held)
//
// callFacts — caller id, callee id, held: the call happens while the caller holds the subscriber's mutex (by the same walk).
//
// The Lean side (Model/LockDiscipline.lean `stateAccessOK`) propagates "needs its caller to hold the mutex" from the functions
// with unheld accesses up the unheld call edges and requires that it reaches no root.
//
// counterSites — every statement that changes CHFContext.ChargingSessionSequence / LocalRecordSequenceNumber:
//
//	"file.go:Func", field, kind    kind 0: atomic.AddUint64(&x, 1)   1: x++   2: anything else (decrement, store, other delta)

import (
	"fmt"
	"go/ast"
	"go/parser"
	"go/token"
	"os"
	"path/filepath"
	"sort"
	"strings"
)

// Named exceptions: unheld accesses that are safe, each with its reason.  An access that is NOT safe does not belong here.
var accessExceptions = map[string]string{
	// the context is being built: no other goroutine can reach it before NewCHFUe publishes it with LoadOrStore
	"ue_context.go:init": "constructor: the context is not published yet",
}

var stateDirs = []string{"internal/sbi", "internal/sbi/processor", "internal/context", "internal/rating", "internal/abmf"}

type fnFact struct {
	id           int
	key, name    string
	ownLock      bool
	held, unheld int
	exception    string
	root         bool
}

type heldCallSite struct {
	caller int
	callee string
	held   bool
}

type counterSite struct {
	where, field string
	kind         int
}

func ueFields() map[string]bool {
	out := map[string]bool{}
	fset := token.NewFileSet()
	f, err := parser.ParseFile(fset, filepath.Join(repoRoot(), "internal/context/ue_context.go"), nil, 0)
	if err != nil {
		fmt.Fprintln(os.Stderr, "ast:", err)
		os.Exit(1)
	}
	ast.Inspect(f, func(n ast.Node) bool {
		ts, ok := n.(*ast.TypeSpec)
		if !ok || ts.Name.Name != "ChfUe" {
			return true
		}
		st, ok := ts.Type.(*ast.StructType)
		if !ok {
			return true
		}
		for _, fl := range st.Fields.List {
			if typeStr(fl.Type) == "sync.Mutex" || typeStr(fl.Type) == "sync.RWMutex" {
				continue
			}
			for _, nm := range fl.Names {
				if nm.Name != "Supi" {
					out[nm.Name] = true
				}
			}
		}
		return false
	})
	return out
}

// a type expression as text (pointers and qualified names only; anything else "?")
func typeStr(e ast.Expr) string {
	switch x := e.(type) {
	case *ast.StarExpr:
		return "*" + typeStr(x.X)
	case *ast.Ident:
		return x.Name
	case *ast.SelectorExpr:
		return typeStr(x.X) + "." + x.Sel.Name
	}
	return "?"
}

func isUeType(e ast.Expr) bool {
	s := typeStr(e)
	return s == "*ChfUe" || strings.HasSuffix(s, ".ChfUe") && strings.HasPrefix(s, "*")
}

func recordSlice(e ast.Expr) bool {
	at, ok := e.(*ast.ArrayType)
	return ok && at.Len == nil && strings.HasSuffix(typeStr(at.Elt), "CHFRecord")
}

func isCtxType(e ast.Expr) bool {
	s := typeStr(e)
	return s == "*CHFContext" || strings.HasSuffix(s, ".CHFContext") && strings.HasPrefix(s, "*")
}

type accessWalker struct {
	fields   map[string]bool
	ues      map[string]bool   // identifiers of type *ChfUe
	closures map[string]string // guarded-unlock closure name -> ue identifier
	held     map[string]bool
	recs     map[string]bool // parameters of type *cdrType.CHFRecord / []*cdrType.CHFRecord
	fact     *fnFact
	calls    *[]heldCallSite
	lits     int // depth of function literals
}

func (w *accessWalker) anyHeld() bool {
	for _, h := range w.held {
		if h {
			return true
		}
	}
	return false
}

// expressions: count accesses and calls with the current lock state
func (w *accessWalker) expr(n ast.Node) {
	if n == nil {
		return
	}
	ast.Inspect(n, func(x ast.Node) bool {
		switch e := x.(type) {
		case *ast.FuncLit:
			w.lits++
			saved := w.held
			w.held = map[string]bool{} // a literal runs whenever it is called: nothing is known to be held
			w.block(e.Body.List)
			w.held = saved
			w.lits--
			return false
		case *ast.SelectorExpr:
			if id, ok := e.X.(*ast.Ident); ok && w.ues[id.Name] && w.fields[e.Sel.Name] {
				if w.held[id.Name] {
					w.fact.held++
				} else {
					w.fact.unheld++
				}
			}
		case *ast.Ident:
			// a charging record handed in by the caller is part of the subscriber's state (an element of ue.Records): the
			// function works on it without a mutex of its own, it relies on its caller
			if w.recs[e.Name] {
				w.fact.unheld++
			}
		case *ast.CallExpr:
			name := ""
			switch f := e.Fun.(type) {
			case *ast.Ident:
				name = f.Name
			case *ast.SelectorExpr:
				name = f.Sel.Name
			}
			if name != "" && name != "Lock" && name != "Unlock" {
				*w.calls = append(*w.calls, heldCallSite{caller: w.fact.id, callee: name, held: w.anyHeld()})
			}
			// the subscriber's CDR file (/tmp/<supi>.cdr) is subscriber state on disk: the transfer to the billing domain reads it
			// (cgf.SendCDR lives outside the scanned packages, so the access is counted where the call is made)
			if name == "SendCDR" {
				if w.anyHeld() {
					w.fact.held++
				} else {
					w.fact.unheld++
				}
			}
		}
		return true
	})
}

func copyHeld(m map[string]bool) map[string]bool {
	o := map[string]bool{}
	for k, v := range m {
		o[k] = v
	}
	return o
}

// statements of one block, in order; returns whether the block always leaves the function (return / panic)
func (w *accessWalker) block(stmts []ast.Stmt) bool {
	for _, s := range stmts {
		if w.stmt(s) {
			return true
		}
	}
	return false
}

func (w *accessWalker) branches(bodies [][]ast.Stmt, exhaustive bool) bool {
	before := copyHeld(w.held)
	var outs []map[string]bool
	allTerm := exhaustive
	for _, b := range bodies {
		w.held = copyHeld(before)
		if w.block(b) {
			continue
		}
		allTerm = false
		outs = append(outs, w.held)
	}
	if !exhaustive {
		outs = append(outs, before)
	}
	merged := map[string]bool{}
	for k := range before {
		merged[k] = false
	}
	for _, o := range outs {
		for k := range o {
			merged[k] = false
		}
	}
	for k := range merged {
		all := len(outs) > 0
		for _, o := range outs {
			if !o[k] {
				all = false
			}
		}
		merged[k] = all
	}
	w.held = merged
	return allTerm && len(outs) == 0
}

func (w *accessWalker) stmt(s ast.Stmt) bool {
	switch x := s.(type) {
	case nil:
		return false
	case *ast.ExprStmt:
		if ce, ok := x.X.(*ast.CallExpr); ok {
			if se, ok := ce.Fun.(*ast.SelectorExpr); ok && (se.Sel.Name == "Lock" || se.Sel.Name == "Unlock") {
				if inner, ok := se.X.(*ast.SelectorExpr); ok && inner.Sel.Name == "CULock" {
					if id, ok := inner.X.(*ast.Ident); ok && w.ues[id.Name] {
						w.held[id.Name] = se.Sel.Name == "Lock"
						if se.Sel.Name == "Lock" && w.lits == 0 {
							w.fact.ownLock = true
						}
						return false
					}
				}
			}
			if id, ok := ce.Fun.(*ast.Ident); ok {
				if ue, ok := w.closures[id.Name]; ok {
					w.held[ue] = false
					return false
				}
				if id.Name == "panic" {
					w.expr(x.X)
					return true
				}
			}
		}
		w.expr(x.X)
	case *ast.DeferStmt:
		// runs when the function is left: no effect on what is held in between; its arguments are evaluated now
		for _, a := range x.Call.Args {
			w.expr(a)
		}
		if fl, ok := x.Call.Fun.(*ast.FuncLit); ok {
			w.expr(fl)
		}
	case *ast.GoStmt:
		saved := w.held
		w.held = map[string]bool{}
		w.expr(x.Call)
		w.held = saved
	case *ast.ReturnStmt:
		for _, r := range x.Results {
			w.expr(r)
		}
		return true
	case *ast.BlockStmt:
		return w.block(x.List)
	case *ast.IfStmt:
		w.stmt(x.Init)
		w.expr(x.Cond)
		bodies := [][]ast.Stmt{x.Body.List}
		exhaustive := false
		if x.Else != nil {
			exhaustive = true
			bodies = append(bodies, []ast.Stmt{x.Else})
		}
		return w.branches(bodies, exhaustive)
	case *ast.ForStmt:
		w.stmt(x.Init)
		w.expr(x.Cond)
		w.branches([][]ast.Stmt{append(append([]ast.Stmt{}, x.Body.List...), x.Post)}, false)
	case *ast.RangeStmt:
		w.expr(x.X)
		w.branches([][]ast.Stmt{x.Body.List}, false)
	case *ast.SwitchStmt:
		w.stmt(x.Init)
		w.expr(x.Tag)
		var bodies [][]ast.Stmt
		hasDefault := false
		for _, c := range x.Body.List {
			cc := c.(*ast.CaseClause)
			if cc.List == nil {
				hasDefault = true
			}
			for _, e := range cc.List {
				w.expr(e)
			}
			bodies = append(bodies, cc.Body)
		}
		return w.branches(bodies, hasDefault)
	case *ast.TypeSwitchStmt:
		w.stmt(x.Init)
		w.stmt(x.Assign)
		var bodies [][]ast.Stmt
		hasDefault := false
		for _, c := range x.Body.List {
			cc := c.(*ast.CaseClause)
			if cc.List == nil {
				hasDefault = true
			}
			bodies = append(bodies, cc.Body)
		}
		return w.branches(bodies, hasDefault)
	case *ast.SelectStmt:
		var bodies [][]ast.Stmt
		for _, c := range x.Body.List {
			cc := c.(*ast.CommClause)
			w.stmt(cc.Comm)
			bodies = append(bodies, cc.Body)
		}
		return w.branches(bodies, true)
	case *ast.LabeledStmt:
		return w.stmt(x.Stmt)
	case *ast.AssignStmt:
		for _, e := range x.Rhs {
			w.expr(e)
		}
		for _, e := range x.Lhs {
			w.expr(e)
		}
	default:
		w.expr(s)
	}
	return false
}

// identifiers of type *ChfUe in a function, and its guarded-unlock closures
func ueIdents(fd *ast.FuncDecl) (map[string]bool, map[string]string) {
	ues := map[string]bool{}
	closures := map[string]string{}
	addFields := func(fl *ast.FieldList) {
		if fl == nil {
			return
		}
		for _, f := range fl.List {
			if isUeType(f.Type) {
				for _, n := range f.Names {
					ues[n.Name] = true
				}
			}
		}
	}
	addFields(fd.Recv)
	addFields(fd.Type.Params)
	ast.Inspect(fd.Body, func(n ast.Node) bool {
		switch x := n.(type) {
		case *ast.AssignStmt:
			if len(x.Rhs) == 1 && len(x.Lhs) >= 1 {
				if id, ok := x.Lhs[0].(*ast.Ident); ok {
					switch r := x.Rhs[0].(type) {
					case *ast.CallExpr:
						if se, ok := r.Fun.(*ast.SelectorExpr); ok && (se.Sel.Name == "ChfUeFindBySupi" || se.Sel.Name == "NewCHFUe") {
							ues[id.Name] = true
						}
					case *ast.TypeAssertExpr:
						if r.Type != nil && isUeType(r.Type) {
							ues[id.Name] = true
						}
					case *ast.FuncLit:
						// f := func() { if flag { flag = false; <ue>.CULock.Unlock() } }
						ast.Inspect(r.Body, func(m ast.Node) bool {
							if ce, ok := m.(*ast.CallExpr); ok {
								if se, ok := ce.Fun.(*ast.SelectorExpr); ok && se.Sel.Name == "Unlock" {
									if inner, ok := se.X.(*ast.SelectorExpr); ok && inner.Sel.Name == "CULock" {
										if u, ok := inner.X.(*ast.Ident); ok {
											closures[id.Name] = u.Name
										}
									}
								}
							}
							return true
						})
					}
				}
			}
		}
		return true
	})
	return ues, closures
}

func counterKind(fd *ast.FuncDecl, file string, out *[]counterSite) {
	// identifiers that denote the CHF context in this function
	ctx := map[string]bool{"chfContext": true}
	for _, fl := range []*ast.FieldList{fd.Recv, fd.Type.Params} {
		if fl != nil {
			for _, f := range fl.List {
				if isCtxType(f.Type) {
					for _, n := range f.Names {
						ctx[n.Name] = true
					}
				}
			}
		}
	}
	ast.Inspect(fd.Body, func(n ast.Node) bool {
		if as, ok := n.(*ast.AssignStmt); ok && len(as.Lhs) == 1 && len(as.Rhs) == 1 {
			if id, ok := as.Lhs[0].(*ast.Ident); ok {
				if ce, ok := as.Rhs[0].(*ast.CallExpr); ok {
					if se, ok := ce.Fun.(*ast.SelectorExpr); ok && se.Sel.Name == "GetSelf" {
						ctx[id.Name] = true
					}
					if fid, ok := ce.Fun.(*ast.Ident); ok && fid.Name == "GetSelf" {
						ctx[id.Name] = true
					}
				}
			}
		}
		return true
	})
	isCounter := func(e ast.Expr) string {
		if se, ok := e.(*ast.SelectorExpr); ok && (se.Sel.Name == "ChargingSessionSequence" || se.Sel.Name == "LocalRecordSequenceNumber") {
			if id, ok := se.X.(*ast.Ident); ok && ctx[id.Name] {
				return se.Sel.Name
			}
		}
		return ""
	}
	where := fmt.Sprintf("%s:%s", filepath.Base(file), fd.Name.Name)
	ast.Inspect(fd.Body, func(n ast.Node) bool {
		switch x := n.(type) {
		case *ast.IncDecStmt:
			if f := isCounter(x.X); f != "" {
				k := 1
				if x.Tok != token.INC {
					k = 2
				}
				*out = append(*out, counterSite{where, f, k})
			}
		case *ast.AssignStmt:
			for _, l := range x.Lhs {
				if f := isCounter(l); f != "" {
					*out = append(*out, counterSite{where, f, 2})
				}
			}
		case *ast.CallExpr:
			if se, ok := x.Fun.(*ast.SelectorExpr); ok && exprStr(se.X) == "atomic" && len(x.Args) >= 1 {
				if ue, ok := x.Args[0].(*ast.UnaryExpr); ok && ue.Op == token.AND {
					if f := isCounter(ue.X); f != "" {
						k := 2
						if bl, ok := x.Args[len(x.Args)-1].(*ast.BasicLit); ok && strings.HasPrefix(se.Sel.Name, "Add") && len(x.Args) == 2 && bl.Value == "1" {
							k = 0
						}
						if strings.HasPrefix(se.Sel.Name, "Load") {
							return true
						}
						*out = append(*out, counterSite{where, f, k})
					}
				}
			}
		}
		return true
	})
}

func stateAccessTables() string {
	fields := ueFields()
	var facts []*fnFact
	var calls []heldCallSite
	var counters []counterSite
	for _, dir := range stateDirs {
		ents, err := os.ReadDir(filepath.Join(repoRoot(), dir))
		if err != nil {
			fmt.Fprintln(os.Stderr, err)
			os.Exit(1)
		}
		for _, e := range ents {
			if e.IsDir() || !strings.HasSuffix(e.Name(), ".go") || strings.HasSuffix(e.Name(), "_test.go") {
				continue
			}
			file := filepath.Join(repoRoot(), dir, e.Name())
			fset := token.NewFileSet()
			f, err := parser.ParseFile(fset, file, nil, 0)
			if err != nil {
				fmt.Fprintln(os.Stderr, "ast:", err)
				os.Exit(1)
			}
			for _, d := range f.Decls {
				fd, ok := d.(*ast.FuncDecl)
				if !ok || fd.Body == nil {
					continue
				}
				fact := &fnFact{id: len(facts), key: fmt.Sprintf("%s:%s", e.Name(), fd.Name.Name), name: fd.Name.Name}
				fact.exception = accessExceptions[fact.key]
				if dir == "internal/sbi" && fd.Type.Params != nil {
					for _, p := range fd.Type.Params.List {
						if typeStr(p.Type) == "*gin.Context" {
							fact.root = true
						}
					}
				}
				ues, closures := ueIdents(fd)
				recs := map[string]bool{}
				if fd.Type.Params != nil {
					for _, p := range fd.Type.Params.List {
						if t := typeStr(p.Type); strings.HasSuffix(t, "CHFRecord") || recordSlice(p.Type) {
							for _, n := range p.Names {
								recs[n.Name] = true
							}
						}
					}
				}
				w := &accessWalker{fields: fields, ues: ues, closures: closures, recs: recs, held: map[string]bool{}, fact: fact, calls: &calls}
				w.block(fd.Body.List)
				facts = append(facts, fact)
				counterKind(fd, file, &counters)
			}
		}
	}
	byName := map[string][]int{}
	for _, f := range facts {
		byName[f.name] = append(byName[f.name], f.id)
	}
	var sb strings.Builder
	sb.WriteString("/-- functions of the request path: id, where, locks the subscriber's mutex itself, accesses to the subscriber's shared state\n    while it holds the mutex / while it does not, named exception, entered from the router -/\n")
	sb.WriteString("def fnFacts : List FnFact := [\n")
	for i, f := range facts {
		sep := ","
		if i == len(facts)-1 {
			sep = ""
		}
		fmt.Fprintf(&sb, "  ⟨%d, %s, %v, %d, %d, %s, %v⟩%s\n", f.id, leanStr(f.key), f.ownLock, f.held, f.unheld, leanStr(f.exception), f.root, sep)
	}
	sb.WriteString("]\n\n/-- calls between them: caller, callee, made while the caller holds the subscriber's mutex -/\ndef callFacts : List CallFact := [\n")
	type edge struct {
		a, b int
		h    bool
	}
	seen := map[edge]bool{}
	var edges []edge
	for _, c := range calls {
		for _, id := range byName[c.callee] {
			e := edge{c.caller, id, c.held}
			if !seen[e] {
				seen[e] = true
				edges = append(edges, e)
			}
		}
	}
	sort.Slice(edges, func(i, j int) bool {
		if edges[i].a != edges[j].a {
			return edges[i].a < edges[j].a
		}
		if edges[i].b != edges[j].b {
			return edges[i].b < edges[j].b
		}
		return !edges[i].h && edges[j].h
	})
	for i, e := range edges {
		sep := ","
		if i == len(edges)-1 {
			sep = ""
		}
		fmt.Fprintf(&sb, "  ⟨%d, %d, %v⟩%s\n", e.a, e.b, e.h, sep)
	}
	sb.WriteString("]\n\n/-- statements that change the global sequence counters: where, which, kind (0 atomic add of 1, 1 `++`, 2 anything else) -/\ndef counterSites : List CounterSite := [\n")
	sort.Slice(counters, func(i, j int) bool { return counters[i].where+counters[i].field < counters[j].where+counters[j].field })
	for i, c := range counters {
		sep := ","
		if i == len(counters)-1 {
			sep = ""
		}
		fmt.Fprintf(&sb, "  ⟨%s, %s, %d⟩%s\n", leanStr(c.where), leanStr(c.field), c.kind, sep)
	}
	sb.WriteString("]\n\n")
	return sb.String()
}
