//go:build verif

package main

// stream "http" (C11): raw requests through the real router, each followed by a well-formed request for
// the same subscriber under a deadline.
//
//   http case <kind> <bodyHex|-> <refHex|@>
//
// kind: create | update | release | recharge | recharge0 | notifyslow | notifyreenter (see notifyCase).  One case = a fresh world with an account for the probe
// subscriber; for update/release a valid session is created first and the raw body is posted to
// <refHex> ("@": the session's real reference); for recharge <refHex> is the raw path parameter and a valid
// session exists.  Then the follow-up: a valid online update on the valid session (create: a valid create),
// which must be answered within 4 s.
//
// observation: st=<status of the raw request> fu=<status of the follow-up | hang> fu2=<status of a release | hang | ->
//
//   http case hist <steps> -
//
// a short history of requests for the probe subscriber in a fresh world, one letter per request, each under a 4 s deadline:
//   c valid session create      b create that OpenCDR refuses (mcc "20")     n create without nfConsumerIdentification
//   o one-time event            u update of the newest open session (of an unknown reference when there is none)
//   r release of the newest open session (idem)     x update naming an unknown reference     R recharge <subscriber>_1
// then the follow-up: a valid create, an update and a release of that session (4 s each).
// observation: st=<worst of the history: hang | 5xx | last status> fu=<create/update of the follow-up> fu2=<its release> fu3=- hist=<s1/s2/...>

import (
	"bufio"
	"encoding/hex"
	"encoding/json"
	"fmt"
	"net/http/httptest"
	"sort"
	"strings"
	"time"
)

const probeSupi = "imsi-208930000000077"

func init() {
	streams["http"] = &stream{
		setup: func() { startChf([]string{"nchf-convergedcharging"}, false) },
		gen:   genHTTP,
		run:   runHTTP,
	}
}

func fullRequest(supi string, seq int) map[string]interface{} {
	return map[string]interface{}{
		"subscriberIdentifier":     supi,
		"nfConsumerIdentification": map[string]interface{}{"nFName": "smf-1", "nodeFunctionality": "SMF", "nFPLMNID": map[string]interface{}{"mcc": "208", "mnc": "93"}},
		"invocationTimeStamp":      time.Now().UTC().Format(time.RFC3339),
		"invocationSequenceNumber": seq,
		"chargingId":               7,
		"notifyUri":                sinkURL + "/n/x",
		"multipleUnitUsage": []interface{}{map[string]interface{}{
			"ratingGroup":   1,
			"requestedUnit": map[string]interface{}{"totalVolume": 50},
			"uPFID":         "upf",
			"usedUnitContainer": []interface{}{map[string]interface{}{
				"quotaManagementIndicator": "ONLINE_CHARGING", "totalVolume": 3, "uplinkVolume": 1, "downlinkVolume": 2,
				"localSequenceNumber": seq, "triggers": []interface{}{map[string]interface{}{"triggerType": "QUOTA_THRESHOLD", "triggerCategory": "IMMEDIATE_REPORT"}},
			}},
		}},
		"triggers": []interface{}{map[string]interface{}{"triggerType": "VOLUME_LIMIT", "triggerCategory": "IMMEDIATE_REPORT"}},
		"pDUSessionChargingInformation": map[string]interface{}{
			"chargingId":      7,
			"userInformation": map[string]interface{}{"servedGPSI": "msisdn-0900000000", "servedPEI": "imei-1"},
			"pduSessionInformation": map[string]interface{}{
				"pduSessionID": 1, "dnnId": "internet", "pduType": "IPV4",
				"networkSlicingInfo":       map[string]interface{}{"sNSSAI": map[string]interface{}{"sst": 1, "sd": "010203"}},
				"servingNetworkFunctionID": map[string]interface{}{"servingNetworkFunctionInformation": map[string]interface{}{"nodeFunctionality": "AMF"}},
			},
		},
	}
}

// every path to a member of the request (depth first), as a list of keys / indices
func memberPaths(v interface{}, prefix []string, out *[][]string) {
	switch x := v.(type) {
	case map[string]interface{}:
		keys := make([]string, 0, len(x))
		for k := range x {
			keys = append(keys, k)
		}
		sort.Strings(keys)
		for _, k := range keys {
			p := append(append([]string{}, prefix...), k)
			*out = append(*out, p)
			memberPaths(x[k], p, out)
		}
	case []interface{}:
		for i := range x {
			p := append(append([]string{}, prefix...), fmt.Sprintf("#%d", i))
			memberPaths(x[i], p, out)
		}
	}
}

func deepCopy(v interface{}) interface{} {
	b, _ := json.Marshal(v)
	var o interface{}
	_ = json.Unmarshal(b, &o)
	return o
}

// apply f to the parent container and key of the member at path
func editAt(root interface{}, path []string, f func(m map[string]interface{}, k string)) {
	cur := root
	for i, k := range path {
		if strings.HasPrefix(k, "#") {
			var idx int
			fmt.Sscanf(k, "#%d", &idx)
			a, ok := cur.([]interface{})
			if !ok || idx >= len(a) {
				return
			}
			cur = a[idx]
			continue
		}
		m, ok := cur.(map[string]interface{})
		if !ok {
			return
		}
		if i == len(path)-1 {
			f(m, k)
			return
		}
		cur = m[k]
	}
}

func post(path string, body []byte, deadline time.Duration) (int, bool) {
	ch := make(chan *httptest.ResponseRecorder, 1)
	go func() {
		defer func() {
			if r := recover(); r != nil {
				w := httptest.NewRecorder()
				w.Code = 599
				ch <- w
			}
		}()
		ch <- doHTTP("POST", path, body)
	}()
	select {
	case w := <-ch:
		return w.Code, true
	case <-time.After(deadline):
		return 0, false
	}
}

func postW(path string, body []byte, deadline time.Duration) (*httptest.ResponseRecorder, bool) {
	ch := make(chan *httptest.ResponseRecorder, 1)
	go func() {
		defer func() {
			if r := recover(); r != nil {
				w := httptest.NewRecorder()
				w.Code = 599
				ch <- w
			}
		}()
		ch <- doHTTP("POST", path, body)
	}()
	select {
	case w := <-ch:
		return w, true
	case <-time.After(deadline):
		return nil, false
	}
}

var httpHangs int

// notifyCase: a recharge notification whose consumer is not passive.
//
//	notifyslow     the consumer answers the notification after 5 s; 300 ms after the recharge request was sent
//	               a well-formed update for the same subscriber is sent: it must be answered within 4 s
//	notifydrop     the consumer records the notification and aborts the exchange without an answer (the CHF's client sees a
//	               transport error); n = notifications the consumer got for the one recharge
//	notifyreenter  the consumer sends an update for the same subscriber before it answers the notification;
//	               that update must be answered within 4 s and the recharge request within 8 s
//
// observation: st=<status of the recharge request | hang> fu=<status of the update | hang> fu2=-
func notifyCase(kind string) string {
	runChf("chf reset", []string{"reset"})
	store.set(probeSupi, 1, "100000", "2")
	chfSupis[probeSupi] = true
	fr := fullRequest(probeSupi, 0)
	switch kind {
	case "notifyslow":
		fr["notifyUri"] = sinkURL + "/n/slow/x"
	case "notifydrop":
		fr["notifyUri"] = sinkURL + "/n/drop/x"
	default:
		fr["notifyUri"] = sinkURL + "/n/reenter/x"
	}
	sinkMu.Lock()
	nBefore := len(sinkGot)
	sinkMu.Unlock()
	fb, _ := json.Marshal(fr)
	w0 := doHTTP("POST", ccPrefix+"/chargingdata", fb)
	sid := ""
	if l := w0.Header().Get("Location"); l != "" {
		if i := strings.LastIndex(l, "/chargingdata/"); i >= 0 {
			sid = l[i+len("/chargingdata/"):]
		}
	}
	if w0.Code != 201 || sid == "" {
		return "setup-failed"
	}
	ub, _ := json.Marshal(fullRequest(probeSupi, 1))
	update := func() string {
		c, ok := post(ccPrefix+"/chargingdata/"+escapePath(sid)+"/update", ub, 4*time.Second)
		if !ok {
			return "hang"
		}
		return fmt.Sprint(c)
	}
	fuCh := make(chan string, 1)
	sinkMu.Lock()
	sinkSlow, sinkReenter = 0, nil
	switch kind {
	case "notifyslow":
		sinkSlow = 5 * time.Second
	case "notifyreenter":
		sinkReenter = func() { fuCh <- update() }
	}
	sinkMu.Unlock()
	defer func() {
		sinkMu.Lock()
		sinkSlow, sinkReenter = 0, nil
		sinkMu.Unlock()
	}()
	ch := make(chan int, 1)
	go func() { ch <- doHTTP("PUT", ccPrefix+"/recharging/"+escapePath(probeSupi+"_1"), nil).Code }()
	fu := "-"
	if kind == "notifyslow" {
		time.Sleep(300 * time.Millisecond)
		fu = update()
	}
	st := "hang"
	select {
	case c := <-ch:
		st = fmt.Sprint(c)
	case <-time.After(8 * time.Second):
	}
	if kind == "notifyreenter" {
		select {
		case fu = <-fuCh:
		case <-time.After(5 * time.Second):
			fu = "none" // the consumer was never notified
		}
	}
	if kind == "notifydrop" {
		// the follow-up comes after the recharge request has been answered; the notifications the consumer got are counted
		// a moment later (a notification repeated in the background would still arrive)
		fu = update()
		time.Sleep(300 * time.Millisecond)
	}
	sinkMu.Lock()
	n := len(sinkGot) - nBefore
	sinkMu.Unlock()
	return fmt.Sprintf("st=%s fu=%s fu2=- n=%d", st, fu, n)
}

func runHTTP(line string, t []string) string {
	if len(t) != 4 || t[0] != "case" {
		return "bad-op"
	}
	if httpHangs >= 2 {
		// two requests of this process already hang: the remaining cases are not run (each would wait for
		// its deadline); the check reports the hangs
		return "skipped"
	}
	r := runHTTP1(t)
	if strings.Contains(r, "hang") {
		httpHangs++
	}
	return r
}

func histCase(steps string) string {
	runChf("chf reset", []string{"reset"})
	store.set(probeSupi, 1, "100000", "2")
	chfSupis[probeSupi] = true
	var open []string
	seq := 0
	do := func(method, path string, body []byte) (int, string) {
		ch := make(chan *httptest.ResponseRecorder, 1)
		go func() {
			defer func() {
				if r := recover(); r != nil {
					w := httptest.NewRecorder()
					w.Code = 599
					ch <- w
				}
			}()
			ch <- doHTTP(method, path, body)
		}()
		select {
		case w := <-ch:
			loc := ""
			if l := w.Header().Get("Location"); l != "" {
				if i := strings.LastIndex(l, "/chargingdata/"); i >= 0 {
					loc = l[i+len("/chargingdata/"):]
				}
			}
			return w.Code, loc
		case <-time.After(4 * time.Second):
			return 0, ""
		}
	}
	js := func(f func(m map[string]interface{})) []byte {
		seq++
		m := fullRequest(probeSupi, seq)
		if f != nil {
			f(m)
		}
		b, _ := json.Marshal(m)
		return b
	}
	newest := func() string {
		if len(open) == 0 {
			return "nosuch-reference"
		}
		return open[len(open)-1]
	}
	var sts []string
	worst := ""
	note := func(code int) bool {
		if code == 0 {
			sts = append(sts, "hang")
			worst = "hang"
			return false
		}
		sts = append(sts, fmt.Sprint(code))
		if code >= 500 && worst == "" {
			worst = fmt.Sprint(code)
		}
		return true
	}
	for _, c := range steps {
		code, loc := 0, ""
		switch c {
		case 'c':
			code, loc = do("POST", ccPrefix+"/chargingdata", js(nil))
			if code == 201 && loc != "" {
				open = append(open, loc)
			}
		case 'b':
			code, _ = do("POST", ccPrefix+"/chargingdata", js(func(m map[string]interface{}) {
				m["nfConsumerIdentification"].(map[string]interface{})["nFPLMNID"] = map[string]interface{}{"mcc": "20", "mnc": "93"}
			}))
		case 'n':
			code, _ = do("POST", ccPrefix+"/chargingdata", js(func(m map[string]interface{}) { delete(m, "nfConsumerIdentification") }))
		case 'o':
			code, _ = do("POST", ccPrefix+"/chargingdata", js(func(m map[string]interface{}) { m["oneTimeEvent"] = true }))
		case 'u':
			code, _ = do("POST", ccPrefix+"/chargingdata/"+escapePath(newest())+"/update", js(nil))
		case 'x':
			code, _ = do("POST", ccPrefix+"/chargingdata/nosuch-reference/update", js(nil))
		case 'r':
			code, _ = do("POST", ccPrefix+"/chargingdata/"+escapePath(newest())+"/release", js(nil))
			if code == 204 && len(open) > 0 {
				open = open[:len(open)-1]
			}
		case 'R':
			code, _ = do("PUT", ccPrefix+"/recharging/"+escapePath(probeSupi+"_1"), nil)
		default:
			return "bad-op"
		}
		if !note(code) {
			break
		}
	}
	st := worst
	if st == "" && len(sts) > 0 {
		st = sts[len(sts)-1]
	}
	if st == "" {
		st = "204"
	}
	// follow-up: the subscriber is not blocked
	fu, fu2 := "hang", "-"
	if code, loc := do("POST", ccPrefix+"/chargingdata", js(nil)); code != 0 {
		fu = fmt.Sprint(code)
		if code == 201 {
			if c2, _ := do("POST", ccPrefix+"/chargingdata/"+escapePath(loc)+"/update", js(nil)); c2 == 0 {
				fu = "hang"
			} else {
				fu = fmt.Sprint(c2)
				fu2 = "hang"
				if c3, _ := do("POST", ccPrefix+"/chargingdata/"+escapePath(loc)+"/release", js(nil)); c3 != 0 {
					fu2 = fmt.Sprint(c3)
				}
			}
		}
	}
	return fmt.Sprintf("st=%s fu=%s fu2=%s fu3=- hist=%s", st, fu, fu2, strings.Join(sts, "/"))
}

func runHTTP1(t []string) string {
	kind := t[1]
	if kind == "hist" {
		return histCase(t[2])
	}
	var body []byte
	if t[2] != "-" {
		b, err := hex.DecodeString(t[2])
		if err != nil {
			return "bad-op"
		}
		body = b
	}
	// fresh world
	runChf("chf reset", []string{"reset"})
	store.set(probeSupi, 1, "100000", "2")
	chfSupis[probeSupi] = true
	sid := ""
	mkSession := func() bool {
		b, _ := json.Marshal(fullRequest(probeSupi, 0))
		ch := make(chan *httptest.ResponseRecorder, 1)
		go func() { ch <- doHTTP("POST", ccPrefix+"/chargingdata", b) }()
		select {
		case w := <-ch:
			if l := w.Header().Get("Location"); l != "" {
				if i := strings.LastIndex(l, "/chargingdata/"); i >= 0 {
					sid = l[i+len("/chargingdata/"):]
				}
			}
			return w.Code == 201 && sid != ""
		case <-time.After(4 * time.Second):
			return false
		}
	}
	ref := sid
	code, done := 0, true
	ownRef, ownCreated := "", false // the session the raw create itself opened (whatever its subscriber looks like)
	switch kind {
	case "create":
		var wc *httptest.ResponseRecorder
		wc, done = postW(ccPrefix+"/chargingdata", body, 40*time.Second)
		if done {
			code = wc.Code
			if l := wc.Header().Get("Location"); code == 201 && l != "" {
				if i := strings.LastIndex(l, "/chargingdata/"); i >= 0 {
					ownRef, ownCreated = l[i+len("/chargingdata/"):], true
				}
			}
		}
	case "update", "release":
		if !mkSession() {
			return "setup-failed"
		}
		ref = sid
		if t[3] == "-" {
			ref = ""
		} else if t[3] != "@" {
			rb, err := hex.DecodeString(t[3])
			if err != nil {
				return "bad-op"
			}
			ref = string(rb)
		}
		code, done = post(ccPrefix+"/chargingdata/"+escapePath(ref)+"/"+kind, body, 40*time.Second)
	case "recharge", "recharge0":
		if kind == "recharge0" {
			// the session's subscriber context has no notification address
			fr := fullRequest(probeSupi, 0)
			delete(fr, "notifyUri")
			fb, _ := json.Marshal(fr)
			w0 := doHTTP("POST", ccPrefix+"/chargingdata", fb)
			if l := w0.Header().Get("Location"); l != "" {
				if i := strings.LastIndex(l, "/chargingdata/"); i >= 0 {
					sid = l[i+len("/chargingdata/"):]
				}
			}
			if w0.Code != 201 || sid == "" {
				return "setup-failed"
			}
		} else if !mkSession() {
			return "setup-failed"
		}
		rb, err := hex.DecodeString(t[3])
		if err != nil {
			return "bad-op"
		}
		ch := make(chan int, 1)
		go func() { ch <- doHTTP("PUT", ccPrefix+"/recharging/"+escapePath(string(rb)), nil).Code }()
		select {
		case code = <-ch:
		case <-time.After(40 * time.Second):
			done = false
		}
	case "notifyslow", "notifyreenter", "notifydrop":
		return notifyCase(kind)
	default:
		return "bad-op"
	}
	st := "hang"
	if done {
		st = fmt.Sprint(code)
	}
	// a raw create that was accepted: its own session is updated and released with the same body
	fu3 := "-"
	if ownCreated && done {
		var st3 []string
		for _, k := range []string{"update", "release"} {
			c, ok := post(ccPrefix+"/chargingdata/"+escapePath(ownRef)+"/"+k, body, 25*time.Second)
			if !ok {
				st3 = append(st3, "hang")
				break
			}
			st3 = append(st3, fmt.Sprint(c))
		}
		fu3 = strings.Join(st3, "/")
	}
	// follow-up for the same subscriber
	fu, fu2 := "-", "-"
	if sid == "" {
		// a valid create for the probe subscriber, then an update on it
		if !mkSession() {
			b, _ := json.Marshal(fullRequest(probeSupi, 0))
			c, ok := post(ccPrefix+"/chargingdata", b, 4*time.Second)
			fu = "hang"
			if ok {
				fu = fmt.Sprint(c)
			}
			return fmt.Sprintf("st=%s fu=%s fu2=%s fu3=%s", st, fu, fu2, fu3)
		}
	}
	b, _ := json.Marshal(fullRequest(probeSupi, 1))
	c, ok := post(ccPrefix+"/chargingdata/"+escapePath(sid)+"/update", b, 4*time.Second)
	fu = "hang"
	if ok {
		fu = fmt.Sprint(c)
		// a release of the same session (unless the raw request already released it)
		b, _ = json.Marshal(fullRequest(probeSupi, 2))
		c, ok = post(ccPrefix+"/chargingdata/"+escapePath(sid)+"/release", b, 4*time.Second)
		fu2 = "hang"
		if ok {
			fu2 = fmt.Sprint(c)
		}
	}
	return fmt.Sprintf("st=%s fu=%s fu2=%s fu3=%s", st, fu, fu2, fu3)
}

func genHTTP(o genOpts, w *bufio.Writer) {
	r := &rng{s: o.seed}
	emit := func(kind string, body interface{}, ref string) {
		bh := "-"
		if body != nil {
			switch b := body.(type) {
			case []byte:
				bh = hexOf(b)
			default:
				jb, _ := json.Marshal(b)
				bh = hexOf(jb)
			}
			if bh == "" {
				bh = "-"
			}
		}
		fmt.Fprintf(w, "http case %s %s %s\n", kind, bh, ref)
	}
	base := fullRequest(probeSupi, 1)
	var paths [][]string
	memberPaths(base, nil, &paths)
	kinds := []string{"create", "update", "release"}
	// 1. the full request, and every single member removed / null / of the wrong type
	for _, k := range kinds {
		emit(k, base, "@")
		for _, p := range paths {
			for variant := 0; variant < 4; variant++ {
				c := deepCopy(base)
				editAt(c, p, func(m map[string]interface{}, key string) {
					switch variant {
					case 0:
						delete(m, key)
					case 1:
						m[key] = nil
					case 2:
						m[key] = map[string]interface{}{}
					case 3:
						switch m[key].(type) {
						case string:
							m[key] = ""
						case float64:
							m[key] = -1
						default:
							m[key] = []interface{}{}
						}
					}
				})
				if variant >= 2 && o.tier != "thorough" && r.chance(50) {
					continue
				}
				emit(k, c, "@")
			}
		}
	}
	// 2. pairs of members removed (all pairs in thorough, a sample in quick)
	for _, k := range kinds {
		for i := range paths {
			for j := i + 1; j < len(paths); j++ {
				if o.tier != "thorough" && !r.chance(6) {
					continue
				}
				c := deepCopy(base)
				editAt(c, paths[j], func(m map[string]interface{}, key string) { delete(m, key) })
				editAt(c, paths[i], func(m map[string]interface{}, key string) { delete(m, key) })
				emit(k, c, "@")
			}
		}
	}
	// 3. odd subscriber identifiers and PLMN ids
	supis := []string{"", "imsi", "imsi-", "208930000000001", "nai-user@realm", "gci-x", "gli-y", "msisdn-1", "a-b-c", "imsi-../../etc/passwd",
		"imsi-20893/0001", "imsi-%2F", "-", "x", "imsi-2089300000000771", strings.Repeat("9", 300), "imsi-é", "IMSI-208930000000001", "nai", "gci", "gli",
		// the longest SUPI that can still name its CDR file (<supi>.cdr is 255 octets) and the first that cannot
		"imsi-" + strings.Repeat("7", 246), "imsi-" + strings.Repeat("7", 247), "imsi-" + strings.Repeat("7", 248)}
	for _, s := range supis {
		for _, k := range kinds {
			c := deepCopy(base).(map[string]interface{})
			c["subscriberIdentifier"] = s
			emit(k, c, "@")
		}
		// the same as a one-time event (the session has no reference of its own)
		c := deepCopy(base).(map[string]interface{})
		c["subscriberIdentifier"] = s
		c["oneTimeEvent"] = true
		emit("create", c, "@")
	}
	for _, mcc := range []string{"", "2", "20", "2089", "abc", "1é", "é1", "ééé", "20\u00e9", "２０８"} {
		for _, mnc := range []string{"", "9", "93", "930", "9300", "é", "9é", "9\u00e99"} {
			c := deepCopy(base)
			editAt(c, []string{"nfConsumerIdentification", "nFPLMNID", "mcc"}, func(m map[string]interface{}, key string) { m[key] = mcc })
			editAt(c, []string{"nfConsumerIdentification", "nFPLMNID", "mnc"}, func(m map[string]interface{}, key string) { m[key] = mnc })
			emit("create", c, "@")
		}
	}
	// 4. bodies that are not a request object
	for _, raw := range []string{"", "{}", "[]", "null", "1", "\"x\"", "{", "{\"subscriberIdentifier\":", "{\"multipleUnitUsage\":[null]}", "{\"multipleUnitUsage\":[{}]}",
		"{\"subscriberIdentifier\":\"" + probeSupi + "\"}", "{\"subscriberIdentifier\":\"" + probeSupi + "\",\"multipleUnitUsage\":[{\"ratingGroup\":1,\"usedUnitContainer\":[{\"quotaManagementIndicator\":\"ONLINE_CHARGING\"}]}]}",
		"{\"subscriberIdentifier\":\"" + probeSupi + "\",\"nfConsumerIdentification\":{},\"oneTimeEvent\":true}"} {
		for _, k := range kinds {
			emit(k, []byte(raw), "@")
		}
	}
	// 5. session references
	for _, ref := range []string{"x", "", " ", "imsi-208930000000077smf-1-0", "imsi-208930000000077smf-1-99", "..", "a/b", "%", strings.Repeat("r", 500)} {
		for _, k := range []string{"update", "release"} {
			rh := hexOf([]byte(ref))
			if rh == "" {
				rh = "20"
			}
			emit(k, base, rh)
		}
	}
	// 6. recharging path parameters
	for _, p := range []string{"x", "_", "__", "a_b", "a_1", probeSupi + "_1", probeSupi + "_", "_1", probeSupi + "_99999999999", probeSupi + "_-1", probeSupi + "_1_2",
		probeSupi, "imsi-unknown_1", probeSupi + "_2", " _ ", probeSupi + "_0x1", probeSupi + "_1 "} {
		emit("recharge", nil, hexOf([]byte(p)))
	}
	for _, p := range []string{probeSupi + "_1", probeSupi + "_2", "imsi-unknown_1"} {
		emit("recharge0", nil, hexOf([]byte(p)))
	}
	// 6b. recharge notifications to a consumer that answers late / sends an update before it answers
	emit("notifyslow", nil, "-")
	emit("notifyreenter", nil, "-")
	// … and to a consumer that has the notification and goes away without answering it
	emit("notifydrop", nil, "-")
	// 8. "any order of requests": every history of up to 3 requests over {valid create, refused create, one-time event, update,
	//    release, update of an unknown reference, recharge} (thorough: up to 4), and longer random ones, each followed by a valid
	//    create / update / release of the same subscriber
	alphabet := "cbouxrR"
	var hists []string
	var grow func(prefix string, left int)
	grow = func(prefix string, left int) {
		if prefix != "" {
			hists = append(hists, prefix)
		}
		if left == 0 {
			return
		}
		for _, c := range alphabet {
			grow(prefix+string(c), left-1)
		}
	}
	maxLen, nLong := 3, 120
	if o.tier == "thorough" {
		maxLen, nLong = 4, 1500
	}
	grow("", maxLen)
	for i := 0; i < nLong; i++ {
		h := ""
		for j, k := 0, maxLen+1+r.intn(4); j < k; j++ {
			h += string("cbouxrRn"[r.intn(8)])
		}
		hists = append(hists, h)
	}
	for _, h := range hists {
		fmt.Fprintf(w, "http case hist %s -\n", h)
	}
	// 7. random multi-member removals
	for i := 0; i < o.n; i++ {
		c := deepCopy(base)
		k := 1 + r.intn(5)
		for j := 0; j < k; j++ {
			p := paths[r.intn(len(paths))]
			if r.chance(70) {
				editAt(c, p, func(m map[string]interface{}, key string) { delete(m, key) })
			} else {
				editAt(c, p, func(m map[string]interface{}, key string) { m[key] = nil })
			}
		}
		emit(kinds[r.intn(3)], c, "@")
	}
}
