//go:build verif

package main

import (
	"bufio"
	"fmt"
	"time"

	"github.com/free5gc/chf/cdr/cdrConvert"
	"github.com/free5gc/openapi/models"
)

func init() {
	streams["conv"] = &stream{
		gen: func(o genOpts, w *bufio.Writer) {
			r := &rng{s: o.seed}
			offs := []int{0, 3600, -3600, 19800, 20700, -12600, 50400, -43200, 45900, -34200, 60, -60, 32400}
			for i := 0; i < o.n; i++ {
				tz := offs[r.intn(len(offs))]
				if r.chance(40) {
					tz = (r.intn(1681) - 840) * 60
				}
				fmt.Fprintf(w, "conv ts %d %d %d %d %d %d %d\n", 1970+r.intn(130), 1+r.intn(12), 1+r.intn(28), r.intn(24),
					r.intn(60), r.intn(60), tz)
			}
			for _, p := range [][2]string{{"208", "93"}, {"001", "001"}, {"460", "00"}, {"12", "34"}, {"", ""}, {"2089", "3"}, {"abc", "de"}, {"208", "9"}} {
				fmt.Fprintf(w, "conv plmn %s %s\n", hexOf([]byte(p[0])), hexOf([]byte(p[1])))
			}
		},
		run: func(line string, t []string) string {
			switch {
			case len(t) == 8 && t[0] == "ts":
				loc := time.FixedZone("z", int(i64(t[7])))
				tm := time.Date(int(i64(t[1])), time.Month(i64(t[2])), int(i64(t[3])), int(i64(t[4])), int(i64(t[5])), int(i64(t[6])), 0, loc)
				return "ok " + hexOf(cdrConvert.TimeStampToCdr(&tm).Value)
			case len(t) == 3 && t[0] == "plmn":
				a, _ := unhex(t[1])
				b, _ := unhex(t[2])
				return "ok " + hexOf(cdrConvert.PlmnIdToCdr(models.PlmnId{Mcc: string(a), Mnc: string(b)}).Value)
			}
			return "bad-op"
		},
	}
}

func i64(s string) int64 {
	var v int64
	fmt.Sscanf(s, "%d", &v)
	return v
}
