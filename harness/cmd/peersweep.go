//go:build verif

package main

// peer sweep <A|R> <n> <lo_us> <hi_us>
//
// C19 at the edge of the client's 5 s timer: n subscribers at once, each with one session; the answer of the account-balance
// (A) or rating (R) server to the subscriber's first online update is held back by a delay spread evenly over
// [lo_us, hi_us] microseconds (around the 5 000 000 µs timeout), and a second update follows as soon as the first has
// returned.  An answer that arrives as its request gives up must never be taken for the answer to the second request.
//
// observation:  sweep n=<n> done=<k> cross=<c> [first=<delay µs>:<what>]
//   done  = scenarios whose two updates were both answered
//   cross = second updates that acted upon an answer that was not their own
//           (A: the reservation moved by the amount the FIRST request had debited; R: granted the first request's volume)

import (
	"encoding/json"
	"fmt"
	"sort"
	"strconv"
	"strings"
	"sync"
	"time"

	chf_context "github.com/free5gc/chf/internal/context"
	"github.com/free5gc/openapi/models"
)

var (
	sweepMu     sync.Mutex
	sweepDelays = map[string]*sweepScript{}
)

type sweepScript struct {
	mu      sync.Mutex
	server  string // "abmf" or "rf"
	delayUs []int  // queue, microseconds
	debits  []int64
}

// called from peerGetOne (peer.go) before the scripted millisecond delays
func sweepDelay(ue, srv string) {
	sweepMu.Lock()
	sc := sweepDelays[ue]
	sweepMu.Unlock()
	if sc == nil || sc.server != srv {
		return
	}
	sc.mu.Lock()
	d := 0
	if len(sc.delayUs) > 0 {
		d, sc.delayUs = sc.delayUs[0], sc.delayUs[1:]
	}
	sc.mu.Unlock()
	if d > 0 {
		time.Sleep(time.Duration(d) * time.Microsecond)
	}
}

func runPeerSweep(t []string) string {
	if len(t) != 5 || (t[1] != "A" && t[1] != "R") {
		return "bad-op"
	}
	n, e1 := strconv.Atoi(t[2])
	lo, e2 := strconv.Atoi(t[3])
	hi, e3 := strconv.Atoi(t[4])
	if e1 != nil || e2 != nil || e3 != nil || n < 1 || n > 2000 || lo < 0 || hi < lo {
		return "bad-op"
	}
	srv := "abmf"
	if t[1] == "R" {
		srv = "rf"
	}
	self := chf_context.GetSelf()
	type res struct {
		delay int
		done  bool
		cross string
	}
	out := make([]res, n)
	for i := 0; i < n; i++ {
		chfSupis[fmt.Sprintf("imsi-20893%010d", 7000000000+int64(i))] = true
	}
	var wg sync.WaitGroup
	for i := 0; i < n; i++ {
		wg.Add(1)
		go func(i int) {
			defer wg.Done()
			d := lo
			if n > 1 {
				d = lo + (hi-lo)*i/(n-1)
			}
			out[i].delay = d
			supi := fmt.Sprintf("imsi-20893%010d", 7000000000+int64(i))
			sc := &sweepScript{server: srv, delayUs: []int{d}}
			if srv == "rf" {
				// getUnitCost asks the rating server first (no delay), then the reservation's price enquiry
				sc.delayUs = []int{0, d}
			}
			sweepMu.Lock()
			sweepDelays[supi] = sc
			sweepMu.Unlock()
			defer func() {
				sweepMu.Lock()
				delete(sweepDelays, supi)
				sweepMu.Unlock()
			}()
			store.set(supi, 1, "1000000000000", "2")
			store.set(supi, 2, "1000000000000", "3")
			self.UePool.Delete(supi)
			cr := onlineUpdate(supi, "", 0, 0)
			cr.MultipleUnitUsage = nil
			b, _ := json.Marshal(cr)
			w := doHTTP("POST", ccPrefix+"/chargingdata", b)
			sid := ""
			if l := w.Header().Get("Location"); l != "" {
				if k := strings.LastIndex(l, "/chargingdata/"); k >= 0 {
					sid = l[k+len("/chargingdata/"):]
				}
			}
			if w.Code != 201 || sid == "" {
				return
			}
			ue, ok := self.ChfUeFindBySupi(supi)
			if !ok {
				return
			}
			upd := func(seq, rg, vol int) (int, int, int64) {
				ue.CULock.Lock()
				before := ue.ReservedQuota[int32(rg)]
				ue.CULock.Unlock()
				r := onlineUpdate(supi, sid, seq, vol)
				r.MultipleUnitUsage[0].RatingGroup = int32(rg)
				b, _ := json.Marshal(r)
				w := doHTTP("POST", ccPrefix+"/chargingdata/"+escapePath(sid)+"/update", b)
				grant := -1
				var rsp models.ChfConvergedChargingChargingDataResponse
				if w.Code/100 == 2 && json.Unmarshal(w.Body.Bytes(), &rsp) == nil {
					for _, m := range rsp.MultipleUnitInformation {
						if int(m.RatingGroup) == rg && m.GrantedUnit != nil {
							grant = int(m.GrantedUnit.TotalVolume)
						}
					}
				}
				ue.CULock.Lock()
				after := ue.ReservedQuota[int32(rg)]
				ue.CULock.Unlock()
				return w.Code, grant, after - before
			}
			if srv == "abmf" {
				// unit cost 2: the first update reserves 2*100, the second tops up to 2*228: 256 more when the first was booked,
				// 456 when it was not; a second update that moves the reservation by 200 acted upon the FIRST request's answer
				c1, _, d1 := upd(1, 1, 100)
				c2, _, d2 := upd(2, 1, 228)
				out[i].done = c1 == 200 && c2 == 200
				if c2 == 200 && d2 == 200 && d1 == 0 {
					out[i].cross = fmt.Sprintf("reservation moved by %d: the amount the first request (timed out) had asked for", d2)
				}
			} else {
				// the first update is for rating group 1 (unit cost 2), the second for rating group 2 (unit cost 3): a second update
				// that works with unit cost 2 took the late rating answer of the first for the answer to its own tariff enquiry
				c1, _, _ := upd(1, 1, 100)
				c2, _, d2 := upd(2, 2, 228)
				out[i].done = c1 == 200 && c2 == 200
				ue.CULock.Lock()
				cost2 := ue.UnitCost[2]
				ue.CULock.Unlock()
				if c2 == 200 && (cost2 != 3 || (d2 != 0 && d2 != 3*228)) {
					out[i].cross = fmt.Sprintf("rating group 2 handled with unit cost %d (its tariff is 3), reservation moved by %d", cost2, d2)
				}
			}
		}(i)
	}
	wg.Wait()
	done, cross := 0, 0
	var firsts []string
	sort.Slice(out, func(a, b int) bool { return out[a].delay < out[b].delay })
	for _, r := range out {
		if r.done {
			done++
		}
		if r.cross != "" {
			cross++
			if len(firsts) < 3 {
				firsts = append(firsts, fmt.Sprintf("%d:%s", r.delay, strings.ReplaceAll(r.cross, " ", "_")))
			}
		}
	}
	s := fmt.Sprintf("sweep n=%d done=%d cross=%d", n, done, cross)
	if len(firsts) > 0 {
		s += " first=" + strings.Join(firsts, ",")
	}
	return s
}
