//go:build verif

package main

import (
	"bufio"
	"fmt"
	"strconv"
	"strings"
	"time"

	"github.com/fiorix/go-diameter/diam"
	"github.com/fiorix/go-diameter/diam/datatype"
	"github.com/fiorix/go-diameter/diam/dict"

	charging_code "github.com/free5gc/chf/ccs_diameter/code"
	cd "github.com/free5gc/chf/ccs_diameter/datatype"
)

var abmfPeer *diamPeer

func u(s string) uint64 { v, _ := strconv.ParseUint(s, 10, 64); return v }

// storeDump: "<ueHex>/<rg>=<quotaHex>,..." sorted
func storeDumpHex() string {
	store.mu.Lock()
	defer store.mu.Unlock()
	var out []string
	for k, d := range store.docs {
		out = append(out, fmt.Sprintf("%s/%d=%s", hexOf([]byte(k.ue)), k.rg, hexOf([]byte(d["quota"].(string)))))
	}
	sortStrings(out)
	if len(out) == 0 {
		return "-"
	}
	return joinStrings(out, ",")
}

func init() {
	streams["abmf"] = &stream{
		setup: func() {
			startEnv()
			abmfPeer = newPeer(fmt.Sprintf("127.0.0.1:%d", abmfPort), "CCA")
		},
		gen: genAbmf,
		run: func(line string, t []string) string {
			switch {
			case len(t) == 4 && t[0] == "set":
				ue, _ := unhex(t[1])
				q, _ := unhex(t[3])
				store.set(string(ue), int64(u(t[2])), string(q), "1")
				return "ok"
			case len(t) == 2 && t[0] == "reset":
				store.reset()
				return "ok"
			case len(t) >= 1 && t[0] == "conc":
				return runAbmfConc(t)
			case len(t) >= 10 && len(t) <= 12 && t[0] == "ccr":
				sess, _ := unhex(t[1])
				sub, _ := unhex(t[6])
				ccr := &cd.AccountDebitRequest{
					SessionId:       datatype.UTF8String(sess),
					OriginHost:      "client",
					OriginRealm:     "go-diameter",
					DestinationHost: "server", DestinationRealm: "go-diameter",
					EventTimestamp:  datatype.Time(time.Unix(1700000000, 0)),
					UserName:        datatype.OctetString("CHF"),
					CcRequestType:   cd.CcRequestType(u(t[2])),
					CcRequestNumber: datatype.Unsigned32(u(t[3])),
					RequestedAction: cd.RequestedAction(u(strings.TrimSuffix(t[4], "-"))),
					SubscriptionId: &cd.SubscriptionId{
						SubscriptionIdType: cd.SubscriptionIdType(u(t[5])),
						SubscriptionIdData: datatype.UTF8String(sub),
					},
					MultipleServicesCreditControl: &cd.MultipleServicesCreditControl{
						RatingGroup:          datatype.Unsigned32(u(t[7])),
						RequestedServiceUnit: &cd.RequestedServiceUnit{CCTotalOctets: datatype.Unsigned64(u(t[8]))},
						UsedServiceUnit:      &cd.UsedServiceUnit{CCTotalOctets: datatype.Unsigned64(u(t[9]))},
					},
				}
				for _, x := range t[10:] {
					// v<id>: the MSCC carries a Service-Identifier besides its Rating-Group (the account is the Rating-Group's)
					if strings.HasPrefix(x, "v") {
						ccr.MultipleServicesCreditControl.ServiceIdentifier = datatype.Unsigned32(u(strings.TrimPrefix(x, "v")))
					} else if !strings.HasPrefix(x, "e") {
						return "bad-op"
					}
				}
				msg := diam.NewRequest(charging_code.ABMF_CreditControl, charging_code.Re_interface, dict.Default)
				if err := msg.Marshal(ccr); err != nil {
					return "marshal-error"
				}
				if strings.HasSuffix(t[4], "-") {
					// the optional Requested-Action AVP is left out of the request
					m2 := diam.NewRequest(charging_code.ABMF_CreditControl, charging_code.Re_interface, dict.Default)
					for _, av := range msg.AVP {
						if av.Code != 436 {
							m2.AddAVP(av)
						}
					}
					msg = m2
				}
				for _, x := range t[10:] {
					if strings.HasPrefix(x, "e") {
						// the request carries a chosen End-to-End Identifier (RFC 6733: unique per sender for 4 minutes at least
						// - another request of the history may carry the same one: it is another request all the same)
						msg.Header.EndToEndID = uint32(u(strings.TrimPrefix(x, "e")))
					}
				}
				a, st := abmfPeer.roundTrip(msg)
				rep := ""
				switch st {
				case rtNoAnswer:
					rep = "noanswer"
				case rtClosed:
					rep = "panic"
				default:
					var cca cd.AccountDebitResponse
					if err := a.Unmarshal(&cca); err != nil {
						return "unmarshal-error"
					}
					gsu, fui := "-", 0
					if m := cca.MultipleServicesCreditControl; m != nil {
						if m.GrantedServiceUnit != nil {
							gsu = strconv.FormatUint(uint64(m.GrantedServiceUnit.CCTotalOctets), 10)
						}
						if m.FinalUnitIndication != nil {
							fui = 1
						}
					}
					rep = fmt.Sprintf("ans %s %d %d %s %d", hexOf([]byte(cca.SessionId)), cca.CcRequestType,
						cca.CcRequestNumber, gsu, fui)
				}
				return rep + " " + storeDumpHex()
			}
			return "bad-op"
		},
	}
}

// ---- generator ----

var abmfAmounts = []uint64{0, 1, 2, 99, 100, 101, 1000, 1 << 31, 1<<32 - 1, 1 << 32, 1<<62 + 5, 1<<63 - 1}

func genAbmf(o genOpts, w *bufio.Writer) {
	r := &rng{s: o.seed}
	ues := []string{"imsi-208930000000001", "imsi-208930000000002", "imsi-1", "imsi-"}
	// several independent histories (store reset in between)
	per := 40
	for done := 0; done < o.n; {
		fmt.Fprintf(w, "abmf reset x\n")
		type acc struct {
			ue string
			rg int
		}
		var accs []acc
		na := 1 + r.intn(3)
		for i := 0; i < na; i++ {
			a := acc{ues[r.intn(len(ues))], r.pick(1, 2, 7, 0, 4294967295)}
			accs = append(accs, a)
			var q string
			switch r.intn(10) {
			case 0:
				q = r.pickStr("abc", "", "12x", "+5", "-0", "9223372036854775808", "1.5", " 7", "-", "+")
			case 1:
				q = strconv.FormatInt(-int64(r.intn(500)), 10)
			case 2:
				q = r.pickStr("9223372036854775807", "-9223372036854775808", "9223372036854775000")
			default:
				q = strconv.FormatUint(abmfAmounts[r.intn(7)]+uint64(r.intn(3)), 10)
			}
			fmt.Fprintf(w, "abmf set %s %d %s\n", hexOf([]byte(a.ue)), a.rg, hexOf([]byte(q)))
		}
		histBase := 1000 + r.intn(1000)
		for i := 0; i < per && done < o.n; i++ {
			a := accs[r.intn(len(accs))]
			ue, rg := a.ue, a.rg
			subType := 1
			if r.chance(6) {
				switch r.intn(3) {
				case 0:
					ue = "imsi-999"
				case 1:
					rg = 5
				default:
					subType = r.pick(0, 2, 3)
				}
			}
			action := r.pick(0, 0, 0, 0, 1, 1, 2, 3)
			reqType := r.pick(1, 2, 2, 2, 3, 3, 4)
			amt := func() uint64 {
				if r.chance(70) {
					return abmfAmounts[r.intn(7)] + uint64(r.intn(3))
				}
				if o.tier == "thorough" && r.chance(10) {
					return r.next()
				}
				return abmfAmounts[r.intn(len(abmfAmounts))]
			}
			actTok := strconv.Itoa(action)
			if r.chance(12) {
				actTok = "0-" // no Requested-Action AVP at all (the server sees the zero value, DIRECT_DEBITING)
			}
			e2e := ""
			if r.chance(25) {
				e2e = fmt.Sprintf(" e%d", r.pick(1, 2, 3, 4294967295))
			}
			svc := ""
			if r.chance(20) {
				// a Service-Identifier in the MSCC: another account's rating group, or just a number
				svc = fmt.Sprintf(" v%d", r.pick(accs[r.intn(len(accs))].rg, 1, 2, 7, 77))
			}
			// (the Session-Ids of a history come from a small pool: what a session was told before - final units, say - must
			// not change what the account gives later)
			sessTok := fmt.Sprintf("s%d", histBase+r.intn(2))
			if r.chance(20) {
				sessTok = fmt.Sprintf("s%d", r.intn(1000))
			}
			fmt.Fprintf(w, "abmf ccr %s %d %d %s %d %s %d %d %d%s%s\n", hexOf([]byte(sessTok)),
				reqType, r.intn(1<<20), actTok, subType, hexOf([]byte(ue[5:])), rg, amt(), amt(), e2e, svc)
			done++
		}
	}
	// reservations for one account arriving on several connections at once (abmfconc.go): plenty of money, money that runs
	// out half way, a balance the requests do not divide
	fmt.Fprintf(w, "abmf reset x\n")
	concs := [][5]int{{1000000, 8, 40, 1}, {100, 8, 40, 3}, {1000, 16, 25, 7}}
	if o.tier == "thorough" {
		concs = append(concs, [5]int{5000, 32, 50, 3}, [5]int{0, 8, 20, 5}, [5]int{123456789, 4, 200, 1000}, [5]int{999, 64, 10, 2})
	}
	for k, c := range concs {
		fmt.Fprintf(w, "abmf conc %s %d %d %d %d %d\n", hexOf([]byte(fmt.Sprintf("imsi-20893%04d%06d", o.seed%10000, 500+k))), 1+k%2, c[0], c[1], c[2], c[3])
	}
}
