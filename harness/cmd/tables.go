//go:build verif

package main

import (
	"fmt"
	"os"
)

// dumpTables writes the run-time tables (reflection over the compiled types, the loaded
// Diameter dictionaries, the gin route table) that become ChfVerif/Gen/*.lean.
func dumpTables(which string) {
	f, ok := tableDumpers[which]
	if !ok {
		fmt.Fprintln(os.Stderr, "unknown table", which)
		os.Exit(2)
	}
	f()
}

var tableDumpers = map[string]func(){}
