//go:build verif

package main

import (
	"bufio"
	"bytes"
	"fmt"
	"os"
	"path/filepath"
	"strconv"
	"strings"
	"sync"

	"github.com/free5gc/chf/cdr/cdrFile"
)

// ---- serialisation (same token format as Driver/CdrFileIO.lean) ----

func sTs(t cdrFile.CdrHdrTimeStamp) string {
	return fmt.Sprintf("%d %d %d %d %d %d %d", t.MonthLocal, t.DateLocal, t.HourLocal, t.MinuteLocal,
		t.SignOfTheLocalTimeDifferentialFromUtc, t.HourDeviation, t.MinuteDeviation)
}

func sFile(f *cdrFile.CDRFile) string {
	h := f.Hdr
	var sb strings.Builder
	fmt.Fprintf(&sb, "%d %d %d %d %d %d %s %s %d %d %d %s %d %d %s %d %s %d %d %d",
		h.FileLength, h.HeaderLength, h.HighReleaseIdentifier, h.HighVersionIdentifier,
		h.LowReleaseIdentifier, h.LowVersionIdentifier, sTs(h.FileOpeningTimestamp),
		sTs(h.TimestampWhenLastCdrWasAppendedToFIle), h.NumberOfCdrsInFile, h.FileSequenceNumber,
		h.FileClosureTriggerReason, hexOf(h.IpAddressOfNodeThatGeneratedFile[:]), h.LostCdrIndicator,
		h.LengthOfCdrRouteingFilter, hexOf(h.CDRRouteingFilter), h.LengthOfPrivateExtension,
		hexOf(h.PrivateExtension), h.HighReleaseIdentifierExtension, h.LowReleaseIdentifierExtension,
		len(f.CdrList))
	for _, c := range f.CdrList {
		fmt.Fprintf(&sb, " %d %d %d %d %d %d %s", c.Hdr.CdrLength, c.Hdr.ReleaseIdentifier,
			c.Hdr.VersionIdentifier, c.Hdr.DataRecordFormat, c.Hdr.TsNumber,
			c.Hdr.ReleaseIdentifierExtension, hexOf(c.CdrByte))
	}
	return sb.String()
}

type tokr struct {
	t  []string
	ok bool
}

func (p *tokr) nat() uint64 {
	if len(p.t) == 0 {
		p.ok = false
		return 0
	}
	v, err := strconv.ParseUint(p.t[0], 10, 64)
	if err != nil {
		p.ok = false
	}
	p.t = p.t[1:]
	return v
}
func (p *tokr) hex() []byte {
	if len(p.t) == 0 {
		p.ok = false
		return nil
	}
	b, ok := unhex(p.t[0])
	if !ok {
		p.ok = false
	}
	p.t = p.t[1:]
	return b
}
func (p *tokr) ts() cdrFile.CdrHdrTimeStamp {
	return cdrFile.CdrHdrTimeStamp{MonthLocal: uint8(p.nat()), DateLocal: uint8(p.nat()), HourLocal: uint8(p.nat()),
		MinuteLocal: uint8(p.nat()), SignOfTheLocalTimeDifferentialFromUtc: uint8(p.nat()),
		HourDeviation: uint8(p.nat()), MinuteDeviation: uint8(p.nat())}
}

func pFile(toks []string) (*cdrFile.CDRFile, bool) {
	p := &tokr{t: toks, ok: true}
	var f cdrFile.CDRFile
	h := &f.Hdr
	h.FileLength = uint32(p.nat())
	h.HeaderLength = uint32(p.nat())
	h.HighReleaseIdentifier = uint8(p.nat())
	h.HighVersionIdentifier = uint8(p.nat())
	h.LowReleaseIdentifier = uint8(p.nat())
	h.LowVersionIdentifier = uint8(p.nat())
	h.FileOpeningTimestamp = p.ts()
	h.TimestampWhenLastCdrWasAppendedToFIle = p.ts()
	h.NumberOfCdrsInFile = uint32(p.nat())
	h.FileSequenceNumber = uint32(p.nat())
	h.FileClosureTriggerReason = cdrFile.FileClosureTriggerReasonType(p.nat())
	ip := p.hex()
	if len(ip) != 20 {
		return nil, false
	}
	copy(h.IpAddressOfNodeThatGeneratedFile[:], ip)
	h.LostCdrIndicator = uint8(p.nat())
	h.LengthOfCdrRouteingFilter = uint16(p.nat())
	h.CDRRouteingFilter = p.hex()
	h.LengthOfPrivateExtension = uint16(p.nat())
	h.PrivateExtension = p.hex()
	h.HighReleaseIdentifierExtension = uint8(p.nat())
	h.LowReleaseIdentifierExtension = uint8(p.nat())
	n := int(p.nat())
	for i := 0; i < n && p.ok; i++ {
		var c cdrFile.CDR
		c.Hdr.CdrLength = uint16(p.nat())
		c.Hdr.ReleaseIdentifier = cdrFile.ReleaseIdentifierType(p.nat())
		c.Hdr.VersionIdentifier = uint8(p.nat())
		c.Hdr.DataRecordFormat = cdrFile.DataRecordFormatType(p.nat())
		c.Hdr.TsNumber = cdrFile.TsNumberIdentifier(p.nat())
		c.Hdr.ReleaseIdentifierExtension = uint8(p.nat())
		c.CdrByte = p.hex()
		f.CdrList = append(f.CdrList, c)
	}
	return &f, p.ok && len(p.t) == 0
}

// ---- generator ----

func (r *rng) width(bits int) uint64 {
	max := uint64(1)<<uint(bits) - 1
	switch r.intn(5) {
	case 0:
		return 0
	case 1:
		return max
	case 2:
		return max - uint64(r.intn(2))
	default:
		return r.next() & max
	}
}

func genTs(r *rng, wf bool) cdrFile.CdrHdrTimeStamp {
	if !wf {
		return cdrFile.CdrHdrTimeStamp{MonthLocal: uint8(r.width(8)), DateLocal: uint8(r.width(8)), HourLocal: uint8(r.width(8)),
			MinuteLocal: uint8(r.width(8)), SignOfTheLocalTimeDifferentialFromUtc: uint8(r.width(8)),
			HourDeviation: uint8(r.width(8)), MinuteDeviation: uint8(r.width(8))}
	}
	return cdrFile.CdrHdrTimeStamp{MonthLocal: uint8(r.width(4)), DateLocal: uint8(r.width(5)), HourLocal: uint8(r.width(5)),
		MinuteLocal: uint8(r.width(6)), SignOfTheLocalTimeDifferentialFromUtc: uint8(r.width(1)),
		HourDeviation: uint8(r.width(5)), MinuteDeviation: uint8(r.width(6))}
}

func genLen(r *rng, big bool) int {
	if big && r.chance(30) {
		return r.pick(65485, 65486, 65487, 65535, 32768, 65534)
	}
	switch r.intn(6) {
	case 0:
		return 0
	case 1:
		return 1
	case 2:
		return r.pick(255, 256, 257)
	default:
		return r.intn(40)
	}
}

// genWF builds a well-formed file; idx cycles through all 64 (high,low) identifier pairs.
func genWF(r *rng, idx int, big bool) *cdrFile.CDRFile {
	var f cdrFile.CDRFile
	h := &f.Hdr
	h.HighReleaseIdentifier = uint8(idx % 8)
	h.LowReleaseIdentifier = uint8(idx / 8 % 8)
	h.HighVersionIdentifier = uint8(r.width(5))
	h.LowVersionIdentifier = uint8(r.width(5))
	h.FileOpeningTimestamp = genTs(r, true)
	h.TimestampWhenLastCdrWasAppendedToFIle = genTs(r, true)
	h.FileSequenceNumber = uint32(r.width(32))
	h.FileClosureTriggerReason = cdrFile.FileClosureTriggerReasonType(r.width(8))
	copy(h.IpAddressOfNodeThatGeneratedFile[:], r.bytes(20))
	h.LostCdrIndicator = uint8(r.width(8))
	h.CDRRouteingFilter = r.bytes(genLen(r, big))
	h.LengthOfCdrRouteingFilter = uint16(len(h.CDRRouteingFilter))
	h.PrivateExtension = r.bytes(genLen(r, big))
	h.LengthOfPrivateExtension = uint16(len(h.PrivateExtension))
	if h.HighReleaseIdentifier == 7 {
		h.HighReleaseIdentifierExtension = uint8(r.width(8))
	}
	if h.LowReleaseIdentifier == 7 {
		h.LowReleaseIdentifierExtension = uint8(r.width(8))
	}
	nrec := r.pick(0, 0, 1, 1, 2, 3, 5)
	hl := 52 + len(h.CDRRouteingFilter) + len(h.PrivateExtension)
	if h.HighReleaseIdentifier == 7 {
		hl++
	}
	if h.LowReleaseIdentifier == 7 {
		hl++
	}
	fl := hl
	for i := 0; i < nrec; i++ {
		var c cdrFile.CDR
		n := genLen(r, false)
		if big && r.chance(10) {
			n = 65535
		}
		c.CdrByte = r.bytes(n)
		c.Hdr.CdrLength = uint16(n)
		c.Hdr.ReleaseIdentifier = cdrFile.ReleaseIdentifierType((idx + i) % 8)
		if r.chance(30) {
			c.Hdr.ReleaseIdentifier = 7
		}
		c.Hdr.VersionIdentifier = uint8(r.width(5))
		c.Hdr.DataRecordFormat = cdrFile.DataRecordFormatType(r.width(3))
		c.Hdr.TsNumber = cdrFile.TsNumberIdentifier(r.width(5))
		fl += 4 + n
		if c.Hdr.ReleaseIdentifier == 7 {
			c.Hdr.ReleaseIdentifierExtension = uint8(r.width(8))
			fl++
		}
		f.CdrList = append(f.CdrList, c)
	}
	h.NumberOfCdrsInFile = uint32(nrec)
	if r.chance(80) {
		h.HeaderLength = uint32(hl)
		h.FileLength = uint32(fl)
	} else {
		h.HeaderLength = uint32(r.width(32))
		h.FileLength = uint32(r.width(32))
	}
	return &f
}

// genTyped builds any value of the Go types (not necessarily well-formed): only the encoder
// is compared on these.
func genTyped(r *rng) *cdrFile.CDRFile {
	f := genWF(r, r.intn(64), false)
	h := &f.Hdr
	h.HighReleaseIdentifier = uint8(r.width(8))
	h.LowReleaseIdentifier = uint8(r.width(8))
	h.HighVersionIdentifier = uint8(r.width(8))
	h.LowVersionIdentifier = uint8(r.width(8))
	h.FileOpeningTimestamp = genTs(r, false)
	h.TimestampWhenLastCdrWasAppendedToFIle = genTs(r, false)
	h.HighReleaseIdentifierExtension = uint8(r.width(8))
	h.LowReleaseIdentifierExtension = uint8(r.width(8))
	if r.chance(50) {
		h.LengthOfCdrRouteingFilter = uint16(r.width(16))
	}
	if r.chance(50) {
		h.NumberOfCdrsInFile = uint32(r.width(3))
	}
	for i := range f.CdrList {
		c := &f.CdrList[i]
		c.Hdr.ReleaseIdentifier = cdrFile.ReleaseIdentifierType(r.width(8))
		c.Hdr.VersionIdentifier = uint8(r.width(8))
		c.Hdr.DataRecordFormat = cdrFile.DataRecordFormatType(r.width(8))
		c.Hdr.TsNumber = cdrFile.TsNumberIdentifier(r.width(8))
		c.Hdr.ReleaseIdentifierExtension = uint8(r.width(8))
		if r.chance(30) {
			c.Hdr.CdrLength = uint16(r.width(16))
		}
	}
	return f
}

// wfLen: the number of octets TS 32.297 prescribes for a well-formed file
func wfLen(f *cdrFile.CDRFile) int {
	n := 52 + len(f.Hdr.CDRRouteingFilter) + len(f.Hdr.PrivateExtension)
	if f.Hdr.HighReleaseIdentifier == 7 {
		n++
	}
	if f.Hdr.LowReleaseIdentifier == 7 {
		n++
	}
	for _, c := range f.CdrList {
		n += 4 + len(c.CdrByte)
		if c.Hdr.ReleaseIdentifier == 7 {
			n++
		}
	}
	return n
}

var cdrTmp string

func tmpPath() string {
	if cdrTmp == "" {
		d, err := os.MkdirTemp("", "verif-cdrfile-")
		if err != nil {
			panic(err)
		}
		cdrTmp = d
	}
	return filepath.Join(cdrTmp, "f.cdr")
}

func encodeToBytes(f *cdrFile.CDRFile) []byte {
	p := tmpPath()
	// silence the library's stdout warnings
	saved := os.Stdout
	devnull, _ := os.OpenFile(os.DevNull, os.O_WRONLY, 0)
	os.Stdout = devnull
	defer func() { os.Stdout = saved; devnull.Close() }()
	f.Encoding(p)
	b, err := os.ReadFile(p)
	if err != nil {
		panic(err)
	}
	return b
}

func decodeBytes(b []byte) (g *cdrFile.CDRFile, panicked bool) {
	p := tmpPath()
	if err := os.WriteFile(p, b, 0o600); err != nil {
		panic(err)
	}
	saved := os.Stdout
	devnull, _ := os.OpenFile(os.DevNull, os.O_WRONLY, 0)
	os.Stdout = devnull
	defer func() {
		os.Stdout = saved
		devnull.Close()
		if x := recover(); x != nil {
			g, panicked = nil, true
		}
	}()
	var out cdrFile.CDRFile
	out.Decoding(p)
	return &out, false
}

func bigRoundTrip(f *cdrFile.CDRFile) (out string) {
	path := tmpPath()
	saved := os.Stdout
	devnull, _ := os.OpenFile(os.DevNull, os.O_WRONLY, 0)
	os.Stdout = devnull
	defer func() {
		os.Stdout = saved
		devnull.Close()
		if x := recover(); x != nil {
			out = "panic"
		}
	}()
	f.Encoding(path)
	st, err := os.Stat(path)
	if err != nil {
		return "nofile"
	}
	var g cdrFile.CDRFile
	g.Decoding(path)
	eq := 0
	if sFile(&cdrFile.CDRFile{Hdr: g.Hdr}) == sFile(&cdrFile.CDRFile{Hdr: f.Hdr}) && len(g.CdrList) == len(f.CdrList) {
		eq = 1
		for i := range g.CdrList {
			if g.CdrList[i].Hdr != f.CdrList[i].Hdr || !bytes.Equal(g.CdrList[i].CdrByte, f.CdrList[i].CdrByte) {
				eq = 0
				break
			}
		}
	}
	return fmt.Sprintf("ok len=%d flen=%d n=%d eq=%d", st.Size(), g.Hdr.FileLength, len(g.CdrList), eq)
}

func init() {
	streams["cdrfile"] = &stream{
		gen: func(o genOpts, w *bufio.Writer) {
			r := &rng{s: o.seed}
			big := o.tier == "thorough"
			// (first in the stream: after the large files below the heap is big, collections are rare, and buffers recycled between
			// goroutines - the kind of sharing this operation is after - hardly ever change hands)
			// files written by several goroutines at once (as concurrent charging requests do): every one of them must
			// come out as when written alone
			for i := 0; i < 4; i++ {
				f := genWF(r, r.intn(64), false)
				// many small records: the record headers are where encoders like to share buffers
				for len(f.CdrList) < 400 {
					body := r.bytes(1 + r.intn(6))
					var h cdrFile.CdrHeader
					h.CdrLength = uint16(len(body))
					h.DataRecordFormat = cdrFile.BasicEncodingRules
					h.ReleaseIdentifier = cdrFile.ReleaseIdentifierType(r.intn(7))
					h.VersionIdentifier = uint8(r.intn(32))
					h.TsNumber = cdrFile.TsNumberIdentifier(r.intn(32))
					f.CdrList = append(f.CdrList, cdrFile.CDR{Hdr: h, CdrByte: body})
				}
				f.Hdr.NumberOfCdrsInFile = uint32(len(f.CdrList))
				fmt.Fprintf(w, "cdrfile conc %s\n", sFile(f))
			}
			// files beyond 2^16 / 2^24 octets (records of up to 65535 octets)
			fmt.Fprintf(w, "cdrfile big 3 65535 %d\n", r.intn(256))
			fmt.Fprintf(w, "cdrfile big 257 65535 %d\n", r.intn(256))
			fmt.Fprintf(w, "cdrfile big %d %d %d\n", 300+r.intn(200), 60000+r.intn(5536), r.intn(256))
			if big {
				fmt.Fprintf(w, "cdrfile big 2100 65535 %d\n", r.intn(256))
				fmt.Fprintf(w, "cdrfile big 4096 17 %d\n", r.intn(256))
			}
			// all 64 identifier pairs first (exhaustive sub-space), in both tiers
			for i := 0; i < 64; i++ {
				fmt.Fprintf(w, "cdrfile rt %s\n", sFile(genWF(r, i, false)))
			}
			for i := 0; i < o.n; i++ {
				switch {
				case i%10 < 6:
					fmt.Fprintf(w, "cdrfile rt %s\n", sFile(genWF(r, r.intn(64), big || i%50 == 0)))
				case i%10 < 8:
					fmt.Fprintf(w, "cdrfile enc %s\n", sFile(genTyped(r)))
				default:
					// mutate a valid encoding: truncate or flip
					b := encodeToBytes(genWF(r, r.intn(64), false))
					switch r.intn(3) {
					case 0:
						b = b[:r.intn(len(b)+1)]
					case 1:
						if len(b) > 0 {
							b[r.intn(len(b))] ^= byte(1 << uint(r.intn(8)))
						}
					default:
						b = append(b, r.bytes(r.intn(4))...)
					}
					fmt.Fprintf(w, "cdrfile dec %s\n", hexOf(b))
				}
			}
			// the destination already exists: other content (shorter, as long, longer, much longer than what is written now),
			// other permission bits; and a file written over a file this code wrote before (longer first / shorter first)
			nOver, nRew := 48, 24
			if big {
				nOver, nRew = 400, 200
			}
			for i := 0; i < nOver; i++ {
				f := genWF(r, r.intn(64), false)
				l := wfLen(f)
				n := []int{-1, 0, 1, l - 1, l, l + 1, l + 54, 2*l + 100, l + 4096, r.intn(2*l + 1), l + 1 + r.intn(300), 70000}[i%12]
				ns := "-"
				if n >= 0 {
					ns = strconv.Itoa(n)
				}
				fmt.Fprintf(w, "cdrfile over %s %s %d %s\n", r.pickStr("600", "644", "666", "660"), ns, r.intn(256), sFile(f))
			}
			for i := 0; i < nRew; i++ {
				a, b := genWF(r, r.intn(64), false), genWF(r, r.intn(64), false)
				la, lb := wfLen(a), wfLen(b)
				// two in three: the longer file first
				if (i%3 != 2) != (la >= lb) {
					a, b = b, a
				}
				fmt.Fprintf(w, "cdrfile rewrite %s | %s\n", sFile(a), sFile(b))
			}
			// a reader value used before: what it holds after Decoding is the file it read last, nothing of the one before
			nReuse := 12
			if big {
				nReuse = 100
			}
			for i := 0; i < nReuse; i++ {
				fmt.Fprintf(w, "cdrfile reuse %s | %s\n", sFile(genWF(r, r.intn(64), false)), sFile(genWF(r, r.intn(64), false)))
			}
			// a write that fails (the destination is a directory; the panic is recovered as gin's recovery does for a request),
			// then another file is written: it must come out as when written first
			nFail := 16
			if big {
				nFail = 120
			}
			for i := 0; i < nFail; i++ {
				fmt.Fprintf(w, "cdrfile afterfail %s | %s\n", sFile(genWF(r, r.intn(64), false)), sFile(genWF(r, r.intn(64), false)))
			}
			if cdrTmp != "" {
				os.RemoveAll(cdrTmp)
			}
		},
		run: func(line string, toks []string) string {
			if len(toks) == 0 {
				return "bad-op"
			}
			defer func() {
				if cdrTmp != "" {
					os.RemoveAll(cdrTmp)
					cdrTmp = ""
				}
			}()
			switch toks[0] {
			case "enc":
				f, ok := pFile(toks[1:])
				if !ok {
					return "bad-op"
				}
				return "ok " + hexOf(encodeToBytes(f))
			case "conc":
				f, ok := pFile(toks[1:])
				if !ok {
					return "bad-op"
				}
				want := encodeToBytes(f)
				dir := filepath.Dir(tmpPath())
				var wg sync.WaitGroup
				bad := make(chan string, 64)
				for g := 0; g < 16; g++ {
					wg.Add(1)
					go func(g int) {
						defer wg.Done()
						fg, _ := pFile(toks[1:])
						path := filepath.Join(dir, fmt.Sprintf("c%d.cdr", g))
						for k := 0; k < 12; k++ {
							fg.Encoding(path)
							b, err := os.ReadFile(path)
							if err != nil || !bytes.Equal(b, want) {
								select {
								case bad <- hexOf(b):
								default:
								}
								return
							}
						}
					}(g)
				}
				wg.Wait()
				select {
				case x := <-bad:
					if len(x) > 200 {
						x = x[:200]
					}
					return "diverged " + x
				default:
				}
				return "ok " + hexOf(want)
			case "big":
				// cdrfile big <records> <payload octets> <fill>: a well-formed file too large for the line protocol, built
				// on both sides from the three numbers; written, read back and compared with the structure
				if len(toks) != 4 {
					return "bad-op"
				}
				p := &tokr{t: toks[1:], ok: true}
				nrec, plen, fill := int(p.nat()), int(p.nat()), int(p.nat())
				if !p.ok || nrec > 4096 || plen > 65535 {
					return "bad-op"
				}
				f := &cdrFile.CDRFile{}
				f.Hdr.HeaderLength = 52
				f.Hdr.FileLength = uint32(52 + nrec*(4+plen))
				f.Hdr.HighReleaseIdentifier, f.Hdr.HighVersionIdentifier = 6, 3
				f.Hdr.LowReleaseIdentifier, f.Hdr.LowVersionIdentifier = 6, 3
				f.Hdr.NumberOfCdrsInFile = uint32(nrec)
				f.Hdr.FileSequenceNumber = 7
				f.Hdr.FileClosureTriggerReason = 4
				for i := 0; i < nrec; i++ {
					body := make([]byte, plen)
					for j := range body {
						body[j] = byte(fill + i*31 + j)
					}
					f.CdrList = append(f.CdrList, cdrFile.CDR{Hdr: cdrFile.CdrHeader{CdrLength: uint16(plen), ReleaseIdentifier: 6, VersionIdentifier: 3,
						DataRecordFormat: 1, TsNumber: 0}, CdrByte: body})
				}
				return bigRoundTrip(f)
			case "over":
				// cdrfile over <perm> <n|-> <fill> <file>: the destination holds n octets (pattern from fill) with permission
				// bits perm when Encoding is called; what is on disk afterwards is read back whole
				if len(toks) < 5 {
					return "bad-op"
				}
				f, ok := pFile(toks[4:])
				perm, err := strconv.ParseUint(toks[1], 8, 32)
				fill, err2 := strconv.Atoi(toks[3])
				if !ok || err != nil || err2 != nil {
					return "bad-op"
				}
				if toks[2] != "-" {
					n, err := strconv.Atoi(toks[2])
					if err != nil || n < 0 || n > 1<<24 {
						return "bad-op"
					}
					old := make([]byte, n)
					for j := range old {
						old[j] = byte(fill + j*7)
					}
					if err := os.WriteFile(tmpPath(), old, os.FileMode(perm)); err != nil {
						panic(err)
					}
					_ = os.Chmod(tmpPath(), os.FileMode(perm))
				}
				b := encodeToBytes(f)
				g, p := decodeBytes(b)
				if p {
					return "panic " + hexOf(b)
				}
				return "ok " + hexOf(b) + " " + sFile(g)
			case "reuse":
				// cdrfile reuse <file A> | <file B>: one CDRFile value decodes A, then B
				sep := -1
				for i, x := range toks {
					if x == "|" {
						sep = i
					}
				}
				if sep < 0 {
					return "bad-op"
				}
				a, ok1 := pFile(toks[1:sep])
				f, ok2 := pFile(toks[sep+1:])
				if !ok1 || !ok2 {
					return "bad-op"
				}
				ba, bb := encodeToBytes(a), encodeToBytes(f)
				var reader cdrFile.CDRFile
				res := func() (out string) {
					saved := os.Stdout
					devnull, _ := os.OpenFile(os.DevNull, os.O_WRONLY, 0)
					os.Stdout = devnull
					defer func() {
						os.Stdout = saved
						devnull.Close()
						if x := recover(); x != nil {
							out = "panic"
						}
					}()
					p := tmpPath()
					for _, b := range [][]byte{ba, bb} {
						if err := os.WriteFile(p, b, 0o600); err != nil {
							panic(err)
						}
						reader.Decoding(p)
					}
					return ""
				}()
				if res != "" {
					return res + " " + hexOf(bb)
				}
				return "ok " + hexOf(bb) + " " + sFile(&reader)
			case "afterfail":
				// cdrfile afterfail <file A> | <file B>: Encoding(A) onto a directory (fails), then Encoding(B)
				sep := -1
				for i, x := range toks {
					if x == "|" {
						sep = i
					}
				}
				if sep < 0 {
					return "bad-op"
				}
				a, ok1 := pFile(toks[1:sep])
				f, ok2 := pFile(toks[sep+1:])
				if !ok1 || !ok2 {
					return "bad-op"
				}
				failed := false
				func() {
					saved := os.Stdout
					devnull, _ := os.OpenFile(os.DevNull, os.O_WRONLY, 0)
					os.Stdout = devnull
					defer func() {
						os.Stdout = saved
						devnull.Close()
						if x := recover(); x != nil {
							failed = true
						}
					}()
					a.Encoding(filepath.Dir(tmpPath()))
				}()
				if !failed {
					return "nofail"
				}
				b := encodeToBytes(f)
				g, p := decodeBytes(b)
				if p {
					return "panic " + hexOf(b)
				}
				return "ok " + hexOf(b) + " " + sFile(g)
			case "rewrite":
				// cdrfile rewrite <file A> | <file B>: Encoding(A) then Encoding(B) to the same path
				sep := -1
				for i, x := range toks {
					if x == "|" {
						sep = i
					}
				}
				if sep < 0 {
					return "bad-op"
				}
				a, ok1 := pFile(toks[1:sep])
				f, ok2 := pFile(toks[sep+1:])
				if !ok1 || !ok2 {
					return "bad-op"
				}
				_ = encodeToBytes(a)
				b := encodeToBytes(f)
				g, p := decodeBytes(b)
				if p {
					return "panic " + hexOf(b)
				}
				return "ok " + hexOf(b) + " " + sFile(g)
			case "rt":
				f, ok := pFile(toks[1:])
				if !ok {
					return "bad-op"
				}
				b := encodeToBytes(f)
				g, p := decodeBytes(b)
				if p {
					return "panic " + hexOf(b)
				}
				return "ok " + hexOf(b) + " " + sFile(g)
			case "dec":
				if len(toks) != 2 {
					return "bad-op"
				}
				b, ok := unhex(toks[1])
				if !ok {
					return "bad-op"
				}
				g, p := decodeBytes(b)
				if p {
					return "panic"
				}
				return "ok " + sFile(g)
			}
			return "bad-op"
		},
	}
}
