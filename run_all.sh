#!/bin/bash
# run every registered check once (tier from $1, default quick); prints one line per property
cd "$(dirname "$0")"
tier=${1:-quick}
for id in $(python3 -c "import json;print(' '.join(c['property_id'] for c in json.load(open('MANIFEST.json'))['checks']))"); do
  out=$(./check $id --tier $tier 2>&1)
  rc=$?
  echo "$id rc=$rc $(echo "$out" | grep -c '^VIOLATION') violations; $(echo "$out" | tail -1)"
done
