#!/bin/sh
# Build the framework from files on disk only (offline): Lean library + driver, harness.
set -e
cd "$(dirname "$0")"
export GOFLAGS=-mod=mod GOPROXY=off GOSUMDB=off GOTOOLCHAIN=local
(cd lean && lake build ChfVerif driver)
python3 - <<'PY'
import sys, os
sys.path.insert(0, os.path.join(os.getcwd(), "lib"))
from chk import core
h, err = core.build_harness()
if h is None:
    print(err)
    sys.exit(1)
print("harness:", h)
PY
