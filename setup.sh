#!/bin/sh
# Build the framework from files on disk only (offline): harness from /repo's working tree,
# ChfVerif/Gen regenerated from it, then the Lean library + driver.
set -e
cd "$(dirname "$0")"
export GOFLAGS=-mod=mod GOPROXY=off GOSUMDB=off GOTOOLCHAIN=local
python3 - <<'PY'
import sys, os
sys.path.insert(0, os.path.join(os.getcwd(), "lib"))
from chk import core, props
h, err = core.build_harness()
if h is None:
    print(err)
    sys.exit(1)
print("harness:", h)
ctx = core.Ctx("C01", "quick", 1)
ctx.harness = h
done = set()
for pid, spec in sorted(props.PROPS.items()):
    for g in spec.get("gen", []):
        key = getattr(g, "key", None) or id(g)
        if key in done:
            continue
        done.add(key)
        g(ctx)
PY
(cd lean && lake build ChfVerif driver)
