#!/usr/bin/env python3
"""Regenerates MANIFEST.json from the table below (run after adding a property to lib/chk/props.py)."""
import json, os, sys
HERE = os.path.dirname(os.path.abspath(__file__))
BASE = "cd /repo && go build ./... && go test -vet=off -count=1 ./..."

CHECKS = {
 "C14": ("Lean theorem C14: decodeFile (encodeFile f) = some f for every well-formed file structure (unbounded record count and lengths), over a model of cdrFile.go tied to the code by differential execution of Encoding/Decoding on generated well-formed structures.",
         "Trusted: Lean kernel (axioms propext, Quot.sound, Classical.choice at most), the hand-written model (validated by correspondence on generated inputs only), os.ReadFile/WriteFile and encoding/binary modelled.",
         "Lean 4 proof of round trip over an executable model + model/code correspondence check", "DESIGN.md §5 C14"),
 "C15": ("Lean theorem C15: an independent TS 32.297 reader (Spec/TS32297.lean) recovers f from encodeFile f for every well-formed f, plus length/extension-order layout theorems; the same reader is run on the bytes the real Encoding writes.",
         "Trusted: Lean kernel, my transcription of TS 32.297 clause 6.1 in Spec/TS32297.lean, the encoder model (validated by correspondence).",
         "Lean 4 proof against an independent format specification + correspondence check", "DESIGN.md §5 C15"),
 "C07": ("Lean theorems over a model of pkg/abmf handleCCR: exact reserve/refund/termination arithmetic, echo, no effect for unknown accounts, frame, and C07_sequence (running balance = fold of exact deltas over any request list, by induction). The step predicate Abmf.holds is proved of the model (C07_model_holds) and evaluated by the Lean driver on every step of the real server's trace (real Diameter/TLS connection, in-memory store).",
         "Trusted: Lean kernel; go-diameter, strconv and the MongoDB stand-in are modelled; correspondence covers generated request histories only.",
         "Lean 4 proof (invariant + induction over request lists) + correspondence + Lean-evaluated oracle on implementation traces", "DESIGN.md §5 C07"),
 "C08": ("Lean theorems over a model of pkg/rf handleSUR/buildTaffif and the CHF's getUnitCost formula: exact debit price, reserve allowed = floor(quota/cost) and price <= quota, zero-cost case, tariff agreement for every stored string, always answered. Rating.holds is proved of the model and evaluated by the Lean driver on the real server's answers.",
         "Trusted: Lean kernel; go-diameter, strconv.Atoi, math.Pow10->uint32 (amd64) modelled and validated by correspondence only.",
         "Lean 4 proof + correspondence + Lean-evaluated oracle on implementation traces", "DESIGN.md §5 C08"),
 "C01": ("Lean theorem C01 (induction over unbounded operation lists): balance + held reservation of every subscriber/rating group = initial + credits - unit cost x reported online usage, over a model of the whole credit-control path (processor + account + rating servers); C01_step gives the exact movement per operation. The per-operation movement (Lean terms creditedOp - ratedOp) is compared with the real code's stored balances and ReservedQuota after every request driven through the real gin router and Diameter servers.",
         "Trusted: Lean kernel; the Charging/Abmf/Rating models (validated by exact correspondence of responses, balances, reservations, rating modes and records on generated histories); gin, openapi, go-diameter, strconv and the MongoDB stand-in are modelled. The quantifier (peers answer, products fit 32 bits) is the decidable predicate opOKb evaluated by the driver.",
         "Lean 4 invariant proof by induction over histories + exact model/code correspondence + oracle on implementation traces", "DESIGN.md §5 C01"),
 "C06": ("Lean theorem C06: the invariant Safe (no negative balance; every outstanding grant backed by reserved money) is preserved by every operation of a compliant consumer, for unbounded histories; C06_grant_limited/backed characterise the grant (= floor(available money / unit cost) with final-unit indication exactly when money is short). Both are checked on the real code's trace; the one known finding (reservation shared by two sessions) is classified by a committed witness.",
         "Trusted: as C01. Compliance is per (subscriber, rating group) ledger - the granularity at which the CHF keeps quota; per-session-compliant overdrafts are the listed known finding.",
         "Lean 4 invariant proof with ghost ledger + correspondence + oracle on implementation traces", "DESIGN.md §5 C06"),
 "C12": ("Lean theorems on Charging.step: status set {201,200,204,400,404}; a 4xx answer leaves the whole state unchanged (C12_reject_no_effect); unknown subscriber -> 400, unknown/stale/foreign reference -> 404; accepted create -> 201 with a Location reference that keys the session map and echoed sequence number; update 200 + echo; release 204; accepted recharge -> exactly one notification to the registered URI naming the rating group. Oracle on the real gin router's responses and byte-identical state dumps across rejections.",
         "Trusted: Lean kernel; charging model (exact correspondence incl. statuses, Location, MUIs, notifications, records); gin/openapi/h2c modelled.",
         "Lean 4 proofs about the step function + correspondence + oracle on implementation traces", "DESIGN.md §5 C12"),
 "C10": ("Lean theorems: the reference construction (supi ++ name ++ '-' ++ decimal(seq)) is injective in the sequence number for arbitrary byte strings (sessionId_seq_injective, via split_last_dash and decimal_injective); the invariant SidsBelow (every live reference carries a smaller sequence number) holds after every history (induction), hence every new reference differs from all live references of all subscribers (C10). Oracle on the implementation: adversarial names (digit tails, empty, '-', SUPI prefixes), reference returned vs all live ones, usage lands in a record carrying the addressed reference.",
         "Trusted: Lean kernel; model correspondence; strconv.FormatUint modelled by `decimal`; concurrent creates are outside this sequential model (see C09).",
         "Lean 4 injectivity + invariant proof + correspondence + oracle", "DESIGN.md §5 C10"),
 "C02": ("Lean theorem C02_timestamp (TS 32.298 BCD timestamp read back by an independent reader for every civil time and every zone offset of whole minutes within +/-14h) and bookkeeping theorems of the charging model (usage appended unchanged and in order to the designated record, identity fields kept, rejected requests and other subscribers untouched, release cause 0). The exactly-once-per-session statement over whole histories is evaluated as an oracle on the implementation's trace (tracer = local sequence number) after every operation; it is not yet a Lean theorem over histories (partial).",
         "Trusted: Lean kernel; model correspondence (records compared field by field after every op); MultiUnitUsageToCdr validated by correspondence only. The history-level refinement (sessUsage = spec log) is checked on traces, proved only at step level.",
         "Lean 4 proofs (timestamp codec, step-level bookkeeping) + correspondence + exactly-once oracle on traces", "DESIGN.md §5 C02"),
 "C13": ("Lean theorem C13 over the router model (induction over an arbitrary service list): every route carries the authorization middleware before its handler, so an unverifiable token yields 401 and the API function does not run; the facts tying the model to newRouter (each case installs Use(auth) before applyRoutes; nothing registered on the bare engine; for all 16 ordered service lists every route gin really registered lies in a protected group with exactly one extra handler) are regenerated into Gen/Routes.lean on every run and discharged by decide. Exhaustive probe of every registered route x 6 bad-token kinds on the real engine.",
         "Trusted: Lean kernel; gin semantics (group middleware order, Abort) modelled; oauth.VerifyOAuth abstracted; the go/ast extractor for newRouter.",
         "Lean 4 proof over a router model + regenerated tables checked by decide + exhaustive route probing", "DESIGN.md §5 C13"),
 "C17": ("Regenerated tables (all AVP definitions of both dictionaries; every avp: struct tag with what the loaded dictionary resolves it to) checked by decide +kernel: every tag defined, type-compatible, codes unique per (application, vendor), names unique; Lean round-trip theorems for the basic AVP data formats over their full ranges; correspondence of those formats with go-diameter; message-level fidelity of all four message structures observed over real serialisation.",
         "Trusted: Lean kernel; go-diameter is a modelled library (message framing and reflection marshalling are observed, not proved).",
         "decide over regenerated tables + Lean codec proofs + correspondence + round-trip oracle", "DESIGN.md §5 C17"),
 "C20": ("Lean theorems over a presence model of the configuration: validate c -> startsOK c (every section dereferenced at start-up is guaranteed), rejection of unknown service names / bad scheme / missing mandatory sections / https without TLS; the valid: tags the model relies on are regenerated from the compiled types and compared by decide. Every variant (baseline, all single and pairwise removals of 20 items x http/https, scheme and service-list alterations; thorough: all triples) is validated and, if accepted, really started in its own process.",
         "Trusted: Lean kernel; govalidator/yaml semantics modelled; startsOK is hand-modelled from reading the start-up code and validated by starting every accepted variant.",
         "Lean 4 proof over a finite-presence model + regenerated tags (decide) + correspondence + start-up oracle", "DESIGN.md §5 C20"),
 "C04": ("Lean theorem C04 (marshal.mutual_induct, unbounded nesting/lengths): whatever the encoder model returns equals the output of an independent X.690 encoder (Spec/X690.lean) for every type description, parameter set and int64-valued value; C04_no_panic / C04_schema: marshalling never panics for any type whose OPTIONAL members are nil-able, which decide +kernel establishes for all 195 regenerated cdrType descriptions; integer minimality, BOOLEAN, BIT STRING unused bits, OPTIONAL omission proved separately. Every marshalled value of the run is also walked by the Lean X.690 well-formedness checker and compared with the reference encoder.",
         "Trusted: Lean kernel; Model/Ber.lean is hand-written (validated by correspondence on generated values only); Spec/X690.lean is my transcription of X.690; the general well-formedness walker is run, not proved, on outputs.",
         "Lean 4 proof of equality with a reference encoder + regenerated schema (decide +kernel) + correspondence + Lean-evaluated walker", "DESIGN.md §5 C04"),
 "C05": ("Lean theorems C05_partial_*: the content-level round trip for every int64 (parseSigned (intBytes i) = i), every bit length, BOOLEAN, width re-truncation, and error (never panic) outcomes of unsupported constructs in both directions. The full law RoundTrip (structural induction through SEQUENCE/SET/CHOICE member matching) is stated but not proved; it is decided per run by model/code correspondence and a DeepEqual-style oracle over values of all 195 schema types, generated types and boundary integers.",
         "Trusted: as C04. Partial: the structural round trip is checked on generated values, not proved.",
         "Lean 4 proof (content level, partial) + correspondence + round-trip oracle", "DESIGN.md §5 C05"),
 "C16": ("Lean theorem C16 (unmarshal.mutual_induct): for every type description, parameter set and octet string the decoder model returns a value or an error and never reaches a Go index/slice panic (each Go index expression is a partial accessor whose failure is the outcome panic); termination is the acceptance of the well-founded definitions; empty / over-long / zero-length / wrong-tag inputs are errors. Correspondence: outcome class and value of the real Unmarshal under recover() on exhaustive short strings and mutated encodings equals the model's.",
         "Trusted: Lean kernel; the decoder model is hand-written and validated by correspondence on generated octet strings only; reflect.Set* conversions are modelled.",
         "Lean 4 proof of panic-freedom over an executable decoder model + correspondence", "DESIGN.md §5 C16"),
 "C03": ("Lean theorem C03_file over a model of dumpCdrFile + CDRFile.Encoding (induction over an arbitrary list of marshalled records): if every record is at most 65535 octets the independent TS 32.297 reader reads the written file back as exactly those payloads, header-length/file-length fields equal the real sizes, the count equals the number of records and every record length field equals its payload size (C03_lengths_consistent); C03_oversize shows the limit is necessary. Partial: that the processor never hands dumpCdrFile an oversize record is NOT proved - it is decided on driven histories (growth across header boundaries, requests sized at run time to land exactly on the limit, oversize single requests) and is violated on four listed call sites (known findings). Every written file is read by the Lean TS 32.297 reader, its payloads walked by the Lean X.690 walker and matched against the subscriber's records, and the whole file compared with the dump model.",
         "Trusted: Lean kernel; the dump model (validated by exact byte comparison on every written file); os file I/O; the record-size limit clause is exploration only.",
         "Lean 4 proof over a file-writer model + exact correspondence + Lean-evaluated independent reader/walker on written files (partial for the size guard)", "DESIGN.md §5 C03"),
 "C18": ("Lean theorems C18_bounded / C18_none_left over a state machine of the Diameter client functions under an adversarial scheduler (any interleaving of request starts, answer arrivals of any request in any order or never, timer expiries, returns): at most one connection per subscriber and peer is open at any time, none after the request returned, no handler task is left blocked - for histories of any length. The machine's parameters (deferred Close, channel made per request, buffered, select-default send, timeout) are regenerated from the source by a go/ast extractor and checked by decide. Timed scenarios against the real servers count established connections and goroutines after 10/100/1000 updates and are compared with the machine.",
         "Trusted: Lean kernel; go-diameter's connection/mux behaviour is modelled from its source; the go/ast fact extractor; /proc/self/net/tcp and runtime.NumGoroutine as observations.",
         "Lean 4 invariant proof over a client state machine under every scheduler + regenerated source facts (decide) + timed correspondence with real peers", "DESIGN.md §5 C18"),
 "C19": ("Lean theorems over the same client machine, for every scheduler: C19_no_crosstalk (a request only ever acts on the answer to itself), C19_never_wedged (no handler blocks, no request is stuck behind the mux), C19_next_request_starts, C19_late_answer_discarded (an answer arriving after its request returned changes nothing), C19_timeout_ends_wait; witnesses show each source fact is needed (the pre-fix machines wedge / cross-talk). Source facts regenerated by go/ast and checked by decide. Timed fault-injection scenarios (answers late by 6.5 s, lost, 2.5 s, in random patterns, on both peers) against the real servers are compared with the machine and judged directly (every update completes, acts on its own answer).",
         "Trusted: as C18. The microsecond race between timer and answer is covered by the model's scheduler and the source facts; timed runs keep 1.5 s clear of it (a search around the timeout runs only when the obligations break).",
         "Lean 4 invariant proof over a client state machine under every scheduler + regenerated source facts (decide) + fault-injection correspondence", "DESIGN.md §5 C19"),
 "C11": ("Lean theorem C11 / C11_lock_released over a lock-discipline model: for every Lock() statement of the request path (list regenerated from the source by go/ast: deferred Unlock next, guarded idempotent deferred unlock, or straight-line simple statements; no calls before the unlock is guaranteed, no unguarded Unlock elsewhere, no re-lock; accepted shapes checked by decide) and for ANY rest of the function and ANY choice of panicking statements, the mutex is released exactly once - so no request, rejected, failed or panicking, leaves a subscriber blocked. Status half: C11_status_modelled (2xx/4xx only and 4xx without effect, for every input of the charging model) - partial: for raw bodies outside the model (members absent/null/mistyped, odd identifiers, all path parameters) it is decided by driving ~800 (thorough: all single and pair removals) raw requests through the real router, each followed by a well-formed update and release of the same subscriber under a 4 s deadline.",
         "Trusted: Lean kernel; gin recovery modelled; the go/ast lock-site extractor; panics can only come from statements the extractor counts as calls/indexing; raw-request status behaviour is explored, not proved.",
         "Lean 4 proof over a lock-discipline model for all continuations and panic points + regenerated lock sites (decide) + raw-request exploration with follow-up deadlines", "DESIGN.md §5 C11"),
}
PENDING_REASON = "check not built yet in this revision (work in progress; DESIGN.md plans a Lean model + correspondence check for it)"

def main():
    extra = {}
    p = os.path.join(HERE, "manifest_extra.json")
    if os.path.exists(p):
        extra = json.load(open(p))
    checks = []
    for pid in sorted(CHECKS):
        text, note, tech, ref = CHECKS[pid]
        checks.append({"property_id": pid, "quick_cmd": "./check %s --tier quick" % pid,
                       "thorough_cmd": "./check %s --tier thorough" % pid,
                       "evidence_file": "/verif/evidence/%s.json" % pid,
                       "replay_cmd_template": "./check %s --replay {path}" % pid,
                       "engine": "lean4+correspondence",
                       "level_claimed": {"category": "proof", "text": text, "design_ref": ref},
                       "level_note": note, "technique": tech})
    na = []
    for i in range(1, 21):
        pid = "C%02d" % i
        if pid not in CHECKS:
            na.append({"property_id": pid, "reason": extra.get("not_applicable", {}).get(pid, PENDING_REASON)})
    m = {"version": 1, "setup_cmd": "./setup.sh",
         "hooks": {"guard": "verif",
                   "enable": "cd /repo && go build -tags verif -overlay /verif/build/overlay-<key>.json ./cmd/verifharness  (harness sources live in /verif/harness and are mapped into the tree by the overlay; nothing is committed to /repo for hooks)",
                   "baseline_off_cmd": BASE, "source_commits": [], "add_only": True},
         "engines": [{"name": "lean4+correspondence", "path": "/verif/check", "serves_properties": sorted(CHECKS),
                      "kind_free_text": "Lean 4 theorems about executable models (lean/ChfVerif), tied to /repo by regenerated tables and a differential correspondence harness (harness/, lean/Driver)"}],
         "checks": checks, "not_applicable": na, "notes": "see DESIGN.md"}
    json.dump(m, open(os.path.join(HERE, "MANIFEST.json"), "w"), indent=1)

if __name__ == "__main__":
    main()
