import ChfVerif.Model.Convert
import ChfVerif.Lemmas.Bits
namespace Chf.Convert
open Chf

theorem bcd_eq {x : Nat} (h : x < 100) : bcd x = (x / 10) * 16 + x % 10 := by
  unfold bcd
  have h1 : x / 10 % 256 = x / 10 := by omega
  have h2 : x / 10 * 16 % 256 = x / 10 * 16 := by omega
  rw [h1, h2]
  have := @Chf.shl_or_of_lt (x / 10) (x % 10) 4 (by omega)
  rw [Nat.shiftLeft_eq] at this
  exact this

theorem unbcd_bcd {x : Nat} (h : x < 100) : unbcd (bcd x) = x := by
  rw [bcd_eq h]; unfold unbcd; omega

end Chf.Convert
