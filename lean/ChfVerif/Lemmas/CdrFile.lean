import ChfVerif.Lemmas.Bits
import ChfVerif.Model.CdrFile
/- helper lemmas for the CDR file codec proofs (C14, C15, C03) -/
namespace Chf.CdrFile
open Chf

theorem packId_eq {rel ver : Nat} (h1 : rel < 8) (h2 : ver < 32) : packId rel ver = rel * 32 + ver := by
  unfold packId
  have : (rel <<< 5) % 256 = rel <<< 5 := by rw [Nat.shiftLeft_eq]; omega
  rw [this, shl_or_of_lt (by omega)]

theorem packTs_eq {t : TimeStamp} (h : t.WF) :
    packTs t = t.month * 268435456 + t.date * 8388608 + t.hour * 262144 + t.minute * 4096 +
      t.sign * 2048 + t.hdev * 64 + t.mdev := by
  obtain ⟨h1, h2, h3, h4, h5, h6, h7⟩ := h
  unfold packTs
  have e0 : (t.month <<< 28) % 4294967296 = t.month <<< 28 := by rw [Nat.shiftLeft_eq]; omega
  rw [e0]
  simp only [Nat.or_assoc]
  rw [shl_or_of_lt (i := 6) (by omega)]
  rw [shl_or_of_lt (i := 11) (by omega)]
  rw [shl_or_of_lt (i := 12) (by omega)]
  rw [shl_or_of_lt (i := 18) (by omega)]
  rw [shl_or_of_lt (i := 23) (by omega)]
  rw [shl_or_of_lt (i := 28) (by omega)]
  omega

theorem unpackTs_packTs {t : TimeStamp} (h : t.WF) : unpackTs (packTs t) = t := by
  rw [packTs_eq h]
  obtain ⟨h1, h2, h3, h4, h5, h6, h7⟩ := h
  unfold unpackTs
  simp only [Nat.shiftRight_eq_div_pow, and31, and63, and1]
  cases t
  simp only [TimeStamp.mk.injEq] at *
  refine ⟨?_, ?_, ?_, ?_, ?_, ?_, ?_⟩ <;> omega

theorem list_len20 {l : List Nat} (h : l.length = 20) :
    ∃ a0 a1 a2 a3 a4 a5 a6 a7 a8 a9 a10 a11 a12 a13 a14 a15 a16 a17 a18 a19,
      l = [a0, a1, a2, a3, a4, a5, a6, a7, a8, a9, a10, a11, a12, a13, a14, a15, a16, a17, a18, a19] := by
  match l, h with
  | [a0, a1, a2, a3, a4, a5, a6, a7, a8, a9, a10, a11, a12, a13, a14, a15, a16, a17, a18, a19], _ =>
    exact ⟨a0, a1, a2, a3, a4, a5, a6, a7, a8, a9, a10, a11, a12, a13, a14, a15, a16, a17, a18, a19, rfl⟩

theorem fixedPart_length {h : FileHeader} (hip : h.ip.length = 20) : (fixedPart h).length = 50 := by
  simp [fixedPart, be32, be16, hip]

theorem decodeFixed_fixedPart {h : FileHeader} (hw : h.WF) (rest : Bytes) :
    decodeFixed (fixedPart h ++ rest) =
      some { h with filter := [], lenExt := 0, ext := [], highExt := 0, lowExt := 0 } := by
  obtain ⟨w1, w2, w3, w4, w5, w6, w7, w8, w9, w10, w11, w12, w13, w14, w15, w16, w17, w18, w19, w20,
    w21, w22, w23, w24⟩ := hw
  obtain ⟨a0, a1, a2, a3, a4, a5, a6, a7, a8, a9, a10, a11, a12, a13, a14, a15, a16, a17, a18, a19, hip⟩ :=
    list_len20 w12
  unfold decodeFixed fixedPart be32 be16
  rw [hip]
  simp only [List.cons_append, List.nil_append, List.take_succ_cons, List.take_zero, List.drop_succ_cons,
    List.drop_zero]
  simp only [rd32_be32 w1, rd32_be32 w2, rd32_be32 w9, rd32_be32 w10, rd16_be16 w15,
    packId_eq w3 w4, packId_eq w5 w6, and31, Nat.shiftRight_eq_div_pow]
  have hp1 : packTs h.openTs < 4294967296 := by
    rw [packTs_eq w7]; obtain ⟨h1, h2, h3, h4, h5, h6, h7⟩ := w7; omega
  have hp2 : packTs h.lastTs < 4294967296 := by
    rw [packTs_eq w8]; obtain ⟨h1, h2, h3, h4, h5, h6, h7⟩ := w8; omega
  simp only [rd32_be32 hp1, rd32_be32 hp2, unpackTs_packTs w7, unpackTs_packTs w8]
  cases h
  simp only [FileHeader.mk.injEq, Option.some.injEq] at *
  refine ⟨trivial, trivial, ?_, ?_, ?_, ?_, trivial, trivial, trivial, trivial, trivial, ?_, trivial, trivial,
    trivial, trivial, trivial, trivial, trivial⟩ <;> first | omega | simp

theorem slice_mid {a b c : Bytes} {i j : Nat} (hi : i = a.length) (hj : j = a.length + b.length) :
    slice (a ++ (b ++ c)) i j = some b := by
  subst hi hj
  unfold slice
  have h1 : a.length ≤ a.length + b.length ∧ a.length + b.length ≤ (a ++ (b ++ c)).length := by
    simp only [List.length_append]; omega
  rw [if_pos h1]
  simp

theorem at_mid {a c : Bytes} {x i : Nat} (hi : i = a.length) : at? (a ++ (x :: c)) i = some x := by
  subst hi; unfold at?; simp

theorem packId_lt {rel ver : Nat} (h1 : rel < 8) (h2 : ver < 32) : packId rel ver < 256 := by
  rw [packId_eq h1 h2]; omega

theorem decodeCdrs_encode (cs : List Cdr) : ∀ (pre : Bytes), (∀ c ∈ cs, c.WF) →
    decodeCdrs (pre ++ encodeCdrs cs) cs.length pre.length = some cs := by
  induction cs with
  | nil => intro pre _; simp [decodeCdrs]
  | cons c r ih =>
    intro pre hw
    have hc : c.WF := hw c (by simp)
    have hr : ∀ c ∈ r, c.WF := fun x hx => hw x (by simp [hx])
    obtain ⟨⟨g1, g2, g3, g4, g5, g6, g7⟩, hlen, _⟩ := hc
    simp only [List.length_cons, decodeCdrs, encodeCdrs, encodeCdr, encodeCdrHeader, be16]
    have s1 : slice (pre ++ (([c.hdr.cdrLength / 256 % 256, c.hdr.cdrLength % 256] ++
        [packId c.hdr.rel c.hdr.ver, packId c.hdr.fmt c.hdr.ts] ++
        if c.hdr.rel = 7 then [c.hdr.relExt] else []) ++ c.bytes ++ encodeCdrs r))
        pre.length (pre.length + 2) = some [c.hdr.cdrLength / 256 % 256, c.hdr.cdrLength % 256] := by
      simp only [List.append_assoc]
      exact slice_mid rfl (by simp)
    rw [s1]
    have s2 : at? (pre ++ (([c.hdr.cdrLength / 256 % 256, c.hdr.cdrLength % 256] ++
        [packId c.hdr.rel c.hdr.ver, packId c.hdr.fmt c.hdr.ts] ++
        if c.hdr.rel = 7 then [c.hdr.relExt] else []) ++ c.bytes ++ encodeCdrs r))
        (pre.length + 2) = some (packId c.hdr.rel c.hdr.ver) := by
      have : ∀ X : Bytes, pre ++ (([c.hdr.cdrLength / 256 % 256, c.hdr.cdrLength % 256] ++
        [packId c.hdr.rel c.hdr.ver, packId c.hdr.fmt c.hdr.ts] ++ X) ++ c.bytes ++ encodeCdrs r) =
        (pre ++ [c.hdr.cdrLength / 256 % 256, c.hdr.cdrLength % 256]) ++
          (packId c.hdr.rel c.hdr.ver :: (packId c.hdr.fmt c.hdr.ts :: (X ++ c.bytes ++ encodeCdrs r))) := by
        intro X; simp
      rw [this]; exact at_mid (by simp)
    rw [s2]
    have s3 : at? (pre ++ (([c.hdr.cdrLength / 256 % 256, c.hdr.cdrLength % 256] ++
        [packId c.hdr.rel c.hdr.ver, packId c.hdr.fmt c.hdr.ts] ++
        if c.hdr.rel = 7 then [c.hdr.relExt] else []) ++ c.bytes ++ encodeCdrs r))
        (pre.length + 3) = some (packId c.hdr.fmt c.hdr.ts) := by
      have : ∀ X : Bytes, pre ++ (([c.hdr.cdrLength / 256 % 256, c.hdr.cdrLength % 256] ++
        [packId c.hdr.rel c.hdr.ver, packId c.hdr.fmt c.hdr.ts] ++ X) ++ c.bytes ++ encodeCdrs r) =
        (pre ++ [c.hdr.cdrLength / 256 % 256, c.hdr.cdrLength % 256, packId c.hdr.rel c.hdr.ver]) ++
          (packId c.hdr.fmt c.hdr.ts :: (X ++ c.bytes ++ encodeCdrs r)) := by
        intro X; simp
      rw [this]; exact at_mid (by simp)
    rw [s3]
    simp only [rd16_be16 g1, packId_eq g2 g3, packId_eq g4 g5, Nat.shiftRight_eq_div_pow, and31]
    have e1 : (c.hdr.rel * 32 + c.hdr.ver) / 2 ^ 5 = c.hdr.rel := by omega
    have e2 : (c.hdr.rel * 32 + c.hdr.ver) % 32 = c.hdr.ver := by omega
    have e3 : (c.hdr.fmt * 32 + c.hdr.ts) / 2 ^ 5 = c.hdr.fmt := by omega
    have e4 : (c.hdr.fmt * 32 + c.hdr.ts) % 32 = c.hdr.ts := by omega
    rw [e1, e2, e3, e4]
    by_cases h7 : c.hdr.rel = 7
    · simp only [h7, if_true]
      have t1 : at? (pre ++ (([c.hdr.cdrLength / 256 % 256, c.hdr.cdrLength % 256] ++
          [7 * 32 + c.hdr.ver, c.hdr.fmt * 32 + c.hdr.ts] ++ [c.hdr.relExt]) ++ c.bytes ++ encodeCdrs r))
          (pre.length + 4) = some c.hdr.relExt := by
        have : pre ++ (([c.hdr.cdrLength / 256 % 256, c.hdr.cdrLength % 256] ++
          [7 * 32 + c.hdr.ver, c.hdr.fmt * 32 + c.hdr.ts] ++ [c.hdr.relExt]) ++ c.bytes ++ encodeCdrs r) =
          (pre ++ [c.hdr.cdrLength / 256 % 256, c.hdr.cdrLength % 256, 7 * 32 + c.hdr.ver,
            c.hdr.fmt * 32 + c.hdr.ts]) ++ (c.hdr.relExt :: (c.bytes ++ encodeCdrs r)) := by simp
        rw [this]; exact at_mid (by simp)
      have t2 : slice (pre ++ (([c.hdr.cdrLength / 256 % 256, c.hdr.cdrLength % 256] ++
          [7 * 32 + c.hdr.ver, c.hdr.fmt * 32 + c.hdr.ts] ++ [c.hdr.relExt]) ++ c.bytes ++ encodeCdrs r))
          (pre.length + 5) (pre.length + 5 + c.hdr.cdrLength) = some c.bytes := by
        have : pre ++ (([c.hdr.cdrLength / 256 % 256, c.hdr.cdrLength % 256] ++
          [7 * 32 + c.hdr.ver, c.hdr.fmt * 32 + c.hdr.ts] ++ [c.hdr.relExt]) ++ c.bytes ++ encodeCdrs r) =
          (pre ++ [c.hdr.cdrLength / 256 % 256, c.hdr.cdrLength % 256, 7 * 32 + c.hdr.ver,
            c.hdr.fmt * 32 + c.hdr.ts, c.hdr.relExt]) ++ (c.bytes ++ encodeCdrs r) := by simp
        rw [this]; exact slice_mid (by simp) (by simp [hlen])
      rw [t1, t2]
      have t3 := ih (pre ++ (([c.hdr.cdrLength / 256 % 256, c.hdr.cdrLength % 256] ++
          [7 * 32 + c.hdr.ver, c.hdr.fmt * 32 + c.hdr.ts] ++ [c.hdr.relExt]) ++ c.bytes)) hr
      have t4 : (pre ++ (([c.hdr.cdrLength / 256 % 256, c.hdr.cdrLength % 256] ++
          [7 * 32 + c.hdr.ver, c.hdr.fmt * 32 + c.hdr.ts] ++ [c.hdr.relExt]) ++ c.bytes)).length =
          pre.length + 5 + c.hdr.cdrLength := by simp [hlen]; omega
      rw [t4] at t3
      simp only [List.append_assoc] at t3 ⊢
      rw [t3]
      cases c with | mk hd bs => cases hd; simp_all
    · simp only [h7, if_false, List.append_nil]
      have t2 : slice (pre ++ (([c.hdr.cdrLength / 256 % 256, c.hdr.cdrLength % 256] ++
          [c.hdr.rel * 32 + c.hdr.ver, c.hdr.fmt * 32 + c.hdr.ts]) ++ c.bytes ++ encodeCdrs r))
          (pre.length + 4) (pre.length + 4 + c.hdr.cdrLength) = some c.bytes := by
        have : pre ++ (([c.hdr.cdrLength / 256 % 256, c.hdr.cdrLength % 256] ++
          [c.hdr.rel * 32 + c.hdr.ver, c.hdr.fmt * 32 + c.hdr.ts]) ++ c.bytes ++ encodeCdrs r) =
          (pre ++ [c.hdr.cdrLength / 256 % 256, c.hdr.cdrLength % 256, c.hdr.rel * 32 + c.hdr.ver,
            c.hdr.fmt * 32 + c.hdr.ts]) ++ (c.bytes ++ encodeCdrs r) := by simp
        rw [this]; exact slice_mid (by simp) (by simp [hlen])
      rw [t2]
      have t3 := ih (pre ++ (([c.hdr.cdrLength / 256 % 256, c.hdr.cdrLength % 256] ++
          [c.hdr.rel * 32 + c.hdr.ver, c.hdr.fmt * 32 + c.hdr.ts]) ++ c.bytes)) hr
      have t4 : (pre ++ (([c.hdr.cdrLength / 256 % 256, c.hdr.cdrLength % 256] ++
          [c.hdr.rel * 32 + c.hdr.ver, c.hdr.fmt * 32 + c.hdr.ts]) ++ c.bytes)).length =
          pre.length + 4 + c.hdr.cdrLength := by simp [hlen]; omega
      rw [t4] at t3
      simp only [List.append_assoc] at t3 ⊢
      rw [t3]
      have := g7 h7
      cases c with | mk hd bs => cases hd; simp_all


theorem decodeFile_encodeFile (f : File) (hw : f.WF) : decodeFile (encodeFile f) = some f := by
  obtain ⟨hh, hn, hc⟩ := hw
  have hh' := hh
  obtain ⟨w1, w2, w3, w4, w5, w6, w7, w8, w9, w10, w11, w12, w13, w14, w15, w16, w17, w18, w19, w20,
    w21, w22, w23, w24⟩ := hh
  have hfl := fixedPart_length w12
  unfold decodeFile encodeFile encodeHeader
  simp only [List.append_assoc]
  rw [decodeFixed_fixedPart hh']
  simp only []
  have s1 : slice (fixedPart f.hdr ++ (f.hdr.filter ++ (be16 f.hdr.lenExt ++ (f.hdr.ext ++
      (extPart f.hdr ++ encodeCdrs f.cdrs))))) (50 + f.hdr.lenFilter) (50 + f.hdr.lenFilter + 2) =
      some [f.hdr.lenExt / 256 % 256, f.hdr.lenExt % 256] := by
    rw [← List.append_assoc]
    exact slice_mid (by simp [hfl, w16]) (by simp [hfl, w16, be16])
  have s2 : slice (fixedPart f.hdr ++ (f.hdr.filter ++ (be16 f.hdr.lenExt ++ (f.hdr.ext ++
      (extPart f.hdr ++ encodeCdrs f.cdrs))))) 50 (50 + f.hdr.lenFilter) = some f.hdr.filter :=
    slice_mid (by simp [hfl]) (by simp [hfl, w16])
  rw [s1, s2]
  simp only [rd16_be16 w18]
  have s3 : slice (fixedPart f.hdr ++ (f.hdr.filter ++ (be16 f.hdr.lenExt ++ (f.hdr.ext ++
      (extPart f.hdr ++ encodeCdrs f.cdrs))))) (50 + f.hdr.lenFilter + 2)
      (50 + f.hdr.lenFilter + 2 + f.hdr.lenExt) = some f.hdr.ext := by
    have : fixedPart f.hdr ++ (f.hdr.filter ++ (be16 f.hdr.lenExt ++ (f.hdr.ext ++
      (extPart f.hdr ++ encodeCdrs f.cdrs)))) = (fixedPart f.hdr ++ f.hdr.filter ++ be16 f.hdr.lenExt) ++
      (f.hdr.ext ++ (extPart f.hdr ++ encodeCdrs f.cdrs)) := by simp
    rw [this]
    exact slice_mid (by simp [hfl, w16, be16]; omega) (by simp [hfl, w16, w19, be16]; omega)
  rw [s3]
  simp only []
  -- the prefix before the extension octets
  have hpre : (fixedPart f.hdr ++ f.hdr.filter ++ be16 f.hdr.lenExt ++ f.hdr.ext).length =
      50 + f.hdr.lenFilter + 2 + f.hdr.lenExt := by simp [hfl, w16, w19, be16]; omega
  have hdata : ∀ X : Bytes, fixedPart f.hdr ++ (f.hdr.filter ++ (be16 f.hdr.lenExt ++ (f.hdr.ext ++ X))) =
      (fixedPart f.hdr ++ f.hdr.filter ++ be16 f.hdr.lenExt ++ f.hdr.ext) ++ X := by intro X; simp
  rw [hdata]
  generalize hP : fixedPart f.hdr ++ f.hdr.filter ++ be16 f.hdr.lenExt ++ f.hdr.ext = P at hpre ⊢
  rw [← hpre]
  unfold extPart
  obtain ⟨⟨fileLength, headerLength, highRel, highVer, lowRel, lowVer, openTs, lastTs, numCdrs, fileSeq,
    closure, ip, lost, lenFilter, filter, lenExt, ext, highExt, lowExt⟩, cs⟩ := f
  simp only at *
  subst hn
  by_cases hH : highRel = 7 <;> by_cases hL : lowRel = 7
  · simp only [hH, hL, if_true, List.cons_append, List.nil_append]
    have a1 : at? (P ++ highExt :: lowExt :: encodeCdrs cs) P.length = some highExt := at_mid rfl
    have a2 : at? (P ++ highExt :: lowExt :: encodeCdrs cs) (P.length + 1) = some lowExt := by
      rw [show P ++ highExt :: lowExt :: encodeCdrs cs = (P ++ [highExt]) ++ (lowExt :: encodeCdrs cs) by simp]
      exact at_mid (by simp)
    have d : decodeCdrs (P ++ highExt :: lowExt :: encodeCdrs cs) cs.length (P.length + 1 + 1) = some cs := by
      have := decodeCdrs_encode cs (P ++ [highExt, lowExt]) hc
      simpa using this
    simp [a1, a2, d]
  · simp only [hH, hL, if_true, if_false, List.cons_append, List.nil_append]
    have a1 : at? (P ++ highExt :: encodeCdrs cs) P.length = some highExt := at_mid rfl
    have d : decodeCdrs (P ++ highExt :: encodeCdrs cs) cs.length (P.length + 1) = some cs := by
      have := decodeCdrs_encode cs (P ++ [highExt]) hc
      simpa using this
    have := w24 hL
    simp [a1, d, hL, this]
  · simp only [hH, hL, if_true, if_false, List.cons_append, List.nil_append]
    have a1 : at? (P ++ lowExt :: encodeCdrs cs) P.length = some lowExt := at_mid rfl
    have d : decodeCdrs (P ++ lowExt :: encodeCdrs cs) cs.length (P.length + 1) = some cs := by
      have := decodeCdrs_encode cs (P ++ [lowExt]) hc
      simpa using this
    have := w23 hH
    simp [a1, d, this]
  · simp only [hH, hL, if_false, List.cons_append, List.nil_append]
    have d := decodeCdrs_encode cs P hc
    have := w23 hH
    have := w24 hL
    simp_all

end Chf.CdrFile
