import ChfVerif.Lemmas.X690Header
import ChfVerif.Lemmas.BerEncode
/- every output of the reference X.690 encoder is accepted by the independent well-formedness walker (C04) -/
namespace Chf.X690
open Chf Chf.Ber

/-- one element: the reader finds its header whatever follows, the header describes its size, and the walker
    accepts it with any fuel from its length on -/
def IsElem (e : Bytes) : Prop :=
  ∃ h : Hdr, (∀ tail, readHeader (e ++ tail) = some h) ∧ e.length = h.size + h.len ∧ 2 ≤ h.size ∧
    ∀ fuel, e.length ≤ fuel → wellFormedFuel fuel e = true

inductive Elems : Bytes → Prop
  | nil : Elems []
  | cons {e rest : Bytes} : IsElem e → Elems rest → Elems (e ++ rest)

theorem seq_ok {c : Bytes} (h : Elems c) : ∀ fuel, c.length + 1 ≤ fuel → wellFormedSeq fuel c = true := by
  induction h with
  | nil =>
    intro fuel _
    cases fuel with
    | zero => simp [wellFormedSeq]
    | succ f => simp [wellFormedSeq]
  | @cons e rest he _ ih =>
    intro fuel hf
    obtain ⟨h, hread, hlen, hsz, hwf⟩ := he
    cases fuel with
    | zero => omega
    | succ f =>
      rw [wellFormedSeq]
      have hne : ¬ (e ++ rest).length = 0 := by simp only [List.length_append]; omega
      simp only [hne, if_false, hread rest]
      have h1 : h.size + h.len ≤ (e ++ rest).length := by simp only [List.length_append]; omega
      have h2 : (e ++ rest).take (h.size + h.len) = e := by rw [← hlen]; simp
      have h3 : (e ++ rest).drop (h.size + h.len) = rest := by rw [← hlen]; simp
      simp only [h2, h3]
      simp only [List.length_append] at hf
      rw [hwf f (by omega), ih f (by omega)]
      simp only [List.length_append] at h1
      simp [h1]

theorem element_split (cls : Nat) (c : Bool) (tag : Nat) (contents : Bytes)
    (ht : tag < 18446744073709551616) (hl : contents.length < 18446744073709551616) :
    element cls c tag contents = header cls c tag contents.length ++ contents := by
  unfold element; rw [header_eq cls c tag _ ht hl]

theorem header_size_ge (cls : Nat) (c : Bool) (tag len : Nat) : 2 ≤ (header cls c tag len).length := by
  rw [header_split, List.length_append]
  have h1 : 1 ≤ (tagPart (cls * 64 + (if c then 32 else 0)) tag).length := by unfold tagPart; split <;> simp
  have h2 : 1 ≤ (lenPart len).length := by unfold lenPart; split <;> simp
  omega

theorem elem_constructed (cls tag : Nat) (contents : Bytes) (hcls : cls < 4)
    (ht : tag < 18446744073709551616) (hl : contents.length < 18446744073709551616) (hc : Elems contents) :
    IsElem (element cls true tag contents) := by
  rw [element_split cls true tag contents ht hl]
  refine ⟨⟨cls, true, tag, contents.length, (header cls true tag contents.length).length⟩, ?_, ?_, ?_, ?_⟩
  · intro tail; rw [List.append_assoc]; exact readHeader_header cls true tag _ _ hcls ht hl
  · simp
  · exact header_size_ge _ _ _ _
  · intro fuel hf
    cases fuel with
    | zero => have := header_size_ge cls true tag contents.length; simp only [List.length_append] at hf; omega
    | succ f =>
      rw [wellFormedFuel]
      have hr := readHeader_header cls true tag contents.length contents hcls ht hl
      rw [hr]
      simp only [List.length_append, List.drop_left', if_true]
      have := header_size_ge cls true tag contents.length
      simp only [List.length_append] at hf
      rw [seq_ok hc f (by omega)]
      simp

theorem elem_primitive (cls tag : Nat) (contents : Bytes) (hcls : cls < 4)
    (ht : tag < 18446744073709551616) (hl : contents.length < 18446744073709551616)
    (hp : cls = 0 → primitiveOk tag contents = true) :
    IsElem (element cls false tag contents) := by
  rw [element_split cls false tag contents ht hl]
  refine ⟨⟨cls, false, tag, contents.length, (header cls false tag contents.length).length⟩, ?_, ?_, ?_, ?_⟩
  · intro tail; rw [List.append_assoc]; exact readHeader_header cls false tag _ _ hcls ht hl
  · simp
  · exact header_size_ge _ _ _ _
  · intro fuel hf
    cases fuel with
    | zero => have := header_size_ge cls false tag contents.length; simp only [List.length_append] at hf; omega
    | succ f =>
      rw [wellFormedFuel]
      have hr := readHeader_header cls false tag contents.length contents hcls ht hl
      rw [hr]
      simp only [List.length_append, List.drop_left']
      by_cases h0 : cls = 0
      · simp [h0, hp h0]
      · simp [h0]


theorem element_length_ge (cls : Nat) (c : Bool) (tag : Nat) (contents : Bytes) :
    contents.length ≤ (element cls c tag contents).length := by
  unfold element; simp only [List.length_append]; omega

theorem elems_single {e : Bytes} (h : IsElem e) : Elems e := by
  have := Elems.cons h Elems.nil
  simpa using this

theorem tagged_elem (p : Params) (c : Bool) (tag : Nat) (contents : Bytes)
    (hp : paramsOK p = true) (ht : tag < 18446744073709551616)
    (hl : (tagged p c tag contents).length < 18446744073709551616)
    (hc : c = true → Elems contents) (hpr : c = false → primitiveOk tag contents = true) :
    IsElem (tagged p c tag contents) := by
  unfold tagged at hl ⊢
  have inner : ∀ cls, cls < 4 → ∀ t', t' < 18446744073709551616 → contents.length < 18446744073709551616 →
      (cls = 0 → c = false → primitiveOk t' contents = true) → IsElem (element cls c t' contents) := by
    intro cls hcls t' ht' hlen hprim
    cases c with
    | true => exact elem_constructed cls t' contents hcls ht' hlen (hc rfl)
    | false => exact elem_primitive cls t' contents hcls ht' hlen (fun h0 => hprim h0 rfl)
  cases htn : p.tagNumber with
  | none =>
    rw [htn] at hl
    simp only at hl ⊢
    have := element_length_ge 0 c tag contents
    exact inner 0 (by decide) tag ht (by omega) (fun _ hc' => hpr hc')
  | some n =>
    rw [htn] at hl
    simp only at hl ⊢
    have hn : n < 18446744073709551616 := by simp [paramsOK, htn] at hp; exact hp.1
    by_cases hex : p.explicit = true
    · simp only [hex, if_true] at hl ⊢
      have h1 := element_length_ge 2 true n (element 0 c tag contents)
      have h2 := element_length_ge 0 c tag contents
      have hin := inner 0 (by decide) tag ht (by omega) (fun _ hc' => hpr hc')
      exact elem_constructed 2 n _ (by decide) hn (by omega) (elems_single hin)
    · simp only [hex, Bool.false_eq_true, if_false] at hl ⊢
      have := element_length_ge 2 c n contents
      exact inner 2 (by decide) n hn (by omega) (fun h0 => absurd h0 (by decide))


/-- a universal tag number whose contents the walker does not constrain -/
def freeTag (t : Nat) : Bool := t != 1 && t != 2 && t != 3 && t != 5 && t != 10

def strParamOK (p : Params) : Bool := p.stringType == 0 || freeTag p.stringType

mutual
/-- character-string tags are not those of BOOLEAN / INTEGER / BIT STRING / NULL / ENUMERATED -/
def strOK : Ty → Bool
  | .ptr t => strOK t
  | .slice t => strOK t
  | .wrap t => strOK t
  | .choice alts => strOKFs alts
  | .struct fs => strOKFs fs
  | .str d => freeTag d
  | _ => true
def strOKFs : Fields → Bool
  | .nil => true
  | .cons p t r => strParamOK p && strOK t && strOKFs r
end

mutual
/-- a BIT STRING without octets has a bit length that is a multiple of 8 (in fact 0) -/
def bitsOK : Val → Bool
  | .bits b n => b.length != 0 || n % 8 == 0
  | .list vs => bitsOKs vs
  | .choice _ vs => bitsOKs vs
  | .struct vs => bitsOKs vs
  | _ => true
def bitsOKs : Vals → Bool
  | .nil => true
  | .cons v r => bitsOK v && bitsOKs r
end

theorem primitiveOk_free (t : Nat) (c : Bytes) (h : freeTag t = true) : primitiveOk t c = true := by
  simp [freeTag] at h
  unfold primitiveOk
  simp [h.1.1.1.1, h.1.1.1.2, h.1.1.2, h.1.2, h.2]

theorem strTag_free (p : Params) (d : Nat) (hd : freeTag d = true) (hp : strParamOK p = true) :
    freeTag (if p.stringType = 0 then d else p.stringType) = true := by
  unfold strParamOK at hp
  split
  · exact hd
  · rename_i h; simp [h] at hp; exact hp

theorem tagged_length_ge (p : Params) (c : Bool) (tag : Nat) (contents : Bytes) :
    contents.length ≤ (tagged p c tag contents).length := by
  unfold tagged
  split
  · exact element_length_ge _ _ _ _
  · split
    · have h1 := element_length_ge 2 true ‹Nat› (element 0 c tag contents)
      have h2 := element_length_ge 0 c tag contents
      omega
    · exact element_length_ge _ _ _ _

set_option maxHeartbeats 1000000 in
theorem encode_wf_all :
    (∀ t p v, ∀ b, tagsOK t = true → strOK t = true → paramsOK p = true → strParamOK p = true → valOK v = true →
        bitsOK v = true → encode t p v = some b → b.length < 18446744073709551616 → IsElem b) ∧
    (∀ t p vs, ∀ b, tagsOK t = true → strOK t = true → paramsOK p = true → strParamOK p = true → valsOK vs = true →
        bitsOKs vs = true → encodeList t p vs = some b → b.length < 18446744073709551616 → Elems b) ∧
    (∀ fs vs, ∀ b, tagsOKFs fs = true → strOKFs fs = true → valsOK vs = true → bitsOKs vs = true →
        encodeMembers fs vs = some b → b.length < 18446744073709551616 → Elems b) ∧
    (∀ fs vs n, ∀ b, tagsOKFs fs = true → strOKFs fs = true → valsOK vs = true → bitsOKs vs = true →
        encodeAlt fs vs n = some b → b.length < 18446744073709551616 → IsElem b) := by
  have key := encode.mutual_induct
    (motive1 := fun t p v => ∀ b, tagsOK t = true → strOK t = true → paramsOK p = true → strParamOK p = true → valOK v = true →
        bitsOK v = true → encode t p v = some b → b.length < 18446744073709551616 → IsElem b)
    (motive2 := fun t p vs => ∀ b, tagsOK t = true → strOK t = true → paramsOK p = true → strParamOK p = true → valsOK vs = true →
        bitsOKs vs = true → encodeList t p vs = some b → b.length < 18446744073709551616 → Elems b)
    (motive3 := fun fs vs => ∀ b, tagsOKFs fs = true → strOKFs fs = true → valsOK vs = true → bitsOKs vs = true →
        encodeMembers fs vs = some b → b.length < 18446744073709551616 → Elems b)
    (motive4 := fun fs vs n => ∀ b, tagsOKFs fs = true → strOKFs fs = true → valsOK vs = true → bitsOKs vs = true →
        encodeAlt fs vs n = some b → b.length < 18446744073709551616 → IsElem b)
  apply key <;> clear key
  all_goals (intros; first
    | (simp_all [encode, encodeList, encodeMembers, encodeAlt]; done)
    | skip)
  case case2 =>
    rename_i t p v hne ih b ht hs hp hsp hv hb he hl
    have e2 : encode (.ptr t) p v = encode t p v := by simp [encode]
    rw [e2] at he
    exact ih b (by simpa [tagsOK] using ht) (by simpa [strOK] using hs) hp hsp hv hb he hl
  case case3 =>
    rename_i t p v ih b ht hs hp hsp hv hb he hl
    rw [encode] at he
    exact ih b (by simpa [tagsOK] using ht) (by simpa [strOK] using hs) hp hsp hv hb he hl
  case case4 =>
    rename_i p x b ht hs hp hsp hv hb he hl
    rw [encode] at he; simp only [Option.some.injEq] at he; subst he
    exact tagged_elem p false 1 _ hp (by decide) hl (by intro h; cases h) (by intro _; cases x <;> decide)
  case case5 =>
    rename_i w p i b ht hs hp hsp hv hb he hl
    rw [encode] at he; simp only [Option.some.injEq] at he; subst he
    have hi : -9223372036854775808 ≤ i ∧ i ≤ 9223372036854775807 := by simpa [valOK] using hv
    refine tagged_elem p false 2 _ hp (by decide) hl (by intro h; cases h) ?_
    intro _
    rw [← intBytes_eq i hi]
    simp [primitiveOk, minimalInt_intBytes i hi]
  case case6 =>
    rename_i p i b ht hs hp hsp hv hb he hl
    rw [encode] at he; simp only [Option.some.injEq] at he; subst he
    have hi : -9223372036854775808 ≤ i ∧ i ≤ 9223372036854775807 := by simpa [valOK] using hv
    refine tagged_elem p false 10 _ hp (by decide) hl (by intro h; cases h) ?_
    intro _
    rw [← intBytes_eq i hi]
    simp [primitiveOk, minimalInt_intBytes i hi]
  case case7 =>
    rename_i p bs n b ht hs hp hsp hv hb he hl
    rw [encode] at he; simp only [Option.some.injEq] at he; subst he
    refine tagged_elem p false 3 _ hp (by decide) hl (by intro h; cases h) ?_
    intro _
    simp only [bitsOK, Bool.or_eq_true, bne_iff_ne, ne_eq, beq_iff_eq] at hb
    unfold primitiveOk
    simp only [show ¬ ((3:Nat) = 1) by decide, show ¬ ((3:Nat) = 2 ∨ (3:Nat) = 10) by decide, if_false, if_true]
    cases bs with
    | nil =>
      have : n % 8 = 0 := by rcases hb with h | h; exact absurd rfl h; exact h
      simp [this]
    | cons x r => simp; split <;> omega
  case case8 =>
    rename_i p bs b ht hs hp hsp hv hb he hl
    rw [encode] at he; simp only [Option.some.injEq] at he; subst he
    exact tagged_elem p false 4 _ hp (by decide) hl (by intro h; cases h) (by intro _; simp [primitiveOk])
  case case9 =>
    rename_i p b ht hs hp hsp hv hb he hl
    rw [encode] at he; simp only [Option.some.injEq] at he; subst he
    exact tagged_elem p false 4 _ hp (by decide) hl (by intro h; cases h) (by intro _; simp [primitiveOk])
  case case10 =>
    rename_i p x b ht hs hp hsp hv hb he hl
    rw [encode] at he; simp only [Option.some.injEq] at he; subst he
    exact tagged_elem p false 5 _ hp (by decide) hl (by intro h; cases h) (by intro _; simp [primitiveOk])
  case case11 =>
    rename_i d p bs b ht hs hp hsp hv hb he hl
    rw [encode] at he; simp only [Option.some.injEq] at he; subst he
    have hd : d < 18446744073709551616 := by simpa [tagsOK] using ht
    have hfree := strTag_free p d (by simpa [strOK] using hs) hsp
    refine tagged_elem p false _ _ hp ?_ hl (by intro h; cases h) (fun _ => primitiveOk_free _ _ hfree)
    have := stringTag_lt p d hp hd
    rw [stringTag_eq] at this
    exact this
  case case13 =>
    rename_i alts p present vs h inner hin htn ih b ht hs hp hsp hv hb he hl
    simp only [encode, h, hin, htn, if_false, Option.some.injEq] at he
    subst he
    exact ih _ (by simpa [tagsOK] using ht) (by simpa [strOK] using hs) (by simpa [valOK] using hv)
      (by simpa [bitsOK] using hb) hin hl
  case case14 =>
    rename_i alts p present vs h inner hin n htn ih b ht hs hp hsp hv hb he hl
    simp only [encode, h, hin, htn, if_false, Option.some.injEq] at he
    subst he
    have hle := element_length_ge 2 true n inner
    have hi := ih _ (by simpa [tagsOK] using ht) (by simpa [strOK] using hs) (by simpa [valOK] using hv)
      (by simpa [bitsOK] using hb) hin (by omega)
    have hn : n < 18446744073709551616 := by simp [paramsOK, htn] at hp; exact hp.1
    exact elem_constructed 2 n inner (by decide) hn (by omega) (elems_single hi)
  case case17 =>
    rename_i fs p vs h inner hin ih b ht hs hp hsp hv hb he hl
    simp only [encode, h, hin, if_false, Option.some.injEq] at he
    subst he
    have hle := tagged_length_ge p true (if p.set = true then 17 else 16) inner
    have hi := ih _ (by simpa [tagsOK] using ht) (by simpa [strOK] using hs) (by simpa [valOK] using hv)
      (by simpa [bitsOK] using hb) hin (by omega)
    exact tagged_elem p true _ inner hp (by split <;> decide) hl (fun _ => hi) (by intro h; cases h)
  case case19 =>
    rename_i t p vs inner hin ih b ht hs hp hsp hv hb he hl
    simp only [encode, hin, Option.some.injEq] at he
    subst he
    have hle := tagged_length_ge p true (if p.set = true then 17 else 16) inner
    have hi := ih _ (by simpa [tagsOK] using ht) (by simpa [strOK] using hs)
      (by simp [paramsOK] at hp ⊢; exact hp.2) (by simpa [strParamOK] using hsp) (by simpa [valOK] using hv)
      (by simpa [bitsOK] using hb) hin (by omega)
    exact tagged_elem p true _ inner hp (by split <;> decide) hl (fun _ => hi) (by intro h; cases h)
  case case21 =>
    rename_i t p b ht hs hp hsp hv hb he hl
    rw [encode] at he; simp only [Option.some.injEq] at he; subst he
    exact tagged_elem p true _ [] hp (by split <;> decide) hl (fun _ => Elems.nil) (by intro h; cases h)
  case case23 =>
    rename_i t p b ht hs hp hsp hv hb he hl
    rw [encodeList] at he; simp only [Option.some.injEq] at he; subst he
    exact Elems.nil
  case case24 =>
    rename_i t p v vs a r hr ha ih2 ih1 b ht hs hp hsp hv hb he hl
    simp only [encodeList, hr, ha, Option.some.injEq] at he
    subst he
    simp only [valsOK, bitsOKs, Bool.and_eq_true] at hv hb
    simp only [List.length_append] at hl
    exact Elems.cons (ih2 _ ht hs hp hsp hv.1 hb.1 ha (by omega)) (ih1 _ ht hs hp hsp hv.2 hb.2 hr (by omega))
  case case26 =>
    rename_i vs b ht hs hv hb he hl
    rw [encodeMembers] at he; simp only [Option.some.injEq] at he; subst he
    exact Elems.nil
  case case27 =>
    rename_i p t r v vs h ih b ht hs hv hb he hl
    rw [encodeMembers, if_pos h] at he
    simp only [valsOK, bitsOKs, tagsOKFs, strOKFs, Bool.and_eq_true] at hv hb ht hs
    exact ih _ ht.2 hs.2 hv.2 hb.2 he hl
  case case29 =>
    rename_i p t r v vs h1 h2 a rr hr ha ih2 ih1 b ht hs hv hb he hl
    rw [encodeMembers, if_neg h1, if_neg h2, ha, hr] at he
    simp only [Option.some.injEq] at he
    subst he
    simp only [valsOK, bitsOKs, tagsOKFs, strOKFs, Bool.and_eq_true] at hv hb ht hs
    simp only [List.length_append] at hl
    exact Elems.cons (ih2 _ ht.1.2 hs.1.2 ht.1.1 hs.1.1 hv.1 hb.1 ha (by omega)) (ih1 _ ht.2 hs.2 hv.2 hb.2 hr (by omega))
  case case32 =>
    rename_i p t r v vs ih b ht hs hv hb he hl
    rw [encodeAlt] at he
    simp only [valsOK, bitsOKs, tagsOKFs, strOKFs, Bool.and_eq_true] at hv hb ht hs
    exact ih _ ht.1.2 hs.1.2 ht.1.1 hs.1.1 hv.1 hb.1 he hl
  case case33 =>
    rename_i p t r v vs n ih b ht hs hv hb he hl
    rw [encodeAlt] at he
    simp only [valsOK, bitsOKs, tagsOKFs, strOKFs, Bool.and_eq_true] at hv hb ht hs
    exact ih _ ht.2 hs.2 hv.2 hb.2 he hl

end Chf.X690
