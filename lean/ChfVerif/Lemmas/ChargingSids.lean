import ChfVerif.Lemmas.ChargingStep
/- session references: injectivity of the construction, shape of the session maps after each operation -/
namespace Chf.Charging
open Chf

/-- value of a digit string (most significant first) -/
def digitsValue : Bytes → Nat → Nat
  | [], acc => acc
  | b :: r, acc => digitsValue r (acc * 10 + (b - 48))

theorem digitsValue_append (a b : Bytes) (acc : Nat) : digitsValue (a ++ b) acc = digitsValue b (digitsValue a acc) := by
  induction a generalizing acc with
  | nil => rfl
  | cons x r ih => simp [digitsValue, ih]

def allDigits (b : Bytes) : Prop := ∀ x ∈ b, 48 ≤ x ∧ x ≤ 57

theorem decimalFuel_spec (f : Nat) : ∀ n, n ≤ f → allDigits (decimalFuel f n) ∧ digitsValue (decimalFuel f n) 0 = n := by
  induction f with
  | zero =>
    intro n hn
    have : n = 0 := by omega
    subst this
    simp [decimalFuel, allDigits, digitsValue]
  | succ f ih =>
    intro n hn
    unfold decimalFuel
    by_cases h10 : n < 10
    · simp only [h10, if_true]
      constructor
      · intro x hx; simp at hx; omega
      · simp [digitsValue]
    · simp only [h10, if_false]
      obtain ⟨hd, hv⟩ := ih (n / 10) (by omega)
      constructor
      · intro x hx
        simp only [List.mem_append, List.mem_singleton] at hx
        rcases hx with hx | hx
        · exact hd x hx
        · omega
      · rw [digitsValue_append, hv]
        simp only [digitsValue]
        omega

theorem decimal_digits (n : Nat) : allDigits (decimal n) := (decimalFuel_spec n n (Nat.le_refl _)).1
theorem decimal_value (n : Nat) : digitsValue (decimal n) 0 = n := (decimalFuel_spec n n (Nat.le_refl _)).2

theorem decimal_injective {a b : Nat} (h : decimal a = decimal b) : a = b := by
  have := congrArg (fun l => digitsValue l 0) h
  simpa [decimal_value] using this

theorem no45_of_digits {b : Bytes} (h : allDigits b) : 45 ∉ b := by
  intro hm; have := h 45 hm; omega

/-- the text after the last '-' is determined by the whole string -/
theorem split_last_dash (p1 : Bytes) : ∀ (p2 d1 d2 : Bytes), 45 ∉ d1 → 45 ∉ d2 →
    p1 ++ 45 :: d1 = p2 ++ 45 :: d2 → d1 = d2 := by
  induction p1 with
  | nil =>
    intro p2 d1 d2 h1 h2 h
    cases p2 with
    | nil => simpa using h
    | cons b p2' =>
      simp only [List.nil_append, List.cons_append, List.cons.injEq] at h
      exact absurd (h.2 ▸ (by simp : (45 : Nat) ∈ p2' ++ 45 :: d2)) h1
  | cons a p1' ih =>
    intro p2 d1 d2 h1 h2 h
    cases p2 with
    | nil =>
      simp only [List.nil_append, List.cons_append, List.cons.injEq] at h
      exact absurd (h.2 ▸ (by simp : (45 : Nat) ∈ p1' ++ 45 :: d1)) h2
    | cons b p2' =>
      simp only [List.cons_append, List.cons.injEq] at h
      exact ih p2' d1 d2 h1 h2 h.2

/-- two session references are equal only if their sequence numbers are equal -/
theorem sessionId_seq_injective {supi1 nf1 supi2 nf2 : Bytes} {n1 n2 : Nat}
    (h : sessionId supi1 nf1 n1 = sessionId supi2 nf2 n2) : n1 = n2 := by
  unfold sessionId at h
  have h' : (supi1 ++ nf1) ++ 45 :: decimal n1 = (supi2 ++ nf2) ++ 45 :: decimal n2 := by
    simpa [List.append_assoc] using h
  exact decimal_injective (split_last_dash _ _ _ _ (no45_of_digits (decimal_digits _)) (no45_of_digits (decimal_digits _)) h')

theorem sessionId_ne_nil (supi nf : Bytes) (n : Nat) : sessionId supi nf n ≠ [] := by
  unfold sessionId; simp


def keysOf (u : Ue) : List Bytes := u.cdr.map (·.1)

def SidBelow (n : Nat) (sid : Bytes) : Prop := sid = [] ∨ ∃ supi nf k, sid = sessionId supi nf k ∧ k < n

/-- every live session reference was issued with a sequence number below the current one -/
def SidsBelow (s : State) : Prop := ∀ u ∈ s.ues, ∀ sid ∈ keysOf u, SidBelow s.sessionSeq sid

theorem SidBelow_mono {n m : Nat} {sid : Bytes} (h : SidBelow n sid) (hnm : n ≤ m) : SidBelow m sid := by
  rcases h with h | ⟨a, b, k, h1, h2⟩
  · left; exact h
  · right; exact ⟨a, b, k, h1, by omega⟩

theorem mem_putUe {ues : List Ue} {u x : Ue} (h : x ∈ putUe ues u) : x = u ∨ x ∈ ues := by
  induction ues with
  | nil => simp [putUe] at h; left; exact h
  | cons a r ih =>
    unfold putUe at h
    by_cases ha : a.supi = u.supi
    · simp only [ha, if_true, List.mem_cons] at h
      rcases h with h | h
      · left; exact h
      · right; simp [h]
    · simp only [ha, if_false, List.mem_cons] at h
      rcases h with h | h
      · right; simp [h]
      · rcases ih h with h' | h'
        · left; exact h'
        · right; simp [h']

theorem mem_of_findUe {ues : List Ue} {supi : Bytes} {u : Ue} (h : findUe ues supi = some u) : u ∈ ues := by
  induction ues with
  | nil => simp [findUe] at h
  | cons a r ih =>
    unfold findUe at h
    by_cases ha : a.supi = supi
    · simp only [ha, if_true, Option.some.injEq] at h; simp [h]
    · simp only [ha, if_false] at h; simp [ih h]

theorem keys_setSid {m : List (Bytes × Nat)} {sid k : Bytes} {v : Nat}
    (h : k ∈ (setSid m sid v).map (·.1)) : k = sid ∨ k ∈ m.map (·.1) := by
  induction m with
  | nil => simp [setSid] at h; left; exact h
  | cons a r ih =>
    obtain ⟨x, y⟩ := a
    unfold setSid at h
    by_cases hx : x = sid
    · simp only [hx, if_true, List.map_cons, List.mem_cons] at h
      rcases h with h | h
      · left; exact h
      · right; simp [h]
    · simp only [hx, if_false, List.map_cons, List.mem_cons] at h
      rcases h with h | h
      · right; simp [h]
      · rcases ih h with h' | h'
        · left; exact h'
        · right; simp [h']

theorem keys_removeSid {m : List (Bytes × Nat)} {sid k : Bytes}
    (h : k ∈ (removeSid m sid).map (·.1)) : k ∈ m.map (·.1) := by
  induction m with
  | nil => simp [removeSid] at h
  | cons a r ih =>
    obtain ⟨x, y⟩ := a
    unfold removeSid at h
    by_cases hx : x = sid
    · simp only [hx, if_true] at h; simp [h]
    · simp only [hx, if_false, List.map_cons, List.mem_cons] at h
      rcases h with h | h
      · simp [h]
      · simp [ih h]

theorem key_of_lookup {m : List (Bytes × Nat)} {sid : Bytes} {i : Nat} (h : lookupSid m sid = some i) :
    sid ∈ m.map (·.1) := by
  induction m with
  | nil => simp [lookupSid] at h
  | cons a r ih =>
    obtain ⟨x, y⟩ := a
    unfold lookupSid at h
    by_cases hx : x = sid
    · simp [hx]
    · simp only [hx, if_false] at h; simp [ih h]

/-- shape of the state after each operation, as far as session references are concerned -/
theorem step_sids (guard : SplitGuard) (s : State) (op : Op) :
    ((step guard s op).1.ues = s.ues ∧ (step guard s op).1.sessionSeq = s.sessionSeq) ∨
    ∃ (ue ue' : Ue), (ue ∈ s.ues ∨ ue.cdr = []) ∧ (step guard s op).1.ues = putUe s.ues ue' ∧
      s.sessionSeq ≤ (step guard s op).1.sessionSeq ∧
      (∀ k ∈ keysOf ue', k ∈ keysOf ue ∨
        (∃ supi nf, k = sessionId supi nf s.sessionSeq ∧ (step guard s op).1.sessionSeq = s.sessionSeq + 1)) := by
  cases op with
  | create r =>
    simp only [step, create]
    cases hnf : r.nf with
    | none => left; exact ⟨rfl, rfl⟩
    | some nf =>
      simp only
      by_cases hp : supiAccepted r.supi = true
      · right
        simp only [hp, not_true_eq_false, if_false]
        by_cases hb : r.bad = true
        · -- refused by OpenCDR: the session map is untouched, the sequence number is not handed back
          simp only [hb, if_true]
          refine ⟨(match findUe s.ues r.supi with | some u => u | none => { supi := r.supi }), _, ?_, rfl, ?_, ?_⟩
          · cases hu : findUe s.ues r.supi with
            | none => right; rfl
            | some u => left; exact mem_of_findUe hu
          · by_cases h1 : r.one = true <;> simp [h1]
          · intro k hk; left; exact hk
        · simp only [hb, Bool.false_eq_true, if_false]
          refine ⟨(match findUe s.ues r.supi with | some u => u | none => { supi := r.supi }), _, ?_, rfl, ?_, ?_⟩
          · cases hu : findUe s.ues r.supi with
            | none => right; rfl
            | some u => left; exact mem_of_findUe hu
          · by_cases h1 : r.one = true <;> simp [h1]
          · intro k hk
            simp only [keysOf] at hk
            by_cases h1 : r.one = true
            · -- a one-time event leaves the session map as it is
              simp only [h1, if_true] at hk; left; exact hk
            · simp only [h1, if_false, Bool.false_eq_true] at hk
              rcases keys_setSid hk with h | h
              · right; exact ⟨r.supi, nf, h, by simp [h1]⟩
              · left; exact h
      · left; simp [hp]
  | update sid r =>
    simp only [step, update]
    cases hu : findUe s.ues r.supi with
    | none => left; exact ⟨rfl, rfl⟩
    | some ue =>
      simp only
      cases hl : lookupSid ue.cdr sid with
      | none => left; exact ⟨rfl, rfl⟩
      | some idx =>
        right
        simp only
        refine ⟨ue, _, Or.inl (mem_of_findUe hu), rfl, Nat.le_refl _, ?_⟩
        intro k hk
        simp only [keysOf] at hk
        by_cases hg : guard (ue.records.getD idx default) r.usages = true
        · simp only [hg, if_true] at hk
          rcases keys_setSid hk with h | h
          · left; rw [h]; exact key_of_lookup hl
          · left; exact h
        · simp only [hg, if_false, Bool.false_eq_true] at hk
          left; exact hk
  | release sid r =>
    simp only [step, release]
    cases hu : findUe s.ues r.supi with
    | none => left; exact ⟨rfl, rfl⟩
    | some ue =>
      simp only
      cases hl : lookupSid ue.cdr sid with
      | none => left; exact ⟨rfl, rfl⟩
      | some idx =>
        right
        simp only
        refine ⟨ue, _, Or.inl (mem_of_findUe hu), rfl, Nat.le_refl _, ?_⟩
        intro k hk
        left; exact keys_removeSid hk
  | recharge info =>
    simp only [step, recharge]
    split
    · split
      · left; exact ⟨rfl, rfl⟩
      · split
        · left; exact ⟨rfl, rfl⟩
        · rename_i ue hu
          right
          exact ⟨ue, _, Or.inl (mem_of_findUe hu), rfl, Nat.le_refl _, fun k hk => Or.inl hk⟩
    · left; exact ⟨rfl, rfl⟩
  | credit a b c =>
    left
    simp only [step, creditAcct]
    split
    · split <;> exact ⟨rfl, rfl⟩
    · exact ⟨rfl, rfl⟩

/-- no subscriber's session map has the empty reference as a key (one-time events, whose Location ends in an empty
    reference, open no session) -/
def NoEmptyKey (s : State) : Prop := ∀ u ∈ s.ues, ([] : Bytes) ∉ keysOf u

theorem NoEmptyKey_step (guard : SplitGuard) (s : State) (op : Op) (h : NoEmptyKey s) : NoEmptyKey (step guard s op).1 := by
  rcases step_sids guard s op with ⟨h1, _⟩ | ⟨ue, ue', hmem, hues, _, hkeys⟩
  · intro u hu; rw [h1] at hu; exact h u hu
  · intro u hu hk
    rw [hues] at hu
    rcases mem_putUe hu with hu' | hu'
    · subst hu'
      rcases hkeys [] hk with hk' | ⟨a, b, hk', _⟩
      · rcases hmem with hm | hm
        · exact h ue hm hk'
        · simp [keysOf, hm] at hk'
      · exact sessionId_ne_nil _ _ _ hk'.symm
    · exact h u hu' hk

theorem NoEmptyKey_run (guard : SplitGuard) (ops : List Op) : ∀ s, NoEmptyKey s → NoEmptyKey (run guard s ops) := by
  induction ops with
  | nil => intro s h; exact h
  | cons op r ih => intro s h; exact ih _ (NoEmptyKey_step guard s op h)

theorem lookupSid_none_of_not_key {m : List (Bytes × Nat)} {sid : Bytes} (h : sid ∉ m.map (·.1)) : lookupSid m sid = none := by
  cases hl : lookupSid m sid with
  | none => rfl
  | some i => exact absurd (key_of_lookup hl) h

end Chf.Charging
