import ChfVerif.Model.LockDiscipline
/- lemmas about the lock-discipline models: propagation of "relies on the caller's mutex" along call chains;
   mutual exclusion of guarded programs under every scheduler -/
namespace Chf.LockDiscipline

/-- if `n` is closed under "called without the mutex by", a chain of such calls that ends in `n` starts in `n` -/
theorem unheldPath_closed {cs : List CallFact} {n : List Nat} (hc : closedUnder cs n = true) {a b : Nat}
    (hp : UnheldPath cs a b) (hb : b ∈ n) : a ∈ n := by
  induction hp with
  | refl a => exact hb
  | step hmem _ ih =>
    have hb' := ih hb
    have := List.all_eq_true.mp hc _ hmem
    simp only [Bool.false_or, Bool.or_eq_true, Bool.not_eq_true', List.contains_eq_mem, decide_eq_false_iff_not,
      decide_eq_true_eq] at this
    rcases this with h | h
    · exact absurd hb' h
    · exact h

/-- the invariant of the mutual-exclusion model: every thread's remaining program keeps the discipline, given whether
    that thread is the holder -/
def Inv (s : Sys) : Prop := ∀ i, guarded (decide (s.holder = some i)) (s.prog i) = true

def LogOK (s : Sys) : Prop := ∀ e ∈ s.log, e.2 = some e.1

theorem setProg_same (s : Sys) (t : Nat) (p : List Ev) : s.setProg t p t = p := by simp [Sys.setProg]

theorem setProg_other (s : Sys) (t i : Nat) (p : List Ev) (h : i ≠ t) : s.setProg t p i = s.prog i := by
  simp [Sys.setProg, h]

theorem step_inv (s : Sys) (t : Nat) (hi : Inv s) (hl : LogOK s) : Inv (s.step t) ∧ LogOK (s.step t) := by
  have ht := hi t
  unfold Sys.step
  cases hp : s.prog t with
  | nil => exact ⟨hi, hl⟩
  | cons e r =>
    rw [hp] at ht
    cases e with
    | lock =>
      simp only
      by_cases hn : s.holder = none
      · simp only [hn, if_true]
        simp only [guarded, hn, Bool.and_eq_true, Bool.not_eq_true'] at ht
        refine ⟨?_, hl⟩
        intro i
        by_cases hit : i = t
        · subst hit
          simp only [setProg_same]
          simpa using ht.2
        · simp only [setProg_other s t i r hit]
          have h1 := hi i
          have e1 : decide (s.holder = some i) = false := by simp [hn]
          have e2 : decide ((some t : Option Nat) = some i) = false := by
            simp only [Option.some.injEq, decide_eq_false_iff_not]; exact fun h => hit h.symm
          rw [e1] at h1; rw [e2]; exact h1
      · simp only [hn, if_false]
        exact ⟨hi, hl⟩
    | unlock =>
      simp only
      simp only [guarded, Bool.and_eq_true, decide_eq_true_eq] at ht
      obtain ⟨hh, hr⟩ := ht
      refine ⟨?_, hl⟩
      intro i
      by_cases hit : i = t
      · subst hit
        simp only [setProg_same]
        simpa using hr
      · simp only [setProg_other s t i r hit]
        have h1 := hi i
        have e1 : decide (s.holder = some i) = false := by
          rw [hh]; simp only [Option.some.injEq, decide_eq_false_iff_not]; exact fun h => hit h.symm
        have e2 : decide ((none : Option Nat) = some i) = false := by simp
        rw [e1] at h1; rw [e2]; exact h1
    | acc =>
      simp only
      simp only [guarded, Bool.and_eq_true, decide_eq_true_eq] at ht
      obtain ⟨hh, hr⟩ := ht
      constructor
      · intro i
        by_cases hit : i = t
        · subst hit
          simp only [setProg_same]
          exact hr
        · simp only [setProg_other s t i r hit]
          exact hi i
      · intro e he
        simp only [List.mem_cons] at he
        rcases he with rfl | he
        · exact hh
        · exact hl e he

theorem run_inv (sched : List Nat) : ∀ s : Sys, Inv s → LogOK s → Inv (s.run sched) ∧ LogOK (s.run sched) := by
  induction sched with
  | nil => intro s hi hl; exact ⟨hi, hl⟩
  | cons t ts ih =>
    intro s hi hl
    obtain ⟨hi', hl'⟩ := step_inv s t hi hl
    exact ih _ hi' hl'

/-- without `giveBack`, every number handed out is below the counter and no number is handed out twice -/
theorem counter_run (evs : List CEv) (h : evs.all (· == .take) = true) :
    ∀ s : CSt, (∀ n ∈ s.taken, n < s.ctr) → s.taken.Nodup →
      (∀ n ∈ (s.run evs).taken, n < (s.run evs).ctr) ∧ (s.run evs).taken.Nodup := by
  induction evs with
  | nil => intro s h1 h2; exact ⟨h1, h2⟩
  | cons e r ih =>
    intro s h1 h2
    simp only [List.all_cons, Bool.and_eq_true, beq_iff_eq] at h
    obtain ⟨he, hr⟩ := h
    subst he
    apply ih hr
    · intro n hn
      simp only [CSt.step, List.mem_cons] at hn ⊢
      rcases hn with rfl | hn
      · omega
      · have := h1 n hn; omega
    · simp only [CSt.step, List.nodup_cons]
      exact ⟨fun hm => Nat.lt_irrefl _ (h1 _ hm), h2⟩

end Chf.LockDiscipline
