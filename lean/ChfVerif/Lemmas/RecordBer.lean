import ChfVerif.Model.RecordBer
/-
  Closed form of the octets of a CHF record: what `Ber.marshal` yields on the regenerated schema type
  for the value OpenCDR / UpdateCDR build, written out with `tlv`.  `recordBytes_eq` is proved by unfolding
  the regenerated `Gen.T_CHFRecord`, so it is re-checked against the schema of the working tree on every run.
-/
namespace Chf.RecordBer
open Chf Chf.Ber Chf.Charging

/-- an INTEGER / ENUMERATED member under IMPLICIT context tag k -/
def intF (k : Nat) (i : Int) : Bytes := tlv 2 false k (intBytes i)

def contEnc (c : Container) : Bytes :=
  tlv 0 true 16 (intF 4 c.total ++ (intF 5 c.up ++ (intF 6 c.down ++ (intF 7 c.ssu ++ (intF 9 c.lsn ++ [])))))

def contsEnc : List Container → Bytes
  | [] => []
  | c :: r => contEnc c ++ contsEnc r

def usageEnc (u : RecUsage) : Bytes :=
  tlv 0 true 16 (intF 0 u.rg ++ (tlv 2 true 1 (contsEnc u.cs) ++ (tlv 2 false 2 u.upf ++ [])))

def usagesEnc : List RecUsage → Bytes
  | [] => []
  | u :: r => usageEnc u ++ usagesEnc r

theorem containers_eq (p : Params) (hs : p.set = false) (cs : List Container) :
    marshalElems Gen.T_UsedUnitContainer { p with tagNumber := none } (containerVals cs) = .ok (contsEnc cs) := by
  induction cs with
  | nil => simp [containerVals, contsEnc, marshalElems]
  | cons c r ih =>
    simp only [containerVals, contsEnc]
    rw [marshalElems, ih]
    have h : marshal Gen.T_UsedUnitContainer { p with tagNumber := none } (containerVal c) = .ok (contEnc c) := by
      simp [Gen.T_UsedUnitContainer, containerVal, Vals.ofList, nils, marshal, marshalFields, nilable, isNilVal,
        Fields.length, finish, seqTag, contEnc, intF, Gen.T_DataVolumeOctets, Gen.T_LocalSequenceNumber, hs]
    rw [h]

theorem usages_eq (p : Params) (hs : p.set = false) (us : List RecUsage) :
    marshalElems Gen.T_MultipleUnitUsage { p with tagNumber := none } (usageVals us) = .ok (usagesEnc us) := by
  induction us with
  | nil => simp [usageVals, usagesEnc, marshalElems]
  | cons u r ih =>
    simp only [usageVals, usagesEnc]
    rw [marshalElems, ih]
    have hc := containers_eq ⟨true, some 1, false, false, false, 0⟩ rfl u.cs
    have h : marshal Gen.T_MultipleUnitUsage { p with tagNumber := none } (usageVal u) = .ok (usageEnc u) := by
      simp [Gen.T_MultipleUnitUsage, usageVal, Vals.ofList, marshal, marshalFields, nilable, isNilVal,
        Fields.length, finish, seqTag, usageEnc, intF, Gen.T_RatingGroupId, Gen.T_NetworkFunctionName, hs, hc, stringTagOf]
    rw [h]

def usageListEnc (emptyList : Bool) (us : List RecUsage) : Bytes :=
  match us with
  | [] => if emptyList then tlv 2 true 5 [] else []
  | _ => tlv 2 true 5 (usagesEnc us)

def optF (cls : Nat) (k : Nat) : Option Bytes → Bytes
  | some b => tlv cls false k b
  | none => []

/-- a text IP address: the CHOICE under context tag k, the IA5String alternative under tag j -/
def ipEnc (k j : Nat) : Option Bytes → Bytes
  | some a => tlv 2 true k (tlv 2 false j a)
  | none => []

def nfiEnc (e : RecEnv) (r : Record) : Bytes :=
  tlv 2 true 3 (tlv 2 false 0 (intBytes e.functionality) ++ (optF 2 1 r.nf ++ (ipEnc 2 2 e.v4 ++ (optF 2 3 e.plmn ++
    (ipEnc 4 3 e.v6 ++ (ipEnc 5 1 e.fqdn ++ []))))))

def pduEnc : Option Pdu → Bytes
  | some d => tlv 2 true 13 (intF 0 d.chargingId ++ (intF 6 d.sessionId ++
      (tlv 2 true 7 (intF 0 d.sst ++ (tlv 2 false 1 d.sd ++ [])) ++ (tlv 2 false 13 d.dnn ++ []))))
  | none => []

def regEnc (b : Bool) : Bytes := if b then tlv 2 true 19 (tlv 2 false 0 (intBytes 0) ++ []) else []

theorem nfi_eq (e : RecEnv) (r : Record) :
    marshal Gen.T_NetworkFunctionInformation ⟨false, some 3, false, false, false, 0⟩ (nfiVal e r) = .ok (nfiEnc e r) := by
  unfold nfiVal nfiEnc
  cases r.nf <;> cases e.v4 <;> cases e.plmn <;> cases e.v6 <;> cases e.fqdn <;>
  simp [Gen.T_NetworkFunctionInformation, Gen.T_NetworkFunctionality, Gen.T_NetworkFunctionName, Gen.T_IPAddress, Gen.T_PLMNId,
    Gen.T_NodeAddress, Vals.ofList, nils, marshal, marshalAlt, marshalFields, nilable, isNilVal, Fields.length, finish, seqTag,
    optF, ipEnc, optStr, optBytes, ipTextVal, fqdnVal, stringTagOf]

theorem pdu_eq (d : Pdu) :
    marshal (.ptr Gen.T_PDUSessionChargingInformation) ⟨true, some 13, false, false, false, 0⟩ (pduVal (some d)) = .ok (pduEnc (some d)) := by
  simp [Gen.T_PDUSessionChargingInformation, Gen.T_ChargingID, Gen.T_PDUSessionId, Gen.T_SingleNSSAI, Gen.T_SliceServiceType,
    Gen.T_SliceDifferentiator, Gen.T_DataNetworkNameIdentifier, pduVal, pduEnc, Vals.ofList, nils, marshal, marshalFields, nilable,
    isNilVal, Fields.length, finish, seqTag, intF, stringTagOf]

theorem reg_eq :
    marshal (.ptr Gen.T_RegistrationChargingInformation) ⟨true, some 19, false, false, false, 0⟩ (regVal true) = .ok (regEnc true) := by
  simp [Gen.T_RegistrationChargingInformation, Gen.T_RegistrationMessageType, regVal, regEnc, Vals.ofList, nils, marshal,
    marshalFields, nilable, isNilVal, Fields.length, finish, seqTag]

theorem isNil_nil : isNilVal Val.nil = true := rfl
theorem isNil_int (i : Int) : isNilVal (Val.int i) = false := rfl
theorem isNil_bytes (b : Bytes) : isNilVal (Val.bytes b) = false := rfl
theorem isNil_str (b : Bytes) : isNilVal (Val.str b) = false := rfl
theorem isNil_list (v : Vals) : isNilVal (Val.list v) = false := rfl
theorem isNil_struct (v : Vals) : isNilVal (Val.struct v) = false := rfl
theorem pduVal_nil : isNilVal (pduVal none) = true := rfl
theorem pduVal_some (d : Pdu) : isNilVal (pduVal (some d)) = false := rfl
theorem regVal_false : isNilVal (regVal false) = true := rfl
theorem regVal_true : isNilVal (regVal true) = false := rfl

/-- the members of cdrType.ChargingRecord that OpenCDR / UpdateCDR / CloseCDR fill, in tag order -/
def recordContent (e : RecEnv) (r : Record) : Bytes :=
  intF 0 200 ++ (tlv 2 false 1 e.nfId ++
  (tlv 2 true 2 (tlv 2 false 0 (intBytes 1) ++ (tlv 2 false 1 r.subData ++ [])) ++
  (nfiEnc e r ++
  (usageListEnc e.emptyList r.usage ++
  (tlv 2 false 6 e.openTime ++ (intF 7 0 ++
  ((match r.rsn with | some n => intF 8 n | none => []) ++
  (intF 9 r.cause ++ (intF 11 r.lsn ++
  (pduEnc e.pdu ++
  (optF 2 16 r.sid ++ (optF 2 17 e.svcSpec ++ (regEnc e.registration ++ (intF 27 r.cid ++ []))))))))))))))

/-- the record as written to the file: `[200] IMPLICIT SEQUENCE` (the selected alternative of the CHOICE CHFRecord) -/
def recordEnc (e : RecEnv) (r : Record) : Bytes := tlv 2 true 200 (recordContent e r)

/-- marshalling the record value on the regenerated schema type succeeds and yields the closed form -/
theorem recordBytes_eq (e : RecEnv) (r : Record) : recordBytes e r = .ok (recordEnc e r) := by
  have hu := usages_eq ⟨true, some 5, false, false, false, 0⟩ rfl r.usage
  have hnfi := nfi_eq e r
  unfold recordBytes recordVal chargingRecordVal recordEnc recordContent
  cases hus : r.usage with
  | nil =>
    cases hr : r.rsn <;> cases hsid : r.sid <;> cases hsv : e.svcSpec <;> cases hpd : e.pdu <;> cases hrg : e.registration <;>
    cases hel : e.emptyList <;>
    simp [marshalElems, seqTag, Gen.T_CHFRecord, Gen.T_ChargingRecord, topParams, Vals.ofList, nils, marshal, marshalAlt, marshalFields, nilable,
      isNil_nil, isNil_int, isNil_bytes, isNil_str, isNil_list, isNil_struct, Fields.length, finish, intF, optF, optBytes, usageListVal, usageListEnc, rsnVal,
      Gen.T_RecordType, Gen.T_NetworkFunctionName, Gen.T_SubscriptionID, Gen.T_SubscriptionIDType,
      Gen.T_TimeStamp, Gen.T_CallDuration, Gen.T_CauseForRecClosing, Gen.T_LocalSequenceNumber,
      Gen.T_ChargingSessionIdentifier, Gen.T_ChargingID, hnfi, pdu_eq, reg_eq, pduVal_nil, pduVal_some, regVal_false, regVal_true,
      pduEnc, regEnc]
  | cons u us =>
    rw [hus] at hu
    cases hr : r.rsn <;> cases hsid : r.sid <;> cases hsv : e.svcSpec <;> cases hpd : e.pdu <;> cases hrg : e.registration <;>
    simp [Gen.T_CHFRecord, Gen.T_ChargingRecord, topParams, Vals.ofList, nils, marshal, marshalAlt, marshalFields, nilable,
      isNil_nil, isNil_int, isNil_bytes, isNil_str, isNil_list, isNil_struct, Fields.length, finish, intF, optF, optBytes, usageListVal, usageListEnc, rsnVal,
      Gen.T_RecordType, Gen.T_NetworkFunctionName, Gen.T_SubscriptionID, Gen.T_SubscriptionIDType,
      Gen.T_TimeStamp, Gen.T_CallDuration, Gen.T_CauseForRecClosing, Gen.T_LocalSequenceNumber,
      Gen.T_ChargingSessionIdentifier, Gen.T_ChargingID, hnfi, pdu_eq, reg_eq, pduVal_nil, pduVal_some, regVal_false, regVal_true,
      pduEnc, regEnc, hu]

end Chf.RecordBer

namespace Chf.RecordBer
open Chf Chf.Ber Chf.Charging

/-! ### sizes -/

/-- number of length octets of a definite-length header -/
def lenLen (n : Nat) : Nat := if n ≤ 127 then 1 else 1 + (lenDigits n).length

theorem lenLen_spec (n : Nat) :
    (n ≤ 127 ∧ lenLen n = 1) ∨ (128 ≤ n ∧ n ≤ 255 ∧ lenLen n = 2) ∨ (256 ≤ n ∧ n ≤ 65535 ∧ lenLen n = 3) ∨
    (65536 ≤ n ∧ n ≤ 16777215 ∧ lenLen n = 4) ∨ (16777216 ≤ n ∧ 4 ≤ lenLen n) := by
  unfold lenLen
  by_cases h1 : n ≤ 127
  · left; simp [h1]
  · simp only [h1, if_false]
    by_cases h2 : n ≤ 255
    · right; left
      refine ⟨by omega, h2, ?_⟩
      unfold lenDigits; simp [show ¬ n > 255 by omega]
    · by_cases h3 : n ≤ 65535
      · right; right; left
        refine ⟨by omega, h3, ?_⟩
        unfold lenDigits; simp only [show n > 255 by omega, if_true, List.length_append, List.length_cons, List.length_nil]
        unfold lenDigits; simp [show ¬ n / 256 > 255 by omega]
      · by_cases h4 : n ≤ 16777215
        · right; right; right; left
          refine ⟨by omega, h4, ?_⟩
          unfold lenDigits; simp only [show n > 255 by omega, if_true, List.length_append, List.length_cons, List.length_nil]
          unfold lenDigits; simp only [show n / 256 > 255 by omega, if_true, List.length_append, List.length_cons, List.length_nil]
          unfold lenDigits; simp [show ¬ n / 256 / 256 > 255 by omega]
        · right; right; right; right
          refine ⟨by omega, ?_⟩
          unfold lenDigits; simp only [show n > 255 by omega, if_true, List.length_append, List.length_cons, List.length_nil]
          unfold lenDigits; simp only [show n / 256 > 255 by omega, if_true, List.length_append, List.length_cons, List.length_nil]
          unfold lenDigits; simp only [show n / 256 / 256 > 255 by omega, if_true, List.length_append, List.length_cons, List.length_nil]
          omega

theorem tlv_length_low (cls : Nat) (c : Bool) (tag : Nat) (content : Bytes) (h : tag ≤ 30) :
    (tlv cls c tag content).length = 1 + lenLen content.length + content.length := by
  unfold tlv header lenLen
  simp only [h, if_true, List.length_append, List.length_cons, List.length_nil]
  split <;> simp <;> omega

theorem tlv_length_200 (content : Bytes) :
    (tlv 2 true 200 content).length = 3 + lenLen content.length + content.length := by
  unfold tlv header lenLen
  have h200 : (highTag 200).length = 2 := by decide
  simp only [show ¬ (200 ≤ 30) by decide, if_false, List.length_append, List.length_cons, List.length_nil, h200]
  split <;> simp <;> omega

theorem usagesEnc_append (a b : List RecUsage) : usagesEnc (a ++ b) = usagesEnc a ++ usagesEnc b := by
  induction a with
  | nil => rfl
  | cons u r ih => simp [usagesEnc, ih]

end Chf.RecordBer

namespace Chf.RecordBer
open Chf Chf.Ber Chf.Charging

theorem chgBytesR_eq (us : List RecUsage) : chgBytesR us = .ok (tlv 0 true 16 (usagesEnc us)) := by
  have hu := usages_eq topParams rfl us
  unfold chgBytesR
  rw [marshal, marshal, hu]
  · rfl
  all_goals (intro h; cases h)

theorem chgLen (us : List RecUsage) :
    lenOf (chgBytesR us) = 1 + lenLen (usagesEnc us).length + (usagesEnc us).length := by
  rw [chgBytesR_eq, lenOf, tlv_length_low _ _ _ _ (by decide)]

/-- length of the members other than the usage list -/
def fixedLen (e : RecEnv) (r : Record) : Nat :=
  (recordContent e { r with usage := [] }).length - (usageListEnc e.emptyList []).length

theorem usageListEnc_length (el : Bool) (us : List RecUsage) :
    (usageListEnc el us).length =
      if us = [] then (if el then 2 else 0) else 1 + lenLen (usagesEnc us).length + (usagesEnc us).length := by
  cases us with
  | nil => cases el <;> simp [usageListEnc]; decide
  | cons u r => simp only [usageListEnc, tlv_length_low _ _ _ _ (show 5 ≤ 30 by decide)]; simp

theorem recordContent_length (e : RecEnv) (r : Record) :
    (recordContent e r).length = fixedLen e r + (usageListEnc e.emptyList r.usage).length := by
  unfold fixedLen recordContent nfiEnc
  simp only [List.length_append]
  omega

theorem recordLen (e : RecEnv) (r : Record) :
    lenOf (recordBytes e r) = 3 + lenLen (recordContent e r).length + (recordContent e r).length := by
  rw [recordBytes_eq, lenOf, recordEnc, tlv_length_200]

theorem fixedLen_append (e : RecEnv) (r : Record) (us : List Usage) : fixedLen e (appendUsage r us) = fixedLen e r := rfl

/-- Size of a record after usage is appended, against what the guard of ChargingDataUpdate adds up:
    the new record is at most 2 octets longer than `len(record) + len(usage)` whenever that sum is within
    the 16-bit limit (the enclosing length fields may widen), and never shorter than … -/
theorem append_size_bound (e : RecEnv) (r : Record) (us : List Usage) (hne : us ≠ [])
    (hsum : lenOf (recordBytes e r) + lenOf (chgBytes us) ≤ 65535) :
    lenOf (recordBytes e (appendUsage r us)) ≤ lenOf (recordBytes e r) + lenOf (chgBytes us) + 2 := by
  have hne' : toRecUsage us ≠ [] := by
    cases us with
    | nil => exact absurd rfl hne
    | cons a b => simp [toRecUsage]
  rw [recordLen, recordLen, chgBytes, chgLen] at *
  rw [recordContent_length e (appendUsage r us), recordContent_length e r, fixedLen_append] at *
  simp only [appendUsage] at *
  rw [usageListEnc_length, usageListEnc_length] at *
  simp only [List.append_eq_nil_iff, hne', and_false, if_false] at *
  rw [usagesEnc_append, List.length_append] at *
  by_cases hu : r.usage = []
  · simp only [hu, if_true, usagesEnc, List.length_nil, Nat.zero_add, Nat.add_zero] at *
    generalize (usagesEnc (toRecUsage us)).length = N at *
    generalize fixedLen e r = F at *
    have h1 := lenLen_spec F
    have h1' := lenLen_spec (F + 2)
    have h2 := lenLen_spec (F + (1 + lenLen N + N))
    cases e.emptyList <;> simp only [Bool.false_eq_true, if_false, if_true, Nat.add_zero] at * <;> omega
  · simp only [hu, if_false] at *
    generalize (usagesEnc r.usage).length = U at *
    generalize (usagesEnc (toRecUsage us)).length = N at *
    generalize fixedLen e r = F at *
    have h1 := lenLen_spec U
    have h2 := lenLen_spec N
    have h3 := lenLen_spec (U + N)
    have h4 := lenLen_spec (F + (1 + lenLen U + U))
    have h5 := lenLen_spec (F + (1 + lenLen (U + N) + (U + N)))
    omega

end Chf.RecordBer

namespace Chf.RecordBer
open Chf Chf.Ber Chf.Charging

/-! ### the bound is attained: a fresh record and a usage whose sizes add up to exactly 65535 -/

def r0 : Record := { sid := none, subData := [], cid := 0, nf := none, lsn := 0, rsn := none, cause := 0, usage := [] }
def e0 : RecEnv := { nfId := [], openTime := [], functionality := 0 }
def bigUsage (L : Nat) : Usage := { rg := 0, req := none, upf := List.replicate L 0, cs := [] }

theorem fixedLen0 : fixedLen e0 r0 = 32 := by decide

theorem bigUsage_len (L : Nat) :
    (usagesEnc (toRecUsage [bigUsage L])).length =
      1 + lenLen (3 + (2 + (1 + lenLen L + L))) + (3 + (2 + (1 + lenLen L + L))) := by
  have hi : (intF 0 0).length = 3 := by decide
  have hc : (tlv 2 true 1 (contsEnc [])).length = 2 := by decide
  simp only [toRecUsage, bigUsage, List.map, usagesEnc, usageEnc, List.append_nil,
    tlv_length_low _ _ _ _ (show 16 ≤ 30 by decide), tlv_length_low _ _ _ _ (show 2 ≤ 30 by decide),
    List.length_append, hi, hc, List.length_replicate]

theorem guard_tight_aux (L : Nat) (hL : L = 65482) :
    berGuard e0 r0 [bigUsage L] = false ∧
    lenOf (recordBytes e0 r0) + lenOf (chgBytes [bigUsage L]) = 65535 ∧
    lenOf (recordBytes e0 (appendUsage r0 [bigUsage L])) = 65537 := by
  have hN := bigUsage_len L
  have h1 := lenLen_spec L
  have h2 := lenLen_spec (3 + (2 + (1 + lenLen L + L)))
  have h3 := lenLen_spec (1 + lenLen (3 + (2 + (1 + lenLen L + L))) + (3 + (2 + (1 + lenLen L + L))))
  have hs : lenOf (recordBytes e0 r0) = 36 := by
    rw [recordLen, recordContent_length, fixedLen0]; decide
  have hc : lenOf (chgBytes [bigUsage L]) = 65499 := by
    rw [chgBytes, chgLen, hN]
    omega
  refine ⟨?_, by omega, ?_⟩
  · unfold berGuard berGuardR CdrDump.startsNewRecord
    rw [← chgBytes, hs, hc]
    simp [toRecUsage]
  · rw [recordLen, recordContent_length, fixedLen_append, fixedLen0]
    simp only [appendUsage, r0, List.nil_append]
    rw [usageListEnc_length, hN]
    have hne : toRecUsage [bigUsage L] ≠ [] := by simp [toRecUsage]
    simp only [hne, if_false]
    have h4 := lenLen_spec (32 + (1 + lenLen (1 + lenLen (3 + (2 + (1 + lenLen L + L))) + (3 + (2 + (1 + lenLen L + L)))) +
      (1 + lenLen (3 + (2 + (1 + lenLen L + L))) + (3 + (2 + (1 + lenLen L + L))))))
    omega

/-- the +2 of `append_size_bound` is attained: record 36 octets + usage 65499 octets = 65535, so the guard does not
    start a new record, and the record written has 65537 octets -/
theorem guard_tight : ∃ L,
    berGuard e0 r0 [bigUsage L] = false ∧
    lenOf (recordBytes e0 r0) + lenOf (chgBytes [bigUsage L]) = 65535 ∧
    lenOf (recordBytes e0 (appendUsage r0 [bigUsage L])) = 65537 := ⟨_, guard_tight_aux _ rfl⟩

end Chf.RecordBer
