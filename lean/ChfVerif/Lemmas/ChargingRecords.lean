import ChfVerif.Lemmas.ChargingStep
import ChfVerif.Lemmas.ChargingSids
/- record bookkeeping over whole histories: what is recorded is what accepted requests reported (C02) -/
namespace Chf.Charging
open Chf

/-- everything recorded for a subscriber, record after record -/
def ueUsage (u : Ue) : List RecUsage := (u.records.map (·.usage)).flatten

def usageOf (s : State) (supi : Bytes) : List RecUsage :=
  match findUe s.ues supi with
  | some u => ueUsage u
  | none => []

/-- every session reference designates an existing record -/
def IdxOK (u : Ue) : Prop := ∀ p ∈ u.cdr, p.2 < u.records.length

def AllIdxOK (s : State) : Prop := ∀ u ∈ s.ues, IdxOK u

theorem flatten_set_usage (rs : List Record) : ∀ (i : Nat) (r' : Record) (x : List RecUsage), (h : i < rs.length) →
    r'.usage = (rs[i]).usage ++ x →
    List.Perm ((rs.set i r').map (·.usage)).flatten ((rs.map (·.usage)).flatten ++ x) := by
  induction rs with
  | nil => intro i r' x h; simp at h
  | cons r rest ih =>
    intro i r' x h he
    cases i with
    | zero =>
      simp only [List.set_cons_zero, List.map_cons, List.flatten_cons, List.getElem_cons_zero] at he ⊢
      rw [he]
      -- (r.usage ++ x) ++ R ~ (r.usage ++ R) ++ x
      rw [List.append_assoc, List.append_assoc]
      exact List.Perm.append_left _ List.perm_append_comm
    | succ i =>
      simp only [List.set_cons_succ, List.map_cons, List.flatten_cons, List.getElem_cons_succ] at he ⊢
      rw [List.append_assoc]
      exact List.Perm.append_left _ (ih i r' x (by simpa using h) he)

theorem mem_of_lookup {m : List (Bytes × Nat)} {k : Bytes} {i : Nat} (h : lookupSid m k = some i) : (k, i) ∈ m := by
  induction m with
  | nil => simp [lookupSid] at h
  | cons a r ih =>
    obtain ⟨k', x⟩ := a
    by_cases hk : k' = k
    · subst hk; simp [lookupSid] at h; subst h; simp
    · simp only [lookupSid, hk, if_false] at h; simp [ih h]

theorem mem_setSid {m : List (Bytes × Nat)} {sid : Bytes} {v : Nat} {p : Bytes × Nat} (h : p ∈ setSid m sid v) :
    p = (sid, v) ∨ p ∈ m := by
  induction m with
  | nil => simp [setSid] at h; left; exact h
  | cons a r ih =>
    obtain ⟨k', x⟩ := a
    by_cases hk : k' = sid
    · subst hk
      simp only [setSid, if_true, List.mem_cons] at h
      rcases h with h | h
      · left; exact h
      · right; simp [h]
    · simp only [setSid, hk, if_false, List.mem_cons] at h
      rcases h with h | h
      · right; simp [h]
      · rcases ih h with h' | h'
        · left; exact h'
        · right; simp [h']

theorem mem_removeSid {m : List (Bytes × Nat)} {sid : Bytes} {p : Bytes × Nat} (h : p ∈ removeSid m sid) : p ∈ m := by
  induction m with
  | nil => simp [removeSid] at h
  | cons a r ih =>
    obtain ⟨k', x⟩ := a
    by_cases hk : k' = sid
    · simp only [removeSid, hk, if_true] at h; simp [h]
    · simp only [removeSid, hk, if_false, List.mem_cons] at h
      rcases h with h | h
      · simp [h]
      · simp [ih h]

/-- what one operation adds to the recorded usage of subscriber `supi` -/
def contributed (guard : SplitGuard) (s : State) (op : Op) (supi : Bytes) : List RecUsage :=
  match op with
  | .create r => if (create s r).2.status = 201 ∧ r.supi = supi then toRecUsage r.usages else []
  | .update sid r => if (update guard s sid r).2.status = 200 ∧ r.supi = supi then toRecUsage r.usages else []
  | .release sid r => if (release s sid r).2.status = 204 ∧ r.supi = supi then toRecUsage r.usages else []
  | _ => []

theorem usageOf_ues_same {s s' : State} {u : Ue} (h : s'.ues = putUe s.ues u) : usageOf s' u.supi = ueUsage u := by
  unfold usageOf; rw [h, findUe_putUe_same]

theorem usageOf_ues_other {s s' : State} {u : Ue} (h : s'.ues = putUe s.ues u) (supi : Bytes) (hne : supi ≠ u.supi) :
    usageOf s' supi = usageOf s supi := by
  unfold usageOf; rw [h, findUe_putUe_other _ _ _ hne]

theorem allIdx_ues {s s' : State} {u : Ue} (hinv : AllIdxOK s) (hu : IdxOK u) (h : s'.ues = putUe s.ues u) : AllIdxOK s' := by
  intro x hx
  rw [h] at hx
  rcases mem_putUe hx with rfl | hx'
  · exact hu
  · exact hinv x hx'

theorem idxOK_of_find {s : State} {supi : Bytes} {u : Ue} (hinv : AllIdxOK s) (h : findUe s.ues supi = some u) : IdxOK u :=
  hinv u (mem_of_findUe h)

/-- the subscriber context a create works on: the existing one or a fresh one -/
def ueOr (s : State) (r : Req) : Ue :=
  match findUe s.ues r.supi with
  | some u => u
  | none => { supi := r.supi }

theorem create_ok (s : State) (r : Req) (nf : Bytes) (hnf : r.nf = some nf) (hp : supiAccepted r.supi = true)
    (hb : r.bad = false) :
    ∃ (ue' : Ue) (rec1 : Record) (sid : Bytes), (create s r).2.status = 201 ∧ (create s r).1.ues = putUe s.ues ue' ∧
      rec1.usage = toRecUsage r.usages ∧ ue'.records = (ueOr s r).records ++ [rec1] ∧
      ue'.cdr = (if r.one then (ueOr s r).cdr else setSid (ueOr s r).cdr sid (ueOr s r).records.length) ∧
      ue'.supi = (ueOr s r).supi := by
  unfold create ueOr
  simp only [hnf, hp, hb, not_true_eq_false, if_false, Bool.false_eq_true]
  refine ⟨_, _, _, trivial, rfl, ?_, rfl, rfl, rfl⟩
  simp [appendUsage]

theorem create_rej (s : State) (r : Req) (h : r.nf = none ∨ supiAccepted r.supi = false) :
    create s r = (s, { status := 400 }) := by
  unfold create
  rcases h with h | h
  · simp [h]
  · cases hnf : r.nf with
    | none => rfl
    | some nf => simp [h]

/-- a create that OpenCDR refuses (malformed PLMN id, incomplete PDU session information): answered 400; by then the
    subscriber context exists (empty if the subscriber was unknown) and a session-based create has used up a sequence
    number - accounts, reservations, records, session map and notification address are as before -/
theorem create_bad (s : State) (r : Req) (nf : Bytes) (hnf : r.nf = some nf) (hp : supiAccepted r.supi = true)
    (hb : r.bad = true) :
    create s r = ({ s with ues := putUe s.ues (ueOr s r),
                           sessionSeq := if r.one then s.sessionSeq else s.sessionSeq + 1 }, { status := 400 }) := by
  unfold create ueOr
  simp only [hnf, hp, hb, not_true_eq_false, if_false, if_true]
  rfl

theorem ueOr_supi (s : State) (r : Req) : (ueOr s r).supi = r.supi := by
  unfold ueOr; cases hf : findUe s.ues r.supi with
  | none => rfl
  | some u => simp only; exact findUe_supi hf

theorem ueOr_idxOK {s : State} (hinv : AllIdxOK s) (r : Req) : IdxOK (ueOr s r) := by
  unfold ueOr; cases hf : findUe s.ues r.supi with
  | none => intro p hp'; simp at hp'
  | some u => simp only; exact idxOK_of_find hinv hf

theorem usageOf_ueOr (s : State) (r : Req) : usageOf s r.supi = ueUsage (ueOr s r) := by
  unfold usageOf ueOr; cases hf : findUe s.ues r.supi with
  | none => simp [ueUsage]
  | some u => rfl

/-- an accepted create: the subscriber's context gets one more record holding the request's usage -/
theorem usage_create (guard : SplitGuard) (s : State) (r : Req) (supi : Bytes) (hinv : AllIdxOK s) :
    List.Perm (usageOf (create s r).1 supi) (usageOf s supi ++ contributed guard s (.create r) supi) ∧
    AllIdxOK (create s r).1 := by
  unfold contributed
  by_cases hacc : ∃ nf, r.nf = some nf ∧ supiAccepted r.supi = true
  · obtain ⟨nf, hnf, hp⟩ := hacc
    have hsupi := ueOr_supi s r
    have hidx := ueOr_idxOK hinv r
    have hprev := usageOf_ueOr s r
    cases hb : r.bad with
    | true =>
      -- refused by OpenCDR: nothing is recorded
      have e := create_bad s r nf hnf hp hb
      have hues : (create s r).1.ues = putUe s.ues (ueOr s r) := by rw [e]
      have hst : (create s r).2.status = 400 := by rw [e]
      refine ⟨?_, allIdx_ues hinv hidx hues⟩
      simp only [hst, show ¬ (400 = 201) by decide, false_and, if_false, List.append_nil]
      by_cases hs : r.supi = supi
      · subst hs
        have := usageOf_ues_same (s := s) hues
        simp only [hsupi] at this
        rw [this, hprev]
      · rw [usageOf_ues_other hues supi (by simp only [hsupi]; exact fun h => hs h.symm)]
    | false =>
    obtain ⟨ue', rec1, sid, hst, hues, hru, hrecs, hcdr, hsup'⟩ := create_ok s r nf hnf hp hb
    have hidx' : IdxOK ue' := by
      intro p hp'
      rw [hcdr] at hp'
      rw [hrecs, List.length_append]
      by_cases h1 : r.one = true
      · simp only [h1, if_true] at hp'
        have := hidx p hp'; simp; omega
      · simp only [h1, if_false, Bool.false_eq_true] at hp'
        rcases mem_setSid hp' with rfl | h'
        · simp
        · have := hidx p h'; simp; omega
    refine ⟨?_, allIdx_ues hinv hidx' hues⟩
    by_cases hs : r.supi = supi
    · subst hs
      simp only [hst, true_and, if_true]
      have := usageOf_ues_same (s := s) hues
      rw [hsup', hsupi] at this
      rw [this, hprev]
      simp [ueUsage, hrecs, hru]
    · simp only [hs, and_false, if_false, List.append_nil]
      rw [usageOf_ues_other hues supi (by rw [hsup', hsupi]; exact fun h => hs h.symm)]
  · have e : create s r = (s, { status := 400 }) := by
      apply create_rej
      cases hnf : r.nf with
      | none => left; rfl
      | some nf =>
        right
        cases hp : supiAccepted r.supi with
        | false => rfl
        | true => exact absurd ⟨nf, hnf, hp⟩ hacc
    simp [e, hinv]


theorem getD_eq_getElem (rs : List Record) (i : Nat) (h : i < rs.length) : rs.getD i default = rs[i] := by
  simp [List.getD, List.getElem?_eq_getElem h]

theorem update_ok (guard : SplitGuard) (s : State) (sid : Bytes) (r : Req) (ue : Ue) (idx : Nat)
    (hu : findUe s.ues r.supi = some ue) (hl : lookupSid ue.cdr sid = some idx) (hidx : IdxOK ue) :
    ∃ ue' : Ue, (update guard s sid r).2.status = 200 ∧ (update guard s sid r).1.ues = putUe s.ues ue' ∧
      ue'.supi = ue.supi ∧ List.Perm (ueUsage ue') (ueUsage ue ++ toRecUsage r.usages) ∧ IdxOK ue' := by
  have hlt : idx < ue.records.length := hidx (sid, idx) (mem_of_lookup hl)
  simp only [update, hu, hl]
  by_cases hg : guard (ue.records.getD idx default) r.usages = true
  · simp only [hg, if_true]
    refine ⟨_, trivial, rfl, rfl, ?_, ?_⟩
    · -- the session continues in a fresh record appended at the end
      simp only [ueUsage, setRecord]
      have hlen : ue.records.length < (ue.records ++ [{ ue.records.getD idx default with usage := [] }]).length := by simp
      have hget : (ue.records ++ [{ ue.records.getD idx default with usage := [] }]).getD ue.records.length default =
          { ue.records.getD idx default with usage := [] } := by
        rw [getD_eq_getElem _ _ hlen]; simp
      rw [hget]
      have := flatten_set_usage (ue.records ++ [{ ue.records.getD idx default with usage := [] }]) ue.records.length
        (if partialOf r.trigs r.usages false = true then
          { appendUsage { ue.records.getD idx default with usage := [] } r.usages with cause := 1, rsn := some 1 }
         else appendUsage { ue.records.getD idx default with usage := [] } r.usages) (toRecUsage r.usages) hlen
        (by split <;> simp [appendUsage])
      simpa using this
    · intro p hp
      simp only [setRecord, List.length_set, List.length_append, List.length_cons, List.length_nil]
      rcases mem_setSid hp with rfl | h'
      · simp
      · have := hidx p h'; omega
  · simp only [hg, Bool.false_eq_true, if_false]
    refine ⟨_, trivial, rfl, rfl, ?_, ?_⟩
    · simp only [ueUsage, setRecord]
      rw [getD_eq_getElem _ _ hlt]
      have := flatten_set_usage ue.records idx
        (if partialOf r.trigs r.usages false = true then
          { appendUsage ue.records[idx] r.usages with cause := 1, rsn := some 1 }
         else appendUsage ue.records[idx] r.usages) (toRecUsage r.usages) hlt
        (by split <;> simp [appendUsage])
      exact this
    · intro p hp
      simp only [setRecord, List.length_set]
      exact hidx p hp

theorem release_ok (s : State) (sid : Bytes) (r : Req) (ue : Ue) (idx : Nat)
    (hu : findUe s.ues r.supi = some ue) (hl : lookupSid ue.cdr sid = some idx) (hidx : IdxOK ue) :
    ∃ ue' : Ue, (release s sid r).2.status = 204 ∧ (release s sid r).1.ues = putUe s.ues ue' ∧
      ue'.supi = ue.supi ∧ List.Perm (ueUsage ue') (ueUsage ue ++ toRecUsage r.usages) ∧ IdxOK ue' := by
  have hlt : idx < ue.records.length := hidx (sid, idx) (mem_of_lookup hl)
  simp only [release, hu, hl]
  refine ⟨_, trivial, rfl, rfl, ?_, ?_⟩
  · simp only [ueUsage, setRecord]
    rw [getD_eq_getElem _ _ hlt]
    exact flatten_set_usage ue.records idx { appendUsage ue.records[idx] r.usages with cause := 0 } (toRecUsage r.usages) hlt
      (by simp [appendUsage])
  · intro p hp
    simp only [setRecord, List.length_set]
    exact hidx p (mem_removeSid hp)


/-- one operation adds exactly what it contributes (as a multiset) and keeps every reference valid -/
theorem usage_step (guard : SplitGuard) (s : State) (op : Op) (supi : Bytes) (hinv : AllIdxOK s) :
    List.Perm (usageOf (step guard s op).1 supi) (usageOf s supi ++ contributed guard s op supi) ∧
    AllIdxOK (step guard s op).1 := by
  cases op with
  | create r => exact usage_create guard s r supi hinv
  | update sid r =>
    simp only [step, contributed]
    cases hu : findUe s.ues r.supi with
    | none => simp [update, hu, hinv]
    | some ue =>
      cases hl : lookupSid ue.cdr sid with
      | none => simp [update, hu, hl, hinv]
      | some idx =>
        obtain ⟨ue', hst, hues, hsup, hperm, hidx'⟩ := update_ok guard s sid r ue idx hu hl (idxOK_of_find hinv hu)
        have hrs := findUe_supi hu
        refine ⟨?_, allIdx_ues hinv hidx' hues⟩
        by_cases hs : r.supi = supi
        · subst hs
          simp only [hst, true_and, if_true]
          have h1 := usageOf_ues_same (s := s) hues
          rw [hsup, hrs] at h1
          rw [h1]
          have h2 : usageOf s r.supi = ueUsage ue := by unfold usageOf; rw [hu]
          rw [h2]; exact hperm
        · simp only [hs, and_false, if_false, List.append_nil]
          rw [usageOf_ues_other hues supi (by rw [hsup, hrs]; exact fun h => hs h.symm)]
  | release sid r =>
    simp only [step, contributed]
    cases hu : findUe s.ues r.supi with
    | none => simp [release, hu, hinv]
    | some ue =>
      cases hl : lookupSid ue.cdr sid with
      | none => simp [release, hu, hl, hinv]
      | some idx =>
        obtain ⟨ue', hst, hues, hsup, hperm, hidx'⟩ := release_ok s sid r ue idx hu hl (idxOK_of_find hinv hu)
        have hrs := findUe_supi hu
        refine ⟨?_, allIdx_ues hinv hidx' hues⟩
        by_cases hs : r.supi = supi
        · subst hs
          simp only [hst, true_and, if_true]
          have h1 := usageOf_ues_same (s := s) hues
          rw [hsup, hrs] at h1
          rw [h1]
          have h2 : usageOf s r.supi = ueUsage ue := by unfold usageOf; rw [hu]
          rw [h2]; exact hperm
        · simp only [hs, and_false, if_false, List.append_nil]
          rw [usageOf_ues_other hues supi (by rw [hsup, hrs]; exact fun h => hs h.symm)]
  | recharge info =>
    simp only [step, contributed, List.append_nil]
    have hshape : (recharge s info).1.ues = s.ues ∨
        ∃ ue ue' : Ue, findUe s.ues ue.supi = some ue ∧ (recharge s info).1.ues = putUe s.ues ue' ∧
          ue'.supi = ue.supi ∧ ue'.records = ue.records ∧ ue'.cdr = ue.cdr := by
      unfold recharge
      split
      · rename_i ueId rgStr _
        cases hp : parseInt32 rgStr with
        | none => left; rfl
        | some rg =>
          simp only
          cases hu : findUe s.ues ueId with
          | none => left; rfl
          | some ue =>
            right
            have hsupi := findUe_supi hu
            exact ⟨ue, _, by rw [hsupi]; exact hu, rfl, rfl, rfl, rfl⟩
      · left; rfl
    rcases hshape with h | ⟨ue, ue', hf, hues, hsup, hrec, hcdr⟩
    · refine ⟨by unfold usageOf; rw [h], ?_⟩
      intro u hu; rw [h] at hu; exact hinv u hu
    · have hidx' : IdxOK ue' := by
        intro p hp; rw [hcdr] at hp; rw [hrec]; exact idxOK_of_find hinv hf p hp
      refine ⟨?_, allIdx_ues hinv hidx' hues⟩
      by_cases hs : ue.supi = supi
      · subst hs
        have h1 := usageOf_ues_same (s := s) hues
        rw [hsup] at h1
        rw [h1]
        have h2 : usageOf s ue.supi = ueUsage ue := by unfold usageOf; rw [hf]
        rw [h2]; simp [ueUsage, hrec]
      · rw [usageOf_ues_other hues supi (by rw [hsup]; exact fun h => hs h.symm)]
  | credit supi' rg amt =>
    simp only [step, contributed, List.append_nil]
    have : (creditAcct s supi' rg amt).ues = s.ues := by
      unfold creditAcct; split <;> (try split) <;> rfl
    refine ⟨by unfold usageOf; rw [this], ?_⟩
    intro u hu; rw [this] at hu; exact hinv u hu


/-- what a history contributes, operation after operation -/
def contributedRun (guard : SplitGuard) (supi : Bytes) : State → List Op → List RecUsage
  | _, [] => []
  | s, op :: r => contributed guard s op supi ++ contributedRun guard supi (step guard s op).1 r

/-- every history: what is recorded for a subscriber is, as a multiset, exactly what the accepted requests of
    that subscriber reported — nothing lost, nothing recorded twice, nothing foreign -/
theorem usage_run (guard : SplitGuard) (supi : Bytes) (ops : List Op) :
    ∀ s, AllIdxOK s →
      List.Perm (usageOf (run guard s ops) supi) (usageOf s supi ++ contributedRun guard supi s ops) ∧
      AllIdxOK (run guard s ops) := by
  induction ops with
  | nil => intro s h; simp [run, contributedRun, h]
  | cons op r ih =>
    intro s h
    obtain ⟨h1, h2⟩ := usage_step guard s op supi h
    obtain ⟨h3, h4⟩ := ih _ h2
    refine ⟨?_, h4⟩
    simp only [run, contributedRun]
    refine h3.trans ?_
    rw [← List.append_assoc]
    exact List.Perm.append_right _ h1

theorem allIdx_init (accts : Abmf.Store) (tariffs : List Rating.Tariff) : AllIdxOK { accts := accts, tariffs := tariffs } := by
  intro u hu; simp at hu


/-! ### rejected requests -/

/-- what a subscriber context holds of money and records: reservations / rating modes, session map, records
    (a subscriber without context holds nothing) -/
def ueView (s : State) (supi : Bytes) : List (Int × RgState) × List (Bytes × Nat) × List Record :=
  match findUe s.ues supi with
  | some u => (u.groups, u.cdr, u.records)
  | none => ([], [], [])

/-- a request answered 4xx leaves the state as it was, unless it is a create that OpenCDR refused -/
theorem rejected_same (guard : SplitGuard) (s : State) (op : Op)
    (h4 : (step guard s op).2.status = 400 ∨ (step guard s op).2.status = 404)
    (hnb : ∀ r, op = .create r → r.bad = false) : (step guard s op).1 = s := by
  cases op with
  | create r =>
    have hb := hnb r rfl
    simp only [step, create, hb] at h4 ⊢
    split
    · rfl
    · split
      · rfl
      · rename_i hnf hp
        simp only [hnf, hp, if_false] at h4
        simp at h4
  | update sid r =>
    simp only [step, update] at h4 ⊢
    split
    · rfl
    · rename_i ue hu
      split
      · rfl
      · rename_i idx hl
        simp only [hu, hl] at h4
        simp at h4
  | release sid r =>
    simp only [step, release] at h4 ⊢
    split
    · rfl
    · rename_i ue hu
      split
      · rfl
      · rename_i idx hl
        simp only [hu, hl] at h4
        simp at h4
  | recharge info =>
    simp only [step, recharge] at h4 ⊢
    split
    · rename_i ueId rgStr hsp
      split
      · rfl
      · rename_i rg hp
        split
        · rfl
        · rename_i ue hu
          simp only [hsp, hp, hu] at h4
          simp at h4
    · rfl
  | credit a b c => simp [step] at h4

/-- every request answered 4xx - the creates refused by OpenCDR included - leaves the accounts, the tariffs, the
    record numbering and every subscriber's reservations, rating modes, session map and records as they were -/
theorem rejected_view (guard : SplitGuard) (s : State) (op : Op)
    (h4 : (step guard s op).2.status = 400 ∨ (step guard s op).2.status = 404) :
    (step guard s op).1.accts = s.accts ∧ (step guard s op).1.tariffs = s.tariffs ∧
    (step guard s op).1.localSeq = s.localSeq ∧ ∀ supi, ueView (step guard s op).1 supi = ueView s supi := by
  by_cases hnb : ∀ r, op = .create r → r.bad = false
  · rw [rejected_same guard s op h4 hnb]; exact ⟨rfl, rfl, rfl, fun _ => rfl⟩
  · have : ∃ r, op = .create r ∧ r.bad = true := by
      apply Classical.byContradiction
      intro hne
      apply hnb
      intro r hr
      cases hb : r.bad with
      | false => rfl
      | true => exact absurd ⟨r, hr, hb⟩ hne
    obtain ⟨r, rfl, hb⟩ := this
    cases hnf : r.nf with
    | none => rw [show step guard s (.create r) = create s r from rfl, create_rej s r (Or.inl hnf)]; exact ⟨rfl, rfl, rfl, fun _ => rfl⟩
    | some nf =>
      cases hp : supiAccepted r.supi with
      | false => rw [show step guard s (.create r) = create s r from rfl, create_rej s r (Or.inr hp)]; exact ⟨rfl, rfl, rfl, fun _ => rfl⟩
      | true =>
        rw [show step guard s (.create r) = create s r from rfl, create_bad s r nf hnf hp hb]
        refine ⟨rfl, rfl, rfl, ?_⟩
        intro supi
        unfold ueView
        simp only
        by_cases hs : supi = r.supi
        · subst hs
          have h1 : (ueOr s r).supi = r.supi := ueOr_supi s r
          have key := findUe_putUe_same s.ues (ueOr s r)
          rw [h1] at key
          rw [key]
          unfold ueOr
          cases hf : findUe s.ues r.supi <;> rfl
        · rw [findUe_putUe_other _ _ _ (by rw [ueOr_supi s r]; exact hs)]

end Chf.Charging
