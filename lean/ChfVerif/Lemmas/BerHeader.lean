import ChfVerif.Lemmas.BerInt
import ChfVerif.Spec.BerSpec
/- identifier and length octets: model encoder = X.690 reference -/
namespace Chf.Ber
open Chf Chf.X690

theorem tagDigits_eq (f : Nat) : ∀ t, t < 128 ^ (f + 1) → tagDigits t f = base128 t (f + 1) := by
  induction f with
  | zero => intro t h; simp at h; simp [tagDigits, base128, h]
  | succ f ih =>
    intro t h
    unfold tagDigits base128
    by_cases h1 : t < 128
    · have : ¬ t > 127 := by omega
      simp [h1, this]
    · have : t > 127 := by omega
      simp only [h1, this, if_true, if_false]
      rw [ih (t / 128) (by
        rw [Nat.pow_succ] at h
        exact Nat.div_lt_of_lt_mul (by rw [Nat.mul_comm]; exact h))]

theorem lenDigits_eq (f : Nat) : ∀ l, l < 256 ^ (f + 1) → lenDigits l f = base256 l (f + 1) := by
  induction f with
  | zero => intro l h; simp at h; simp [lenDigits, base256, h]
  | succ f ih =>
    intro l h
    unfold lenDigits base256
    by_cases h1 : l < 256
    · have : ¬ l > 255 := by omega
      simp [h1, this]
    · have : l > 255 := by omega
      simp only [h1, this, if_true, if_false]
      rw [ih (l / 256) (by
        rw [Nat.pow_succ] at h
        exact Nat.div_lt_of_lt_mul (by rw [Nat.mul_comm]; exact h))]

theorem tagDigits_ne_nil (t f : Nat) : tagDigits t f ≠ [] := by
  cases f with
  | zero => simp [tagDigits]
  | succ f => unfold tagDigits; split <;> simp

theorem drop_last {α} [Inhabited α] (l : List α) (d : α) (h : l ≠ []) : l.drop (l.length - 1) = [l.getLastD d] := by
  induction l with
  | nil => exact absurd rfl h
  | cons a r ih =>
    cases r with
    | nil => simp
    | cons b r' =>
      have := ih (by simp)
      simp only [List.length_cons] at this ⊢
      simp only [Nat.add_sub_cancel] at this ⊢
      rw [List.drop_succ_cons]
      simpa using this

theorem tagPart_eq (first tag : Nat) (ht : tag < 18446744073709551616) :
    (if tag ≤ 30 then [first + tag] else (first + 31) :: highTag tag) =
    (if tag < 31 then [first + tag]
     else (first + 31) :: ((base128 tag 11).dropLast.map (fun d => 128 + d) ++ (base128 tag 11).drop ((base128 tag 11).length - 1))) := by
  by_cases h30 : tag ≤ 30
  · have : tag < 31 := by omega
    simp [h30, this]
  · have : ¬ tag < 31 := by omega
    simp only [h30, this, if_false]
    unfold highTag
    have hd := tagDigits_eq 10 tag (Nat.lt_of_lt_of_le ht (by decide))
    have hd' : tagDigits tag = base128 tag 11 := hd
    simp only [hd']
    have hne : base128 tag 11 ≠ [] := by rw [← hd']; exact tagDigits_ne_nil _ _
    rw [drop_last _ 0 hne]
    congr 2
    apply List.map_congr_left
    intro a _; omega

theorem lenPart_eq (len : Nat) (hl : len < 18446744073709551616) :
    (if len ≤ 127 then [len] else (128 + (lenDigits len).length) :: lenDigits len) =
    (if len < 128 then [len] else (128 + (base256 len 9).length) :: base256 len 9) := by
  by_cases h127 : len ≤ 127
  · have : len < 128 := by omega
    simp [h127, this]
  · have : ¬ len < 128 := by omega
    simp only [h127, this, if_false]
    have hd : lenDigits len = base256 len 9 := lenDigits_eq 8 len (Nat.lt_of_lt_of_le hl (by decide))
    rw [hd]

/-- identifier and length octets: the model's appendTagAndLen writes exactly the X.690 minimal forms -/
theorem header_eq (cls : Nat) (c : Bool) (tag len : Nat) (ht : tag < 18446744073709551616) (hl : len < 18446744073709551616) :
    header cls c tag len = identifier cls c tag ++ lengthOctets len := by
  unfold header identifier lengthOctets
  have e1 : cls * 64 + (if c then 32 else 0) = 64 * cls + (if c then 32 else 0) := by omega
  rw [e1]
  simp only []
  rw [tagPart_eq _ _ ht, lenPart_eq _ hl]

theorem tlv_eq (cls : Nat) (c : Bool) (tag : Nat) (content : Bytes)
    (ht : tag < 18446744073709551616) (hl : content.length < 18446744073709551616) :
    tlv cls c tag content = element cls c tag content := by
  unfold tlv element
  rw [header_eq cls c tag _ ht hl]

theorem tlv_length_ge (cls : Nat) (c : Bool) (tag : Nat) (content : Bytes) : content.length ≤ (tlv cls c tag content).length := by
  unfold tlv; simp

theorem finish_length_ge (p : Params) (c : Bool) (tag : Nat) (content : Bytes) :
    content.length ≤ (finish p c tag content).length := by
  unfold finish
  split
  · split
    · exact Nat.le_trans (tlv_length_ge 0 c tag content) (tlv_length_ge _ _ _ _)
    · exact tlv_length_ge _ _ _ _
  · exact tlv_length_ge _ _ _ _

theorem finish_eq (p : Params) (c : Bool) (tag : Nat) (content : Bytes) (hp : paramsOK p = true)
    (ht : tag < 18446744073709551616) (hl : (finish p c tag content).length < 18446744073709551616) :
    finish p c tag content = tagged p c tag content := by
  unfold finish tagged at *
  unfold paramsOK at hp
  cases hn : p.tagNumber with
  | none =>
    simp only [hn] at hl ⊢
    exact tlv_eq _ _ _ _ ht (Nat.lt_of_le_of_lt (tlv_length_ge _ _ _ _) hl)
  | some n =>
    simp only [hn, Bool.and_eq_true, decide_eq_true_eq] at hp hl ⊢
    by_cases he : p.explicit = true
    · simp only [he, if_true] at hl ⊢
      have h1 := tlv_length_ge 2 true n (tlv 0 c tag content)
      have h2 := tlv_length_ge 0 c tag content
      have e0 := tlv_eq 0 c tag content ht (by omega)
      rw [e0] at hl h1 ⊢
      rw [tlv_eq 2 true n _ hp.1 (by omega)]
    · simp only [he, if_false, Bool.false_eq_true] at hl ⊢
      exact tlv_eq _ _ _ _ hp.1 (Nat.lt_of_le_of_lt (tlv_length_ge _ _ _ _) hl)

end Chf.Ber
