import ChfVerif.Model.Basic
/- bit-level helper lemmas on `Nat` (shifts and masks ↔ div / mod / plus) -/
namespace Chf

theorem shl_or_of_lt {a b i : Nat} (h : b < 2 ^ i) : a <<< i ||| b = a * 2 ^ i + b := by
  rw [← Nat.shiftLeft_add_eq_or_of_lt h, Nat.shiftLeft_eq]

theorem or_shl_of_lt {a b i : Nat} (h : b < 2 ^ i) : b ||| a <<< i = a * 2 ^ i + b := by
  rw [Nat.or_comm]; exact shl_or_of_lt h

theorem and31 (x : Nat) : x &&& 31 = x % 32 := Nat.and_two_pow_sub_one_eq_mod x 5
theorem and63 (x : Nat) : x &&& 63 = x % 64 := Nat.and_two_pow_sub_one_eq_mod x 6
theorem and1 (x : Nat) : x &&& 1 = x % 2 := Nat.and_two_pow_sub_one_eq_mod x 1

theorem rd32_be32 {x : Nat} (h : x < 4294967296) :
    rd32 (x / 16777216 % 256) (x / 65536 % 256) (x / 256 % 256) (x % 256) = x := by
  unfold rd32; omega

theorem rd16_be16 {x : Nat} (h : x < 65536) : rd16 (x / 256 % 256) (x % 256) = x := by
  unfold rd16; omega

end Chf
