import ChfVerif.Spec.BerSpec
/- the decoder model never reaches a Go panic: lemmas about the partial accessors and the header parser -/
namespace Chf.Ber
open Chf

theorem idx_ok {b : Bytes} {i : Nat} (h : i < b.length) : ∃ x, idx b i = .ok x := by
  unfold idx
  rw [List.getElem?_eq_getElem h]
  exact ⟨_, rfl⟩

theorem sub_ok {b : Bytes} {i j : Nat} (h : i ≤ j ∧ j ≤ b.length) : ∃ x, sub b i j = .ok x := by
  unfold sub; rw [if_pos h]; exact ⟨_, rfl⟩

theorem from_ok {b : Bytes} {i : Nat} (h : i ≤ b.length) : from_ b i = .ok (b.drop i) := by
  unfold from_; rw [if_pos h]

/-- the header parser never panics, and a header it accepts lies inside the input -/
theorem parseTagAndLength_spec (b : Bytes) :
    parseTagAndLength b ≠ .panic ∧ ∀ t, parseTagAndLength b = .ok t → 1 ≤ t.off ∧ t.off ≤ b.length := by
  unfold parseTagAndLength
  by_cases h0 : b.length = 0
  · simp [h0]
  · simp only [h0, if_false]
    obtain ⟨b0, hb0⟩ := idx_ok (b := b) (i := 0) (by omega)
    simp only [hb0]
    generalize hto : (if b0 % 32 ≠ 31 then (b0 % 32, 1) else highTagLoop b 1 0 b.length) = to
    obtain ⟨tag, off⟩ := to
    simp only
    by_cases h1 : b0 % 32 = 31 ∧ off > 10
    · simp [h1]
    · simp only [h1, if_false]
      by_cases h2 : off ≥ b.length
      · simp [h2]
      · simp only [h2, if_false]
        obtain ⟨l0, hl0⟩ := idx_ok (b := b) (i := off) (by omega)
        simp only [hl0]
        by_cases h3 : l0 ≤ 127
        · simp only [h3, if_true]
          refine ⟨by simp, ?_⟩
          intro t ht; cases ht; simp only; omega
        · simp only [h3, if_false]
          by_cases h4 : l0 % 128 > 8
          · simp [h4]
          · simp only [h4, if_false]
            by_cases h5 : l0 % 128 = 0
            · simp [h5]
            · simp only [h5, if_false]
              by_cases h6 : off + 1 + l0 % 128 > b.length
              · simp [h6]
              · simp only [h6, if_false]
                obtain ⟨ds, hds⟩ := sub_ok (b := b) (i := off + 1) (j := off + 1 + l0 % 128) ⟨by omega, by omega⟩
                simp only [hds]
                by_cases h7 : beValue ds 0 ≥ 9223372036854775808 ∨ beValue ds 0 > b.length
                · simp [h7]
                · simp only [h7, if_false]
                  refine ⟨by simp, ?_⟩
                  intro t ht; cases ht; simp only; omega

theorem parseTagAndLength_no_panic (b : Bytes) : parseTagAndLength b ≠ .panic := (parseTagAndLength_spec b).1

theorem parseBitString_no_panic (c : Bytes) : parseBitString c ≠ .panic := by
  unfold parseBitString
  by_cases h0 : c.length = 0
  · simp [h0]
  · simp only [h0, if_false]
    obtain ⟨u, hu⟩ := idx_ok (b := c) (i := 0) (by omega)
    simp only [hu]
    split
    · simp
    · rw [from_ok (by omega)]; simp

theorem parseSigned_no_panic (c : Bytes) : parseSigned c ≠ .panic := by
  unfold parseSigned
  split
  · simp
  · split <;> simp

theorem splitTLVs_no_panic (fuel : Nat) : ∀ b, splitTLVs b fuel ≠ .panic := by
  induction fuel with
  | zero => intro b; unfold splitTLVs; split <;> simp
  | succ f ih =>
    intro b
    unfold splitTLVs
    by_cases h0 : b.length = 0
    · simp [h0]
    · simp only [h0, if_false]
      cases hp : parseTagAndLength b with
      | panic => exact absurd hp (parseTagAndLength_no_panic b)
      | err => simp
      | ok t =>
        simp only
        by_cases h1 : t.off + t.len > b.length
        · simp [h1]
        · simp only [h1, if_false]
          obtain ⟨e, he⟩ := sub_ok (b := b) (i := 0) (j := t.off + t.len) ⟨by omega, by omega⟩
          rw [he, from_ok (by omega)]
          simp only
          cases hs : splitTLVs (List.drop (t.off + t.len) b) f with
          | panic => exact absurd hs (ih _)
          | err => simp
          | ok es => simp

theorem enterInner_spec (t : Ty) (p : Params) (b : Bytes) (tal : Tal) (h : tal.off + tal.len ≤ b.length) :
    enterInner t p b tal ≠ .panic ∧
    ∀ b' p' tal', enterInner t p b tal = .ok (b', p', tal') → tal'.off + tal'.len ≤ b'.length ∧ 1 ≤ tal'.off := by
  unfold enterInner
  obtain ⟨inner, hin⟩ := sub_ok (b := b) (i := tal.off) (j := tal.off + tal.len) ⟨by omega, by omega⟩
  simp only [hin]
  cases hp2 : parseTagAndLength inner with
  | panic => exact absurd hp2 (parseTagAndLength_no_panic inner)
  | err => simp
  | ok tal' =>
    have hoff' := (parseTagAndLength_spec inner).2 tal' hp2
    simp only
    by_cases h2 : tal'.off + tal'.len > inner.length
    · simp [h2]
    · simp only [h2, if_false]
      split
      · refine ⟨by simp, ?_⟩
        intro b' p' t' ht; cases ht; exact ⟨by rw [List.length_take]; omega, hoff'.1⟩
      · simp

/-- `enter` never panics and hands back a header that lies inside the octets it returns -/
theorem enter_spec (t : Ty) (p : Params) (b : Bytes) :
    enter t p b ≠ .panic ∧ ∀ b' p' tal, enter t p b = .ok (b', p', tal) → tal.off + tal.len ≤ b'.length ∧ 1 ≤ tal.off := by
  unfold enter
  cases hp : parseTagAndLength b with
  | panic => exact absurd hp (parseTagAndLength_no_panic b)
  | err => simp
  | ok tal =>
    have hoff := (parseTagAndLength_spec b).2 tal hp
    simp only
    by_cases h1 : tal.off + tal.len > b.length
    · simp [h1]
    · simp only [h1, if_false]
      by_cases h2 : (!tagOk t p tal) = true
      · simp [h2]
      · simp only [h2, if_false, Bool.false_eq_true]
        by_cases h3 : needsUnwrap t p = true
        · simp only [h3, if_true]
          exact enterInner_spec t p (b.take (tal.off + tal.len)) tal (by rw [List.length_take]; omega)
        · simp only [h3, if_false, Bool.false_eq_true]
          refine ⟨by simp, ?_⟩
          intro b' p' t' ht; cases ht; exact ⟨by rw [List.length_take]; omega, hoff.1⟩

theorem from_enter_ne_panic {t : Ty} {p p' : Params} {b b' : Bytes} {tal : Tal}
    (h : enter t p b = .ok (b', p', tal)) : from_ b' tal.off ≠ .panic := by
  have hb := (enter_spec t p b).2 _ _ _ h
  rw [from_ok (by omega)]; simp

theorem idx_enter_ne_panic {b' : Bytes} {tal : Tal} (h : ¬ tal.off ≥ b'.length) : idx b' tal.off ≠ .panic := by
  obtain ⟨x, hx⟩ := idx_ok (b := b') (i := tal.off) (by omega)
  rw [hx]; simp

theorem unmarshal_no_panic_all :
    (∀ t p b, unmarshal t p b ≠ .panic) ∧
    (∀ t p es, decodeElems t p es ≠ .panic) ∧
    (∀ fs es, decodeSeq fs es ≠ .panic) ∧
    (∀ all fs es acc, decodeSet all fs es acc ≠ .panic) ∧
    (∀ all fs i cls tag e acc, decodeSetOne all fs i cls tag e acc ≠ .panic) ∧
    (∀ all fs i tag b, decodeAlt all fs i tag b ≠ .panic) := by
  have key := unmarshal.mutual_induct
    (motive1 := fun t p b => unmarshal t p b ≠ .panic)
    (motive2 := fun t p es => decodeElems t p es ≠ .panic)
    (motive3 := fun fs es => decodeSeq fs es ≠ .panic)
    (motive4 := fun all fs es acc => decodeSet all fs es acc ≠ .panic)
    (motive5 := fun all fs i cls tag e acc => decodeSetOne all fs i cls tag e acc ≠ .panic)
    (motive6 := fun all fs i tag b => decodeAlt all fs i tag b ≠ .panic)
  apply key <;> clear key
  all_goals (intros; first
    | (simp_all [unmarshal, decodeElems, decodeSeq, decodeSet, decodeSetOne, decodeAlt]; done)
    | skip)
  -- contradictions: an accessor that would panic is guarded, a helper that never panics
  all_goals first
    | (exfalso; exact (enter_spec _ _ _).1 (by assumption))
    | (exfalso; exact parseTagAndLength_no_panic _ (by assumption))
    | (exfalso; exact splitTLVs_no_panic _ _ (by assumption))
    | (exfalso; exact parseSigned_no_panic _ (by assumption))
    | (exfalso; exact from_enter_ne_panic (by assumption) (by assumption))
    | (exfalso; exact idx_enter_ne_panic (by assumption) (by assumption))
    | skip
  -- the remaining branches return a value, an error, or what a sub-call (induction hypothesis) returns
  all_goals first
    | (rw [unmarshal]; simp only [*]; first | (simp; done) | assumption | (split <;> simp_all; done))
    | (simp only [unmarshal, *]; exact parseBitString_no_panic _)
    | (simp only [unmarshal, *]; simp; done)
    | (simp only [unmarshal, *]; split <;> simp_all; done)

end Chf.Ber
