import ChfVerif.Lemmas.BerHeader
import ChfVerif.Lemmas.BerSafe
import ChfVerif.Lemmas.BerInt
/- round-trip lemmas: what the decoder reads back from what the encoder wrote (C05) -/
namespace Chf.Ber
open Chf

def tagStep (a d : Nat) : Nat := (a * 128 + d) % 18446744073709551616

theorem highTagLoop_digits (init : Bytes) (last : Nat) (rest : Bytes)
    (hinit : ∀ d ∈ init, d < 128) (hlast : last < 128) :
    ∀ (pre : Bytes) (acc fuel : Nat), init.length + 1 ≤ fuel →
    highTagLoop (pre ++ (init.map (· + 128) ++ [last] ++ rest)) pre.length acc fuel =
      ((init ++ [last]).foldl tagStep acc, pre.length + init.length + 1) := by
  induction init with
  | nil =>
    intro pre acc fuel hf
    cases fuel with
    | zero => omega
    | succ f =>
      simp only [List.map_nil, List.nil_append, highTagLoop]
      have : (pre ++ ([last] ++ rest))[pre.length]? = some last := by simp
      rw [this]
      simp only
      have h1 : ¬ last ≥ 128 := by omega
      simp [h1, tagStep, Nat.mod_eq_of_lt hlast]
  | cons d r ih =>
    intro pre acc fuel hf
    cases fuel with
    | zero => simp at hf
    | succ f =>
      have hd : d < 128 := hinit d (by simp)
      simp only [List.map_cons, List.cons_append, highTagLoop]
      have : (pre ++ (d + 128) :: (List.map (· + 128) r ++ [last] ++ rest))[pre.length]? = some (d + 128) := by simp
      rw [this]
      simp only
      have h1 : d + 128 ≥ 128 := by omega
      have h2 : (d + 128) % 128 = d := by omega
      simp only [h1, if_true, h2]
      have e : pre ++ (d + 128) :: (List.map (· + 128) r ++ [last] ++ rest) =
          (pre ++ [d + 128]) ++ (List.map (· + 128) r ++ [last] ++ rest) := by simp
      rw [e]
      have := ih (fun x hx => hinit x (by simp [hx])) (pre ++ [d + 128]) ((acc * 128 + d) % 18446744073709551616) f
        (by simp at hf ⊢; omega)
      simp only [List.length_append, List.length_cons, List.length_nil] at this
      rw [this]
      simp [tagStep, List.foldl_cons]
      omega

theorem tagDigits_succ (t f : Nat) :
    tagDigits t (f + 1) = (if t > 127 then tagDigits (t / 128) f else []) ++ [t % 128] := by
  rw [tagDigits]; split <;> simp

theorem tagDigits_zero (t : Nat) : tagDigits t 0 = [t % 128] := by rw [tagDigits]

theorem tagDigits_lt (f : Nat) : ∀ t, ∀ d ∈ tagDigits t f, d < 128 := by
  induction f with
  | zero => intro t d hd; rw [tagDigits_zero] at hd; simp at hd; omega
  | succ f ih =>
    intro t d hd
    rw [tagDigits_succ] at hd
    simp only [List.mem_append, List.mem_singleton] at hd
    rcases hd with hd | hd
    · split at hd
      · exact ih _ d hd
      · simp at hd
    · omega

theorem tagDigits_value (f : Nat) : ∀ t, t < 128 ^ (f + 1) → t < 18446744073709551616 →
    (tagDigits t f).foldl tagStep 0 = t := by
  induction f with
  | zero =>
    intro t h _
    rw [tagDigits_zero]
    simp [tagStep] at h ⊢
    omega
  | succ f ih =>
    intro t h h64
    rw [tagDigits_succ]
    rw [List.foldl_append]
    simp only [List.foldl_cons, List.foldl_nil]
    by_cases h1 : t > 127
    · simp only [h1, if_true]
      have hq : t / 128 < 128 ^ (f + 1) := by
        rw [Nat.div_lt_iff_lt_mul (by decide)]
        rw [Nat.pow_succ] at h; exact h
      rw [ih (t / 128) hq (by omega)]
      unfold tagStep; omega
    · simp only [h1, if_false, List.foldl_nil]
      unfold tagStep; omega

theorem tagDigits_length (f : Nat) : ∀ t, (tagDigits t f).length ≤ f + 1 := by
  induction f with
  | zero => intro t; rw [tagDigits_zero]; simp
  | succ f ih =>
    intro t; rw [tagDigits_succ]; split
    · have := ih (t / 128); simp; omega
    · simp


theorem tagDigits_length_le (f : Nat) : ∀ t k, 1 ≤ k → t < 128 ^ k → (tagDigits t f).length ≤ k := by
  induction f with
  | zero => intro t k hk _; rw [tagDigits_zero]; simpa using hk
  | succ f ih =>
    intro t k hk h
    rw [tagDigits_succ]
    by_cases h1 : t > 127
    · simp only [h1, if_true, List.length_append, List.length_cons, List.length_nil]
      have hk2 : 2 ≤ k := by
        cases k with
        | zero => omega
        | succ k' =>
          cases k' with
          | zero => simp at h; omega
          | succ k'' => omega
      have hq : t / 128 < 128 ^ (k - 1) := by
        rw [Nat.div_lt_iff_lt_mul (by decide)]
        have : 128 ^ (k - 1) * 128 = 128 ^ k := by
          rw [← Nat.pow_succ]; congr 1; omega
        rw [this]; exact h
      have := ih (t / 128) (k - 1) (by omega) hq
      omega
    · simp [h1]; omega

theorem highTag_eq (t : Nat) :
    highTag t = (if t > 127 then tagDigits (t / 128) 9 else []).map (· + 128) ++ [t % 128] := by
  unfold highTag
  have e : tagDigits t = (if t > 127 then tagDigits (t / 128) 9 else []) ++ [t % 128] := tagDigits_succ t 9
  simp only [e, List.dropLast_concat, List.getLastD_concat]

theorem lenDigits_succ (l f : Nat) :
    lenDigits l (f + 1) = (if l > 255 then lenDigits (l / 256) f else []) ++ [l % 256] := by
  rw [lenDigits]; split <;> simp

theorem lenDigits_zero (l : Nat) : lenDigits l 0 = [l % 256] := by rw [lenDigits]

theorem lenDigits_value (f : Nat) : ∀ l, l < 256 ^ (f + 1) → beValue (lenDigits l f) 0 = l := by
  induction f with
  | zero => intro l h; rw [lenDigits_zero]; simp [beValue] at h ⊢; omega
  | succ f ih =>
    intro l h
    rw [lenDigits_succ, beValue_append]
    by_cases h1 : l > 255
    · simp only [h1, if_true]
      have hq : l / 256 < 256 ^ (f + 1) := by
        rw [Nat.div_lt_iff_lt_mul (by decide)]
        rw [Nat.pow_succ] at h; exact h
      rw [ih _ hq]; omega
    · simp only [h1, if_false, beValue]; omega

theorem lenDigits_length_le (f : Nat) : ∀ l k, 1 ≤ k → l < 256 ^ k → (lenDigits l f).length ≤ k := by
  induction f with
  | zero => intro l k hk _; rw [lenDigits_zero]; simpa using hk
  | succ f ih =>
    intro l k hk h
    rw [lenDigits_succ]
    by_cases h1 : l > 255
    · simp only [h1, if_true, List.length_append, List.length_cons, List.length_nil]
      have hk2 : 2 ≤ k := by
        cases k with
        | zero => omega
        | succ k' =>
          cases k' with
          | zero => simp at h; omega
          | succ k'' => omega
      have hq : l / 256 < 256 ^ (k - 1) := by
        rw [Nat.div_lt_iff_lt_mul (by decide)]
        have : 256 ^ (k - 1) * 256 = 256 ^ k := by
          rw [← Nat.pow_succ]; congr 1; omega
        rw [this]; exact h
      have := ih (l / 256) (k - 1) (by omega) hq
      omega
    · simp [h1]; omega

theorem lenDigits_ne_nil (l f : Nat) : 1 ≤ (lenDigits l f).length := by
  cases f with
  | zero => rw [lenDigits_zero]; simp
  | succ f => rw [lenDigits_succ]; simp

theorem idx_at (pre : Bytes) (x : Nat) (more : Bytes) : idx (pre ++ x :: more) pre.length = .ok x := by
  unfold idx; simp

theorem sub_at (pre ds rest : Bytes) : sub (pre ++ (ds ++ rest)) pre.length (pre.length + ds.length) = .ok ds := by
  unfold sub
  have : pre.length ≤ pre.length + ds.length ∧ pre.length + ds.length ≤ (pre ++ (ds ++ rest)).length := by
    simp
  rw [if_pos this]
  simp


/-- the identifier-octet part written by appendTagAndLen -/
def tagPart (first tag : Nat) : Bytes := if tag ≤ 30 then [first + tag] else (first + 31) :: highTag tag
/-- the length-octet part -/
def lenPart (len : Nat) : Bytes := if len ≤ 127 then [len] else (128 + (lenDigits len).length) :: lenDigits len

theorem header_split (cls : Nat) (c : Bool) (tag len : Nat) :
    header cls c tag len = tagPart (cls * 64 + (if c then 32 else 0)) tag ++ lenPart len := rfl

theorem tagPart_ne_nil (first tag : Nat) : ∃ x r, tagPart first tag = x :: r := by
  unfold tagPart; split <;> exact ⟨_, _, rfl⟩

/-- C05 (header): parseTagAndLength reads back exactly what appendTagAndLen wrote, whatever follows -/
theorem parse_header (cls : Nat) (c : Bool) (tag len : Nat) (rest : Bytes)
    (hcls : cls < 4) (htag : tag < 9223372036854775808) (hlen : len < 9223372036854775808)
    (hfit : len ≤ (header cls c tag len ++ rest).length) :
    parseTagAndLength (header cls c tag len ++ rest) =
      .ok ⟨cls, c, tag, len, (header cls c tag len).length⟩ := by
  rw [header_split] at hfit ⊢
  generalize hfirst : cls * 64 + (if c then 32 else 0) = first at hfit ⊢
  have hf1 : first / 64 = cls := by subst hfirst; split <;> omega
  have hf2 : (first / 32) % 2 = (if c then 1 else 0) := by subst hfirst; split <;> omega
  have hf3 : first % 32 = 0 := by subst hfirst; split <;> omega
  -- the tag part: what the first stage of the parser computes
  have stage1 : ∀ tail : Bytes, tail ≠ [] →
      ∃ b0 r, tagPart first tag ++ tail = b0 :: r ∧ b0 / 64 = cls ∧ (decide ((b0 / 32) % 2 = 1)) = c ∧
        (if b0 % 32 ≠ 31 then (b0 % 32, 1) else highTagLoop (b0 :: r) 1 0 (b0 :: r).length) = (tag, (tagPart first tag).length) ∧
        ¬ (b0 % 32 = 31 ∧ (tagPart first tag).length > 10) := by
    intro tail htail
    unfold tagPart
    by_cases h30 : tag ≤ 30
    · simp only [h30, if_true]
      refine ⟨first + tag, tail, by simp, by omega, ?_, ?_, ?_⟩
      · cases c <;> simp at hf2 ⊢ <;> omega
      · have : (first + tag) % 32 = tag := by omega
        simp [this]; omega
      · simp
    · simp only [h30, if_false]
      refine ⟨first + 31, highTag tag ++ tail, by simp, by omega, ?_, ?_, ?_⟩
      · cases c <;> simp at hf2 ⊢ <;> omega
      · have h31 : (first + 31) % 32 = 31 := by omega
        simp only [h31, ne_eq, not_true_eq_false, if_false]
        rw [highTag_eq]
        have hi : ∀ d ∈ (if tag > 127 then tagDigits (tag / 128) 9 else []), d < 128 := by
          intro d hd; split at hd
          · exact tagDigits_lt _ _ d hd
          · simp at hd
        have := highTagLoop_digits (if tag > 127 then tagDigits (tag / 128) 9 else []) (tag % 128) tail hi (by omega)
          [first + 31] 0 ((first + 31) :: ((if tag > 127 then tagDigits (tag / 128) 9 else []).map (· + 128) ++ [tag % 128] ++ tail)).length
          (by cases tail with
              | nil => exact absurd rfl htail
              | cons _ _ => simp)
        simp only [List.singleton_append, List.length_singleton] at this
        rw [this]
        have hv : ((if tag > 127 then tagDigits (tag / 128) 9 else []) ++ [tag % 128]).foldl tagStep 0 = tag := by
          rw [← tagDigits_succ]; exact tagDigits_value 10 tag (by omega) (by omega)
        rw [hv]
        simp; omega
      · intro ⟨_, hlong⟩
        rw [highTag_eq] at hlong
        simp only [List.length_cons, List.length_append, List.length_map, List.length_nil] at hlong
        by_cases h127 : tag > 127
        · simp only [h127, if_true] at hlong
          have := tagDigits_length_le 9 (tag / 128) 8 (by decide) (by omega)
          omega
        · simp [h127] at hlong
  -- the length part
  unfold lenPart at hfit ⊢
  by_cases hshort : len ≤ 127
  · simp only [hshort, if_true] at hfit ⊢
    obtain ⟨b0, r, hb, h1, h2, h3, h4⟩ := stage1 ([len] ++ rest) (by simp)
    rw [List.append_assoc, hb]
    unfold parseTagAndLength
    have hne : ¬ (b0 :: r).length = 0 := by simp
    simp only [hne, if_false, idx, List.getElem?_cons_zero]
    rw [h3]
    simp only [h4, if_false]
    rw [← hb]
    have hlt : ¬ (tagPart first tag).length ≥ (tagPart first tag ++ ([len] ++ rest)).length := by simp
    simp only [hlt, if_false]
    have := idx_at (tagPart first tag) len rest
    unfold idx at this
    simp only [List.singleton_append]
    rw [show (tagPart first tag ++ len :: rest)[(tagPart first tag).length]? = some len by simp]
    simp [hshort, h1, h2]
  · simp only [hshort, if_false] at hfit ⊢
    have hn1 := lenDigits_ne_nil len 8
    have hn8 : (lenDigits len).length ≤ 8 := lenDigits_length_le 8 len 8 (by decide) (by omega)
    obtain ⟨b0, r, hb, h1, h2, h3, h4⟩ := stage1 ((128 + (lenDigits len).length) :: lenDigits len ++ rest) (by simp)
    rw [List.append_assoc, hb]
    unfold parseTagAndLength
    have hne : ¬ (b0 :: r).length = 0 := by simp
    simp only [hne, if_false, idx, List.getElem?_cons_zero]
    rw [h3]
    simp only [h4, if_false]
    rw [← hb]
    have hlt : ¬ (tagPart first tag).length ≥ (tagPart first tag ++ ((128 + (lenDigits len).length) :: lenDigits len ++ rest)).length := by simp
    simp only [hlt, if_false]
    rw [show (tagPart first tag ++ ((128 + (lenDigits len).length) :: lenDigits len ++ rest))[(tagPart first tag).length]? =
        some (128 + (lenDigits len).length) by simp]
    simp only
    have hl0 : ¬ (128 + (lenDigits len).length ≤ 127) := by omega
    have hmod : (128 + (lenDigits len).length) % 128 = (lenDigits len).length := by omega
    simp only [hl0, if_false, hmod]
    have hg8 : ¬ (lenDigits len).length > 8 := by omega
    have hz : ¬ (lenDigits len).length = 0 := by omega
    simp only [hg8, hz, if_false]
    have hroom : ¬ ((tagPart first tag).length + 1 + (lenDigits len).length >
        (tagPart first tag ++ ((128 + (lenDigits len).length) :: lenDigits len ++ rest)).length) := by simp; omega
    simp only [hroom, if_false]
    have hsub := sub_at (tagPart first tag ++ [128 + (lenDigits len).length]) (lenDigits len) rest
    simp only [List.append_assoc, List.singleton_append, List.length_append, List.length_cons, List.length_nil] at hsub
    rw [show (tagPart first tag ++ ((128 + (lenDigits len).length) :: lenDigits len ++ rest)) =
        tagPart first tag ++ (128 + (lenDigits len).length) :: (lenDigits len ++ rest) by simp]
    rw [hsub]
    simp only
    have hv : beValue (lenDigits len) 0 = len := lenDigits_value 8 len (by omega)
    rw [hv]
    have hchk : ¬ (len ≥ 9223372036854775808 ∨ len > (tagPart first tag ++ (128 + (lenDigits len).length) :: (lenDigits len ++ rest)).length) := by
      simp only [List.length_append, List.length_cons] at hfit ⊢; omega
    simp only [hchk, if_false]
    simp [h1, h2]; omega

end Chf.Ber

namespace Chf.Ber
open Chf

theorem tlv_parse (cls : Nat) (c : Bool) (tag : Nat) (content rest : Bytes)
    (hcls : cls < 4) (htag : tag < 9223372036854775808) (hlen : content.length < 9223372036854775808) :
    parseTagAndLength (tlv cls c tag content ++ rest) =
      .ok ⟨cls, c, tag, content.length, (header cls c tag content.length).length⟩ := by
  unfold tlv
  rw [List.append_assoc]
  exact parse_header cls c tag content.length (content ++ rest) hcls htag hlen (by simp; omega)

theorem tlv_length (cls : Nat) (c : Bool) (tag : Nat) (content : Bytes) :
    (tlv cls c tag content).length = (header cls c tag content.length).length + content.length := by
  unfold tlv; simp

theorem lenDigits_length (f : Nat) : ∀ l, (lenDigits l f).length ≤ f + 1 := by
  induction f with
  | zero => intro l; rw [lenDigits_zero]; simp
  | succ f ih =>
    intro l; rw [lenDigits_succ]; split
    · have := ih (l / 256); simp; omega
    · simp

theorem tagPart_length_le (first tag : Nat) : (tagPart first tag).length ≤ 12 := by
  unfold tagPart
  split
  · simp
  · rw [highTag_eq]
    have := tagDigits_length 9 (tag / 128)
    split <;> simp <;> omega

theorem lenPart_length_le (len : Nat) : (lenPart len).length ≤ 10 := by
  unfold lenPart
  have := lenDigits_length 8 len
  split <;> simp <;> omega

theorem header_length_le (cls : Nat) (c : Bool) (tag len : Nat) : (header cls c tag len).length ≤ 22 := by
  rw [header_split, List.length_append]
  have := tagPart_length_le (cls * 64 + (if c then 32 else 0)) tag
  have := lenPart_length_le len
  omega

/-- the element handed on by `enter` is the element itself when nothing follows it -/
theorem take_tlv (cls : Nat) (c : Bool) (tag : Nat) (content : Bytes) :
    (tlv cls c tag content).take ((header cls c tag content.length).length + content.length) = tlv cls c tag content :=
  List.take_of_length_le (by rw [tlv_length]; exact Nat.le_refl _)

/-- what `enter` returns on an element the encoder finished, for a type that is not a CHOICE and whose
    universal tag is `tag` -/
theorem enter_finish (t : Ty) (p : Params) (c : Bool) (tag : Nat) (content : Bytes)
    (hexp : expectedTag p (stripPtr t) = some tag) (hnc : isChoiceTy t = false)
    (hexp' : expectedTag { p with tagNumber := none, explicit := false } (stripPtr t) = some tag)
    (htag : tag < 9223372036854775808)
    (hn : ∀ n, p.tagNumber = some n → n < 9223372036854775808)
    (hlen : content.length + 44 < 9223372036854775808) :
    ∃ b' p' tal, enter t p (finish p c tag content) = .ok (b', p', tal) ∧
      from_ b' tal.off = .ok content ∧ tal.len = content.length ∧ tal.off < b'.length + 1 ∧
      b'.length = tal.off + content.length := by
  unfold finish enter
  cases hp : p.tagNumber with
  | none =>
    simp only
    have hpar := tlv_parse 0 c tag content [] (by decide) htag (by omega)
    rw [List.append_nil] at hpar
    rw [hpar]
    simp only [tlv_length, Nat.lt_irrefl, gt_iff_lt, if_false, take_tlv]
    have htok : tagOk t p ⟨0, c, tag, content.length, (header 0 c tag content.length).length⟩ = true := by
      simp [tagOk, hp, hexp]
    have hnu : needsUnwrap t p = false := by simp [needsUnwrap, hp]
    simp only [htok, Bool.not_true, Bool.false_eq_true, if_false, hnu]
    refine ⟨_, _, _, rfl, ?_, rfl, ?_, ?_⟩
    · unfold from_ tlv; simp
    · simp [tlv_length]; omega
    · simp [tlv_length]
  | some n =>
    have hn' := hn n hp
    simp only
    by_cases hex : p.explicit = true
    · simp only [hex, if_true]
      have hin : (tlv 0 c tag content).length < 9223372036854775808 := by
        rw [tlv_length]; have := header_length_le 0 c tag content.length; omega
      have hpar := tlv_parse 2 true n (tlv 0 c tag content) [] (by decide) hn' hin
      rw [List.append_nil] at hpar
      rw [hpar]
      simp only [tlv_length, Nat.lt_irrefl, gt_iff_lt, if_false, take_tlv]
      have htok : tagOk t p ⟨2, true, n, (header 0 c tag content.length).length + content.length,
          (header 2 true n ((header 0 c tag content.length).length + content.length)).length⟩ = true := by
        simp [tagOk, hp]
      have hnu : needsUnwrap t p = true := by simp [needsUnwrap, hp, hex, hnc]
      simp only [htok, Bool.not_true, Bool.false_eq_true, if_false, hnu, if_true]
      unfold enterInner
      have hsub : sub (tlv 2 true n (tlv 0 c tag content))
          (header 2 true n ((header 0 c tag content.length).length + content.length)).length
          ((header 2 true n ((header 0 c tag content.length).length + content.length)).length +
            ((header 0 c tag content.length).length + content.length)) = .ok (tlv 0 c tag content) := by
        have := sub_at (header 2 true n (tlv 0 c tag content).length) (tlv 0 c tag content) []
        simp only [List.append_nil, tlv_length] at this
        unfold tlv at this ⊢
        simp only [List.length_append] at this ⊢
        exact this
      have htk : List.take ((header 2 true n ((header 0 c tag content.length).length + content.length)).length +
            ((header 0 c tag content.length).length + content.length)) (tlv 2 true n (tlv 0 c tag content)) =
          tlv 2 true n (tlv 0 c tag content) := List.take_of_length_le (by simp [tlv_length])
      rw [htk, hsub]
      simp only
      have hpar2 := tlv_parse 0 c tag content [] (by decide) htag (by omega)
      rw [List.append_nil] at hpar2
      rw [hpar2]
      simp only [tlv_length, Nat.lt_irrefl, gt_iff_lt, if_false, take_tlv]
      have htok2 : tagOk t { p with tagNumber := none, explicit := false }
          ⟨0, c, tag, content.length, (header 0 c tag content.length).length⟩ = true := by
        simp [tagOk, hexp']
      simp only [htok2, if_true]
      refine ⟨_, _, _, rfl, ?_, rfl, ?_, ?_⟩
      · unfold from_ tlv; simp
      · simp [tlv_length]; omega
      · simp [tlv_length]
    · simp only [hex, Bool.false_eq_true, if_false]
      have hpar := tlv_parse 2 c n content [] (by decide) hn' (by omega)
      rw [List.append_nil] at hpar
      rw [hpar]
      simp only [tlv_length, Nat.lt_irrefl, gt_iff_lt, if_false, take_tlv]
      have htok : tagOk t p ⟨2, c, n, content.length, (header 2 c n content.length).length⟩ = true := by
        simp [tagOk, hp]
      have hnu : needsUnwrap t p = false := by simp [needsUnwrap, hp, hex]
      simp only [htok, Bool.not_true, Bool.false_eq_true, if_false, hnu]
      refine ⟨_, _, _, rfl, ?_, rfl, ?_, ?_⟩
      · unfold from_ tlv; simp
      · simp [tlv_length]; omega
      · simp [tlv_length]

end Chf.Ber

namespace Chf.Ber
open Chf

theorem from_drop {b c : Bytes} {i : Nat} (h : from_ b i = .ok c) : b.drop i = c ∧ i ≤ b.length := by
  unfold from_ at h
  split at h
  · simp only [Res.ok.injEq] at h; exact ⟨h, by assumption⟩
  · cases h

theorem intLen_le (f : Nat) : ∀ i, intLen i f ≤ f + 1 := by
  induction f with
  | zero => intro i; simp [intLen]
  | succ f ih => intro i; rw [intLen]; split
                 · have := ih (i / 256); omega
                 · omega

theorem intOctets_length (n : Nat) : ∀ i, (intOctets i n).length = n := by
  induction n with
  | zero => intro i; simp [intOctets]
  | succ n ih => intro i; simp [intOctets, ih]

theorem intBytes_length_le (i : Int) : (intBytes i).length ≤ 9 := by
  unfold intBytes; rw [intOctets_length]; exact intLen_le 8 i

/-- side conditions shared by the primitive round trips: the declared tag number and the content length fit
    the decoder's int64 arithmetic -/
def fits (p : Params) (content : Bytes) : Prop :=
  (∀ n, p.tagNumber = some n → n < 9223372036854775808) ∧ content.length + 44 < 9223372036854775808

theorem rt_int (w : Nat) (p : Params) (i : Int) (hi : -9223372036854775808 ≤ i ∧ i ≤ 9223372036854775807)
    (hn : ∀ n, p.tagNumber = some n → n < 9223372036854775808) :
    unmarshal (.int w) p (finish p false 2 (intBytes i)) = .ok (.int (truncInt w i)) := by
  have hlen : (intBytes i).length + 44 < 9223372036854775808 := by
    have := intBytes_length_le i; omega
  obtain ⟨b', p', tal, he, hf, _, _, _⟩ := enter_finish (.int w) p false 2 (intBytes i) rfl rfl rfl (by decide) hn hlen
  rw [unmarshal]
  · simp only [he, hf, parseSigned_intBytes i hi]
  all_goals (intros; simp_all)


theorem rt_enum (p : Params) (i : Int) (hi : -9223372036854775808 ≤ i ∧ i ≤ 9223372036854775807)
    (hn : ∀ n, p.tagNumber = some n → n < 9223372036854775808) :
    unmarshal .enum p (finish p false 10 (intBytes i)) = .ok (.int i) := by
  have hlen : (intBytes i).length + 44 < 9223372036854775808 := by
    have := intBytes_length_le i; omega
  obtain ⟨b', p', tal, he, hf, _, _, _⟩ := enter_finish .enum p false 10 (intBytes i) rfl rfl rfl (by decide) hn hlen
  rw [unmarshal]
  · simp only [he, hf, parseSigned_intBytes i hi]
  all_goals (intros; simp_all)

theorem rt_octets (p : Params) (bs : Bytes) (hn : ∀ n, p.tagNumber = some n → n < 9223372036854775808)
    (hlen : bs.length + 44 < 9223372036854775808) :
    unmarshal .octets p (finish p false 4 bs) = .ok (.bytes bs) := by
  obtain ⟨b', p', tal, he, hf, _, _, _⟩ := enter_finish .octets p false 4 bs rfl rfl rfl (by decide) hn hlen
  rw [unmarshal]
  · simp only [he, hf]
  all_goals (intros; simp_all)

theorem rt_null (p : Params) (hn : ∀ n, p.tagNumber = some n → n < 9223372036854775808) :
    unmarshal .null p (finish p false 5 []) = .ok (.null true) := by
  obtain ⟨b', p', tal, he, hf, _, _, _⟩ := enter_finish .null p false 5 [] rfl rfl rfl (by decide) hn (by decide)
  rw [unmarshal]
  · simp only [he, hf]
  all_goals (intros; simp_all)

theorem rt_bits (p : Params) (bs : Bytes) (n : Nat) (hn : ∀ k, p.tagNumber = some k → k < 9223372036854775808)
    (hlen : bs.length + 45 < 9223372036854775808) (h1 : n ≤ 8 * bs.length) (h2 : 8 * bs.length < n + 8) :
    unmarshal .bits p (finish p false 3 (((8 - n % 8) % 8) :: bs)) = .ok (.bits bs n) := by
  obtain ⟨b', p', tal, he, hf, _, _, _⟩ := enter_finish .bits p false 3 (((8 - n % 8) % 8) :: bs) rfl rfl rfl (by decide) hn
    (by simp; omega)
  rw [unmarshal]
  · simp only [he, hf]
    -- the content-level lemma of Props/C05 (restated here to keep this file below Props)
    unfold parseBitString
    have hu : (8 - n % 8) % 8 ≤ 7 := by omega
    simp only [List.length_cons, Nat.add_eq_zero_iff, Nat.succ_ne_zero, and_false, if_false, idx,
      List.getElem?_cons_zero, from_]
    have h3 : ¬ ((8 - n % 8) % 8 > 7 ∨ (bs.length + 1 = 1 ∧ (8 - n % 8) % 8 ≠ 0)) := by
      intro h; rcases h with h | ⟨h, h'⟩ <;> omega
    rw [if_neg h3]
    simp only [show 1 ≤ bs.length + 1 by omega, if_true, List.drop_succ_cons, List.drop_zero,
      Nat.add_sub_cancel]
    congr 2
    omega
  all_goals (intros; simp_all)

theorem rt_str (d : Nat) (p : Params) (bs : Bytes) (hn : ∀ n, p.tagNumber = some n → n < 9223372036854775808)
    (hd : stringTagOf p d < 9223372036854775808) (hlen : bs.length + 44 < 9223372036854775808) :
    unmarshal (.str d) p (finish p false (stringTagOf p d) bs) = .ok (.str bs) := by
  obtain ⟨b', p', tal, he, hf, _, _, _⟩ := enter_finish (.str d) p false (stringTagOf p d) bs rfl rfl
    (by simp [expectedTag, stringTagOf, stripPtr]) hd hn hlen
  rw [unmarshal]
  · simp only [he, hf]
  all_goals (intros; simp_all)

theorem rt_bool (p : Params) (x : Bool) (hn : ∀ n, p.tagNumber = some n → n < 9223372036854775808) :
    unmarshal .bool p (finish p false 1 [if x then 255 else 0]) = .ok (.bool x) := by
  obtain ⟨b', p', tal, he, hf, _, hoff, hlen⟩ := enter_finish .bool p false 1 [if x then 255 else 0] rfl rfl rfl (by decide) hn (by simp)
  obtain ⟨hdrop, hle⟩ := from_drop hf
  have hlt : ¬ tal.off ≥ b'.length := by simp at hlen; omega
  have hidx : b'[tal.off]? = some (if x then 255 else 0) := by
    have : (b'.drop tal.off)[0]? = some (if x then 255 else 0) := by rw [hdrop]; rfl
    simpa [List.getElem?_drop] using this
  rw [unmarshal]
  · simp only [he, hf, hlt, if_false, idx, hidx]
    cases x <;> simp
  all_goals (intros; simp_all)

end Chf.Ber

namespace Chf.Ber
open Chf

def untagged (p : Params) : Params := { p with tagNumber := none, explicit := false }

theorem finish_untagged (p : Params) (c : Bool) (tag : Nat) (content : Bytes) (h : p.tagNumber = none) :
    finish p c tag content = tlv 0 c tag content := by
  unfold finish; rw [h]

/-- `enter` on an element the encoder finished: the (possibly unwrapped) octets are again an element finished
    under the returned parameters, which are the given ones or their untagged form -/
theorem enter_finish' (t : Ty) (p : Params) (c : Bool) (tag : Nat) (content : Bytes)
    (hexp : expectedTag p (stripPtr t) = some tag ∨ expectedTag p (stripPtr t) = none)
    (hexp' : expectedTag (untagged p) (stripPtr t) = some tag ∨ expectedTag (untagged p) (stripPtr t) = none)
    (hnc : isChoiceTy t = false)
    (htag : tag < 9223372036854775808)
    (hn : ∀ n, p.tagNumber = some n → n < 9223372036854775808)
    (hlen : content.length + 44 < 9223372036854775808) :
    ∃ p' tal, enter t p (finish p c tag content) = .ok (finish p' c tag content, p', tal) ∧
      (p' = p ∨ p' = untagged p) := by
  unfold enter
  cases hp : p.tagNumber with
  | none =>
    rw [finish_untagged p c tag content hp]
    have hpar := tlv_parse 0 c tag content [] (by decide) htag (by omega)
    rw [List.append_nil] at hpar
    rw [hpar]
    simp only [tlv_length, Nat.lt_irrefl, gt_iff_lt, if_false, take_tlv]
    have htok : tagOk t p ⟨0, c, tag, content.length, (header 0 c tag content.length).length⟩ = true := by
      rcases hexp with h | h <;> simp [tagOk, hp, h]
    have hnu : needsUnwrap t p = false := by simp [needsUnwrap, hp]
    simp only [htok, Bool.not_true, Bool.false_eq_true, if_false, hnu]
    exact ⟨p, _, by rw [finish_untagged p c tag content hp], Or.inl rfl⟩
  | some n =>
    have hn' := hn n hp
    by_cases hex : p.explicit = true
    · have hfin : finish p c tag content = tlv 2 true n (tlv 0 c tag content) := by
        unfold finish; rw [hp]; simp [hex]
      rw [hfin]
      have hin : (tlv 0 c tag content).length < 9223372036854775808 := by
        rw [tlv_length]; have := header_length_le 0 c tag content.length; omega
      have hpar := tlv_parse 2 true n (tlv 0 c tag content) [] (by decide) hn' hin
      rw [List.append_nil] at hpar
      rw [hpar]
      simp only [tlv_length, Nat.lt_irrefl, gt_iff_lt, if_false, take_tlv]
      have htok : tagOk t p ⟨2, true, n, (header 0 c tag content.length).length + content.length,
          (header 2 true n ((header 0 c tag content.length).length + content.length)).length⟩ = true := by
        simp [tagOk, hp]
      have hnu : needsUnwrap t p = true := by simp [needsUnwrap, hp, hex, hnc]
      simp only [htok, Bool.not_true, Bool.false_eq_true, if_false, hnu, if_true]
      unfold enterInner
      have hsub : sub (tlv 2 true n (tlv 0 c tag content))
          (header 2 true n ((header 0 c tag content.length).length + content.length)).length
          ((header 2 true n ((header 0 c tag content.length).length + content.length)).length +
            ((header 0 c tag content.length).length + content.length)) = .ok (tlv 0 c tag content) := by
        have := sub_at (header 2 true n (tlv 0 c tag content).length) (tlv 0 c tag content) []
        simp only [List.append_nil, tlv_length] at this
        unfold tlv at this ⊢
        simp only [List.length_append] at this ⊢
        exact this
      have htk : List.take ((header 2 true n ((header 0 c tag content.length).length + content.length)).length +
            ((header 0 c tag content.length).length + content.length)) (tlv 2 true n (tlv 0 c tag content)) =
          tlv 2 true n (tlv 0 c tag content) := List.take_of_length_le (by simp [tlv_length])
      rw [htk, hsub]
      simp only
      have hpar2 := tlv_parse 0 c tag content [] (by decide) htag (by omega)
      rw [List.append_nil] at hpar2
      rw [hpar2]
      simp only [tlv_length, Nat.lt_irrefl, gt_iff_lt, if_false, take_tlv]
      have htok2 : tagOk t { p with tagNumber := none, explicit := false }
          ⟨0, c, tag, content.length, (header 0 c tag content.length).length⟩ = true := by
        unfold untagged at hexp'
        rcases hexp' with h | h <;> simp [tagOk, h]
      simp only [htok2, if_true]
      refine ⟨untagged p, ⟨0, c, tag, content.length, (header 0 c tag content.length).length⟩, ?_, Or.inr rfl⟩
      rw [finish_untagged (untagged p) c tag content rfl]
      rfl
    · have hfin : finish p c tag content = tlv 2 c n content := by
        unfold finish; rw [hp]; simp [hex]
      rw [hfin]
      have hpar := tlv_parse 2 c n content [] (by decide) hn' (by omega)
      rw [List.append_nil] at hpar
      rw [hpar]
      simp only [tlv_length, Nat.lt_irrefl, gt_iff_lt, if_false, take_tlv]
      have htok : tagOk t p ⟨2, c, n, content.length, (header 2 c n content.length).length⟩ = true := by
        simp [tagOk, hp]
      have hnu : needsUnwrap t p = false := by simp [needsUnwrap, hp, hex]
      simp only [htok, Bool.not_true, Bool.false_eq_true, if_false, hnu]
      exact ⟨p, _, by rw [hfin], Or.inl rfl⟩

/-- Value/List wrapper structs are transparent for an element finished with universal tag `tag` -/
theorem unmarshal_wrap_finish (t : Ty) (p : Params) (c : Bool) (tag : Nat) (content : Bytes)
    (htag : tag < 9223372036854775808)
    (hn : ∀ n, p.tagNumber = some n → n < 9223372036854775808)
    (hlen : content.length + 44 < 9223372036854775808) :
    ∃ p', (p' = p ∨ p' = untagged p) ∧
      unmarshal (.wrap t) p (finish p c tag content) = unmarshal t p' (finish p' c tag content) := by
  obtain ⟨p', tal, he, hp'⟩ := enter_finish' (.wrap t) p c tag content (Or.inr rfl) (Or.inr rfl) rfl htag hn hlen
  refine ⟨p', hp', ?_⟩
  rw [unmarshal]
  simp only [he]


/-- a wrapper struct round-trips whenever the wrapped primitive does under every parameter set -/
theorem wrap_rt (t : Ty) (v : Val) (c : Bool) (tagf : Params → Nat) (content : Bytes)
    (hmar : ∀ q, marshal t q v = .ok (finish q c (tagf q) content))
    (htagf : ∀ q, tagf (untagged q) = tagf q)
    (p : Params) (hn : ∀ n, p.tagNumber = some n → n < 9223372036854775808)
    (hrt : ∀ q, (q = p ∨ q = untagged p) → unmarshal t q (finish q c (tagf q) content) = .ok v)
    (htag : tagf p < 9223372036854775808) (hlen : content.length + 44 < 9223372036854775808) :
    ∀ b, marshal (.wrap t) p v = .ok b → unmarshal (.wrap t) p b = .ok v := by
  intro b hm
  rw [marshal, hmar p] at hm
  simp only [Res.ok.injEq] at hm
  subst hm
  obtain ⟨p', hp', he⟩ := unmarshal_wrap_finish t p c (tagf p) content htag hn hlen
  rw [he]
  rcases hp' with rfl | rfl
  · exact hrt _ (Or.inl rfl)
  · have := hrt (untagged p) (Or.inr rfl)
    rw [htagf] at this
    exact this

end Chf.Ber
