import ChfVerif.Model.Charging
import ChfVerif.Spec.ChargingSpec
import ChfVerif.Lemmas.Abmf
import ChfVerif.Spec.AbmfSpec
/- helper lemmas about the credit-control part of the charging model (C01, C06) -/
namespace Chf.Charging
open Chf
open Chf.Abmf (wrap64 toI64 toU64 InRange wrap64_id toI64_small toU64_nonneg find put find_put_same find_put_other)

/-- SUPIs the CHF accepts: "imsi-" followed by the subscription data -/
def GoodSupi (supi : Bytes) : Prop := imsiPrefix ++ subData supi = supi

theorem abmf_sub {supi : Bytes} (h : GoodSupi supi) (c : Abmf.CCR) (hs : c.subType = 1) (hd : c.subData = subData supi) :
    Abmf.subscriberId c = supi := by
  unfold Abmf.subscriberId
  simp only [hs, if_true, hd]
  exact h

theorem getRg_setRg_same (g : List (Int × RgState)) (rg : Int) (v : RgState) : getRg (setRg g rg v) rg = some v := by
  induction g with
  | nil => simp [setRg, getRg]
  | cons a r ih =>
    obtain ⟨k, x⟩ := a
    unfold setRg
    by_cases hk : k = rg
    · simp [hk, getRg]
    · simp [hk, getRg, ih]

theorem getRg_setRg_other (g : List (Int × RgState)) (rg rg' : Int) (v : RgState) (h : rg' ≠ rg) :
    getRg (setRg g rg v) rg' = getRg g rg' := by
  induction g with
  | nil => simp [setRg, getRg, Ne.symm h]
  | cons a r ih =>
    obtain ⟨k, x⟩ := a
    unfold setRg
    by_cases hk : k = rg
    · subst hk; simp [getRg, Ne.symm h]
    · simp only [hk, if_false, getRg]
      by_cases hk2 : k = rg'
      · simp [hk2]
      · simp [hk2, ih]

theorem resv_setRg_same (g : List (Int × RgState)) (rg : Int) (v : RgState) : resv (setRg g rg v) rg = v.reserved := by
  unfold resv; rw [getRg_setRg_same]

theorem resv_setRg_other (g : List (Int × RgState)) (rg rg' : Int) (v : RgState) (h : rg' ≠ rg) :
    resv (setRg g rg v) rg' = resv g rg' := by
  unfold resv; rw [getRg_setRg_other _ _ _ _ h]

theorem balOf_put_same {accts : Abmf.Store} {supi : Bytes} {rg : Nat} {q0 : Abmf.Quota} (i : Int)
    (h : find accts supi rg = some q0) : balOf (put accts supi rg (.num i)) supi rg = some i := by
  unfold balOf; rw [find_put_same _ h]; rfl

theorem balOf_put_other {accts : Abmf.Store} {supi supi' : Bytes} {rg rg' : Nat} (q : Abmf.Quota)
    (h : ¬ (supi' = supi ∧ rg' = rg)) : balOf (put accts supi rg q) supi' rg' = balOf accts supi' rg' := by
  unfold balOf; rw [find_put_other _ h]

theorem rating_sub {supi : Bytes} (hs : GoodSupi supi) (rg : Int) (a b c : Nat) :
    Rating.subscriberId (mkSUR supi rg a b c) = supi := by
  unfold Rating.subscriberId mkSUR; simp only [if_true]; exact hs

theorem handleSUR_known {tariffs : List Rating.Tariff} {supi : Bytes} {rg : Int} {s : Bytes} (hs : GoodSupi supi)
    (ht : Rating.findCost tariffs supi (u32 rg) = some s) (a b c : Nat) :
    Rating.handleSUR tariffs (mkSUR supi rg a b c) =
      .answer [] (Rating.buildTariff s).1 (Rating.buildTariff s).2
        (Rating.rate (costOf s) (mkSUR supi rg a b c)).1 (Rating.rate (costOf s) (mkSUR supi rg a b c)).2 := by
  unfold Rating.handleSUR
  rw [rating_sub hs]
  have : (mkSUR supi rg a b c).rg = u32 rg := rfl
  rw [this, ht]
  rfl

theorem getUnitCost_known {e : Env} {supi : Bytes} {rg : Int} {s : Bytes} (hs : GoodSupi supi)
    (ht : Rating.findCost e.tariffs supi (u32 rg) = some s) : getUnitCost e supi rg = costOf s := by
  unfold getUnitCost
  rw [handleSUR_known hs ht]
  rfl

/-- the side conditions under which one usage is processed without wrap-around and with answering peers -/
structure UsageOK (e : Env) (supi : Bytes) (u : Usage) (st : RgState) (b : Int) (s : Bytes) : Prop where
  good : GoodSupi supi
  acct : balOf e.accts supi (u32 u.rg) = some b
  tariff : Rating.findCost e.tariffs supi (u32 u.rg) = some s
  usedFit : totalUsed u.cs * costOf s < 4294967296
  reqFit : reqVolOf u * costOf s < 4294967296
  balRange : -2305843009213693952 ≤ b ∧ b ≤ 2305843009213693952
  resRange : -2305843009213693952 ≤ st.reserved ∧ st.reserved ≤ 2305843009213693952

theorem sendCCR_known {accts : Abmf.Store} {supi : Bytes} {rg : Int} {st : RgState} {b : Int}
    (hs : GoodSupi supi) (hb : balOf accts supi (u32 rg) = some b) (reqType action rsu usu : Nat) :
    ∃ q0, find accts supi (u32 rg) = some q0 ∧
    sendCCR accts supi rg st reqType action rsu usu =
      (put accts supi (u32 rg) (.num (Abmf.effect b (mkCCR supi rg st reqType action rsu usu)).1),
       .answer [] reqType (st.reqNum % 4294967296)
         (Abmf.effect b (mkCCR supi rg st reqType action rsu usu)).2.1
         (Abmf.effect b (mkCCR supi rg st reqType action rsu usu)).2.2) := by
  unfold balOf at hb
  cases hf : find accts supi (u32 rg) with
  | none => simp [hf] at hb
  | some q0 =>
    simp only [hf] at hb
    refine ⟨q0, rfl, ?_⟩
    unfold sendCCR
    have hsub : Abmf.subscriberId (mkCCR supi rg st reqType action rsu usu) = supi := abmf_sub hs _ rfl rfl
    have hf' : find accts (Abmf.subscriberId (mkCCR supi rg st reqType action rsu usu))
        (mkCCR supi rg st reqType action rsu usu).rg = some q0 := by rw [hsub]; exact hf
    rw [Abmf.handleCCR_known hf' hb, hsub]
    rfl

/-- effect of a reservation request (DIRECT_DEBITING / UPDATE) on balance `b` -/
theorem effect_reserve (b : Int) (supi : Bytes) (rg : Int) (st : RgState) (ask : Nat)
    (ha : ask < 4611686018427387904) (hb : -2305843009213693952 ≤ b ∧ b ≤ 2305843009213693952) :
    Abmf.effect b (mkCCR supi rg st 2 0 ask 0) =
      (if (ask : Int) > b then (b - max b 0, some (max b 0).toNat, true) else (b - ask, some ask, false)) := by
  unfold Abmf.effect mkCCR
  simp only [toI64_small (show ask < 9223372036854775808 by omega)]
  simp only [if_true, reduceCtorEq, Nat.zero_ne_one, if_false, true_or, or_true]
  by_cases hgt : (ask : Int) > b
  · simp only [hgt, if_true]
    by_cases hneg : b < 0
    · simp only [hneg, if_true]
      have : max b 0 = 0 := by omega
      rw [this, wrap64_id ⟨by omega, by omega⟩]
      simp [toU64]
    · simp only [hneg, if_false]
      have : max b 0 = b := by omega
      rw [this, wrap64_id ⟨by omega, by omega⟩]
      simp only [toU64, Int.sub_self, Prod.mk.injEq, Option.some.injEq, and_true, true_and]
      rw [Int.emod_eq_of_lt (by omega) (by omega)]
  · simp only [hgt, if_false]
    rw [wrap64_id ⟨by omega, by omega⟩]
    simp only [toU64, Prod.mk.injEq, Option.some.injEq, and_true, true_and]
    rw [Int.emod_eq_of_lt (by omega) (by omega)]
    simp


/-- what the reserve branch does, as plain integer arithmetic:
    (new balance, new reservation, final-unit indication, granted units) -/
def reserveSpec (b r : Int) (used reqVol c : Nat) : Int × Int × Bool × Nat :=
  let r1 := r - (used * c : Nat)
  let reqQ : Int := (reqVol * c : Nat)
  let ask := reqQ - r1
  let g : Int := if r1 < reqQ then (if ask > b then max b 0 else ask) else 0
  let fui : Bool := decide (r1 < reqQ ∧ ask > b)
  let r2 := r1 + g
  let avail : Int := if r2 < reqQ then max r2 0 else reqQ
  let allowed : Nat := if c = 0 then 0 else avail.toNat / c
  (b - g, r2, fui, min allowed reqVol)


theorem avail_eq (r2 : Int) (q : Nat) (hq : q < 4294967296) :
    ((if r2 < (q : Int) then if r2 > 0 then r2.toNat else 0 else q) % 4294967296) =
      (if r2 < (q : Int) then max r2 0 else (q : Int)).toNat := by
  by_cases h1 : r2 < (q : Int)
  · simp only [h1, if_true]
    by_cases h2 : r2 > 0
    · simp only [h2, if_true]
      have : max r2 0 = r2 := by omega
      rw [this]
      have : r2.toNat < 4294967296 := by omega
      exact Nat.mod_eq_of_lt this
    · simp only [h2, if_false]
      have : max r2 0 = 0 := by omega
      rw [this]; rfl
  · simp only [h1, if_false]
    rw [Nat.mod_eq_of_lt hq]; simp

theorem reserve_char {e : Env} {supi : Bytes} {u : Usage} {st : RgState} {b : Int} {s : Bytes}
    (ok : UsageOK e supi u st b s) :
    balOf (reserveBranch e supi u st (totalUsed u.cs)).accts supi (u32 u.rg) =
      some (reserveSpec b st.reserved (totalUsed u.cs) (reqVolOf u) (costOf s)).1 ∧
    (reserveBranch e supi u st (totalUsed u.cs)).st =
      { reserved := (reserveSpec b st.reserved (totalUsed u.cs) (reqVolOf u) (costOf s)).2.1,
        mode := if (reserveSpec b st.reserved (totalUsed u.cs) (reqVolOf u) (costOf s)).2.2.1 then 2 else st.mode,
        cost := costOf s, reqNum := st.reqNum + 1 } ∧
    (reserveBranch e supi u st (totalUsed u.cs)).mui =
      some { rg := u.rg, granted := (reserveSpec b st.reserved (totalUsed u.cs) (reqVolOf u) (costOf s)).2.2.2,
             fui := (reserveSpec b st.reserved (totalUsed u.cs) (reqVolOf u) (costOf s)).2.2.1 } ∧
    (∀ supi' rg', ¬ (supi' = supi ∧ rg' = u32 u.rg) →
      balOf (reserveBranch e supi u st (totalUsed u.cs)).accts supi' rg' = balOf e.accts supi' rg') := by
  obtain ⟨hs, hb, ht, hu, hr, ⟨b0, b1⟩, ⟨r0, r1⟩⟩ := ok
  unfold reserveBranch reserveSpec
  simp only [getUnitCost_known hs ht]
  rw [Nat.mod_eq_of_lt hu, Nat.mod_eq_of_lt hr]
  have hw1 : wrap64 (st.reserved - ((totalUsed u.cs * costOf s : Nat) : Int)) =
      st.reserved - ((totalUsed u.cs * costOf s : Nat) : Int) := wrap64_id ⟨by omega, by omega⟩
  rw [hw1]
  have hsur : ∀ q : Nat, Rating.handleSUR e.tariffs (mkSUR supi u.rg 1 0 q) =
      .answer [] (Rating.buildTariff s).1 (Rating.buildTariff s).2
        (if costOf s = 0 then 0 else q / costOf s) (if costOf s = 0 then 0 else (q / costOf s * costOf s) % 4294967296) := by
    intro q
    rw [handleSUR_known hs ht]
    unfold Rating.rate mkSUR
    by_cases hc0 : costOf s = 0 <;> simp [hc0]
  simp only [hsur]
  by_cases hneed : st.reserved - ((totalUsed u.cs * costOf s : Nat) : Int) < ((reqVolOf u * costOf s : Nat) : Int)
  · simp only [hneed, if_true, true_and]
    have hask : toU64 (((reqVolOf u * costOf s : Nat) : Int) - (st.reserved - ((totalUsed u.cs * costOf s : Nat) : Int))) =
        (((reqVolOf u * costOf s : Nat) : Int) - (st.reserved - ((totalUsed u.cs * costOf s : Nat) : Int))).toNat := by
      unfold toU64; rw [Int.emod_eq_of_lt (by omega) (by omega)]
    rw [hask]
    have haskI : ((((reqVolOf u * costOf s : Nat) : Int) - (st.reserved - ((totalUsed u.cs * costOf s : Nat) : Int))).toNat : Int) =
        ((reqVolOf u * costOf s : Nat) : Int) - (st.reserved - ((totalUsed u.cs * costOf s : Nat) : Int)) :=
      Int.toNat_of_nonneg (by omega)
    obtain ⟨q0, hf, hsend⟩ := sendCCR_known
      (st := { reserved := st.reserved - ((totalUsed u.cs * costOf s : Nat) : Int), mode := st.mode, cost := costOf s, reqNum := st.reqNum })
      hs hb 2 0 (((reqVolOf u * costOf s : Nat) : Int) - (st.reserved - ((totalUsed u.cs * costOf s : Nat) : Int))).toNat 0
    rw [hsend, effect_reserve b supi u.rg _ _ (by omega) ⟨b0, b1⟩, haskI]
    by_cases hgt : ((reqVolOf u * costOf s : Nat) : Int) - (st.reserved - ((totalUsed u.cs * costOf s : Nat) : Int)) > b
    · simp only [hgt, if_true, decide_true, Option.getD_some]
      have hg : toI64 (max b 0).toNat = max b 0 := by
        rw [toI64_small (by omega)]; exact Int.toNat_of_nonneg (by omega)
      simp only [hg]
      rw [wrap64_id (i := st.reserved - ((totalUsed u.cs * costOf s : Nat) : Int) + max b 0) ⟨by omega, by omega⟩]
      refine ⟨balOf_put_same _ hf, ?_, ?_, ?_⟩
      · rfl
      · simp only [avail_eq _ _ hr]
      · intro supi' rg' hne; exact balOf_put_other _ hne
    · simp only [hgt, if_false, decide_false, Option.getD_some, Bool.false_eq_true]
      have hg : toI64 (((reqVolOf u * costOf s : Nat) : Int) - (st.reserved - ((totalUsed u.cs * costOf s : Nat) : Int))).toNat =
          ((reqVolOf u * costOf s : Nat) : Int) - (st.reserved - ((totalUsed u.cs * costOf s : Nat) : Int)) := by
        rw [toI64_small (by omega)]; exact haskI
      simp only [hg]
      rw [wrap64_id (i := st.reserved - ((totalUsed u.cs * costOf s : Nat) : Int) +
        (((reqVolOf u * costOf s : Nat) : Int) - (st.reserved - ((totalUsed u.cs * costOf s : Nat) : Int)))) ⟨by omega, by omega⟩]
      refine ⟨balOf_put_same _ hf, rfl, ?_, ?_⟩
      · simp only [avail_eq _ _ hr]
      · intro supi' rg' hne; exact balOf_put_other _ hne
  · simp only [hneed, if_false, false_and, decide_false, Bool.false_eq_true, Int.add_zero, Int.sub_zero]
    refine ⟨hb, trivial, ?_, fun _ _ _ => trivial⟩
    rw [Nat.mod_eq_of_lt hr, Int.toNat_natCast]


/-- the debit branch as plain arithmetic: (new balance, new mode) — the reservation becomes 0 -/
def debitSpec (b r : Int) (used c : Nat) (mode : Nat) : Int × Nat :=
  let price : Int := (used * c : Nat)
  if price < r then (b + (r - price), 1) else (b - (price - r), mode)

theorem debit_char {e : Env} {supi : Bytes} {u : Usage} {st : RgState} {b : Int} {s : Bytes}
    (ok : UsageOK e supi u st b s) :
    balOf (debitBranch e supi u st (totalUsed u.cs)).accts supi (u32 u.rg) =
      some (debitSpec b st.reserved (totalUsed u.cs) (costOf s) st.mode).1 ∧
    (debitBranch e supi u st (totalUsed u.cs)).st =
      { st with reserved := 0, mode := (debitSpec b st.reserved (totalUsed u.cs) (costOf s) st.mode).2,
                reqNum := st.reqNum + 1 } ∧
    (debitBranch e supi u st (totalUsed u.cs)).mui = some { rg := u.rg, granted := 0, fui := false } ∧
    (∀ supi' rg', ¬ (supi' = supi ∧ rg' = u32 u.rg) →
      balOf (debitBranch e supi u st (totalUsed u.cs)).accts supi' rg' = balOf e.accts supi' rg') := by
  obtain ⟨hs, hb, ht, hu, hr, ⟨b0, b1⟩, ⟨r0, r1⟩⟩ := ok
  unfold debitBranch debitSpec
  rw [handleSUR_known hs ht]
  have hprice : (Rating.rate (costOf s) (mkSUR supi u.rg 2 (totalUsed u.cs) 0)).2 = totalUsed u.cs * costOf s := by
    unfold Rating.rate mkSUR
    simp [Nat.mod_eq_of_lt hu]
  simp only [hprice]
  by_cases hlt : ((totalUsed u.cs * costOf s : Nat) : Int) < st.reserved
  · simp only [hlt, if_true]
    have hamt : toU64 (st.reserved - ((totalUsed u.cs * costOf s : Nat) : Int)) =
        (st.reserved - ((totalUsed u.cs * costOf s : Nat) : Int)).toNat := by
      unfold toU64; rw [Int.emod_eq_of_lt (by omega) (by omega)]
    rw [hamt]
    have hamtI : (((st.reserved - ((totalUsed u.cs * costOf s : Nat) : Int)).toNat : Nat) : Int) =
        st.reserved - ((totalUsed u.cs * costOf s : Nat) : Int) := Int.toNat_of_nonneg (by omega)
    obtain ⟨q0, hf, hsend⟩ := sendCCR_known (st := { st with mode := 1 }) hs hb 0 1
      (st.reserved - ((totalUsed u.cs * costOf s : Nat) : Int)).toNat 0
    rw [hsend]
    have heff : (Abmf.effect b (mkCCR supi u.rg { st with mode := 1 } 0 1
        (st.reserved - ((totalUsed u.cs * costOf s : Nat) : Int)).toNat 0)).1 =
        b + (st.reserved - ((totalUsed u.cs * costOf s : Nat) : Int)) := by
      unfold Abmf.effect mkCCR
      simp only [if_true]
      rw [toI64_small (by omega), hamtI, wrap64_id ⟨by omega, by omega⟩]
    simp only [heff]
    exact ⟨balOf_put_same _ hf, trivial, trivial, fun _ _ hne => balOf_put_other _ hne⟩
  · simp only [hlt, if_false]
    have hamt : toU64 (((totalUsed u.cs * costOf s : Nat) : Int) - st.reserved) =
        (((totalUsed u.cs * costOf s : Nat) : Int) - st.reserved).toNat := by
      unfold toU64; rw [Int.emod_eq_of_lt (by omega) (by omega)]
    rw [hamt]
    have hamtI : (((((totalUsed u.cs * costOf s : Nat) : Int) - st.reserved).toNat : Nat) : Int) =
        ((totalUsed u.cs * costOf s : Nat) : Int) - st.reserved := Int.toNat_of_nonneg (by omega)
    obtain ⟨q0, hf, hsend⟩ := sendCCR_known (st := st) hs hb 3 0 0
      (((totalUsed u.cs * costOf s : Nat) : Int) - st.reserved).toNat
    rw [hsend]
    have heff : (Abmf.effect b (mkCCR supi u.rg st 3 0 0
        (((totalUsed u.cs * costOf s : Nat) : Int) - st.reserved).toNat)).1 =
        b - (((totalUsed u.cs * costOf s : Nat) : Int) - st.reserved) := by
      unfold Abmf.effect mkCCR
      simp only [if_true, reduceCtorEq, Nat.zero_ne_one, if_false]
      have e1 : ¬ ((3 : Nat) = 1 ∨ (3 : Nat) = 2) := by decide
      simp only [e1, if_false, if_true]
      rw [toI64_small (by omega), hamtI, wrap64_id ⟨by omega, by omega⟩]
    simp only [heff]
    exact ⟨balOf_put_same _ hf, trivial, trivial, fun _ _ hne => balOf_put_other _ hne⟩

def int32 (i : Int) : Prop := -2147483648 ≤ i ∧ i < 2147483648

theorem u32_inj {a b : Int} (ha : int32 a) (hb : int32 b) (h : u32 a = u32 b) : a = b := by
  unfold u32 at h; unfold int32 at ha hb
  have := congrArg (fun n : Nat => (n : Int)) h
  simp only [Int.toNat_of_nonneg (Int.emod_nonneg _ (by decide : (4294967296 : Int) ≠ 0))] at this
  omega

theorem entryState_reserved (trigs : List Nat) (groups : List (Int × RgState)) (u : Usage) :
    (entryState trigs groups u).reserved = resv groups u.rg := by
  unfold entryState resv
  cases getRg groups u.rg <;> simp only <;> split <;> rfl

theorem reserveSpec_money (b r : Int) (used reqVol c : Nat) :
    (reserveSpec b r used reqVol c).1 + (reserveSpec b r used reqVol c).2.1 = b + r - ((used * c : Nat) : Int) := by
  simp only [reserveSpec]
  omega

theorem debitSpec_money (b r : Int) (used c mode : Nat) :
    (debitSpec b r used c mode).1 = b + r - ((used * c : Nat) : Int) := by
  simp only [debitSpec]
  split <;> simp only <;> omega

theorem usageStep_money {e : Env} {supi : Bytes} {trigs : List Nat} {groups : List (Int × RgState)} {u : Usage}
    (ok : usageOKb e supi trigs groups u = true) (rg : Int) (hrg : int32 rg) :
    moneyOf (usageStep e supi trigs groups u).1 (usageStep e supi trigs groups u).2.1 supi rg =
      (moneyOf e.accts groups supi rg).map (fun m => m - (if rg = u.rg then (ratedUsage e.tariffs supi u : Int) else 0)) ∧
    (∀ supi' rg', supi' ≠ supi → balOf (usageStep e supi trigs groups u).1 supi' rg' = balOf e.accts supi' rg') := by
  unfold usageOKb at ok
  unfold usageStep
  by_cases hon : anyOnline u.cs = true
  · simp only [hon, if_true, not_true_eq_false, if_false] at ok ⊢
    cases hb : balOf e.accts supi (u32 u.rg) with
    | none => simp [hb] at ok
    | some b =>
      cases ht : Rating.findCost e.tariffs supi (u32 u.rg) with
      | none => simp [hb, ht] at ok
      | some s =>
        simp only [hb, ht, Bool.and_eq_true, decide_eq_true_eq] at ok
        obtain ⟨⟨⟨⟨⟨⟨hs, hu⟩, hr⟩, hbr⟩, hrr⟩, hrg32⟩, hmode⟩ := ok
        have hok : UsageOK e supi u (entryState trigs groups u) b s :=
          ⟨hs, hb, ht, hu, hr, hbr, by rw [entryState_reserved]; exact hrr⟩
        have hrated : ratedUsage e.tariffs supi u = totalUsed u.cs * costOf s := by
          unfold ratedUsage; simp [hon, ht]
        rcases hmode with hm | hm
        · -- reserve branch
          simp only [hm, if_true]
          obtain ⟨c1, c2, _, c4⟩ := reserve_char hok
          constructor
          · unfold moneyOf
            by_cases heq : rg = u.rg
            · rw [heq]
              simp only [c1, hb, resv_setRg_same, c2, if_true, Option.map_some, hrated, Option.some.injEq]
              have := reserveSpec_money b (entryState trigs groups u).reserved (totalUsed u.cs) (reqVolOf u) (costOf s)
              rw [entryState_reserved] at this ⊢
              omega
            · have hne : ¬ (supi = supi ∧ u32 rg = u32 u.rg) := fun h => heq (u32_inj hrg hrg32 h.2)
              rw [c4 _ _ hne, resv_setRg_other _ _ _ _ heq]
              simp only [heq, if_false, Int.sub_zero]
              cases balOf e.accts supi (u32 rg) <;> rfl
          · intro supi' rg' hne
            exact c4 _ _ (fun h => hne h.1)
        · -- debit branch
          have hm1 : (entryState trigs groups u).mode ≠ 1 := by omega
          have h21 : ¬ ((2 : Nat) = 1) := by decide
          simp only [hm, h21, if_false, if_true]

          obtain ⟨c1, c2, _, c4⟩ := debit_char hok
          constructor
          · unfold moneyOf
            by_cases heq : rg = u.rg
            · rw [heq]
              simp only [c1, hb, resv_setRg_same, c2, if_true, Option.map_some, hrated, Option.some.injEq]
              have := debitSpec_money b (entryState trigs groups u).reserved (totalUsed u.cs) (costOf s) (entryState trigs groups u).mode
              rw [entryState_reserved] at this ⊢
              omega
            · have hne : ¬ (supi = supi ∧ u32 rg = u32 u.rg) := fun h => heq (u32_inj hrg hrg32 h.2)
              rw [c4 _ _ hne, resv_setRg_other _ _ _ _ heq]
              simp only [heq, if_false, Int.sub_zero]
              cases balOf e.accts supi (u32 rg) <;> rfl
          · intro supi' rg' hne
            exact c4 _ _ (fun h => hne h.1)
  · simp only [hon, if_false, Bool.false_eq_true, not_false_eq_true, if_true, decide_eq_true_eq] at ok ⊢
    constructor
    · unfold moneyOf
      have hr0 : ratedUsage e.tariffs supi u = 0 := by unfold ratedUsage; simp [hon]
      by_cases heq : rg = u.rg
      · rw [heq, resv_setRg_same, entryState_reserved]
        simp only [hr0, if_true]
        cases balOf e.accts supi (u32 u.rg) <;> simp
      · rw [resv_setRg_other _ _ _ _ heq]
        simp only [heq, if_false, Int.sub_zero]
        cases balOf e.accts supi (u32 rg) <;> rfl
    · intro _ _ _; trivial


theorem creditControl_money (tariffs : List Rating.Tariff) (supi : Bytes) (trigs : List Nat) (rg : Int) (hrg : int32 rg)
    (us : List Usage) : ∀ (accts : Abmf.Store) (groups : List (Int × RgState)),
    ccOKb tariffs supi trigs accts groups us = true →
    moneyOf (creditControl tariffs supi trigs accts groups us).1 (creditControl tariffs supi trigs accts groups us).2.1 supi rg =
      (moneyOf accts groups supi rg).map (fun m => m - ratedList tariffs supi rg us) ∧
    (∀ supi' rg', supi' ≠ supi →
      balOf (creditControl tariffs supi trigs accts groups us).1 supi' rg' = balOf accts supi' rg') := by
  induction us with
  | nil =>
    intro accts groups _
    simp only [creditControl, ratedList, Int.sub_zero]
    constructor
    · cases moneyOf accts groups supi rg <;> simp
    · intro _ _ _; trivial
  | cons u r ih =>
    intro accts groups hok
    simp only [ccOKb, Bool.and_eq_true] at hok
    obtain ⟨h1, h2⟩ := hok
    obtain ⟨m1, f1⟩ := usageStep_money (e := { accts := accts, tariffs := tariffs }) h1 rg hrg
    obtain ⟨m2, f2⟩ := ih _ _ h2
    simp only [creditControl, ratedList]
    constructor
    · rw [m2, m1]
      cases moneyOf accts groups supi rg with
      | none => rfl
      | some m => simp only [Option.map_some, Option.some.injEq]; omega
    · intro supi' rg' hne
      rw [f2 _ _ hne, f1 _ _ hne]

end Chf.Charging
