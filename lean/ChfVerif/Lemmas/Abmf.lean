import ChfVerif.Model.Abmf
/- helper lemmas for the account-balance server model (C07, C01, C06) -/
namespace Chf.Abmf

def InRange (i : Int) : Prop := -9223372036854775808 ≤ i ∧ i < 9223372036854775808

theorem wrap64_id {i : Int} (h : InRange i) : wrap64 i = i := by
  unfold wrap64; unfold InRange at h; omega

theorem wrap64_inRange (i : Int) : InRange (wrap64 i) := by
  unfold wrap64 InRange; omega

theorem toI64_small {u : Nat} (h : u < 9223372036854775808) : toI64 u = (u : Int) := by
  unfold toI64; exact wrap64_id ⟨by omega, by omega⟩

theorem toU64_nonneg {i : Int} (h0 : 0 ≤ i) (h1 : i < 18446744073709551616) : (toU64 i : Int) = i := by
  unfold toU64
  rw [Int.emod_eq_of_lt h0 h1]
  exact Int.toNat_of_nonneg h0

theorem parseInt64_inRange {s : Bytes} {i : Int} (h : parseInt64 s = some i) : InRange i := by
  unfold parseInt64 at h
  unfold InRange
  split at h
  · split at h
    · split at h
      · injection h with h; omega
      · cases h
    · cases h
  · split at h
    · split at h
      · injection h with h; omega
      · cases h
    · cases h
  · split at h
    · split at h
      · injection h with h; omega
      · cases h
    · cases h

theorem find_put_same {st : Store} {ue : Bytes} {rg : Nat} {q0 : Quota} (q : Quota)
    (h : find st ue rg = some q0) : find (put st ue rg q) ue rg = some q := by
  induction st with
  | nil => simp [find] at h
  | cons a r ih =>
    unfold put
    by_cases hk : a.ue = ue ∧ a.rg = rg
    · simp [hk, find]
    · simp only [hk, if_false, find] at h ⊢
      exact ih h

theorem find_put_other {st : Store} {ue ue' : Bytes} {rg rg' : Nat} (q : Quota)
    (hne : ¬ (ue' = ue ∧ rg' = rg)) : find (put st ue rg q) ue' rg' = find st ue' rg' := by
  induction st with
  | nil => simp [put]
  | cons a r ih =>
    unfold put
    by_cases hk : a.ue = ue ∧ a.rg = rg
    · have hk' : ¬ (a.ue = ue' ∧ a.rg = rg') := by
        intro h; apply hne; exact ⟨h.1 ▸ hk.1 ▸ rfl, h.2 ▸ hk.2 ▸ rfl⟩
      have hk'' : ¬ (ue = ue' ∧ rg = rg') := fun h => hne ⟨h.1.symm, h.2.symm⟩
      simp [hk, find, hk'']
    · simp only [hk, if_false, find]
      by_cases hk2 : a.ue = ue' ∧ a.rg = rg'
      · simp [hk2]
      · simp [hk2, ih]

theorem put_absent {st : Store} {ue : Bytes} {rg : Nat} (q : Quota) (h : find st ue rg = none) :
    put st ue rg q = st := by
  induction st with
  | nil => rfl
  | cons a r ih =>
    unfold find at h
    by_cases hk : a.ue = ue ∧ a.rg = rg
    · simp [hk] at h
    · simp only [hk, if_false] at h
      simp [put, hk, ih h]

/-- what the reply and the addressed account look like after a request on a known account -/
theorem handleCCR_known {st : Store} {c : CCR} {q : Quota} {quota : Int}
    (hf : find st (subscriberId c) c.rg = some q) (hp : q.parse = some quota) :
    handleCCR st c =
      (put st (subscriberId c) c.rg (.num (effect quota c).1),
       .answer c.sess c.reqType c.reqNum (effect quota c).2.1 (effect quota c).2.2) := by
  unfold handleCCR
  rw [hf]; simp only [hp]

end Chf.Abmf
