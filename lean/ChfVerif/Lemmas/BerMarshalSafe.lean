import ChfVerif.Spec.BerSpec
/- the encoder model never reaches a Go panic on types whose OPTIONAL members are nil-able -/
namespace Chf.Ber
open Chf

theorem marshal_no_panic :
    (∀ t p v, optNilable t = true → marshal t p v ≠ .panic) ∧
    (∀ t p vs, optNilable t = true → marshalElems t p vs ≠ .panic) ∧
    (∀ fs vs, optNilableFs fs = true → marshalFields fs vs ≠ .panic) ∧
    (∀ fs vs n, optNilableFs fs = true → marshalAlt fs vs n ≠ .panic) := by
  have key := marshal.mutual_induct
    (motive1 := fun t p v => optNilable t = true → marshal t p v ≠ .panic)
    (motive2 := fun t p vs => optNilable t = true → marshalElems t p vs ≠ .panic)
    (motive3 := fun fs vs => optNilableFs fs = true → marshalFields fs vs ≠ .panic)
    (motive4 := fun fs vs n => optNilableFs fs = true → marshalAlt fs vs n ≠ .panic)
  apply key <;> clear key
  all_goals (intros; first | (simp_all [marshal, marshalElems, marshalFields, marshalAlt, optNilable, optNilableFs]; done) | skip)
  all_goals first
    | (intros; unfold marshal; simp_all [optNilable]; done)
    | (intros; unfold marshal; simp_all [optNilable]; split <;> simp_all; done)
    | (intros; unfold marshalFields; simp_all [optNilableFs]; done)
    | (intros; unfold marshalFields; simp_all [optNilableFs]; split <;> simp_all; done)
    | skip
  · rename_i alts p present vs h1 h2 h3 hx ih ha
    rw [marshal]
    simp only [h1, h2, h3, hx, if_false, Bool.false_eq_true]
    exact ih (by simpa [optNilable] using ha)
  · rename_i alts p present vs h1 h2 h3 n hx inner hin ih ha
    rw [marshal]
    simp only [h1, h2, h3, hx, hin, if_false, Bool.false_eq_true]
    simp

end Chf.Ber
