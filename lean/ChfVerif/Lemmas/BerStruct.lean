import ChfVerif.Lemmas.BerRoundTrip
import ChfVerif.Lemmas.BerEncode
/- structure of encodings (every encoding is one TLV; a run of TLVs splits back into its elements): towards the
   structural round trip of C05 -/
namespace Chf.Ber
open Chf

/-- `enter` on an element the encoder finished: the (possibly unwrapped) octets are again an element finished
    under the returned parameters, which are the given ones or their untagged form -/
theorem enter_finish2 (t : Ty) (p : Params) (c : Bool) (tag : Nat) (content : Bytes)
    (hexp : expectedTag p (stripPtr t) = some tag ∨ expectedTag p (stripPtr t) = none)
    (hexp' : expectedTag (untagged p) (stripPtr t) = some tag ∨ expectedTag (untagged p) (stripPtr t) = none)
    (hnc : isChoiceTy t = false)
    (htag : tag < 9223372036854775808)
    (hn : ∀ n, p.tagNumber = some n → n < 9223372036854775808)
    (hlen : content.length + 44 < 9223372036854775808) :
    ∃ p' tal, enter t p (finish p c tag content) = .ok (finish p' c tag content, p', tal) ∧
      (p' = p ∨ p' = untagged p) ∧ from_ (finish p' c tag content) tal.off = .ok content := by
  unfold enter
  cases hp : p.tagNumber with
  | none =>
    rw [finish_untagged p c tag content hp]
    have hpar := tlv_parse 0 c tag content [] (by decide) htag (by omega)
    rw [List.append_nil] at hpar
    rw [hpar]
    simp only [tlv_length, Nat.lt_irrefl, gt_iff_lt, if_false, take_tlv]
    have htok : tagOk t p ⟨0, c, tag, content.length, (header 0 c tag content.length).length⟩ = true := by
      rcases hexp with h | h <;> simp [tagOk, hp, h]
    have hnu : needsUnwrap t p = false := by simp [needsUnwrap, hp]
    simp only [htok, Bool.not_true, Bool.false_eq_true, if_false, hnu]
    refine ⟨p, _, by rw [finish_untagged p c tag content hp], Or.inl rfl, ?_⟩
    rw [finish_untagged p c tag content hp]; unfold from_ tlv; simp
  | some n =>
    have hn' := hn n hp
    by_cases hex : p.explicit = true
    · have hfin : finish p c tag content = tlv 2 true n (tlv 0 c tag content) := by
        unfold finish; rw [hp]; simp [hex]
      rw [hfin]
      have hin : (tlv 0 c tag content).length < 9223372036854775808 := by
        rw [tlv_length]; have := header_length_le 0 c tag content.length; omega
      have hpar := tlv_parse 2 true n (tlv 0 c tag content) [] (by decide) hn' hin
      rw [List.append_nil] at hpar
      rw [hpar]
      simp only [tlv_length, Nat.lt_irrefl, gt_iff_lt, if_false, take_tlv]
      have htok : tagOk t p ⟨2, true, n, (header 0 c tag content.length).length + content.length,
          (header 2 true n ((header 0 c tag content.length).length + content.length)).length⟩ = true := by
        simp [tagOk, hp]
      have hnu : needsUnwrap t p = true := by simp [needsUnwrap, hp, hex, hnc]
      simp only [htok, Bool.not_true, Bool.false_eq_true, if_false, hnu, if_true]
      unfold enterInner
      have hsub : sub (tlv 2 true n (tlv 0 c tag content))
          (header 2 true n ((header 0 c tag content.length).length + content.length)).length
          ((header 2 true n ((header 0 c tag content.length).length + content.length)).length +
            ((header 0 c tag content.length).length + content.length)) = .ok (tlv 0 c tag content) := by
        have := sub_at (header 2 true n (tlv 0 c tag content).length) (tlv 0 c tag content) []
        simp only [List.append_nil, tlv_length] at this
        unfold tlv at this ⊢
        simp only [List.length_append] at this ⊢
        exact this
      have htk : List.take ((header 2 true n ((header 0 c tag content.length).length + content.length)).length +
            ((header 0 c tag content.length).length + content.length)) (tlv 2 true n (tlv 0 c tag content)) =
          tlv 2 true n (tlv 0 c tag content) := List.take_of_length_le (by simp [tlv_length])
      rw [htk, hsub]
      simp only
      have hpar2 := tlv_parse 0 c tag content [] (by decide) htag (by omega)
      rw [List.append_nil] at hpar2
      rw [hpar2]
      simp only [tlv_length, Nat.lt_irrefl, gt_iff_lt, if_false, take_tlv]
      have htok2 : tagOk t { p with tagNumber := none, explicit := false }
          ⟨0, c, tag, content.length, (header 0 c tag content.length).length⟩ = true := by
        unfold untagged at hexp'
        rcases hexp' with h | h <;> simp [tagOk, h]
      simp only [htok2, if_true]
      refine ⟨untagged p, ⟨0, c, tag, content.length, (header 0 c tag content.length).length⟩, ?_, Or.inr rfl, ?_⟩
      · rw [finish_untagged (untagged p) c tag content rfl]
        rfl
      · rw [finish_untagged (untagged p) c tag content rfl]; unfold from_ tlv; simp
    · have hfin : finish p c tag content = tlv 2 c n content := by
        unfold finish; rw [hp]; simp [hex]
      rw [hfin]
      have hpar := tlv_parse 2 c n content [] (by decide) hn' (by omega)
      rw [List.append_nil] at hpar
      rw [hpar]
      simp only [tlv_length, Nat.lt_irrefl, gt_iff_lt, if_false, take_tlv]
      have htok : tagOk t p ⟨2, c, n, content.length, (header 2 c n content.length).length⟩ = true := by
        simp [tagOk, hp]
      have hnu : needsUnwrap t p = false := by simp [needsUnwrap, hp, hex]
      simp only [htok, Bool.not_true, Bool.false_eq_true, if_false, hnu]
      refine ⟨p, _, by rw [hfin], Or.inl rfl, ?_⟩
      rw [hfin]; unfold from_ tlv; simp



/-- class and tag number of the outermost header of a value of type `t` encoded under `p`
    (none: an untagged CHOICE, whose header is that of the selected alternative) -/
def elemKey (p : Params) (t : Ty) : Option (Nat × Nat) :=
  match p.tagNumber with
  | some n => some (2, n)
  | none => match expectedTag p (underlying t) with
    | some e => some (0, e)
    | none => none

theorem finish_key (p : Params) (c : Bool) (tag : Nat) (content : Bytes) :
    ∃ c' content', finish p c tag content =
      tlv (match p.tagNumber with | some _ => 2 | none => 0) c' (match p.tagNumber with | some n => n | none => tag) content' := by
  unfold finish
  cases p.tagNumber with
  | none => exact ⟨c, content, rfl⟩
  | some n =>
    simp only
    split
    · exact ⟨true, _, rfl⟩
    · exact ⟨c, content, rfl⟩

theorem elemKey_prim (p : Params) (t : Ty) (tag : Nat) (h : expectedTag p (underlying t) = some tag) :
    elemKey p t = some ((match p.tagNumber with | some _ => 2 | none => 0), (match p.tagNumber with | some n => n | none => tag)) := by
  unfold elemKey
  cases p.tagNumber with
  | none => simp [h]
  | some n => rfl

/-- every encoding is one TLV whose class and tag number are `elemKey` -/
theorem marshal_tlv :
    (∀ t p v, ∀ b cls tag, marshal t p v = .ok b → elemKey p t = some (cls, tag) → ∃ c content, b = tlv cls c tag content) ∧
    (∀ (_ : Ty) (_ : Params) (_ : Vals), True) ∧ (∀ (_ : Fields) (_ : Vals), True) ∧ (∀ (_ : Fields) (_ : Vals) (_ : Nat), True) := by
  have key := marshal.mutual_induct
    (motive1 := fun t p v => ∀ b cls tag, marshal t p v = .ok b → elemKey p t = some (cls, tag) → ∃ c content, b = tlv cls c tag content)
    (motive2 := fun _ _ _ => True) (motive3 := fun _ _ => True) (motive4 := fun _ _ _ => True)
  apply key <;> clear key
  all_goals (intros; first | trivial | skip)
  all_goals (first
    | (rename_i hm hk; simp [marshal] at hm; done)
    | skip)
  -- error branches
  all_goals (first
    | (rename_i hm hk; simp_all [marshal]; done)
    | skip)
  -- branches that end in `finish`
  all_goals (first
    | (rename_i hm hk
       simp only [marshal, Res.ok.injEq] at hm
       subst hm
       obtain ⟨c', content', e⟩ := finish_key ‹Params› _ _ _
       rw [elemKey_prim _ _ _ rfl] at hk
       simp only [Option.some.injEq, Prod.mk.injEq] at hk
       obtain ⟨h1, h2⟩ := hk
       subst h1; subst h2
       exact ⟨c', content', e⟩)
    | skip)
  case case2 =>
    rename_i t p v hne ih b cls tag hm hk
    have e1 : marshal (.ptr t) p v = marshal t p v := by simp [marshal]
    rw [e1] at hm
    exact ih b cls tag hm (by simpa [elemKey, underlying] using hk)
  case case12 =>
    rename_i t p v ih b cls tag hm hk
    rw [marshal] at hm
    exact ih b cls tag hm (by simpa [elemKey, underlying] using hk)
  case case16 =>
    rename_i alts p present vs h1 h2 h3 htn ih b cls tag hm hk
    simp [elemKey, htn, underlying, expectedTag] at hk
  case case17 =>
    rename_i alts p present vs h1 h2 h3 n htn inner hin ih b cls tag hm hk
    simp [marshal, h1, h2, h3, htn, hin] at hm
    simp [elemKey, htn] at hk
    obtain ⟨rfl, rfl⟩ := hk
    exact ⟨true, inner, hm.symm⟩
  case case19 =>
    rename_i alts p present vs h1 h2 h3 n htn hin ih b cls tag hm hk
    simp [marshal, h1, h2, h3, htn, hin] at hm
  case case21 =>
    rename_i fs p vs h1 inner hin ih b cls tag hm hk
    simp only [marshal, h1, hin, if_false, Res.ok.injEq] at hm
    subst hm
    obtain ⟨c', content', e⟩ := finish_key p true (seqTag p) inner
    rw [elemKey_prim p (.struct fs) (seqTag p) rfl] at hk
    simp only [Option.some.injEq, Prod.mk.injEq] at hk
    obtain ⟨h1', h2'⟩ := hk
    subst h1'; subst h2'
    exact ⟨c', content', e⟩
  case case24 =>
    rename_i t p vs inner hin ih b cls tag hm hk
    simp only [marshal, hin, Res.ok.injEq] at hm
    subst hm
    obtain ⟨c', content', e⟩ := finish_key p true (seqTag p) inner
    rw [elemKey_prim p (.slice t) (seqTag p) rfl] at hk
    simp only [Option.some.injEq, Prod.mk.injEq] at hk
    obtain ⟨h1', h2'⟩ := hk
    subst h1'; subst h2'
    exact ⟨c', content', e⟩


abbrev Elem := Nat × Nat × Bytes

def IsTlv (x : Elem) : Prop :=
  ∃ c content, x.2.2 = tlv x.1 c x.2.1 content ∧ x.1 < 4 ∧ x.2.1 < 9223372036854775808 ∧
    content.length < 9223372036854775808

def flat : List Elem → Bytes
  | [] => []
  | x :: r => x.2.2 ++ flat r

theorem tlv_ne_nil (cls : Nat) (c : Bool) (tag : Nat) (content : Bytes) : 2 ≤ (tlv cls c tag content).length := by
  rw [tlv_length]
  have : 2 ≤ (header cls c tag content.length).length := by
    rw [header_split, List.length_append]
    have h1 : 1 ≤ (tagPart (cls * 64 + (if c then 32 else 0)) tag).length := by unfold tagPart; split <;> simp
    have h2 : 1 ≤ (lenPart content.length).length := by unfold lenPart; split <;> simp
    omega
  omega

theorem splitTLVs_flat (es : List Elem) (h : ∀ x ∈ es, IsTlv x) :
    ∀ fuel, es.length ≤ fuel → splitTLVs (flat es) fuel = .ok es := by
  induction es with
  | nil =>
    intro fuel _
    cases fuel <;> simp [splitTLVs, flat]
  | cons x r ih =>
    intro fuel hf
    cases fuel with
    | zero => simp at hf
    | succ f =>
      obtain ⟨c, content, hx, hcls, htag, hlen⟩ := h x (by simp)
      obtain ⟨cls, tag, e⟩ := x
      simp only at hx hcls htag hlen
      subst hx
      rw [splitTLVs]
      have hne : ¬ (flat ((cls, tag, tlv cls c tag content) :: r)).length = 0 := by
        simp only [flat, List.length_append]; have := tlv_ne_nil cls c tag content; omega
      simp only [hne, if_false]
      simp only [flat]
      rw [tlv_parse cls c tag content (flat r) hcls htag hlen]
      simp only
      have hfit : ¬ ((header cls c tag content.length).length + content.length >
          (tlv cls c tag content ++ flat r).length) := by
        simp only [List.length_append, tlv_length]; omega
      simp only [hfit, if_false]
      have hsub : sub (tlv cls c tag content ++ flat r) 0 ((header cls c tag content.length).length + content.length) =
          .ok (tlv cls c tag content) := by
        have := sub_at [] (tlv cls c tag content) (flat r)
        simpa [tlv_length] using this
      have hfrom : from_ (tlv cls c tag content ++ flat r) ((header cls c tag content.length).length + content.length) =
          .ok (flat r) := by
        unfold from_
        rw [← tlv_length]
        simp
      rw [hsub, hfrom]
      simp only
      rw [ih (fun y hy => h y (by simp [hy])) f (by simp at hf; omega)]

end Chf.Ber
