import ChfVerif.Lemmas.BerStruct
/- the structural round trip of C05: unmarshal (marshal v) = v through SEQUENCE, SEQUENCE OF, CHOICE, wrappers and pointers -/
namespace Chf.Ber
open Chf

def core (p : Params) : Bool × Bool × Nat := (p.set, p.openType, p.stringType)

def rtParams (p : Params) : Bool :=
  (match p.tagNumber with | some n => decide (n < 9223372036854775808) | none => true) &&
  decide (p.stringType < 9223372036854775808) && !p.openType && !p.set && (!p.explicit || p.tagNumber.isNone)

/-- some later member's element would be taken for this (absent) member -/
def matchesLater (p : Params) (t : Ty) : Fields → Bool
  | .nil => false
  | .cons p' t' r => (match elemKey p' t' with | some (c, g) => memberMatches p t c g | none => true) || matchesLater p t r

def tagAbsent (n : Nat) : Fields → Bool
  | .nil => true
  | .cons p _ r => (p.tagNumber != some n) && tagAbsent n r

mutual
/-- the tag numbers an untagged CHOICE (behind pointers) can show as its outermost header -/
def tagsOfTy : Ty → List Nat
  | .ptr t => tagsOfTy t
  | .choice alts => tagsOfAlts alts
  | _ => []
def tagsOfAlts : Fields → List Nat
  | .nil => []
  | .cons p t r => (match p.tagNumber with | some n => [n] | none => tagsOfTy t) ++ tagsOfAlts r
end

mutual
theorem choiceHasTag_mem : ∀ (t : Ty) (n : Nat), choiceHasTag t n = true → n ∈ tagsOfTy t
  | .ptr t, n, h => by
    rw [choiceHasTag] at h; rw [tagsOfTy]; exact choiceHasTag_mem t n h
  | .choice alts, n, h => by
    rw [choiceHasTag] at h; rw [tagsOfTy]; exact altsHaveTag_mem alts n h
  | .wrap _, _, h => by simp [choiceHasTag] at h
  | .slice _, _, h => by simp [choiceHasTag] at h
  | .struct _, _, h => by simp [choiceHasTag] at h
  | .bool, _, h => by simp [choiceHasTag] at h
  | .int _, _, h => by simp [choiceHasTag] at h
  | .enum, _, h => by simp [choiceHasTag] at h
  | .octets, _, h => by simp [choiceHasTag] at h
  | .bits, _, h => by simp [choiceHasTag] at h
  | .null, _, h => by simp [choiceHasTag] at h
  | .oid, _, h => by simp [choiceHasTag] at h
  | .str _, _, h => by simp [choiceHasTag] at h
  | .unsupported, _, h => by simp [choiceHasTag] at h
theorem altsHaveTag_mem : ∀ (fs : Fields) (n : Nat), altsHaveTag fs n = true → n ∈ tagsOfAlts fs
  | .nil, _, h => by simp [altsHaveTag] at h
  | .cons p t r, n, h => by
    rw [altsHaveTag] at h
    rw [tagsOfAlts]
    simp only [Bool.or_eq_true] at h
    rcases h with h | h
    · cases hp : p.tagNumber with
      | some m => rw [hp] at h; simp at h; simp [h]
      | none => rw [hp] at h; simp only at h; simp only [List.mem_append]; left; exact choiceHasTag_mem t n h
    · simp only [List.mem_append]; right; exact altsHaveTag_mem r n h
end

mutual
/-- types the structural round trip covers: SEQUENCE (not SET), SEQUENCE OF, CHOICE with tagged alternatives,
    wrappers of non-CHOICE types, pointers; members keyed, optional members nil-able and not confusable with a later one -/
def rtTy : Ty → Bool
  | .ptr t => rtTy t
  | .wrap t => rtTy t
  | .slice t => rtTy t
  | .choice alts => rtAlts alts
  | .struct fs => (fs.length != 0) && rtFields fs
  | .str d => decide (d < 9223372036854775808)
  | _ => true        -- OBJECT IDENTIFIER and unsupported kinds never marshal: the law holds vacuously for them
def rtFields : Fields → Bool
  | .nil => true
  | .cons p t r => rtParams p && rtTy t && (elemKey p t).isSome &&
      (!p.optional || (nilable t && !matchesLater p t r)) && rtFields r
def rtAlts : Fields → Bool
  | .nil => true
  | .cons p t r => rtParams p && rtTy t &&
      (match p.tagNumber with
       | some n => !altsHaveTag r n
       | none => isChoiceTy t && (tagsOfTy t).all (fun n => !altsHaveTag r n)) && rtAlts r
end

/-- no EXPLICIT unwrapping happens under these parameters -/
def needsUnwrap_off (q : Params) : Prop := q.explicit = false ∨ q.tagNumber = none

def int64 (i : Int) : Prop := -9223372036854775808 ≤ i ∧ i ≤ 9223372036854775807

mutual
/-- values as the decoder produces them (what DeepEqual compares against) -/
inductive Canon : Ty → Val → Prop
  | ptr {t v} : Canon t v → Canon (.ptr t) v
  | wrap {t v} : Canon t v → Canon (.wrap t) v
  | bool {x} : Canon .bool (.bool x)
  | int {w i} : int64 i → truncInt w i = i → Canon (.int w) (.int i)
  | enum {i} : int64 i → Canon .enum (.int i)
  | octets {bs} : Canon .octets (.bytes bs)
  | bits {bs n} : n ≤ 8 * bs.length → 8 * bs.length < n + 8 → Canon .bits (.bits bs n)
  | null : Canon .null (.null true)
  | str {d bs} : Canon (.str d) (.str bs)
  | slice {t vs} : CanonList t vs → Canon (.slice t) (.list vs)
  | struct {fs vs} : CanonFields fs vs → Canon (.struct fs) (.struct vs)
  | choice {alts present vs v} : 1 ≤ present → CanonAlt alts (present.toNat - 1) v →
      valAt vs (present.toNat - 1) = some v →
      vs = setAt (zeroVals alts) (present.toNat - 1) v → Canon (.choice alts) (.choice present vs)
inductive CanonList : Ty → Vals → Prop
  | nil {t} : CanonList t .nil
  | cons {t v r} : Canon t v → CanonList t r → CanonList t (.cons v r)
inductive CanonFields : Fields → Vals → Prop
  | nil : CanonFields .nil .nil
  | absent {p t r vs} : p.optional = true → CanonFields r vs → CanonFields (.cons p t r) (.cons .nil vs)
  | present {p t r v vs} : Canon t v → CanonFields r vs → CanonFields (.cons p t r) (.cons v vs)
inductive CanonAlt : Fields → Nat → Val → Prop
  | here {p t r v} : Canon t v → CanonAlt (.cons p t r) 0 v
  | there {p t r n v} : CanonAlt r n v → CanonAlt (.cons p t r) (n + 1) v
end


theorem canon_ne_nil : ∀ {t : Ty} {v : Val}, Canon t v → v ≠ .nil
  | _, _, .ptr h => canon_ne_nil h
  | _, _, .wrap h => canon_ne_nil h
  | _, _, .bool => by intro h; cases h
  | _, _, .int _ _ => by intro h; cases h
  | _, _, .enum _ => by intro h; cases h
  | _, _, .octets => by intro h; cases h
  | _, _, .bits _ _ => by intro h; cases h
  | _, _, .null => by intro h; cases h
  | _, _, .str => by intro h; cases h
  | _, _, .slice _ => by intro h; cases h
  | _, _, .struct _ => by intro h; cases h
  | _, _, .choice _ _ _ _ => by intro h; cases h

theorem rtParams_tag {q : Params} (h : rtParams q = true) : ∀ n, q.tagNumber = some n → n < 9223372036854775808 := by
  intro n hn
  simp [rtParams, hn] at h
  exact h.1.1.1.1

theorem rtParams_str {q : Params} (h : rtParams q = true) : q.stringType < 9223372036854775808 := by
  simp [rtParams] at h; exact h.1.1.1.2

theorem rtParams_noset {q : Params} (h : rtParams q = true) : q.set = false ∧ q.openType = false := by
  simp [rtParams] at h; exact ⟨h.1.2, h.1.1.2⟩

theorem rtParams_nx {q : Params} (h : rtParams q = true) : needsUnwrap_off q := by
  simp [rtParams] at h; exact h.2

theorem finish_tlv_key (q : Params) (t : Ty) (c : Bool) (tag : Nat) (content : Bytes)
    (he : expectedTag q (underlying t) = some tag) (htag : tag < 9223372036854775808) (hq : rtParams q = true)
    (hnc : isChoiceTy t = false) :
    ∃ cls tag' c' content', finish q c tag content = tlv cls c' tag' content' ∧ cls < 4 ∧ tag' < 9223372036854775808 ∧
      (∀ k, elemKey q t = some k → k = (cls, tag')) ∧
      (q.tagNumber = none → isChoiceTy t = true → cls = 2 ∧ choiceHasTag t tag' = true) := by
  obtain ⟨c', content', e⟩ := finish_key q c tag content
  refine ⟨_, _, c', content', e, ?_, ?_, ?_, ?_⟩
  · cases q.tagNumber <;> simp
  · cases hn : q.tagNumber with
    | none => exact htag
    | some n => exact rtParams_tag hq n hn
  · intro k hk
    rw [elemKey_prim q t tag he] at hk
    simp only [Option.some.injEq] at hk
    exact hk.symm
  · intro _ h; rw [hnc] at h; cases h

/-- the element list of a run of members: every element is the encoding of one of the fields -/
def keysIn (fs : Fields) (es : List Elem) : Prop :=
  ∀ x ∈ es, ∃ k p' t', fieldAt fs k = some (p', t') ∧ elemKey p' t' = some (x.1, x.2.1)

def B62 : Nat := 4611686018427387904


def M1 (t : Ty) (p : Params) (v : Val) : Prop :=
  ∀ q b, core q = core p → rtParams q = true → rtTy t = true → Canon t v → marshal t q v = .ok b → b.length < B62 →
    unmarshal t q b = .ok v ∧
    ∃ cls tag c content, b = tlv cls c tag content ∧ cls < 4 ∧ tag < 9223372036854775808 ∧
      (∀ k, elemKey q t = some k → k = (cls, tag)) ∧
      (q.tagNumber = none → isChoiceTy t = true → cls = 2 ∧ choiceHasTag t tag = true)

def M2 (t : Ty) (p : Params) (vs : Vals) : Prop :=
  ∀ q c, core q = core p → rtParams q = true → rtTy t = true → CanonList t vs → marshalElems t q vs = .ok c → c.length < B62 →
    ∃ es, flat es = c ∧ (∀ x ∈ es, IsTlv x) ∧ decodeElems t q es = .ok vs

def M3 (fs : Fields) (vs : Vals) : Prop :=
  ∀ c, rtFields fs = true → CanonFields fs vs → marshalFields fs vs = .ok c → c.length < B62 →
    ∃ es, flat es = c ∧ (∀ x ∈ es, IsTlv x) ∧ keysIn fs es ∧ decodeSeq fs es = .ok vs

def M4 (fs : Fields) (vs : Vals) (n : Nat) : Prop :=
  ∀ v all i b, rtAlts fs = true → CanonAlt fs n v → valAt vs n = some v → marshalAlt fs vs n = .ok b → b.length < B62 →
    ∃ tagn c content, b = tlv 2 c tagn content ∧ tagn < 9223372036854775808 ∧ altsHaveTag fs tagn = true ∧
      content.length < 9223372036854775808 ∧
      decodeAlt all fs i tagn b = .ok (.choice (i + n + 1) (setAt (zeroVals all) (i + n) v))

theorem finish_len_bound {q : Params} {c : Bool} {tag : Nat} {content : Bytes}
    (hl : (finish q c tag content).length < B62) : content.length + 45 < 9223372036854775808 := by
  have := finish_length_ge q c tag content
  simp only [B62] at hl; omega

theorem m1_bits (p : Params) (bs : Bytes) (n : Nat) : M1 .bits p (.bits bs n) := by
  intro q b hc hq ht hcan hm hl
  rw [marshal] at hm; simp only [Res.ok.injEq] at hm; subst hm
  cases hcan with | bits h1 h2 =>
  have := finish_len_bound hl
  exact ⟨rt_bits q bs n (rtParams_tag hq) (by simp at this; omega) h1 h2, finish_tlv_key q .bits false 3 _ rfl (by decide) hq rfl⟩

theorem m1_octets (p : Params) (bs : Bytes) : M1 .octets p (.bytes bs) := by
  intro q b hc hq ht hcan hm hl
  rw [marshal] at hm; simp only [Res.ok.injEq] at hm; subst hm
  have := finish_len_bound hl
  exact ⟨rt_octets q bs (rtParams_tag hq) (by omega), finish_tlv_key q .octets false 4 _ rfl (by decide) hq rfl⟩

theorem m1_enum (p : Params) (i : Int) : M1 .enum p (.int i) := by
  intro q b hc hq ht hcan hm hl
  rw [marshal] at hm; simp only [Res.ok.injEq] at hm; subst hm
  cases hcan with | enum hi =>
  exact ⟨rt_enum q i hi (rtParams_tag hq), finish_tlv_key q .enum false 10 _ rfl (by decide) hq rfl⟩

theorem m1_null (p : Params) (x : Bool) : M1 .null p (.null x) := by
  intro q b hc hq ht hcan hm hl
  rw [marshal] at hm; simp only [Res.ok.injEq] at hm; subst hm
  cases hcan
  exact ⟨rt_null q (rtParams_tag hq), finish_tlv_key q .null false 5 _ rfl (by decide) hq rfl⟩

theorem m1_bool (p : Params) (x : Bool) : M1 .bool p (.bool x) := by
  intro q b hc hq ht hcan hm hl
  rw [marshal] at hm; simp only [Res.ok.injEq] at hm; subst hm
  exact ⟨rt_bool q x (rtParams_tag hq), finish_tlv_key q .bool false 1 _ rfl (by decide) hq rfl⟩

theorem m1_int (w : Nat) (p : Params) (i : Int) : M1 (.int w) p (.int i) := by
  intro q b hc hq ht hcan hm hl
  rw [marshal] at hm; simp only [Res.ok.injEq] at hm; subst hm
  cases hcan with | int hi htr =>
  refine ⟨?_, finish_tlv_key q (.int w) false 2 _ rfl (by decide) hq rfl⟩
  rw [rt_int w q i hi (rtParams_tag hq), htr]

theorem stringTag_bound (q : Params) (d : Nat) (hq : rtParams q = true) (hd : d < 9223372036854775808) :
    stringTagOf q d < 9223372036854775808 := by
  unfold stringTagOf; split
  · exact rtParams_str hq
  · exact hd

theorem m1_str (d : Nat) (p : Params) (bs : Bytes) : M1 (.str d) p (.str bs) := by
  intro q b hc hq ht hcan hm hl
  rw [marshal] at hm; simp only [Res.ok.injEq] at hm; subst hm
  have hd : d < 9223372036854775808 := by simpa [rtTy] using ht
  have hst := stringTag_bound q d hq hd
  have := finish_len_bound hl
  exact ⟨rt_str d q bs (rtParams_tag hq) hst (by omega), finish_tlv_key q (.str d) false _ _ rfl hst hq rfl⟩

theorem m1_ptr (t : Ty) (p : Params) (v : Val) (ih : M1 t p v) : M1 (.ptr t) p v := by
  intro q b hc hq ht hcan hm hl
  cases hcan with | ptr hcan' =>
  have hne := canon_ne_nil hcan'
  have e1 : marshal (.ptr t) q v = marshal t q v := by simp [marshal, hne]
  rw [e1] at hm
  obtain ⟨h1, cls, tag, c, content, h2, h3, h4, h5, h6⟩ := ih q b hc hq (by simpa [rtTy] using ht) hcan' hm hl
  refine ⟨by rw [unmarshal]; exact h1, cls, tag, c, content, h2, h3, h4, ?_, ?_⟩
  · intro k hk; exact h5 k (by simpa [elemKey, underlying] using hk)
  · intro hn hch
    have := h6 hn (by simpa [isChoiceTy, stripPtr] using hch)
    exact ⟨this.1, by rw [choiceHasTag]; exact this.2⟩



/-- `enter` without EXPLICIT unwrapping: the element itself, the same parameters -/
theorem enter_finish_nx (t : Ty) (q : Params) (c : Bool) (tag : Nat) (content : Bytes)
    (hexp : expectedTag q (stripPtr t) = some tag ∨ expectedTag q (stripPtr t) = none)
    (hnx : needsUnwrap_off q)
    (htag : tag < 9223372036854775808)
    (hn : ∀ n, q.tagNumber = some n → n < 9223372036854775808)
    (hlen : content.length + 44 < 9223372036854775808) :
    ∃ tal, enter t q (finish q c tag content) = .ok (finish q c tag content, q, tal) ∧
      from_ (finish q c tag content) tal.off = .ok content ∧ tal.off + content.length = (finish q c tag content).length ∧
      tal.tag = (match q.tagNumber with | some n => n | none => tag) := by
  unfold enter
  cases hp : q.tagNumber with
  | none =>
    rw [finish_untagged q c tag content hp]
    have hpar := tlv_parse 0 c tag content [] (by decide) htag (by omega)
    rw [List.append_nil] at hpar
    rw [hpar]
    simp only [tlv_length, Nat.lt_irrefl, gt_iff_lt, if_false, take_tlv]
    have htok : tagOk t q ⟨0, c, tag, content.length, (header 0 c tag content.length).length⟩ = true := by
      rcases hexp with h | h <;> simp [tagOk, hp, h]
    have hnu : needsUnwrap t q = false := by simp [needsUnwrap, hp]
    simp only [htok, Bool.not_true, Bool.false_eq_true, if_false, hnu]
    refine ⟨_, rfl, ?_, ?_, rfl⟩
    · unfold from_ tlv; simp
    · simp
  | some n =>
    have hn' := hn n hp
    have hex : q.explicit = false := by
      rcases hnx with h | h
      · exact h
      · rw [hp] at h; cases h
    have hfin : finish q c tag content = tlv 2 c n content := by
      unfold finish; rw [hp]; simp [hex]
    rw [hfin]
    have hpar := tlv_parse 2 c n content [] (by decide) hn' (by omega)
    rw [List.append_nil] at hpar
    rw [hpar]
    simp only [tlv_length, Nat.lt_irrefl, gt_iff_lt, if_false, take_tlv]
    have htok : tagOk t q ⟨2, c, n, content.length, (header 2 c n content.length).length⟩ = true := by
      simp [tagOk, hp]
    have hnu : needsUnwrap t q = false := by simp [needsUnwrap, hp, hex]
    simp only [htok, Bool.not_true, Bool.false_eq_true, if_false, hnu]
    refine ⟨_, rfl, ?_, ?_, rfl⟩
    · unfold from_ tlv; simp
    · simp


theorem isNilVal_eq {v : Val} (h : isNilVal v = true) : v = .nil := by
  cases v <;> simp [isNilVal] at h ⊢

theorem zeroVal_nilable {t : Ty} (h : nilable t = true) : zeroVal t = .nil := by
  cases t <;> simp [nilable] at h <;> simp [zeroVal]

theorem self_match {p : Params} {t : Ty} {cls tag : Nat} (h : elemKey p t = some (cls, tag)) :
    memberMatches p t cls tag = true := by
  unfold elemKey at h
  unfold memberMatches
  cases hp : p.tagNumber with
  | some n => rw [hp] at h; simp at h; simp [h.2]
  | none =>
    rw [hp] at h
    cases he : expectedTag p (underlying t) with
    | none => rw [he] at h; simp at h
    | some e => rw [he] at h; simp at h; simp [h.1, h.2]

theorem matchesLater_false {p : Params} {t : Ty} : ∀ (r : Fields), matchesLater p t r = false →
    ∀ k p' t' c g, fieldAt r k = some (p', t') → elemKey p' t' = some (c, g) → memberMatches p t c g = false
  | .nil, _, k, p', t', c, g, hf, _ => by cases k <;> simp [fieldAt] at hf
  | .cons p0 t0 r0, h, k, p', t', c, g, hf, hk => by
    simp only [matchesLater, Bool.or_eq_false_iff] at h
    cases k with
    | zero =>
      simp only [fieldAt, Option.some.injEq, Prod.mk.injEq] at hf
      obtain ⟨rfl, rfl⟩ := hf
      rw [hk] at h; exact h.1
    | succ k => exact matchesLater_false r0 h.2 k p' t' c g (by simpa [fieldAt] using hf) hk

theorem es_length_le (es : List Elem) (h : ∀ x ∈ es, IsTlv x) : es.length ≤ (flat es).length := by
  induction es with
  | nil => simp [flat]
  | cons x r ih =>
    obtain ⟨c, content, hx, _, _, _⟩ := h x (by simp)
    have := ih (fun y hy => h y (by simp [hy]))
    simp only [flat, List.length_cons, List.length_append, hx]
    have := tlv_ne_nil x.1 c x.2.1 content
    omega

/-- `enter` on a raw TLV when no unwrapping is due and the tag check passes -/
theorem enter_tlv (t : Ty) (q : Params) (cls : Nat) (c : Bool) (tag : Nat) (content : Bytes)
    (hcls : cls < 4) (htag : tag < 9223372036854775808) (hlen : content.length < 9223372036854775808)
    (htok : tagOk t q ⟨cls, c, tag, content.length, (header cls c tag content.length).length⟩ = true)
    (hnu : needsUnwrap t q = false) :
    enter t q (tlv cls c tag content) =
      .ok (tlv cls c tag content, q, ⟨cls, c, tag, content.length, (header cls c tag content.length).length⟩) := by
  unfold enter
  have hpar := tlv_parse cls c tag content [] hcls htag hlen
  rw [List.append_nil] at hpar
  rw [hpar]
  simp only [tlv_length, Nat.lt_irrefl, gt_iff_lt, if_false, htok, Bool.not_true, Bool.false_eq_true, hnu, take_tlv]

theorem needsUnwrap_off_false (t : Ty) {q : Params} (h : needsUnwrap_off q) : needsUnwrap t q = false := by
  unfold needsUnwrap
  rcases h with h | h
  · simp [h]
  · simp [h]

theorem m1_wrap (t : Ty) (p : Params) (v : Val) (ih : M1 t p v) : M1 (.wrap t) p v := by
  intro q b hc hq ht hcan hm hl
  cases hcan with | wrap hcan' =>
  rw [marshal] at hm
  have ht' : rtTy t = true := by simpa [rtTy] using ht
  obtain ⟨h1, cls, tag, c, content, h2, h3, h4, h5, _⟩ := ih q b hc hq ht' hcan' hm hl
  subst h2
  have hlen : content.length < 9223372036854775808 := by
    have := tlv_length cls c tag content; simp only [B62] at hl; omega
  have htok : tagOk (.wrap t) q ⟨cls, c, tag, content.length, (header cls c tag content.length).length⟩ = true := by
    unfold tagOk
    cases hp : q.tagNumber with
    | none => simp [stripPtr, expectedTag]
    | some n =>
      have := h5 (2, n) (by simp [elemKey, hp])
      simp only [Prod.mk.injEq] at this
      simp [this.1, this.2]
  have he := enter_tlv (.wrap t) q cls c tag content h3 h4 hlen htok (needsUnwrap_off_false _ (rtParams_nx hq))
  refine ⟨by rw [unmarshal]; simp only [he]; exact h1, cls, tag, c, content, rfl, h3, h4, ?_, ?_⟩
  · intro k hk; exact h5 k (by simpa [elemKey, underlying] using hk)
  · intro _ hch; simp [isChoiceTy, stripPtr] at hch


theorem seqTag_lt63 (q : Params) : seqTag q < 9223372036854775808 := by unfold seqTag; split <;> decide

theorem m1_struct (fs : Fields) (p : Params) (vs : Vals) (ih : M3 fs vs) : M1 (.struct fs) p (.struct vs) := by
  intro q b hc hq ht hcan hm hl
  cases hcan with | struct hcf =>
  have ht' : fs.length ≠ 0 ∧ rtFields fs = true := by simpa [rtTy] using ht
  rw [marshal] at hm
  simp only [ht'.1, if_false] at hm
  cases hmf : marshalFields fs vs with
  | err => simp [hmf] at hm
  | panic => simp [hmf] at hm
  | ok content =>
    simp only [hmf, Res.ok.injEq] at hm
    subst hm
    have hcl := finish_len_bound hl
    have hcl2 : content.length < B62 := by
      have := finish_length_ge q true (seqTag q) content; omega
    obtain ⟨es, hflat, htlv, hkeys, hdec⟩ := ih content ht'.2 hcf hmf hcl2
    obtain ⟨tal, he, hfrom, _, _⟩ := enter_finish_nx (.struct fs) q true (seqTag q) content (Or.inl rfl) (rtParams_nx hq)
      (seqTag_lt63 q) (rtParams_tag hq) (by omega)
    have hsplit : splitTLVs content content.length = .ok es := by
      rw [← hflat]; exact splitTLVs_flat es htlv _ (es_length_le es htlv)
    have hns := rtParams_noset hq
    refine ⟨?_, finish_tlv_key q (.struct fs) true (seqTag q) content rfl (seqTag_lt63 q) hq rfl⟩
    rw [unmarshal]
    simp only [he, ht'.1, if_false, hfrom, hsplit, hns.1, hns.2, Bool.false_eq_true, false_and, hdec]

theorem m1_slice (t : Ty) (p : Params) (vs : Vals) (ih : M2 t { p with tagNumber := none } vs) :
    M1 (.slice t) p (.list vs) := by
  intro q b hc hq ht hcan hm hl
  cases hcan with | slice hcl =>
  have ht' : rtTy t = true := by simpa [rtTy] using ht
  rw [marshal] at hm
  cases hme : marshalElems t { q with tagNumber := none } vs with
  | err => simp [hme] at hm
  | panic => simp [hme] at hm
  | ok content =>
    simp only [hme, Res.ok.injEq] at hm
    subst hm
    have hcl1 := finish_len_bound hl
    have hcl2 : content.length < B62 := by
      have := finish_length_ge q true (seqTag q) content; omega
    have hq0 : rtParams { q with tagNumber := none } = true := by
      simp [rtParams] at hq ⊢; exact ⟨⟨hq.1.1.1.2, hq.1.1.2⟩, hq.1.2⟩
    obtain ⟨es, hflat, htlv, hdec⟩ := ih { q with tagNumber := none } content (by simpa [core] using hc) hq0 ht' hcl hme hcl2
    obtain ⟨tal, he, hfrom, _, _⟩ := enter_finish_nx (.slice t) q true (seqTag q) content (Or.inl rfl) (rtParams_nx hq)
      (seqTag_lt63 q) (rtParams_tag hq) (by omega)
    have hsplit : splitTLVs content content.length = .ok es := by
      rw [← hflat]; exact splitTLVs_flat es htlv _ (es_length_le es htlv)
    refine ⟨?_, finish_tlv_key q (.slice t) true (seqTag q) content rfl (seqTag_lt63 q) hq rfl⟩
    rw [unmarshal]
    simp only [he, hfrom, hsplit, hdec]

theorem m2_nil (t : Ty) (p : Params) : M2 t p .nil := by
  intro q c hc hq ht hcan hm hl
  rw [marshalElems] at hm; simp only [Res.ok.injEq] at hm; subst hm
  refine ⟨[], rfl, ?_, ?_⟩
  · intro x hx; cases hx
  · rw [decodeElems]

theorem m2_cons (t : Ty) (p : Params) (v : Val) (vs : Vals) (ih1 : M1 t p v) (ih2 : M2 t p vs) :
    M2 t p (.cons v vs) := by
  intro q c hc hq ht hcan hm hl
  cases hcan with | cons hcv hcvs =>
  rw [marshalElems] at hm
  cases hma : marshal t q v with
  | err => simp [hma] at hm
  | panic => simp [hma] at hm
  | ok a =>
    cases hmr : marshalElems t q vs with
    | err => simp [hma, hmr] at hm
    | panic => simp [hma, hmr] at hm
    | ok r =>
      simp only [hma, hmr, Res.ok.injEq] at hm
      subst hm
      simp only [List.length_append] at hl
      obtain ⟨h1, cls, tag, c', content, h2, h3, h4, _, _⟩ := ih1 q a hc hq ht hcv hma (by omega)
      obtain ⟨es, hflat, htlv, hdec⟩ := ih2 q r hc hq ht hcvs hmr (by omega)
      refine ⟨(cls, tag, a) :: es, by simp [flat, hflat], ?_, ?_⟩
      · intro x hx
        simp only [List.mem_cons] at hx
        rcases hx with rfl | hx
        · refine ⟨c', content, h2, h3, h4, ?_⟩
          have := tlv_length cls c' tag content
          rw [← h2] at this; simp only [B62] at hl; omega
        · exact htlv x hx
      · rw [decodeElems]; simp only [h1, hdec]


theorem keysIn_shift {p : Params} {t : Ty} {r : Fields} {es : List Elem} (h : keysIn r es) : keysIn (.cons p t r) es := by
  intro x hx
  obtain ⟨k, p', t', hf, hk⟩ := h x hx
  exact ⟨k + 1, p', t', by simpa [fieldAt] using hf, hk⟩

theorem m3_nil (vs : Vals) : M3 .nil vs := by
  intro c _ hcan hm _
  rw [marshalFields] at hm; simp only [Res.ok.injEq] at hm; subst hm
  cases hcan
  refine ⟨[], rfl, ?_, ?_, ?_⟩
  · intro x hx; cases hx
  · intro x hx; cases hx
  · rw [decodeSeq]

theorem m3_absent (p : Params) (t : Ty) (r : Fields) (v : Val) (vs : Vals)
    (h1 : ¬(p.optional = true ∧ ¬nilable t = true)) (h2 : p.optional = true ∧ isNilVal v = true)
    (ih : M3 r vs) : M3 (.cons p t r) (.cons v vs) := by
  intro c hrt hcan hm hl
  have hv : v = .nil := isNilVal_eq h2.2
  subst hv
  rw [marshalFields, if_neg h1, if_pos h2] at hm
  simp only [rtFields, Bool.and_eq_true, Bool.or_eq_true, Bool.not_eq_true'] at hrt
  obtain ⟨⟨⟨⟨hp, hty⟩, hkey⟩, hopt⟩, hrr⟩ := hrt
  have hopt' : nilable t = true ∧ matchesLater p t r = false := by
    rcases hopt with h | h
    · rw [h2.1] at h; cases h
    · exact h
  have hcr : CanonFields r vs := by
    cases hcan with
    | absent _ h => exact h
    | present hcv h => exact absurd rfl (canon_ne_nil hcv)
  obtain ⟨es, hflat, htlv, hkeys, hdec⟩ := ih c hrr hcr hm hl
  refine ⟨es, hflat, htlv, keysIn_shift hkeys, ?_⟩
  cases es with
  | nil =>
    rw [decodeSeq]; simp only [hdec, zeroVal_nilable hopt'.1]
  | cons x es' =>
    obtain ⟨cls, tag, e⟩ := x
    obtain ⟨k, p', t', hf, hk⟩ := hkeys (cls, tag, e) (by simp)
    have hnm := matchesLater_false r hopt'.2 k p' t' cls tag hf hk
    rw [decodeSeq]; simp only [hnm, Bool.false_eq_true, if_false, hdec, zeroVal_nilable hopt'.1]

theorem m3_present (p : Params) (t : Ty) (r : Fields) (v : Val) (vs : Vals)
    (h1 : ¬(p.optional = true ∧ ¬nilable t = true)) (h2 : ¬(p.optional = true ∧ isNilVal v = true))
    (ih1 : M1 t p v) (ih2 : M3 r vs) : M3 (.cons p t r) (.cons v vs) := by
  intro c hrt hcan hm hl
  simp only [rtFields, Bool.and_eq_true, Bool.or_eq_true, Bool.not_eq_true'] at hrt
  obtain ⟨⟨⟨⟨hp, hty⟩, hkey⟩, hopt⟩, hrr⟩ := hrt
  have hno := (rtParams_noset hp).2
  rw [marshalFields, if_neg h1, if_neg h2] at hm
  simp only [hno, Bool.false_eq_true, if_false] at hm
  cases hma : marshal t p v with
  | err => simp [hma] at hm
  | panic => simp [hma] at hm
  | ok a =>
    cases hmr : marshalFields r vs with
    | err => simp [hma, hmr] at hm
    | panic => simp [hma, hmr] at hm
    | ok rb =>
      simp only [hma, hmr, Res.ok.injEq] at hm
      subst hm
      simp only [List.length_append] at hl
      have hcc : Canon t v ∧ CanonFields r vs := by
        cases hcan with
        | absent ho h => exact absurd ⟨ho, rfl⟩ h2
        | present hcv h => exact ⟨hcv, h⟩
      obtain ⟨hu, cls, tag, c', content, hb, hcls, htag, hk, _⟩ := ih1 p a rfl hp hty hcc.1 hma (by omega)
      obtain ⟨es, hflat, htlv, hkeys, hdec⟩ := ih2 rb hrr hcc.2 hmr (by omega)
      obtain ⟨key, hkey'⟩ := Option.isSome_iff_exists.mp hkey
      have hkk : elemKey p t = some (cls, tag) := by rw [hkey', hk key hkey']
      refine ⟨(cls, tag, a) :: es, by simp [flat, hflat], ?_, ?_, ?_⟩
      · intro x hx
        simp only [List.mem_cons] at hx
        rcases hx with rfl | hx
        · refine ⟨c', content, hb, hcls, htag, ?_⟩
          have := tlv_length cls c' tag content
          rw [← hb] at this; simp only [B62] at hl; omega
        · exact htlv x hx
      · intro x hx
        simp only [List.mem_cons] at hx
        rcases hx with rfl | hx
        · exact ⟨0, p, t, rfl, hkk⟩
        · exact keysIn_shift hkeys x hx
      · rw [decodeSeq]; simp only [self_match hkk, if_true, hu, hdec]

theorem m4_here (p : Params) (t : Ty) (rest : Fields) (v : Val) (rest1 : Vals) (ih : M1 t p v) :
    M4 (.cons p t rest) (.cons v rest1) 0 := by
  intro v' all i b hrt hca hv hm hl
  simp only [valAt, Option.some.injEq] at hv
  subst hv
  rw [marshalAlt] at hm
  simp only [rtAlts, Bool.and_eq_true] at hrt
  obtain ⟨⟨⟨hp, hty⟩, htag⟩, _⟩ := hrt
  cases hca with | here hcv =>
  obtain ⟨hu, cls, tag, c', content, hb, hcls, htg, hk, hch⟩ := ih p b rfl hp hty hcv hm hl
  have hcl : content.length < 9223372036854775808 := by
    have := tlv_length cls c' tag content
    rw [← hb] at this; simp only [B62] at hl; omega
  have e0 : (i : Int) + ((0 : Nat) : Int) + 1 = (i : Int) + 1 := by omega
  cases hpn : p.tagNumber with
  | none =>
    rw [hpn] at htag
    simp only [Bool.and_eq_true] at htag
    obtain ⟨rfl, hct⟩ := hch hpn htag.1
    refine ⟨tag, c', content, hb, htg, by simp [altsHaveTag, hpn, hct], hcl, ?_⟩
    rw [decodeAlt]
    simp only [altMatches, hpn, hct, if_true, hu, Nat.add_zero]
    rw [e0]
  | some n =>
    have := hk (2, n) (by simp [elemKey, hpn])
    simp only [Prod.mk.injEq] at this
    obtain ⟨rfl, rfl⟩ := this
    refine ⟨n, c', content, hb, htg, by simp [altsHaveTag, hpn], hcl, ?_⟩
    rw [decodeAlt]
    simp only [altMatches, hpn, beq_self_eq_true, if_true, hu, Nat.add_zero]
    rw [e0]

theorem m4_there (p : Params) (t : Ty) (r : Fields) (v : Val) (vs : Vals) (n : Nat) (ih : M4 r vs n) :
    M4 (.cons p t r) (.cons v vs) (n + 1) := by
  intro v' all i b hrt hca hv hm hl
  rw [marshalAlt] at hm
  simp only [rtAlts, Bool.and_eq_true] at hrt
  obtain ⟨⟨⟨hp, hty⟩, htag⟩, hrr⟩ := hrt
  cases hca with | there hca' =>
  obtain ⟨tagn, c', content, hb, htg, hpres, hcl, hdec⟩ := ih v' all (i + 1) b hrr hca' (by simpa [valAt] using hv) hm hl
  have hnm : altMatches p t tagn = false := by
    unfold altMatches
    cases hpn : p.tagNumber with
    | some m =>
      rw [hpn] at htag
      simp only [Bool.not_eq_true'] at htag
      simp only [beq_eq_false_iff_ne, ne_eq]
      intro h; subst h; rw [htag] at hpres; cases hpres
    | none =>
      rw [hpn] at htag
      simp only [Bool.and_eq_true, List.all_eq_true, Bool.not_eq_true'] at htag
      cases hct : choiceHasTag t tagn with
      | false => rfl
      | true =>
        have := htag.2 tagn (choiceHasTag_mem t tagn hct)
        rw [this] at hpres; cases hpres
  refine ⟨tagn, c', content, hb, htg, by simp [altsHaveTag, hpres], hcl, ?_⟩
  rw [decodeAlt]
  simp only [hnm, Bool.false_eq_true, if_false, hdec]
  have e1 : ((i + 1 : Nat) : Int) + (n : Int) + 1 = (i : Int) + ((n + 1 : Nat) : Int) + 1 := by omega
  have e2 : i + 1 + n = i + (n + 1) := by omega
  rw [e1, e2]

theorem m1_choice (alts : Fields) (p : Params) (present : Int) (vs : Vals)
    (ih : M4 alts vs (present.toNat - 1)) : M1 (.choice alts) p (.choice present vs) := by
  intro q b hc hq ht hcan hm hl
  cases hcan with | choice hp1 hca hva hvs =>
  rename_i v
  have hra : rtAlts alts = true := by simpa [rtTy] using ht
  have hno := rtParams_noset hq
  have hpos : ¬ present ≤ 0 := by omega
  rw [marshal] at hm
  simp only [hpos, if_false] at hm
  by_cases hbig : present.toNat ≥ alts.length + 1
  · simp [hbig] at hm
  · simp only [hbig, if_false, hno.2, Bool.false_eq_true] at hm
    have hpres : ((present.toNat - 1 + 1 : Nat) : Int) = present := by omega
    cases hqt : q.tagNumber with
    | none =>
      simp only [hqt] at hm
      obtain ⟨tagn, c', content, hb, htg, hpresent, hcl, hdec⟩ := ih v alts 0 b hra hca hva hm hl
      subst hb
      have htok : tagOk (.choice alts) q ⟨2, c', tagn, content.length, (header 2 c' tagn content.length).length⟩ = true := by
        simp [tagOk, hqt, stripPtr, expectedTag]
      have he := enter_tlv (.choice alts) q 2 c' tagn content (by decide) htg hcl htok (needsUnwrap_off_false _ (rtParams_nx hq))
      refine ⟨?_, 2, tagn, c', content, rfl, by decide, htg, ?_, ?_⟩
      · rw [unmarshal]
        simp only [he, hno.2, Bool.false_eq_true, if_false, hqt, hdec, Nat.zero_add]
        have e0 : ((0 : Nat) : Int) + ((present.toNat - 1 : Nat) : Int) + 1 = present := by omega
        rw [e0, ← hvs]
      · intro k hk; simp [elemKey, hqt, underlying, expectedTag] at hk
      · intro _ _; exact ⟨rfl, by rw [choiceHasTag]; exact hpresent⟩
    | some n =>
      simp only [hqt] at hm
      cases hma : marshalAlt alts vs (present.toNat - 1) with
      | err => simp [hma] at hm
      | panic => simp [hma] at hm
      | ok inner =>
        simp only [hma, Res.ok.injEq] at hm
        subst hm
        have hn := rtParams_tag hq n hqt
        have hil : inner.length < B62 := by
          have := tlv_length 2 true n inner; omega
        obtain ⟨tagn, c', content, hb, htg, _, hcl, hdec⟩ := ih v alts 0 inner hra hca hva hma hil
        have hinl : inner.length < 9223372036854775808 := by simp only [B62] at hil; omega
        have htok : tagOk (.choice alts) q ⟨2, true, n, inner.length, (header 2 true n inner.length).length⟩ = true := by
          simp [tagOk, hqt]
        have hnu : needsUnwrap (.choice alts) q = false := by simp [needsUnwrap, isChoiceTy, stripPtr]
        have he := enter_tlv (.choice alts) q 2 true n inner (by decide) hn hinl htok hnu
        have hfrom : from_ (tlv 2 true n inner) (header 2 true n inner.length).length = .ok inner := by
          unfold from_ tlv; simp
        have hpar : parseTagAndLength inner = .ok ⟨2, c', tagn, content.length, (header 2 c' tagn content.length).length⟩ := by
          have := tlv_parse 2 c' tagn content [] (by decide) htg hcl
          rw [List.append_nil, ← hb] at this; exact this
        have hfit : ¬ ((header 2 true n inner.length).length + (header 2 c' tagn content.length).length + content.length >
            (tlv 2 true n inner).length) := by
          rw [tlv_length]
          have : inner.length = (header 2 c' tagn content.length).length + content.length := by rw [hb, tlv_length]
          omega
        refine ⟨?_, 2, n, true, inner, rfl, by decide, hn, ?_, ?_⟩
        · rw [unmarshal]
          simp only [he, hno.2, Bool.false_eq_true, if_false, hqt, hfrom, hpar, hfit, hdec, Nat.zero_add]
          have e0 : ((0 : Nat) : Int) + ((present.toNat - 1 : Nat) : Int) + 1 = present := by omega
          rw [e0, ← hvs]
        · intro k hk; simp [elemKey, hqt] at hk; exact hk.symm
        · intro hnone; cases hnone


set_option maxHeartbeats 1000000 in
theorem roundtrip_all :
    (∀ t p v, M1 t p v) ∧ (∀ t p vs, M2 t p vs) ∧ (∀ fs vs, M3 fs vs) ∧ (∀ fs vs n, M4 fs vs n) := by
  have key := marshal.mutual_induct (motive1 := M1) (motive2 := M2) (motive3 := M3) (motive4 := M4)
  apply key <;> clear key
  all_goals (intros; first
    | exact m1_bits _ _ _ | exact m1_octets _ _ | exact m1_enum _ _ | exact m1_null _ _ | exact m1_bool _ _
    | exact m1_int _ _ _ | exact m1_str _ _ _
    | (apply m1_ptr; assumption) | (apply m1_wrap; assumption) | (apply m1_choice; assumption)
    | (apply m1_struct; assumption) | (apply m1_slice; assumption)
    | exact m2_nil _ _ | (apply m2_cons <;> assumption) | exact m3_nil _
    | (apply m3_absent <;> assumption) | (apply m3_present <;> assumption)
    | (apply m4_here; assumption) | (apply m4_there; assumption)
    | skip)
  case case1 => intro q b hc hq ht hcan hm hl; simp [marshal] at hm
  case case4 => intro q b hc hq ht hcan; cases hcan
  case case6 => intro q b hc hq ht hcan; cases hcan
  case case13 => intro q b hc hq ht hcan; cases hcan; omega
  case case14 =>
    rename_i h1 h2
    intro q b hc hq ht hcan hm hl
    rw [marshal] at hm; simp [h1, h2] at hm
  case case15 =>
    rename_i h1 h2 h3
    intro q b hc hq ht hcan hm hl
    have := (rtParams_noset hq).2
    simp only [core, Prod.mk.injEq] at hc
    rw [hc.2.1, h3] at this; cases this
  case case20 =>
    rename_i h
    intro q b hc hq ht; simp [rtTy, h] at ht
  case case27 => intro q b hc hq ht hcan; cases hcan
  case case28 =>
    intro q b hc hq ht hcan hm hl
    cases hcan <;> simp_all
  case case36 =>
    rename_i h
    intro c hrt
    simp only [rtFields, Bool.and_eq_true, Bool.or_eq_true, Bool.not_eq_true'] at hrt
    rcases hrt.1.2 with h' | h'
    · rw [h.1] at h'; cases h'
    · exact absurd h'.1 h.2
  case case38 =>
    rename_i h1 h2 h3
    intro c hrt
    simp only [rtFields, Bool.and_eq_true] at hrt
    have := (rtParams_noset hrt.1.1.1.1).2
    rw [h3] at this; cases this
  case case44 => intro c hrt hcan; cases hcan
  case case47 =>
    rename_i fs vs n hn1 hn2
    intro v all i b hrt hca hv hm hl
    cases hca with
    | here hc =>
      cases vs with
      | nil => simp [valAt] at hv
      | cons v0 r0 => exact (hn1 _ _ _ _ _ rfl rfl rfl).elim
    | there hc =>
      cases vs with
      | nil => simp [valAt] at hv
      | cons v0 r0 => exact (hn2 _ _ _ _ _ _ rfl rfl rfl).elim

end Chf.Ber
