import ChfVerif.Lemmas.ChargingStep
/-
  The credit-control path when the account-balance server and / or the rating server cannot be reached
  (dial error, no answer within 5 s: the error paths of sessionChargingReservation).
-/
namespace Chf.Charging
open Chf
open Chf.Abmf (wrap64 toI64 toU64 wrap64_id toI64_small find put)

/-- an account-balance server that cannot be reached answers no request and stores nothing -/
theorem handleCCR_unreachable (c : Abmf.CCR) : Abmf.handleCCR [] c = ([], .noAnswer) := rfl

/-- a rating server that cannot be reached answers no request -/
theorem handleSUR_unreachable (c : Rating.SUR) : Rating.handleSUR [] c = .noAnswer := rfl

theorem sendCCR_unreachable (supi : Bytes) (rg : Int) (st : RgState) (a b c d : Nat) :
    sendCCR [] supi rg st a b c d = ([], .noAnswer) := rfl

/-- `getUnitCost` falls back to 1 -/
theorem getUnitCost_unreachable (accts : Abmf.Store) (supi : Bytes) (rg : Int) :
    getUnitCost { accts := accts, tariffs := [] } supi rg = 1 := rfl

theorem totalUsed_lt (cs : List Container) : totalUsed cs < 4294967296 := by
  induction cs with
  | nil => simp [totalUsed]
  | cons c r ih =>
    unfold totalUsed
    split
    · exact Nat.mod_lt _ (by decide)
    · exact ih

theorem u32_lt (i : Int) : u32 i < 4294967296 := by
  unfold u32
  have h := Int.emod_lt_of_pos i (show (0 : Int) < 4294967296 by decide)
  have h0 := Int.emod_nonneg i (show (4294967296 : Int) ≠ 0 by decide)
  omega

theorem reqVolOf_lt (u : Usage) : reqVolOf u < 4294967296 := by
  unfold reqVolOf
  cases u.req with
  | none => decide
  | some r => exact u32_lt r

/-! ### the account-balance server unreachable -/

/-- reserve mode: the reported usage is taken off the reservation at the unit cost obtained, no account is touched -/
theorem reserve_abmf_down (tariffs : List Rating.Tariff) (supi : Bytes) (u : Usage) (st : RgState) (used : Nat)
    (hfit : used * getUnitCost { accts := [], tariffs := tariffs } supi u.rg < 4294967296)
    (hr : -2305843009213693952 ≤ st.reserved ∧ st.reserved ≤ 2305843009213693952) :
    (reserveBranch { accts := [], tariffs := tariffs } supi u st used).accts = [] ∧
    (reserveBranch { accts := [], tariffs := tariffs } supi u st used).st.reserved =
      st.reserved - ((used * getUnitCost { accts := [], tariffs := tariffs } supi u.rg : Nat) : Int) := by
  unfold reserveBranch
  simp only [Nat.mod_eq_of_lt hfit, sendCCR_unreachable]
  generalize getUnitCost { accts := [], tariffs := tariffs } supi u.rg = c at hfit ⊢
  rw [wrap64_id (i := st.reserved - ((used * c : Nat) : Int)) ⟨by omega, by omega⟩]
  split
  · exact ⟨rfl, rfl⟩
  · rename_i a' st2 fui heq
    split at heq
    · cases heq
    · simp only [Option.some.injEq, Prod.mk.injEq] at heq
      obtain ⟨h1, h2, _⟩ := heq
      subst h1 h2
      split <;> exact ⟨rfl, rfl⟩

/-- debit mode: the final settlement is not made; reservation and account stay as they are -/
theorem debit_abmf_down (tariffs : List Rating.Tariff) (supi : Bytes) (u : Usage) (st : RgState) (used : Nat) :
    (debitBranch { accts := [], tariffs := tariffs } supi u st used).accts = [] ∧
    (debitBranch { accts := [], tariffs := tariffs } supi u st used).st.reserved = st.reserved := by
  unfold debitBranch
  simp only [sendCCR_unreachable]
  split
  · exact ⟨rfl, rfl⟩
  · split <;> exact ⟨rfl, rfl⟩

/-! ### the rating server unreachable, the account-balance server reachable -/

/-- debit mode: nothing is priced, nothing moves -/
theorem debit_rf_down (accts : Abmf.Store) (supi : Bytes) (u : Usage) (st : RgState) (used : Nat) :
    (debitBranch { accts := accts, tariffs := [] } supi u st used).accts = accts ∧
    (debitBranch { accts := accts, tariffs := [] } supi u st used).st = st := ⟨rfl, rfl⟩

/-- reserve mode: the usage is booked at unit cost 1; a top-up of the reservation still comes out of the account
    (never more than the account holds), so balance + reservation moves by exactly the booked amount -/
theorem reserve_rf_down {accts : Abmf.Store} {supi : Bytes} {u : Usage} {st : RgState} {b : Int} {used : Nat}
    (hs : GoodSupi supi) (hb : balOf accts supi (u32 u.rg) = some b) (hu : used < 4294967296)
    (hbr : -2305843009213693952 ≤ b ∧ b ≤ 2305843009213693952)
    (hr : -2305843009213693952 ≤ st.reserved ∧ st.reserved ≤ 2305843009213693952) :
    ∃ b', balOf (reserveBranch { accts := accts, tariffs := [] } supi u st used).accts supi (u32 u.rg) = some b' ∧
      b' + (reserveBranch { accts := accts, tariffs := [] } supi u st used).st.reserved = b + st.reserved - (used : Int) ∧
      (0 ≤ b → 0 ≤ b') ∧
      (∀ supi' rg', ¬ (supi' = supi ∧ rg' = u32 u.rg) →
        balOf (reserveBranch { accts := accts, tariffs := [] } supi u st used).accts supi' rg' = balOf accts supi' rg') := by
  obtain ⟨b0, b1⟩ := hbr
  obtain ⟨r0, r1⟩ := hr
  have hq := reqVolOf_lt u
  unfold reserveBranch
  simp only [getUnitCost_unreachable, Nat.mul_one, Nat.mod_eq_of_lt hu, Nat.mod_eq_of_lt hq, handleSUR_unreachable]
  rw [wrap64_id (i := st.reserved - (used : Int)) ⟨by omega, by omega⟩]
  by_cases hneed : st.reserved - (used : Int) < ((reqVolOf u : Nat) : Int)
  · simp only [hneed, if_true]
    have hask : toU64 (((reqVolOf u : Nat) : Int) - (st.reserved - (used : Int))) =
        (((reqVolOf u : Nat) : Int) - (st.reserved - (used : Int))).toNat := by
      unfold toU64; rw [Int.emod_eq_of_lt (by omega) (by omega)]
    rw [hask]
    have haskI : ((((reqVolOf u : Nat) : Int) - (st.reserved - (used : Int))).toNat : Int) =
        ((reqVolOf u : Nat) : Int) - (st.reserved - (used : Int)) := Int.toNat_of_nonneg (by omega)
    obtain ⟨q0, hf, hsend⟩ := sendCCR_known
      (st := { reserved := st.reserved - (used : Int), mode := st.mode, cost := 1, reqNum := st.reqNum })
      hs hb 2 0 (((reqVolOf u : Nat) : Int) - (st.reserved - (used : Int))).toNat 0
    rw [hsend, effect_reserve b supi u.rg _ _ (by omega) ⟨b0, b1⟩, haskI]
    by_cases hgt : ((reqVolOf u : Nat) : Int) - (st.reserved - (used : Int)) > b
    · simp only [hgt, if_true, Option.getD_some]
      have hg : toI64 (max b 0).toNat = max b 0 := by
        rw [toI64_small (by omega)]; exact Int.toNat_of_nonneg (by omega)
      simp only [hg]
      rw [wrap64_id (i := st.reserved - (used : Int) + max b 0) ⟨by omega, by omega⟩]
      refine ⟨_, balOf_put_same _ hf, by omega, by omega, fun _ _ hne => balOf_put_other _ hne⟩
    · simp only [hgt, if_false, Option.getD_some]
      have hg : toI64 (((reqVolOf u : Nat) : Int) - (st.reserved - (used : Int))).toNat =
          ((reqVolOf u : Nat) : Int) - (st.reserved - (used : Int)) := by
        rw [toI64_small (by omega)]; exact haskI
      simp only [hg]
      rw [wrap64_id (i := st.reserved - (used : Int) + (((reqVolOf u : Nat) : Int) - (st.reserved - (used : Int))))
        ⟨by omega, by omega⟩]
      refine ⟨_, balOf_put_same _ hf, by omega, by omega, fun _ _ hne => balOf_put_other _ hne⟩
  · simp only [hneed, if_false]
    exact ⟨b, hb, by omega, fun h => h, fun _ _ _ => trivial⟩

/-! ### one usage, whatever can be reached -/

theorem usageOKb_of_x {e : Env} {supi : Bytes} {trigs : List Nat} {groups : List (Int × RgState)} {u : Usage}
    (h : usageOKx true true e supi trigs groups u = true) : usageOKb e supi trigs groups u = true := by
  unfold usageOKx at h
  unfold usageOKb
  by_cases hon : anyOnline u.cs = true
  · simp only [hon, if_true] at h ⊢
    cases hb : balOf e.accts supi (u32 u.rg) with
    | none => simp [hb] at h
    | some b =>
      cases ht : Rating.findCost e.tariffs supi (u32 u.rg) with
      | none => simp [hb, ht] at h
      | some s =>
        simp only [hb, ht, Bool.and_eq_true, decide_eq_true_eq] at h ⊢
        obtain ⟨⟨⟨⟨⟨h1, h2⟩, h3⟩, h4⟩, ⟨h5, h6⟩⟩, h7⟩ := h
        exact ⟨⟨⟨⟨⟨⟨h1, h5⟩, h6⟩, h7⟩, h4⟩, h2⟩, h3⟩
  · simp only [hon, Bool.false_eq_true, if_false] at h ⊢
    exact h

theorem accountedUsage_up {e : Env} {supi : Bytes} {trigs : List Nat} {groups : List (Int × RgState)} {u : Usage}
    (h : usageOKx true true e supi trigs groups u = true) :
    accountedUsage true true e.tariffs supi trigs groups u = ratedUsage e.tariffs supi u := by
  unfold usageOKx at h
  unfold accountedUsage ratedUsage appliedCost
  by_cases hon : anyOnline u.cs = true
  · simp only [hon, if_true] at h ⊢
    cases ht : Rating.findCost e.tariffs supi (u32 u.rg) with
    | none => simp [ht] at h
    | some s =>
      simp only [Bool.and_self, if_true]
      split <;> rfl
  · simp only [hon, Bool.false_eq_true, if_false]

theorem money_close {accts accts' : Abmf.Store} {groups : List (Int × RgState)} {supi : Bytes} {u : Usage}
    {st' : RgState} {rg : Int} {d : Int} (hrg : int32 rg) (hrg32 : int32 u.rg)
    (hsame : ∀ b, balOf accts supi (u32 u.rg) = some b →
      ∃ b', balOf accts' supi (u32 u.rg) = some b' ∧ b' + st'.reserved = b + resv groups u.rg - d)
    (hnone : balOf accts supi (u32 u.rg) = none → balOf accts' supi (u32 u.rg) = none)
    (hframe : ∀ supi' rg', ¬ (supi' = supi ∧ rg' = u32 u.rg) → balOf accts' supi' rg' = balOf accts supi' rg') :
    moneyOf accts' (setRg groups u.rg st') supi rg =
      (moneyOf accts groups supi rg).map (fun m => m - (if rg = u.rg then d else 0)) := by
  unfold moneyOf
  by_cases heq : rg = u.rg
  · rw [heq, resv_setRg_same]
    simp only [if_true]
    cases hb : balOf accts supi (u32 u.rg) with
    | none => rw [hnone hb]; rfl
    | some b =>
      obtain ⟨b', h1, h2⟩ := hsame b hb
      rw [h1]
      simp only [Option.map_some, Option.some.injEq]
      omega
  · have hne : ¬ (supi = supi ∧ u32 rg = u32 u.rg) := fun h => heq (u32_inj hrg hrg32 h.2)
    rw [hframe _ _ hne, resv_setRg_other _ _ _ _ heq]
    simp only [heq, if_false, Int.sub_zero]
    cases balOf accts supi (u32 rg) <;> rfl

/-- One usage, any reachability: balance + reservation of the subscriber's rating groups moves by exactly the
    booked amount (`accountedUsage`); other subscribers' accounts are untouched; with the account-balance server
    unreachable the store is not written at all. -/
theorem usageStep_money_x {a f : Bool} {accts : Abmf.Store} {tariffs : List Rating.Tariff} {supi : Bytes}
    {trigs : List Nat} {groups : List (Int × RgState)} {u : Usage}
    (ok : usageOKx a f { accts := accts, tariffs := tariffs } supi trigs groups u = true) (rg : Int) (hrg : int32 rg) :
    moneyOf (acctsNext a f tariffs supi trigs accts groups u)
        (usageStep (seenEnv a f accts tariffs) supi trigs groups u).2.1 supi rg =
      (moneyOf accts groups supi rg).map
        (fun m => m - (if rg = u.rg then (accountedUsage a f tariffs supi trigs groups u : Int) else 0)) ∧
    (∀ supi' rg', supi' ≠ supi →
      balOf (acctsNext a f tariffs supi trigs accts groups u) supi' rg' = balOf accts supi' rg') ∧
    (a = false → (usageStep (seenEnv a f accts tariffs) supi trigs groups u).1 = []) := by
  by_cases ha : a = true
  · by_cases hf : f = true
    · -- both servers reachable: the ordinary case
      subst ha hf
      have hse : seenEnv true true accts tariffs = { accts := accts, tariffs := tariffs } := rfl
      have hacc := accountedUsage_up ok
      obtain ⟨m, fr⟩ := usageStep_money (usageOKb_of_x ok) rg hrg
      simp only [acctsNext, hse, if_true]
      simp only at hacc
      rw [hacc]
      exact ⟨m, fr, fun h => by cases h⟩
    · -- rating server unreachable
      have hf' : f = false := by cases f <;> simp_all
      subst ha hf'
      have hse : seenEnv true false accts tariffs = { accts := accts, tariffs := [] } := rfl
      simp only [acctsNext, hse, if_true]
      refine ⟨?_, ?_, fun h => by cases h⟩
      all_goals
        unfold usageOKx at ok
        unfold usageStep
        try unfold accountedUsage
        by_cases hon : anyOnline u.cs = true
      · simp only [hon, if_true, not_true_eq_false, if_false, Bool.false_eq_true, Bool.and_false] at ok ⊢
        cases hb : balOf accts supi (u32 u.rg) with
        | none => simp [hb] at ok
        | some b =>
          simp only [hb, Bool.and_eq_true, decide_eq_true_eq, Bool.and_true] at ok
          obtain ⟨⟨⟨⟨hs, hrg32⟩, hmode⟩, hrr⟩, hbr⟩ := ok
          rcases hmode with hm | hm
          · simp only [hm, if_true]
            obtain ⟨b', c1, c2, _, c4⟩ := reserve_rf_down (u := u) (st := entryState trigs groups u) hs hb
              (totalUsed_lt u.cs) hbr (by rw [entryState_reserved]; exact hrr)
            refine money_close hrg hrg32 ?_ ?_ c4
            · intro b0 hb0
              rw [hb] at hb0; cases hb0
              refine ⟨b', c1, ?_⟩
              rw [entryState_reserved] at c2
              simp only [appliedCost, Bool.false_eq_true, if_false, Nat.mul_one]
              omega
            · intro h0; rw [hb] at h0; cases h0
          · have h21 : ¬ ((2 : Nat) = 1) := by decide
            simp only [hm, h21, if_false, if_true]
            obtain ⟨d1, d2⟩ := debit_rf_down accts supi u (entryState trigs groups u) (totalUsed u.cs)
            rw [d1, d2]
            refine money_close hrg hrg32 ?_ (fun h => h) (fun _ _ _ => rfl)
            intro b0 hb0
            exact ⟨b0, hb0, by rw [entryState_reserved]; simp⟩
      · simp only [hon, Bool.false_eq_true, if_false, not_false_eq_true, if_true, decide_eq_true_eq] at ok ⊢
        refine money_close hrg ok ?_ (fun h => h) (fun _ _ _ => rfl)
        intro b0 hb0
        exact ⟨b0, hb0, by rw [entryState_reserved]; simp⟩
      · simp only [hon, if_true, not_true_eq_false, if_false, Bool.false_eq_true, Bool.and_false] at ok ⊢
        cases hb : balOf accts supi (u32 u.rg) with
        | none => simp [hb] at ok
        | some b =>
          simp only [hb, Bool.and_eq_true, decide_eq_true_eq, Bool.and_true] at ok
          obtain ⟨⟨⟨⟨hs, hrg32⟩, hmode⟩, hrr⟩, hbr⟩ := ok
          intro supi' rg' hne
          rcases hmode with hm | hm
          · simp only [hm, if_true]
            obtain ⟨b', _, _, _, c4⟩ := reserve_rf_down (u := u) (st := entryState trigs groups u) hs hb
              (totalUsed_lt u.cs) hbr (by rw [entryState_reserved]; exact hrr)
            exact c4 _ _ (fun h => hne h.1)
          · have h21 : ¬ ((2 : Nat) = 1) := by decide
            simp only [hm, h21, if_false, if_true]
            rw [(debit_rf_down accts supi u (entryState trigs groups u) (totalUsed u.cs)).1]
      · simp only [hon, Bool.false_eq_true, if_false, not_false_eq_true, if_true]
        intro _ _ _; trivial
  · -- account-balance server unreachable: no account is written, the reservation alone moves
    have ha' : a = false := by cases a <;> simp_all
    subst ha'
    have hse : seenEnv false f accts tariffs = { accts := [], tariffs := if f then tariffs else [] } := rfl
    simp only [acctsNext, hse, Bool.false_eq_true, if_false]
    unfold usageOKx at ok
    unfold usageStep accountedUsage
    by_cases hon : anyOnline u.cs = true
    · simp only [hon, if_true, not_true_eq_false, if_false, Bool.false_eq_true, Bool.and_true, Bool.false_and] at ok ⊢
      have ⟨hs, hrg32, hmode, hrr, hfit⟩ : GoodSupi supi ∧ int32 u.rg ∧
          ((entryState trigs groups u).mode = 1 ∨ (entryState trigs groups u).mode = 2) ∧
          (-2305843009213693952 ≤ resv groups u.rg ∧ resv groups u.rg ≤ 2305843009213693952) ∧
          (totalUsed u.cs * getUnitCost { accts := [], tariffs := if f then tariffs else [] } supi u.rg < 4294967296 ∧
           getUnitCost { accts := [], tariffs := if f then tariffs else [] } supi u.rg = appliedCost f tariffs supi u) := by
        cases f with
        | true =>
          simp only [if_true] at ok ⊢
          cases ht : Rating.findCost tariffs supi (u32 u.rg) with
          | none => simp [ht] at ok
          | some s =>
            simp only [ht, Bool.and_eq_true, decide_eq_true_eq] at ok
            obtain ⟨⟨⟨⟨hs, hrg32⟩, hmode⟩, hrr⟩, hu, _⟩ := ok
            have hc : getUnitCost { accts := [], tariffs := tariffs } supi u.rg = costOf s :=
              getUnitCost_known (e := { accts := [], tariffs := tariffs }) hs ht
            refine ⟨hs, hrg32, hmode, hrr, by rw [hc]; exact hu, ?_⟩
            rw [hc]; simp [appliedCost, ht]
        | false =>
          simp only [Bool.false_eq_true, if_false, Bool.and_true, Bool.and_eq_true, decide_eq_true_eq] at ok ⊢
          obtain ⟨⟨⟨hs, hrg32⟩, hmode⟩, hrr⟩ := ok
          refine ⟨hs, hrg32, hmode, hrr, ?_, ?_⟩
          · rw [getUnitCost_unreachable]; simpa using totalUsed_lt u.cs
          · rw [getUnitCost_unreachable]; simp [appliedCost]
      rcases hmode with hm | hm
      · simp only [hm, if_true]
        obtain ⟨c1, c2⟩ := reserve_abmf_down (if f then tariffs else []) supi u (entryState trigs groups u)
          (totalUsed u.cs) hfit.1 (by rw [entryState_reserved]; exact hrr)
        refine ⟨?_, fun _ _ _ => trivial, fun _ => c1⟩
        refine money_close hrg hrg32 ?_ (fun h => h) (fun _ _ _ => rfl)
        intro b0 hb0
        refine ⟨b0, hb0, ?_⟩
        rw [c2, entryState_reserved, hfit.2]
        omega
      · have h21 : ¬ ((2 : Nat) = 1) := by decide
        simp only [hm, h21, if_false, if_true]
        obtain ⟨c1, c2⟩ := debit_abmf_down (if f then tariffs else []) supi u (entryState trigs groups u) (totalUsed u.cs)
        refine ⟨?_, fun _ _ _ => trivial, fun _ => c1⟩
        refine money_close hrg hrg32 ?_ (fun h => h) (fun _ _ _ => rfl)
        intro b0 hb0
        refine ⟨b0, hb0, ?_⟩
        rw [c2, entryState_reserved]; simp
    · simp only [hon, Bool.false_eq_true, if_false, not_false_eq_true, if_true, decide_eq_true_eq] at ok ⊢
      refine ⟨?_, fun _ _ _ => trivial, fun _ => trivial⟩
      refine money_close hrg ok ?_ (fun h => h) (fun _ _ _ => rfl)
      intro b0 hb0
      exact ⟨b0, hb0, by rw [entryState_reserved]; simp⟩

/-- A whole usage list, any reachability: the money of every rating group of the subscriber moves by exactly what
    was booked; other subscribers are untouched. -/
theorem creditControl_money_x (a f : Bool) (tariffs : List Rating.Tariff) (supi : Bytes) (trigs : List Nat) (rg : Int)
    (hrg : int32 rg) (us : List Usage) : ∀ (accts : Abmf.Store) (groups : List (Int × RgState)),
    ccOKx a f tariffs supi trigs accts groups us = true →
    moneyOf (if a then (creditControl (if f then tariffs else []) supi trigs (if a then accts else []) groups us).1 else accts)
        (creditControl (if f then tariffs else []) supi trigs (if a then accts else []) groups us).2.1 supi rg =
      (moneyOf accts groups supi rg).map (fun m => m - accountedList a f tariffs supi trigs rg accts groups us) ∧
    (∀ supi' rg', supi' ≠ supi →
      balOf (if a then (creditControl (if f then tariffs else []) supi trigs (if a then accts else []) groups us).1 else accts)
        supi' rg' = balOf accts supi' rg') := by
  induction us with
  | nil =>
    intro accts groups _
    simp only [creditControl, accountedList, Int.sub_zero]
    constructor
    · cases a <;> simp only [Bool.false_eq_true, if_true, if_false] <;> cases moneyOf accts groups supi rg <;> simp
    · intro _ _ _; cases a <;> rfl
  | cons u r ih =>
    intro accts groups hok
    simp only [ccOKx, Bool.and_eq_true] at hok
    obtain ⟨h1, h2⟩ := hok
    obtain ⟨m1, f1, n1⟩ := usageStep_money_x h1 rg hrg
    obtain ⟨m2, f2⟩ := ih _ _ h2
    simp only [creditControl, accountedList]
    cases a with
    | true =>
      simp only [seenEnv, acctsNext, if_true] at m1 f1 m2 f2 ⊢
      constructor
      · rw [m2, m1]
        cases moneyOf accts groups supi rg with
        | none => rfl
        | some m => simp only [Option.map_some, Option.some.injEq]; omega
      · intro supi' rg' hne
        rw [f2 _ _ hne, f1 _ _ hne]
    | false =>
      have hnil := n1 rfl
      simp only [seenEnv, acctsNext, Bool.false_eq_true, if_false] at m1 f1 m2 f2 hnil ⊢
      rw [hnil]
      constructor
      · rw [m2, m1]
        cases moneyOf accts groups supi rg with
        | none => rfl
        | some m => simp only [Option.map_some, Option.some.injEq]; omega
      · intro _ _ _; trivial

/-! ### no overdraft while a server is unreachable -/

/-- One usage with a server unreachable: no account becomes negative (no compliance of the consumer is needed:
    the only account request still made is a reservation, which the server limits to the balance). -/
theorem usageStep_nonneg_x {a f : Bool} {accts : Abmf.Store} {tariffs : List Rating.Tariff} {supi : Bytes}
    {trigs : List Nat} {groups : List (Int × RgState)} {u : Usage}
    (ok : usageOKx a f { accts := accts, tariffs := tariffs } supi trigs groups u = true)
    (hdown : ¬ (a = true ∧ f = true)) (hN : NonNeg accts) :
    NonNeg (acctsNext a f tariffs supi trigs accts groups u) := by
  cases a with
  | false => exact hN
  | true =>
    have hf : f = false := by cases f <;> simp_all
    subst hf
    have hse : seenEnv true false accts tariffs = { accts := accts, tariffs := [] } := rfl
    simp only [acctsNext, hse, if_true]
    unfold usageOKx at ok
    unfold usageStep
    by_cases hon : anyOnline u.cs = true
    · simp only [hon, if_true, not_true_eq_false, if_false, Bool.false_eq_true, Bool.and_false] at ok ⊢
      cases hb : balOf accts supi (u32 u.rg) with
      | none => simp [hb] at ok
      | some b =>
        simp only [hb, Bool.and_eq_true, decide_eq_true_eq, Bool.and_true] at ok
        obtain ⟨⟨⟨⟨hs, hrg32⟩, hmode⟩, hrr⟩, hbr⟩ := ok
        rcases hmode with hm | hm
        · simp only [hm, if_true]
          obtain ⟨b', c1, _, c3, c4⟩ := reserve_rf_down (u := u) (st := entryState trigs groups u) hs hb
            (totalUsed_lt u.cs) hbr (by rw [entryState_reserved]; exact hrr)
          intro supi' rg' v hv
          by_cases hk : supi' = supi ∧ rg' = u32 u.rg
          · rw [hk.1, hk.2, c1] at hv
            cases hv
            exact c3 (hN _ _ _ hb)
          · rw [c4 _ _ hk] at hv
            exact hN _ _ _ hv
        · have h21 : ¬ ((2 : Nat) = 1) := by decide
          simp only [hm, h21, if_false, if_true]
          rw [(debit_rf_down accts supi u (entryState trigs groups u) (totalUsed u.cs)).1]
          exact hN
    · simp only [hon, Bool.false_eq_true, if_false, not_false_eq_true, if_true]
      exact hN

theorem creditControl_nonneg_x (a f : Bool) (tariffs : List Rating.Tariff) (supi : Bytes) (trigs : List Nat)
    (hdown : ¬ (a = true ∧ f = true)) (us : List Usage) : ∀ (accts : Abmf.Store) (groups : List (Int × RgState)),
    ccOKx a f tariffs supi trigs accts groups us = true → NonNeg accts →
    NonNeg (if a then (creditControl (if f then tariffs else []) supi trigs (if a then accts else []) groups us).1
            else accts) := by
  cases a with
  | false => intro _ _ _ hN; exact hN
  | true =>
    induction us with
    | nil => intro accts groups _ hN; exact hN
    | cons u r ih =>
      intro accts groups hok hN
      simp only [ccOKx, Bool.and_eq_true] at hok
      obtain ⟨h1, h2⟩ := hok
      have hN1 := usageStep_nonneg_x h1 hdown hN
      have := ih _ _ h2 hN1
      simp only [seenEnv, acctsNext, if_true] at this ⊢
      simp only [creditControl]
      exact this

end Chf.Charging
