import ChfVerif.Lemmas.BerRoundTrip
/- the reference reader reads back the identifier and length octets the codec writes (towards C04 well-formedness) -/
namespace Chf.X690
open Chf Chf.Ber

theorem readBase256_eq (ds : Bytes) (acc : Nat) : readBase256 ds acc = beValue ds acc := by
  induction ds generalizing acc with
  | nil => rfl
  | cons x r ih => simp [readBase256, beValue, ih]

def step128 (a d : Nat) : Nat := a * 128 + d

theorem readBase128_digits (init : Bytes) (last : Nat) (rest : Bytes)
    (hinit : ∀ d ∈ init, d < 128) (hlast : last < 128) :
    ∀ (acc n : Nat), readBase128 (init.map (· + 128) ++ [last] ++ rest) acc n =
      some ((init ++ [last]).foldl step128 acc, n + init.length + 1) := by
  induction init with
  | nil =>
    intro acc n
    simp only [List.map_nil, List.nil_append, List.singleton_append, readBase128]
    have : ¬ last ≥ 128 := by omega
    simp [this, step128]
  | cons d r ih =>
    intro acc n
    have hd : d < 128 := hinit d (by simp)
    simp only [List.map_cons, List.cons_append, readBase128]
    have h1 : d + 128 ≥ 128 := by omega
    simp only [h1, if_true]
    have := ih (fun x hx => hinit x (by simp [hx])) (acc * 128 + (d + 128 - 128)) (n + 1)
    simp only [List.append_assoc] at this ⊢
    rw [this]
    simp [step128, List.foldl_cons]
    omega

theorem tagDigits_value' (f : Nat) : ∀ t, t < 128 ^ (f + 1) → (tagDigits t f).foldl step128 0 = t := by
  induction f with
  | zero => intro t h; rw [tagDigits_zero]; simp [step128] at h ⊢; omega
  | succ f ih =>
    intro t h
    rw [tagDigits_succ, List.foldl_append]
    simp only [List.foldl_cons, List.foldl_nil]
    by_cases h1 : t > 127
    · simp only [h1, if_true]
      have hq : t / 128 < 128 ^ (f + 1) := by
        rw [Nat.div_lt_iff_lt_mul (by decide)]; rw [Nat.pow_succ] at h; exact h
      rw [ih _ hq]; unfold step128; omega
    · simp only [h1, if_false, List.foldl_nil]; unfold step128; omega

theorem tagDigits_head_ne_zero (f : Nat) : ∀ t, 1 ≤ t → t < 128 ^ (f + 1) → ∃ x r, tagDigits t f = x :: r ∧ x ≠ 0 := by
  induction f with
  | zero => intro t h1 h; rw [tagDigits_zero]; simp at h; exact ⟨t % 128, [], rfl, by omega⟩
  | succ f ih =>
    intro t h1 h
    rw [tagDigits_succ]
    by_cases h2 : t > 127
    · simp only [h2, if_true]
      have hq : t / 128 < 128 ^ (f + 1) := by
        rw [Nat.div_lt_iff_lt_mul (by decide)]; rw [Nat.pow_succ] at h; exact h
      obtain ⟨x, r, e, hx⟩ := ih (t / 128) (by omega) hq
      exact ⟨x, r ++ [t % 128], by rw [e]; rfl, hx⟩
    · simp only [h2, if_false, List.nil_append]; exact ⟨t % 128, [], rfl, by omega⟩

theorem lenDigits_head_ne_zero (f : Nat) : ∀ l, 1 ≤ l → l < 256 ^ (f + 1) → ∃ x r, lenDigits l f = x :: r ∧ x ≠ 0 := by
  induction f with
  | zero => intro l h1 h; rw [lenDigits_zero]; simp at h; exact ⟨l % 256, [], rfl, by omega⟩
  | succ f ih =>
    intro l h1 h
    rw [lenDigits_succ]
    by_cases h2 : l > 255
    · simp only [h2, if_true]
      have hq : l / 256 < 256 ^ (f + 1) := by
        rw [Nat.div_lt_iff_lt_mul (by decide)]; rw [Nat.pow_succ] at h; exact h
      obtain ⟨x, r, e, hx⟩ := ih (l / 256) (by omega) hq
      exact ⟨x, r ++ [l % 256], by rw [e]; rfl, hx⟩
    · simp only [h2, if_false, List.nil_append]; exact ⟨l % 256, [], rfl, by omega⟩



/-- identifier octets after the first: (tag number, identifier octets used, what follows) -/
def readTag (b0 : Nat) (r : Bytes) : Option (Nat × Nat × Bytes) :=
  if b0 % 32 < 31 then some (b0 % 32, 1, r)
  else
    match r with
    | [] => none
    | x :: _ =>
      if x = 128 then none
      else match readBase128 r 0 0 with
        | some (t, n) => if t < 31 then none else some (t, 1 + n, r.drop n)
        | none => none

/-- length octets -/
def readLen (cls : Nat) (cons : Bool) (tag used : Nat) (rest : Bytes) : Option Hdr :=
  match rest with
  | [] => none
  | l0 :: rest' =>
    if l0 < 128 then some ⟨cls, cons, tag, l0, used + 1⟩
    else if l0 = 128 ∨ l0 = 255 then none
    else
      let n := l0 - 128
      if rest'.length < n then none
      else
        let ds := rest'.take n
        if ds.head? = some 0 then none
        else
          let l := readBase256 ds 0
          if l < 128 then none
          else some ⟨cls, cons, tag, l, used + 1 + n⟩

theorem readHeader_eq (b0 : Nat) (r : Bytes) :
    readHeader (b0 :: r) =
      match readTag b0 r with
      | none => none
      | some (tag, used, rest) => readLen (b0 / 64) (decide (b0 / 32 % 2 = 1)) tag used rest := by
  unfold readHeader readTag readLen
  rfl

theorem readLen_lenPart (cls : Nat) (c : Bool) (tag used len : Nat) (rest : Bytes) (hlen : len < 18446744073709551616) :
    readLen cls c tag used (lenPart len ++ rest) = some ⟨cls, c, tag, len, used + (lenPart len).length⟩ := by
  unfold lenPart readLen
  by_cases hs : len ≤ 127
  · simp only [hs, if_true, List.singleton_append]
    have : len < 128 := by omega
    simp [this]
  · simp only [hs, if_false, List.cons_append]
    have hk1 := lenDigits_ne_nil len 8
    have hk8 : (lenDigits len).length ≤ 8 := lenDigits_length_le 8 len 8 (by decide) (by omega)
    have h1 : ¬ (128 + (lenDigits len).length < 128) := by omega
    have h2 : ¬ (128 + (lenDigits len).length = 128 ∨ 128 + (lenDigits len).length = 255) := by omega
    simp only [h1, h2, if_false, Nat.add_sub_cancel_left]
    have h3 : ¬ ((lenDigits len ++ rest).length < (lenDigits len).length) := by simp
    simp only [h3, if_false, List.take_left']
    obtain ⟨x, r, e, hx⟩ := lenDigits_head_ne_zero 8 len (by omega) (by omega)
    have h4 : ¬ ((lenDigits len).head? = some 0) := by
      show ¬ ((lenDigits len 8).head? = some 0)
      rw [e]; simp; exact hx
    simp only [h4, if_false]
    have hv : readBase256 (lenDigits len) 0 = len := by
      rw [readBase256_eq]; exact lenDigits_value 8 len (by omega)
    rw [hv]
    have h5 : ¬ len < 128 := by omega
    simp [h5]; omega

theorem readTag_tagPart (first tag : Nat) (tail : Bytes) (hf3 : first % 32 = 0) (htag : tag < 18446744073709551616) :
    ∃ b0 r, tagPart first tag ++ tail = b0 :: r ∧ b0 / 64 = first / 64 ∧ b0 / 32 % 2 = first / 32 % 2 ∧
      readTag b0 r = some (tag, (tagPart first tag).length, tail) := by
  unfold tagPart
  by_cases h30 : tag ≤ 30
  · simp only [h30, if_true, List.singleton_append]
    refine ⟨first + tag, tail, rfl, by omega, by omega, ?_⟩
    unfold readTag
    have hb : (first + tag) % 32 < 31 := by omega
    have hm : (first + tag) % 32 = tag := by omega
    rw [if_pos hb, hm]; rfl
  · simp only [h30, if_false, List.cons_append]
    refine ⟨first + 31, highTag tag ++ tail, rfl, by omega, by omega, ?_⟩
    unfold readTag
    have hb : ¬ ((first + 31) % 32 < 31) := by omega
    simp only [hb, if_false]
    rw [highTag_eq]
    have hi : ∀ d ∈ (if tag > 127 then tagDigits (tag / 128) 9 else []), d < 128 := by
      intro d hd; split at hd
      · exact tagDigits_lt _ _ d hd
      · simp at hd
    have hrb := readBase128_digits (if tag > 127 then tagDigits (tag / 128) 9 else []) (tag % 128) tail hi (by omega) 0 0
    have hv : ((if tag > 127 then tagDigits (tag / 128) 9 else []) ++ [tag % 128]).foldl step128 0 = tag := by
      rw [← tagDigits_succ]; exact tagDigits_value' 10 tag (by omega)
    rw [hv] at hrb
    -- the first of these octets is not 0x80
    by_cases h127 : tag > 127
    · simp only [h127, if_true] at hrb ⊢
      obtain ⟨x, r, e, hx⟩ := tagDigits_head_ne_zero 9 (tag / 128) (by omega) (by omega)
      rw [e] at hrb ⊢
      simp only [List.map_cons, List.cons_append] at hrb ⊢
      have hne : ¬ (x + 128 = 128) := by omega
      simp only [hne, if_false, hrb]
      have h31 : ¬ tag < 31 := by omega
      simp only [h31, if_false, Nat.zero_add]
      simp [List.length_cons, List.length_map]
      constructor
      · omega
      · have e2 : List.map (fun x => x + 128) r ++ tag % 128 :: tail = (List.map (fun x => x + 128) r ++ [tag % 128]) ++ tail := by simp
        rw [e2]
        exact List.drop_left' (by simp)
    · simp only [h127, if_false, List.map_nil, List.nil_append, List.singleton_append] at hrb ⊢
      have hne : ¬ (tag % 128 = 128) := by omega
      simp only [hne, if_false, hrb]
      have h31 : ¬ tag < 31 := by omega
      simp [h31]

theorem readHeader_header (cls : Nat) (c : Bool) (tag len : Nat) (rest : Bytes)
    (hcls : cls < 4) (htag : tag < 18446744073709551616) (hlen : len < 18446744073709551616) :
    readHeader (header cls c tag len ++ rest) =
      some ⟨cls, c, tag, len, (header cls c tag len).length⟩ := by
  rw [header_split]
  generalize hfirst : cls * 64 + (if c then 32 else 0) = first
  have hf1 : first / 64 = cls := by subst hfirst; split <;> omega
  have hf2 : (first / 32) % 2 = (if c then 1 else 0) := by subst hfirst; split <;> omega
  have hf3 : first % 32 = 0 := by subst hfirst; split <;> omega
  obtain ⟨b0, r, hb, h1, h2, h3⟩ := readTag_tagPart first tag (lenPart len ++ rest) hf3 htag
  rw [List.append_assoc, hb, readHeader_eq, h3]
  simp only
  rw [readLen_lenPart _ _ _ _ _ _ hlen]
  have hc : (decide (b0 / 32 % 2 = 1)) = c := by
    rw [h2, hf2]; cases c <;> simp
  simp [h1, hf1, hc]

end Chf.X690
