import ChfVerif.Lemmas.RecordBer
import ChfVerif.Lemmas.BerStructRT
import ChfVerif.Lemmas.X690WellFormed
import ChfVerif.Spec.BerSpec
/-
  The value OpenCDR / UpdateCDR build is within the domain of the encoder theorems (C04: every integer an int64,
  no BIT STRING) and of the round-trip theorem (C05: canonical for the regenerated type CHFRecord) — for every
  record whose integers are what Go can hold (`RecInt64`).
-/
namespace Chf.RecordBer
open Chf Chf.Ber Chf.Charging Chf.X690

def ContInt64 (c : Container) : Prop := int64 c.total ∧ int64 c.up ∧ int64 c.down ∧ int64 c.ssu ∧ int64 c.lsn

def UsageInt64 (u : RecUsage) : Prop := int64 u.rg ∧ ∀ c ∈ u.cs, ContInt64 c

/-- every integer of the record fits the Go type that holds it (int64 / *int64 members of cdrType.ChargingRecord) -/
def RecInt64 (e : RecEnv) (r : Record) : Prop :=
  int64 e.functionality ∧ int64 r.cid ∧ int64 (r.lsn : Int) ∧ int64 (r.cause : Int) ∧
  (∀ n, r.rsn = some n → int64 (n : Int)) ∧ (∀ u ∈ r.usage, UsageInt64 u) ∧
  (∀ d, e.pdu = some d → int64 d.chargingId ∧ int64 d.sessionId ∧ int64 d.sst)

theorem canon_int64 {i : Int} (h : int64 i) : Canon (.int 64) (.int i) := .int h (by simp [truncInt])

theorem canon_container (c : Container) (h : ContInt64 c) : Canon Gen.T_UsedUnitContainer (containerVal c) := by
  obtain ⟨h1, h2, h3, h4, h5⟩ := h
  unfold Gen.T_UsedUnitContainer containerVal
  simp only [Vals.ofList, nils, List.cons_append, List.nil_append]
  refine .struct (.absent rfl (.absent rfl (.absent rfl (.absent rfl
    (.present (.ptr (.wrap (canon_int64 h1))) (.present (.ptr (.wrap (canon_int64 h2))) (.present (.ptr (.wrap (canon_int64 h3)))
    (.present (.ptr (canon_int64 h4)) (.absent rfl (.present (.ptr (.wrap (canon_int64 h5)))
    (.absent rfl (.absent rfl (.absent rfl (.absent rfl (.absent rfl (.absent rfl .nil))))))))))))))))

theorem canon_containers (cs : List Container) (h : ∀ c ∈ cs, ContInt64 c) :
    CanonList Gen.T_UsedUnitContainer (containerVals cs) := by
  induction cs with
  | nil => exact .nil
  | cons c r ih =>
    exact .cons (canon_container c (h c (by simp))) (ih (fun x hx => h x (by simp [hx])))

theorem canon_usage (u : RecUsage) (h : UsageInt64 u) : Canon Gen.T_MultipleUnitUsage (usageVal u) := by
  unfold Gen.T_MultipleUnitUsage usageVal
  simp only [Vals.ofList]
  exact .struct (.present (.wrap (canon_int64 h.1)) (.present (.slice (canon_containers u.cs h.2))
    (.present (.ptr (.wrap .str)) (.absent rfl .nil))))

theorem canon_usages (us : List RecUsage) (h : ∀ u ∈ us, UsageInt64 u) :
    CanonList Gen.T_MultipleUnitUsage (usageVals us) := by
  induction us with
  | nil => exact .nil
  | cons u r ih => exact .cons (canon_usage u (h u (by simp))) (ih (fun x hx => h x (by simp [hx])))

theorem canon_nat {n : Nat} (h : int64 (n : Int)) : Canon (.int 64) (.int n) := canon_int64 h

/-- builds a `CanonFields` derivation member by member; leaves the `Canon` obligations of the members that are present -/
macro "canon_fields" : tactic =>
  `(tactic| repeat' (first | exact CanonFields.nil | refine CanonFields.absent rfl ?_ | refine CanonFields.present ?_ ?_))

theorem ipTextVal_none (k : Int) : ipTextVal k none = .nil := rfl
theorem fqdnVal_none : fqdnVal none = .nil := rfl
theorem pduVal_none : pduVal none = .nil := rfl
theorem regVal_none : regVal false = .nil := rfl

theorem canon_ip3 (a : Bytes) : Canon (.ptr Gen.T_IPAddress) (ipTextVal 3 (some a)) :=
  .ptr (.choice (v := .str a) (by decide) (.there (.there (.here (.ptr .str)))) rfl rfl)

theorem canon_ip4 (a : Bytes) : Canon (.ptr Gen.T_IPAddress) (ipTextVal 4 (some a)) :=
  .ptr (.choice (v := .str a) (by decide) (.there (.there (.there (.here (.ptr .str))))) rfl rfl)

theorem canon_fqdn (a : Bytes) : Canon (.ptr Gen.T_NodeAddress) (fqdnVal (some a)) :=
  .ptr (.choice (v := .str a) (by decide) (.there (.here (.ptr .str))) rfl rfl)

theorem canon_nfi (e : RecEnv) (r : Record) (hf : int64 e.functionality) :
    Canon Gen.T_NetworkFunctionInformation (nfiVal e r) := by
  unfold Gen.T_NetworkFunctionInformation nfiVal
  cases r.nf <;> cases hv4 : e.v4 <;> cases e.plmn <;> cases hv6 : e.v6 <;> cases hfq : e.fqdn <;>
  · simp only [Vals.ofList, optStr, optBytes, ipTextVal_none, fqdnVal_none]
    refine .struct ?_
    canon_fields
    all_goals first
      | exact .wrap (.enum hf)
      | exact .ptr (.wrap .str)
      | exact .ptr (.wrap .octets)
      | exact canon_ip3 _
      | exact canon_ip4 _
      | exact canon_fqdn _

theorem canon_pdu (d : Pdu) (h : int64 d.chargingId ∧ int64 d.sessionId ∧ int64 d.sst) :
    Canon (.ptr Gen.T_PDUSessionChargingInformation) (pduVal (some d)) := by
  unfold Gen.T_PDUSessionChargingInformation pduVal
  simp only [Vals.ofList, nils, List.cons_append, List.nil_append]
  refine .ptr (.struct ?_)
  canon_fields
  · exact .wrap (canon_int64 h.1)
  · exact .wrap (canon_int64 h.2.1)
  · unfold Gen.T_SingleNSSAI
    exact .ptr (.struct (.present (.wrap (canon_int64 h.2.2)) (.present (.ptr (.wrap .octets)) .nil)))
  · exact .ptr (.wrap .str)

theorem canon_reg : Canon (.ptr Gen.T_RegistrationChargingInformation) (regVal true) := by
  unfold Gen.T_RegistrationChargingInformation regVal
  simp only [if_true, Vals.ofList, nils, List.cons_append, List.nil_append]
  refine .ptr (.struct ?_)
  canon_fields
  exact .wrap (.enum ⟨by decide, by decide⟩)

/-- an OPTIONAL member that is either absent or canonical -/
theorem canonFields_opt {p : Params} {t : Ty} {r : Fields} {v : Val} {vs : Vals} (ho : p.optional = true)
    (h : v = .nil ∨ Canon t v) (hr : CanonFields r vs) : CanonFields (.cons p t r) (.cons v vs) := by
  rcases h with rfl | h
  · exact .absent ho hr
  · exact .present h hr

theorem canon_record (e : RecEnv) (r : Record) (h : RecInt64 e r) : Canon Gen.T_CHFRecord (recordVal e r) := by
  obtain ⟨hf, hcid, hlsn, hcause, hrsn, hus, hpdu⟩ := h
  have hN := canon_nfi e r hf
  have h200 : int64 200 := ⟨by decide, by decide⟩
  have h1 : int64 1 := ⟨by decide, by decide⟩
  have h0 : int64 0 := ⟨by decide, by decide⟩
  have o5 : usageListVal e.emptyList r.usage = .nil ∨ Canon (.slice Gen.T_MultipleUnitUsage) (usageListVal e.emptyList r.usage) := by
    have hU := canon_usages r.usage hus
    cases hu : r.usage with
    | nil => cases e.emptyList <;> simp [usageListVal]; exact .slice .nil
    | cons u us => rw [hu] at hU; exact Or.inr (.slice hU)
  have o8 : rsnVal r.rsn = .nil ∨ Canon (.ptr (.int 64)) (rsnVal r.rsn) := by
    cases hr : r.rsn with
    | none => exact Or.inl rfl
    | some n => exact Or.inr (.ptr (canon_nat (hrsn n hr)))
  have o13 : pduVal e.pdu = .nil ∨ Canon (.ptr Gen.T_PDUSessionChargingInformation) (pduVal e.pdu) := by
    cases hp : e.pdu with
    | none => exact Or.inl rfl
    | some d => exact Or.inr (canon_pdu d (hpdu d hp))
  have o16 : optBytes r.sid = .nil ∨ Canon (.ptr Gen.T_ChargingSessionIdentifier) (optBytes r.sid) := by
    cases r.sid with
    | none => exact Or.inl rfl
    | some b => exact Or.inr (.ptr (.wrap .octets))
  have o17 : optBytes e.svcSpec = .nil ∨ Canon (.ptr .octets) (optBytes e.svcSpec) := by
    cases e.svcSpec with
    | none => exact Or.inl rfl
    | some b => exact Or.inr (.ptr .octets)
  have o19 : regVal e.registration = .nil ∨ Canon (.ptr Gen.T_RegistrationChargingInformation) (regVal e.registration) := by
    cases e.registration with
    | false => exact Or.inl rfl
    | true => exact Or.inr canon_reg
  unfold recordVal Gen.T_CHFRecord
  refine .choice (v := chargingRecordVal e r) (by decide) (.here (.ptr ?_)) rfl rfl
  unfold chargingRecordVal Gen.T_ChargingRecord
  simp only [Vals.ofList, nils, List.cons_append, List.nil_append]
  generalize usageListVal e.emptyList r.usage = v5 at *
  generalize rsnVal r.rsn = v8 at *
  generalize pduVal e.pdu = v13 at *
  generalize optBytes r.sid = v16 at *
  generalize optBytes e.svcSpec = v17 at *
  generalize regVal e.registration = v19 at *
  refine .struct ?_
  repeat' (first
    | exact CanonFields.nil
    | refine CanonFields.absent rfl ?_
    | refine canonFields_opt rfl (by assumption) ?_
    | refine CanonFields.present ?_ ?_)
  all_goals first
    | exact hN
    | exact .wrap (canon_int64 h200)
    | exact .wrap (canon_int64 h0)
    | exact .wrap .str
    | exact .wrap .octets
    | exact .ptr (.struct (.present (.wrap (.enum h1)) (.present .str .nil)))
    | exact .wrap (canon_nat hcause)
    | exact .ptr (.wrap (canon_nat hlsn))
    | exact .ptr (.wrap (canon_int64 hcid))

/-! ### the domain of the encoder theorems (C04) -/

theorem valOK_containers (cs : List Container) (h : ∀ c ∈ cs, ContInt64 c) : valsOK (containerVals cs) = true := by
  induction cs with
  | nil => simp [containerVals, valsOK]
  | cons c r ih =>
    obtain ⟨h1, h2, h3, h4, h5⟩ := h c (by simp)
    unfold int64 at h1 h2 h3 h4 h5
    simp [containerVals, containerVal, valsOK, valOK, Vals.ofList, nils, ih (fun x hx => h x (by simp [hx])), h1, h2, h3, h4, h5]

theorem valOK_usages (us : List RecUsage) (h : ∀ u ∈ us, UsageInt64 u) : valsOK (usageVals us) = true := by
  induction us with
  | nil => simp [usageVals, valsOK]
  | cons u r ih =>
    obtain ⟨h1, h2⟩ := h u (by simp)
    unfold int64 at h1
    simp [usageVals, usageVal, valsOK, valOK, Vals.ofList, ih (fun x hx => h x (by simp [hx])), h1, valOK_containers u.cs h2]

theorem valOK_record (e : RecEnv) (r : Record) (h : RecInt64 e r) : valOK (recordVal e r) = true := by
  obtain ⟨hf, hcid, hlsn, hcause, hrsn, hus, hpdu⟩ := h
  have hU := valOK_usages r.usage hus
  unfold int64 at hf hcid hlsn hcause
  have h5 : valOK (usageListVal e.emptyList r.usage) = true := by
    cases hu : r.usage with
    | nil => cases e.emptyList <;> simp [usageListVal, valOK, valsOK]
    | cons u us => rw [hu] at hU; simp [usageListVal, valOK, hU]
  have h16 : valOK (optBytes r.sid) = true := by cases r.sid <;> simp [optBytes, valOK]
  have h17 : valOK (optBytes e.svcSpec) = true := by cases e.svcSpec <;> simp [optBytes, valOK]
  have h3 : valOK (nfiVal e r) = true := by
    unfold nfiVal
    cases r.nf <;> cases e.v4 <;> cases e.plmn <;> cases e.v6 <;> cases e.fqdn <;>
    simp [valOK, valsOK, Vals.ofList, nils, optStr, optBytes, ipTextVal, fqdnVal, hf]
  have h13 : valOK (pduVal e.pdu) = true := by
    cases hp : e.pdu with
    | none => simp [pduVal, valOK]
    | some d =>
      obtain ⟨a1, a2, a3⟩ := hpdu d hp
      unfold int64 at a1 a2 a3
      simp [pduVal, valOK, valsOK, Vals.ofList, nils, a1, a2, a3]
  have h19 : valOK (regVal e.registration) = true := by
    cases e.registration <;> simp [regVal, valOK, valsOK, Vals.ofList, nils]
  cases hr : r.rsn with
  | none => simp [recordVal, chargingRecordVal, rsnVal, valOK, valsOK, Vals.ofList, nils, hcid, hlsn, hcause, h5, h16, h3, h13, h17, h19, hr]
  | some n =>
    have h8 := hrsn n hr
    unfold int64 at h8
    simp [recordVal, chargingRecordVal, rsnVal, valOK, valsOK, Vals.ofList, nils, hcid, hlsn, hcause, h5, h16, h3, h13, h17, h19, hr, h8]

theorem bitsOK_containers (cs : List Container) : bitsOKs (containerVals cs) = true := by
  induction cs with
  | nil => simp [containerVals, bitsOKs]
  | cons c r ih => simp [containerVals, containerVal, bitsOKs, bitsOK, Vals.ofList, nils, ih]

theorem bitsOK_usages (us : List RecUsage) : bitsOKs (usageVals us) = true := by
  induction us with
  | nil => simp [usageVals, bitsOKs]
  | cons u r ih => simp [usageVals, usageVal, bitsOKs, bitsOK, Vals.ofList, ih, bitsOK_containers]

theorem bitsOK_record (e : RecEnv) (r : Record) : bitsOK (recordVal e r) = true := by
  have h5 : bitsOK (usageListVal e.emptyList r.usage) = true := by
    cases hu : r.usage with
    | nil => cases e.emptyList <;> simp [usageListVal, bitsOK, bitsOKs]
    | cons u us => simp [usageListVal, bitsOK, bitsOK_usages]
  have h16 : bitsOK (optBytes r.sid) = true := by cases r.sid <;> simp [optBytes, bitsOK]
  have h17 : bitsOK (optBytes e.svcSpec) = true := by cases e.svcSpec <;> simp [optBytes, bitsOK]
  have h3 : bitsOK (nfiVal e r) = true := by
    unfold nfiVal
    cases r.nf <;> cases e.v4 <;> cases e.plmn <;> cases e.v6 <;> cases e.fqdn <;>
    simp [bitsOK, bitsOKs, Vals.ofList, nils, optStr, optBytes, ipTextVal, fqdnVal]
  have h13 : bitsOK (pduVal e.pdu) = true := by
    cases e.pdu <;> simp [pduVal, bitsOK, bitsOKs, Vals.ofList, nils]
  have h19 : bitsOK (regVal e.registration) = true := by
    cases e.registration <;> simp [regVal, bitsOK, bitsOKs, Vals.ofList, nils]
  cases hr : r.rsn <;> simp [recordVal, chargingRecordVal, rsnVal, bitsOK, bitsOKs, Vals.ofList, nils, h5, h16, h3, h13, h17, h19, hr]

end Chf.RecordBer

namespace Chf.RecordBer
open Chf Chf.Ber Chf.Charging

/-! ### every octet written is an octet (the file model works on `Nat` lists) -/

theorem ok_append {a b : Bytes} (ha : Bytes.ok a) (hb : Bytes.ok b) : Bytes.ok (a ++ b) := by
  intro x hx
  rcases List.mem_append.mp hx with h | h
  · exact ha x h
  · exact hb x h

theorem ok_nil : Bytes.ok [] := by intro x hx; cases hx

theorem lenDigits_ok (n f : Nat) : Bytes.ok (lenDigits n f) ∧ (lenDigits n f).length ≤ f + 1 := by
  induction f generalizing n with
  | zero =>
    unfold lenDigits
    exact ⟨by intro x hx; simp at hx; omega, by simp⟩
  | succ f ih =>
    unfold lenDigits
    split
    · obtain ⟨h1, h2⟩ := ih (n / 256)
      refine ⟨ok_append h1 (by intro x hx; simp at hx; omega), ?_⟩
      simp only [List.length_append, List.length_cons, List.length_nil]; omega
    · exact ⟨by intro x hx; simp at hx; omega, by simp⟩

theorem intOctets_ok (i : Int) (n : Nat) : Bytes.ok (intOctets i n) := by
  induction n generalizing i with
  | zero => exact ok_nil
  | succ n ih =>
    unfold intOctets
    exact ok_append (ih _) (by intro x hx; simp at hx; omega)

theorem intBytes_ok (i : Int) : Bytes.ok (intBytes i) := intOctets_ok _ _

theorem header_ok_low (cls : Nat) (c : Bool) (tag n : Nat) (hc : cls ≤ 3) (ht : tag ≤ 30) : Bytes.ok (header cls c tag n) := by
  unfold header
  simp only [ht, if_true]
  have hd := lenDigits_ok n 8
  apply ok_append
  · intro x hx; simp at hx; subst hx; split <;> omega
  · split
    · intro x hx; simp at hx; omega
    · intro x hx
      rcases List.mem_cons.mp hx with h | h
      · have := hd.2; omega
      · exact hd.1 x h

theorem header_ok_200 (n : Nat) : Bytes.ok (header 2 true 200 n) := by
  unfold header
  have h200 : highTag 200 = [129, 72] := by decide
  simp only [show ¬ (200 ≤ 30) by decide, if_false, h200]
  have hd := lenDigits_ok n 8
  apply ok_append
  · intro x hx; simp at hx; omega
  · split
    · intro x hx; simp at hx; omega
    · intro x hx
      rcases List.mem_cons.mp hx with h | h
      · have := hd.2; omega
      · exact hd.1 x h

theorem tlv_ok_low (cls : Nat) (c : Bool) (tag : Nat) (content : Bytes) (hc : cls ≤ 3) (ht : tag ≤ 30)
    (h : Bytes.ok content) : Bytes.ok (tlv cls c tag content) :=
  ok_append (header_ok_low cls c tag _ hc ht) h

theorem intF_ok (k : Nat) (i : Int) (hk : k ≤ 30) : Bytes.ok (intF k i) :=
  tlv_ok_low 2 false k _ (by decide) hk (intBytes_ok i)

theorem contsEnc_ok (cs : List Container) : Bytes.ok (contsEnc cs) := by
  induction cs with
  | nil => exact ok_nil
  | cons c r ih =>
    refine ok_append (tlv_ok_low 0 true 16 _ (by decide) (by decide) ?_) ih
    exact ok_append (intF_ok 4 _ (by decide)) (ok_append (intF_ok 5 _ (by decide)) (ok_append (intF_ok 6 _ (by decide))
      (ok_append (intF_ok 7 _ (by decide)) (ok_append (intF_ok 9 _ (by decide)) ok_nil))))

theorem usagesEnc_ok (us : List RecUsage) (h : ∀ u ∈ us, Bytes.ok u.upf) : Bytes.ok (usagesEnc us) := by
  induction us with
  | nil => exact ok_nil
  | cons u r ih =>
    refine ok_append (tlv_ok_low 0 true 16 _ (by decide) (by decide) ?_) (ih (fun x hx => h x (by simp [hx])))
    exact ok_append (intF_ok 0 _ (by decide)) (ok_append (tlv_ok_low 2 true 1 _ (by decide) (by decide) (contsEnc_ok _))
      (ok_append (tlv_ok_low 2 false 2 _ (by decide) (by decide) (h u (by simp))) ok_nil))

/-- the strings of the record are octet strings -/
def RecOctets (e : RecEnv) (r : Record) : Prop :=
  Bytes.ok e.nfId ∧ Bytes.ok e.openTime ∧ Bytes.ok r.subData ∧ (∀ b, r.nf = some b → Bytes.ok b) ∧
  (∀ b, r.sid = some b → Bytes.ok b) ∧ (∀ u ∈ r.usage, Bytes.ok u.upf) ∧
  (∀ b, e.v4 = some b → Bytes.ok b) ∧ (∀ b, e.plmn = some b → Bytes.ok b) ∧ (∀ b, e.v6 = some b → Bytes.ok b) ∧
  (∀ b, e.fqdn = some b → Bytes.ok b) ∧ (∀ b, e.svcSpec = some b → Bytes.ok b) ∧
  (∀ d, e.pdu = some d → Bytes.ok d.sd ∧ Bytes.ok d.dnn)

theorem optF_ok (k : Nat) (o : Option Bytes) (hk : k ≤ 30) (h : ∀ b, o = some b → Bytes.ok b) : Bytes.ok (optF 2 k o) := by
  cases o with
  | none => exact ok_nil
  | some b => exact tlv_ok_low 2 false k _ (by decide) hk (h b rfl)

theorem ipEnc_ok (k j : Nat) (o : Option Bytes) (hk : k ≤ 30) (hj : j ≤ 30) (h : ∀ b, o = some b → Bytes.ok b) :
    Bytes.ok (ipEnc k j o) := by
  cases o with
  | none => exact ok_nil
  | some b => exact tlv_ok_low 2 true k _ (by decide) hk (tlv_ok_low 2 false j _ (by decide) hj (h b rfl))

theorem recordEnc_ok (e : RecEnv) (r : Record) (h : RecOctets e r) : Bytes.ok (recordEnc e r) := by
  obtain ⟨h1, h2, h3, h4, h5, h6, h7, h8, h9, h10, h11, h12⟩ := h
  unfold recordEnc tlv
  refine ok_append (header_ok_200 _) ?_
  unfold recordContent
  have hl : Bytes.ok (usageListEnc e.emptyList r.usage) := by
    cases hu : r.usage with
    | nil =>
      simp only [usageListEnc]
      split
      · exact tlv_ok_low 2 true 5 _ (by decide) (by decide) ok_nil
      · exact ok_nil
    | cons u us => rw [hu] at h6; exact tlv_ok_low 2 true 5 _ (by decide) (by decide) (usagesEnc_ok _ h6)
  have hrsn : Bytes.ok (match r.rsn with | some n => intF 8 n | none => []) := by
    cases r.rsn with
    | none => exact ok_nil
    | some n => exact intF_ok 8 _ (by decide)
  have hnfi : Bytes.ok (nfiEnc e r) :=
    tlv_ok_low 2 true 3 _ (by decide) (by decide)
      (ok_append (tlv_ok_low 2 false 0 _ (by decide) (by decide) (intBytes_ok _)) (ok_append (optF_ok 1 _ (by decide) h4)
      (ok_append (ipEnc_ok 2 2 _ (by decide) (by decide) h7) (ok_append (optF_ok 3 _ (by decide) h8)
      (ok_append (ipEnc_ok 4 3 _ (by decide) (by decide) h9) (ok_append (ipEnc_ok 5 1 _ (by decide) (by decide) h10) ok_nil))))))
  have hpdu : Bytes.ok (pduEnc e.pdu) := by
    cases hp : e.pdu with
    | none => exact ok_nil
    | some d =>
      obtain ⟨a1, a2⟩ := h12 d hp
      exact tlv_ok_low 2 true 13 _ (by decide) (by decide)
        (ok_append (intF_ok 0 _ (by decide)) (ok_append (intF_ok 6 _ (by decide))
        (ok_append (tlv_ok_low 2 true 7 _ (by decide) (by decide)
          (ok_append (intF_ok 0 _ (by decide)) (ok_append (tlv_ok_low 2 false 1 _ (by decide) (by decide) a1) ok_nil)))
        (ok_append (tlv_ok_low 2 false 13 _ (by decide) (by decide) a2) ok_nil))))
  have hreg : Bytes.ok (regEnc e.registration) := by
    unfold regEnc
    split
    · exact tlv_ok_low 2 true 19 _ (by decide) (by decide)
        (ok_append (tlv_ok_low 2 false 0 _ (by decide) (by decide) (intBytes_ok _)) ok_nil)
    · exact ok_nil
  exact ok_append (intF_ok 0 _ (by decide)) (ok_append (tlv_ok_low 2 false 1 _ (by decide) (by decide) h1)
    (ok_append (tlv_ok_low 2 true 2 _ (by decide) (by decide)
      (ok_append (tlv_ok_low 2 false 0 _ (by decide) (by decide) (intBytes_ok _)) (ok_append (tlv_ok_low 2 false 1 _ (by decide) (by decide) h3) ok_nil)))
    (ok_append hnfi
    (ok_append hl (ok_append (tlv_ok_low 2 false 6 _ (by decide) (by decide) h2) (ok_append (intF_ok 7 _ (by decide))
    (ok_append hrsn (ok_append (intF_ok 9 _ (by decide)) (ok_append (intF_ok 11 _ (by decide))
    (ok_append hpdu (ok_append (optF_ok 16 _ (by decide) h5) (ok_append (optF_ok 17 _ (by decide) h11)
    (ok_append hreg (ok_append (intF_ok 27 _ (by decide)) ok_nil))))))))))))))

end Chf.RecordBer
